#!/usr/bin/env python3
"""eval_all.py [ids...]: run tools/eval_mutant.py for every /verif/seeded/<id>/ (or the given ids) and record the verdict in meta.json"""
import json, os, subprocess, sys, concurrent.futures as cf
S = "/verif/seeded"
ids = sys.argv[1:] or sorted(d for d in os.listdir(S) if os.path.isdir(os.path.join(S, d)))
def run(i):
    d = os.path.join(S, i)
    meta = json.load(open(os.path.join(d, "meta.json")))
    prop = meta["property"]
    out = subprocess.run(["python3", "/verif/tools/eval_mutant.py", prop, os.path.join(d, "patch.diff")], stdout=subprocess.PIPE, stderr=subprocess.STDOUT).stdout.decode()
    lines = [l for l in out.splitlines() if not l.startswith("WARNING")]
    verdict = lines[0].split()[0] if lines else "?"
    detail = [l.strip() for l in lines[1:]]
    return i, verdict, detail
# parallel: every run writes its build / evidence output into its own scratch tree
def done(res):
    i, v, det = res
    d = os.path.join(S, i)
    meta = json.load(open(os.path.join(d, "meta.json")))
    cr = meta.setdefault("check_result", {})
    cr["verdict"] = v
    cr["lines"] = det[:6]
    cr["command"] = "tools/eval_mutant.py %s seeded/%s/patch.diff" % (meta["property"], i)
    json.dump(meta, open(os.path.join(d, "meta.json"), "w"), indent=1)
    print(i, v, (det[0][:200] if det else ""), flush=True)
with cf.ThreadPoolExecutor(max_workers=int(os.environ.get("EVAL_JOBS", "3"))) as ex:
    for res in ex.map(run, ids):
        done(res)
