#!/usr/bin/env python3
"""regenerates the seeded-change and benign-change tables of DESIGN.md from seeded/*/meta.json and benign/*/meta.json"""
import json, os, re
V = "/verif"
def seeded():
    rows = ["| change | what it does | verdict | failing obligation (first) |", "|---|---|---|---|"]
    S = os.path.join(V, "seeded")
    cnt = {}
    for i in sorted(d for d in os.listdir(S) if os.path.isdir(os.path.join(S, d))):
        m = json.load(open(os.path.join(S, i, "meta.json")))
        cr = m.get("check_result", {})
        ob = ""
        for l in cr.get("lines", []):
            if "obligation=" in l:
                ob = l.split("obligation=")[1].split(" ")[0][:80]; break
            if l.startswith("UNDECIDED"):
                ob = re.sub(r"\s+", " ", l.split(":", 1)[-1])[:100]; break
        v = cr.get("verdict", "?")
        cnt[v] = cnt.get(v, 0) + 1
        rows.append("| %s | %s | %s | `%s` |" % (i, m.get("summary", "")[:170].replace("|", "/").replace("\n", " "), v, ob.replace("|", "/").replace("`", "'")))
    rows.append("")
    rows.append("Totals: " + ", ".join("%s %d" % kv for kv in sorted(cnt.items())) + " of %d." % sum(cnt.values()))
    return "\n".join(rows)
def benign():
    rows = ["| edit | file :: function | kind | verdicts |", "|---|---|---|---|"]
    B = os.path.join(V, "benign")
    for i in sorted(os.listdir(B)):
        m = json.load(open(os.path.join(B, i, "meta.json")))
        cr = m.get("check_result", {})
        rows.append("| %s | %s :: %s | %s | %s |" % (i, m.get("file"), m.get("function"), m.get("kind", "")[:60], " ".join("%s=%s" % (p, r["verdict"]) for p, r in sorted(cr.items()))))
    return "\n".join(rows)
def props():
    import sys
    sys.path.insert(0, V)
    import specs
    rows = ["| id | units | functions under contract | obligations discharged | solver s | what the contracts state (MANIFEST level text) |", "|---|---|---|---|---|---|"]
    for pid in sorted(specs.PROPERTIES):
        ev = {}
        try:
            ev = json.load(open(os.path.join(V, "evidence", pid + ".json")))
        except Exception:
            pass
        c = ev.get("coverage", {})
        m = re.search(r"units: ([^;]*);", c.get("checker_cmd", ""))
        rows.append("| %s | %s | %s | %s/%s | %s | %s |" % (pid, (m.group(1) if m else "").replace(",", ", "), len(c.get("functions_under_contract", [])), c.get("discharged", "?"), c.get("obligations", "?"),
                                                      c.get("solver_s", "?"), specs.PROPERTIES[pid]["scope"].replace("|", "/")))
    for pid, why in sorted(specs.NOT_APPLICABLE.items()):
        rows.append("| %s | — | — | — | — | not applicable: %s |" % (pid, why.replace("|", "/")))
    return "\n".join(rows)
p = os.path.join(V, "DESIGN.md")
s = open(p).read()
for name, fn in (("SEEDED_TABLE", seeded), ("BENIGN_TABLE", benign), ("PROPERTY_TABLE", props)):
    b, e = "<!-- %s_BEGIN -->" % name, "<!-- %s_END -->" % name
    if name in s and b not in s:
        s = s.replace(name, b + "\n" + e, 1)
    if b in s:
        s = s[:s.index(b) + len(b)] + "\n" + fn() + "\n" + s[s.index(e):]
try:
    rv = json.load(open(os.path.join(V, "reverts.json")))
    cnt = {}
    for r in rv:
        cnt[r["verdict"]] = cnt.get(r["verdict"], 0) + 1
    summ = ", ".join("%s %d" % kv for kv in sorted(cnt.items())) + " of %d" % len(rv)
    s = re.sub(r"(`reverts.json`\): )(REVERTS_SUMMARY|[A-Z-]+ \d+[^.]*?of \d+)", lambda m: m.group(1) + summ, s)
except Exception as e:
    pass
try:
    import glob, collections
    parts = []
    for f in sorted(glob.glob(os.path.join(V, "notes", "mutscore*.json"))):
        rs = json.load(open(f))
        c = collections.Counter((r["verdict"], r.get("tests")) for r in rs)
        parts.append("%s: %d mutants, %d killed, %d survived and pass the tests, %d survived but fail the tests, %d undecided" % (
            os.path.basename(f), len(rs), c[("KILLED", None)], c[("SURVIVED", "pass")], c[("SURVIVED", "fail")], sum(v for k, v in c.items() if k[0] == "UNDECIDED")))
    if parts:
        s = re.sub(r"(over all units\): )(MUTSCORE_SUMMARY|[^.]*?undecided(?:; [^.]*?undecided)*)", lambda m: m.group(1) + "; ".join(parts), s)
except Exception as e:
    print("mutscore summary failed", e)
open(p, "w").write(s)
print("tables regenerated")
