#!/usr/bin/env python3
"""confirm_mutant.py <worktree> <mutant dir>  — in the scratch worktree: (1) suite passes with the change, (2) the demo fails with the
change, (3) the demo passes without it.  The mutant dir holds patch.diff, demo.rs | demo.diff, meta.json."""
import subprocess, sys, os, json, shutil
wt, md = sys.argv[1], os.path.abspath(sys.argv[2])
meta = json.load(open(os.path.join(md, "meta.json")))
def sh(cmd, **kw):
    return subprocess.run(cmd, shell=True, cwd=wt, stdout=subprocess.PIPE, stderr=subprocess.STDOUT, **kw)
def clean():
    sh("git checkout -- . && git clean -fdq -e out && rm -f tests/verif_demo.rs")
gui = "mstsc-rs" in json.dumps(meta)
def demo_cmd():
    if os.path.exists(os.path.join(md, "demo.rs")):
        os.makedirs(os.path.join(wt, "tests"), exist_ok=True)
        shutil.copy(os.path.join(md, "demo.rs"), os.path.join(wt, "tests", "verif_demo.rs"))
        return "cargo test --offline --test verif_demo 2>&1 | tail -15"
    r = sh("git apply %s" % os.path.join(md, "demo.diff"))
    if r.returncode != 0:
        print("demo.diff does not apply:", r.stdout.decode()[:300])
    if gui:
        return "cargo test --offline --features mstsc-rs --bin mstsc-rs 2>&1 | tail -15"
    return "cargo test --offline --lib 2>&1 | tail -15"
clean()
res = {}
# (3) demo without the change
out = sh(demo_cmd()).stdout.decode()
res["demo_passes_without_change"] = ("test result: ok" in out) and ("FAILED" not in out)
clean()
# (1) suite with the change
r = sh("git apply %s" % os.path.join(md, "patch.diff"))
if r.returncode != 0:
    print("patch does not apply", r.stdout.decode()[:300]); clean(); sys.exit(2)
out = sh("cargo test --lib --offline 2>&1 | tail -5").stdout.decode()
res["suite_passes_with_change"] = "test result: ok. 39 passed" in out
# (2) demo with the change
out = sh(demo_cmd()).stdout.decode()
res["demo_fails_with_change"] = ("FAILED" in out) or ("panicked" in out) or ("error: test failed" in out)
clean()
print(json.dumps(res))
sys.exit(0 if all(res.values()) else 1)
