#!/bin/sh
# try_mutant.sh <seeded id> <unit> [fn filter]: vx.dev of one unit on a scratch copy of /repo with the seeded change applied
id=$1; unit=$2; shift 2
d=/var/tmp/rdp-try.$$
rm -rf $d; rsync -a --exclude target --exclude .git /repo/ $d/; (cd $d && git init -q && git apply /verif/seeded/$id/patch.diff) || exit 3
cd /verif && VERIF_REPO=$d VERIF_BUILD_DIR=$d/.b python3 -m vx.dev $unit "$@" 2>&1 | grep -v "^WARNING\|^canaries\|^slowest"
rm -rf $d
