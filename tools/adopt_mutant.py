#!/usr/bin/env python3
"""adopt_mutant.py <Cxx>: for /tmp/mut-<Cxx>/out/m1, m2: confirm in the scratch worktree (tools/confirm_mutant.py), copy into
/verif/seeded/<Cxx>-m<i>/ with the confirmation recorded.  Does not evaluate (tools/eval_all.py does)."""
import json, os, shutil, subprocess, sys
p = sys.argv[1]
wt = sys.argv[sys.argv.index("--wt") + 1] if "--wt" in sys.argv else "/tmp/mut-%s" % p
off = int(sys.argv[sys.argv.index("--offset") + 1]) if "--offset" in sys.argv else 0
for i in (1, 2, 3):
    md = os.path.join(wt, "out", "m%d" % i)
    if not os.path.isdir(md):
        continue
    r = subprocess.run(["python3", "/verif/tools/confirm_mutant.py", wt, md], stdout=subprocess.PIPE, stderr=subprocess.STDOUT)
    out = r.stdout.decode().strip().splitlines()
    res = {}
    for l in out:
        if l.startswith("{"):
            res = json.loads(l)
    ok = r.returncode == 0
    print(p, "m%d" % i, "confirmed" if ok else "NOT CONFIRMED", res or out[-3:])
    if not ok:
        continue
    dst = "/verif/seeded/%s-m%d" % (p, i + off)
    shutil.rmtree(dst, ignore_errors=True)
    os.makedirs(dst)
    for f in ("patch.diff", "demo.rs", "demo.diff", "meta.json"):
        if os.path.exists(os.path.join(md, f)):
            shutil.copy(os.path.join(md, f), dst)
    meta = json.load(open(os.path.join(dst, "meta.json")))
    meta["confirmed_by_me"] = dict(how="tools/confirm_mutant.py in the scratch worktree %s: (1) demo passes on the unchanged tree, (2) cargo test --lib --offline passes with the change (39 tests), (3) demo fails with the change" % wt, result=True, detail=res)
    json.dump(meta, open(os.path.join(dst, "meta.json"), "w"), indent=1)
