#!/usr/bin/env python3
"""tag_audit.py: for every property P, functions under contract that are called (transitively, by uniquely resolvable name) from a
P-tagged function but are not tagged P themselves.  A review aid: an untagged callee's failing clauses would not be reported under P."""
import sys, re, importlib, collections
sys.path.insert(0, "/verif")
import specs
from vx.extract import Source, FnParts
fns = {}   # (file, name, impl) -> Fn (first occurrence as a verified Fn)
byname = collections.defaultdict(list)
for u in specs.UNITS:
    if u in specs.DEV_UNITS: continue
    m = importlib.import_module("specs." + u)
    for x in m.UNIT.items:
        if x.kind == "fn":
            k = (x.file, x.name, x.impl)
            if k not in fns:
                fns[k] = (u, x)
                byname[x.name].append(k)
def body(k):
    f = fns[k][1]
    try:
        src = Source.get(f.file)
        it = src.find("fn", f.name, f.impl)
        return FnParts(src, it).body_text()
    except Exception as e:
        return ""
COMMON = {"new", "read", "write", "connect", "length", "from", "inner", "shutdown", "visit", "options", "next", "process", "get", "into", "clone", "len", "push"}
calls = {}
for k in fns:
    b = body(k)
    out = set()
    for name, ks in byname.items():
        if name in COMMON and len(ks) > 1:
            # ambiguous common name: resolve only qualified calls  module::name( / Type::name(
            for k2 in ks:
                mod = k2[0].split("/")[-1][:-3]
                if re.search(r"\b%s::(?:\w+::)?%s\s*\(" % (mod, name), b):
                    out.add(k2)
            continue
        if re.search(r"(?<![\w])%s\s*\(" % re.escape(name), b) or re.search(r"[.:]%s\s*(?:::<[^>]*>)?\(" % re.escape(name), b):
            for k2 in ks:
                if k2 != k: out.add(k2)
    calls[k] = out
props = sorted(specs.PROPERTIES)
for P in props:
    seed = [k for k, (u, f) in fns.items() if P in f.props]
    seen = set(seed); todo = list(seed)
    while todo:
        k = todo.pop()
        for k2 in calls[k]:
            if k2 not in seen:
                seen.add(k2); todo.append(k2)
    miss = [k for k in seen if P not in fns[k][1].props]
    if miss:
        print(P, "untagged callees:", ", ".join(sorted("%s::%s" % (k[0].split("/")[-1][:-3], k[1]) for k in miss)))
