#!/bin/sh
# try_benign.sh <benign id> <unit> [fn filter]
id=$1; unit=$2; shift 2
d=/var/tmp/rdp-try.$$
rm -rf $d; rsync -a --exclude target --exclude .git /repo/ $d/; (cd $d && git init -q && git apply /verif/benign/$id/patch.diff) || exit 3
cd /verif && VERIF_REPO=$d VERIF_BUILD_DIR=$d/.b python3 -m vx.dev $unit "$@" 2>&1 | grep -v "^WARNING\|^canaries\|^slowest"
rm -rf $d
