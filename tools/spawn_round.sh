#!/bin/sh
# spawn_round.sh <prefix> <Cxx>...: worktrees + TASK.md for a round of seeded-change agents
pre=$1; shift
/verif/tools/spawn_mutant_wt.sh $pre "$@"
for p in "$@"; do W=/tmp/$pre-$p; cat > $W/out/TASK.md <<EOT
You produce realistic *seeded changes* (deliberate regressions) for a Rust crate, to evaluate a verification effort. Work ONLY inside your scratch git worktree $W (a worktree of the rdp-rs RDP client library). Never touch /repo or /verif; never read anything under /verif. No network: \`cargo ... --offline\` only; use CARGO_TARGET_DIR=$W/target.

The property the crate must satisfy is in $W/out/PROPERTY.txt (JSON: id, title, statement, quantifier, why_tests_cant). Changes that were ALREADY tried are summarised in $W/out/ALREADY_TRIED.txt: yours must be different in kind and in a different function or statement. Read the property, then the code it talks about: follow the WHOLE call chain the property depends on — helper functions, layout builders (component![..] declarations and their closures), constructors, enum discriminants and constants, flag computations, the generic message model in src/model/data.rs, the framing layers below and the callers above. The GUI binary (src/bin/mstsc-rs.rs) needs \`--features mstsc-rs\`.

Produce THREE different, realistic source changes, each of which
 (a) BREAKS the property for some input / configuration / history,
 (b) still compiles and \`cargo test --lib --offline\` still passes all 39 existing tests unchanged,
 (c) is small (1-15 lines), touches only files under src/, is not trivially visible; keep the SAME constructs and statements where possible and change an operand, a constant, a mask, a comparison operator, a field name, an enum variant, an argument order, a condition, the order of two dependent statements, a default value, a width/endianness (U16::LE vs U16::BE, u16 vs u32) — do NOT add new loops, new helper functions or new std APIs,
 (d) the three are in three different functions (prefer helpers / builders / layers that the earlier changes did not touch), covering different clauses of the property statement.
For each i in 1,2,3 write into $W/out/m<i>/ :
 - patch.diff : \`git diff\` of ONLY the source change (applies with \`git apply\` on a clean worktree)
 - demo.rs : a self-contained integration test (copied to tests/verif_demo.rs, run with \`cargo test --offline --test verif_demo\`) that PASSES on the unchanged tree and FAILS with the change, demonstrating the broken property through the crate's public API (crate name \`rdp\`). Only if the demonstration needs private items (or the GUI binary): instead demo.diff, a git diff ADDING a new #[test] to the #[cfg(test)] module of a source file (run with \`cargo test --offline --lib\`, or for src/bin/mstsc-rs.rs \`cargo test --offline --features mstsc-rs --bin mstsc-rs\`; passes without the change, fails with it).
 - meta.json : {"property": "$p", "summary": "...what and why it breaks the property...", "needs_to_manifest": "...", "files_touched": [...], "demo_how_to_run": "...", "demo_fails_with_change": true, "demo_passes_without_change": true, "suite_passes_with_change": true}
Verify (a)-(c) yourself. Leave the worktree CLEAN (git checkout -- . ; rm -rf tests) keeping only out/. Final report: one short paragraph per change.
EOT
done
