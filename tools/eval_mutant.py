#!/usr/bin/env python3
"""eval_mutant.py <property> <patch.diff> [--props C01,C02]  — apply a seeded change to /repo, run the check(s), undo it.
Prints one line per check: DETECTED (exit 1 + VIOLATION), MISSED (exit 0), UNDECIDED (exit 2). Never leaves /repo modified."""
import subprocess, sys, os
prop, patch = sys.argv[1], os.path.abspath(sys.argv[2])
props = [prop]
if "--props" in sys.argv:
    props = sys.argv[sys.argv.index("--props") + 1].split(",")
st = subprocess.run(["git", "-C", "/repo", "status", "--porcelain", "--untracked-files=no"], stdout=subprocess.PIPE).stdout.decode().strip()
if st:
    print("REFUSING: /repo has local modifications:\n" + st); sys.exit(3)
r = subprocess.run(["git", "-C", "/repo", "apply", patch], stdout=subprocess.PIPE, stderr=subprocess.STDOUT)
if r.returncode != 0:
    print("PATCH DOES NOT APPLY:", r.stdout.decode()[:500]); sys.exit(3)
try:
    for p in props:
        c = subprocess.run(["./check", p], cwd="/verif", stdout=subprocess.PIPE, stderr=subprocess.STDOUT)
        out = c.stdout.decode()
        verdict = {0: "MISSED", 1: "DETECTED", 2: "UNDECIDED"}.get(c.returncode, "rc=%d" % c.returncode)
        print("%s %s" % (verdict, p))
        for l in out.splitlines():
            if l.startswith(("VIOLATION", "UNDECIDED", "KNOWN")):
                print("    " + l[:260])
finally:
    subprocess.run(["git", "-C", "/repo", "checkout", "--", "."])
    # evidence files were rewritten by the runs on the mutated tree: restore them from the last commit
    subprocess.run(["git", "-C", "/verif", "checkout", "--", "evidence"], stderr=subprocess.DEVNULL)
