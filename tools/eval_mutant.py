#!/usr/bin/env python3
"""eval_mutant.py <property> <patch.diff> [--props C01,C02] [--in-repo]
Runs the check(s) against the tree with a seeded change applied.  Default: a scratch copy of /repo under /var/tmp (VERIF_REPO points the
extractor at it) so that concurrently running proof work on /repo is not disturbed; --in-repo applies the patch to /repo itself
(git apply ... ./check ... git checkout -- .) as the task statement describes.  Prints DETECTED (exit 1 + VIOLATION), MISSED (exit 0), UNDECIDED (exit 2)."""
import subprocess, sys, os, shutil
prop, patch = sys.argv[1], os.path.abspath(sys.argv[2])
props = [prop]
if "--props" in sys.argv:
    props = sys.argv[sys.argv.index("--props") + 1].split(",")
in_repo = "--in-repo" in sys.argv
env = dict(os.environ)
if in_repo:
    tree = "/repo"
    st = subprocess.run(["git", "-C", "/repo", "status", "--porcelain", "--untracked-files=no"], stdout=subprocess.PIPE).stdout.decode().strip()
    if st:
        print("REFUSING: /repo has local modifications:\n" + st); sys.exit(3)
else:
    tree = "/var/tmp/rdp-eval.%d" % os.getpid()
    shutil.rmtree(tree, ignore_errors=True)
    subprocess.check_call(["rsync", "-a", "--exclude", "target", "--exclude", ".git", "/repo/", tree + "/"])
    subprocess.check_call(["git", "init", "-q"], cwd=tree)
    env["VERIF_REPO"] = tree
    env["VERIF_EVIDENCE_DIR"] = tree + "/.verif/evidence"
    env["VERIF_BUILD_DIR"] = tree + "/.verif/build"
r = subprocess.run(["git", "apply", patch], cwd=tree, stdout=subprocess.PIPE, stderr=subprocess.STDOUT)
if r.returncode != 0:
    print("PATCH DOES NOT APPLY:", r.stdout.decode()[:500])
    if not in_repo: shutil.rmtree(tree, ignore_errors=True)
    sys.exit(3)
try:
    for p in props:
        c = subprocess.run(["./check", p], cwd="/verif", stdout=subprocess.PIPE, stderr=subprocess.STDOUT, env=env)
        out = c.stdout.decode()
        verdict = {0: "MISSED", 1: "DETECTED", 2: "UNDECIDED"}.get(c.returncode, "rc=%d" % c.returncode)
        print("%s %s" % (verdict, p))
        for l in out.splitlines():
            if l.startswith(("VIOLATION", "UNDECIDED", "KNOWN")):
                print("    " + l[:260])
finally:
    if in_repo:
        subprocess.run(["git", "-C", "/repo", "checkout", "--", "."])
    else:
        shutil.rmtree(tree, ignore_errors=True)
    # evidence files were rewritten by the runs on the mutated tree: restore them from the last commit
    pass  # evidence / build output of the mutated run went to the scratch directory (VERIF_EVIDENCE_DIR / VERIF_BUILD_DIR)
