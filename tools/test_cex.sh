#!/bin/sh
# test_cex.sh [baseline|seeded|all]   (default: all)
# Self-test of vx.kani.counterexample_for (harnesses.json "pairs", kani/per_harness.rs).
#   baseline : every paired harness on the UNCHANGED /repo must be SUCCESSFUL (no failing input); prints the times
#   seeded   : each seeded change below is applied to a scratch copy of /repo (VERIF_REPO semantics: the tree under check), then
#              counterexample_for is called for the function the check blames; prints the inputs found and whether the generated
#              native test (plain cargo test, no Kani) fails on them
# Nothing is written outside /var/tmp and the .cache target directories; /repo is never touched. Exit status 1 if a line is not as expected.
cd "$(dirname "$0")/.." || exit 2
MODE="${1:-all}" exec python3 - <<'EOF'
import os, sys, json, shutil, subprocess, time
sys.path.insert(0, os.getcwd())
os.environ.pop("VERIF_REPO", None)
from vx import kani as K

MODE = os.environ.get("MODE", "all")
SEEDED = [  # (seeded change, function blamed by the check, what the change is)
    ("C18-m1", "per::read_length", "read_length masks with 0x3f"),
    ("C05-m4", "per::read_integer_16", "range check > 0x10000"),
    ("C06-m8", "per::read_integer_16", "addition done in u16 (cast placement)"),
    ("C04-m4", "per::write_length", "short form up to 0x80"),
    ("C18-m3", "per::write_octet_stream", "len == minimum writes minimum"),
    ("C18-m7", "per::read_object_identifier", "first two arcs exchanged"),
]
bad = 0

def show(r):
    return json.dumps({k: r.get(k) for k in ("data", "args")}) if r else "-"

if MODE in ("baseline", "all"):
    print("== unchanged /repo: every paired harness must be SUCCESSFUL")
    K.REPO = "/repo"
    K._CEX_MEMO.clear()
    pairs = K.registry().get("pairs", {})
    tot = 0.0
    for q in sorted(pairs):
        r = K.counterexample_for(None, q, {})
        st = r.get("kani_status") or ("ERROR " + str(r.get("error"))[:300])
        tot += r.get("wall_s", 0)
        print("%-32s %-10s %-8s wall=%6.1fs  %s" % (q, pairs[q]["kind"], st, r.get("wall_s", 0), pairs[q]["domain"][:110]))
        if st != "SUCCESSFUL":
            bad += 1
            print("   failed checks: %s  inputs: %s" % (r.get("kani_failed_checks"), show(r.get("inputs"))))
        sys.stdout.flush()
    print("total wall %.0fs" % tot)

if MODE in ("seeded", "all"):
    print("== seeded changes: a failing input must be found by Kani and confirmed natively")
    rows = []
    for mid, q, what in SEEDED:
        patch = os.path.join(K.VERIF, "seeded", mid, "patch.diff")
        tree = "/var/tmp/rdp-cex-selftest.%d.%s" % (os.getpid(), mid)
        shutil.rmtree(tree, ignore_errors=True)
        os.makedirs(tree)
        try:
            subprocess.check_call(["rsync", "-a", "--exclude", "target", "--exclude", ".git", "/repo/", tree + "/"])
            touched = subprocess.run(["patch", "-p1", "-i", patch], cwd=tree, stdout=subprocess.PIPE, stderr=subprocess.STDOUT).stdout.decode()
            if "src/core/per.rs" not in touched:
                print("%s: not a per.rs change (%s), skipped" % (mid, touched.strip().replace("\n", "; ")))
                continue
            K.REPO = tree
            K._CEX_MEMO.clear()
            r = K.counterexample_for(mid.split("-")[0], q, {})
        finally:
            shutil.rmtree(tree, ignore_errors=True)
        ok = bool(r and r.get("confirmed"))
        bad += 0 if ok else 1
        rows.append((mid, q, what, r, ok))
        print("%s %s (%s): kani=%s confirmed=%s wall=%.1fs" % (mid, q, what, r.get("kani_status"), r.get("confirmed"), r.get("wall_s", 0)))
        print("   failed checks : %s" % "; ".join(r.get("kani_failed_checks") or []))
        print("   inputs        : %s" % show(r.get("inputs")))
        print("   real function : %s" % r.get("real_function_returns", "(panicked before returning)" if ok else "-"))
        if r.get("error") or r.get("note"):
            print("   note          : %s" % (r.get("error") or r.get("note")))
        if os.environ.get("VERBOSE") and r.get("replay_test"):
            print(r["replay_test"])
            print(r.get("native_output_tail", ""))
        sys.stdout.flush()
    print()
    print("| seeded change | function | inputs found | real function returns | natively confirmed | wall |")
    print("|---|---|---|---|---|---|")
    for mid, q, what, r, ok in rows:
        print("| %s (%s) | %s | %s | %s | %s | %.0fs |" % (mid, what, q, show(r.get("inputs")), r.get("real_function_returns", "panic" if ok else "-"), "yes" if ok else "NO", r.get("wall_s", 0)))
sys.exit(1 if bad else 0)
EOF
