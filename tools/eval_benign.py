#!/usr/bin/env python3
"""eval_benign.py [ids...]: behaviour-preserving edits (/verif/benign/<id>/patch.diff): every check of a property that touches the edited
code must NOT report a violation (PROVED expected; UNDECIDED = the proof needs re-anchoring, acceptable but counted)."""
import json, os, subprocess, sys, concurrent.futures as cf
B = "/verif/benign"
ids = sys.argv[1:] or sorted(os.listdir(B))
REG = set(c["property_id"] for c in json.load(open("/verif/MANIFEST.json"))["checks"])
def run(i):
    meta = json.load(open(os.path.join(B, i, "meta.json")))
    props = [p for p in meta.get("properties_touching_this_code", []) if p in REG]
    out = subprocess.run(["python3", "/verif/tools/eval_mutant.py", props[0], os.path.join(B, i, "patch.diff"), "--props", ",".join(props)],
                         stdout=subprocess.PIPE, stderr=subprocess.STDOUT).stdout.decode()
    lines = [l for l in out.splitlines() if not l.startswith("WARNING")]
    verdicts = {}
    cur = None
    for l in lines:
        w = l.split()
        if len(w) == 2 and w[0] in ("MISSED", "DETECTED", "UNDECIDED"):
            cur = w[1]; verdicts[cur] = dict(verdict={"MISSED": "PROVED", "DETECTED": "FALSE-ALARM"}.get(w[0], w[0]), lines=[])
        elif cur:
            verdicts[cur]["lines"].append(l.strip()[:300])
    return i, meta, verdicts
with cf.ThreadPoolExecutor(max_workers=3) as ex:
    for i, meta, v in ex.map(run, ids):
        meta["check_result"] = v
        json.dump(meta, open(os.path.join(B, i, "meta.json"), "w"), indent=1)
        print(i, meta["file"], meta["function"], " ".join("%s=%s" % (p, r["verdict"]) for p, r in sorted(v.items())))
        for p, r in sorted(v.items()):
            if r["verdict"] != "PROVED":
                print("     ", p, (r["lines"] or [""])[0][:240])
