#!/bin/sh
# run every registered check (quick tier) sequentially; prints one line per property
cd /verif
for p in $(python3 -c "import json;print(' '.join(c['property_id'] for c in json.load(open('MANIFEST.json'))['checks']))"); do
  ./check $p "$@" 2>&1 | grep -v "^WARNING" | tail -1 | cut -c1-220
done
