#!/bin/sh
# spawn_mutant_wt.sh <prefix> <Cxx>...: scratch worktrees /tmp/<prefix>-<Cxx> with out/PROPERTY.txt and out/ALREADY_TRIED.txt
pre=$1; shift
for p in "$@"; do
  rm -rf /tmp/$pre-$p; git -C /repo worktree add -q --detach /tmp/$pre-$p HEAD && mkdir -p /tmp/$pre-$p/out
  python3 - $pre $p <<'PY'
import json,sys,os
pre,p=sys.argv[1],sys.argv[2]
for l in open('/verif/properties.jsonl'):
    d=json.loads(l)
    if d['id']==p:
        open('/tmp/%s-%s/out/PROPERTY.txt'%(pre,p),'w').write(json.dumps(d,indent=1))
S='/verif/seeded'
with open('/tmp/%s-%s/out/ALREADY_TRIED.txt'%(pre,p),'w') as fh:
    for i in sorted(os.listdir(S)):
        m=json.load(open(os.path.join(S,i,'meta.json')))
        if m.get('property')==p:
            fh.write("- %s: %s\n"%(", ".join(m.get('files_touched',[])), m.get('summary','')[:400]))
PY
done
