#!/usr/bin/env python3
"""eval_reverts.py: every `fixed` entry of known_findings.json must be reported AGAIN when its fix is reverted: the reverse diff of each fix:
commit is applied to a scratch copy of /repo and the property's check must exit 1.  Results -> /verif/reverts.json"""
import json, os, subprocess, shutil, sys, concurrent.futures as cf
K = json.load(open("/verif/known_findings.json"))["entries"]
fixed = [e for e in K if e.get("kind") == "fixed"]
only = sys.argv[1:]
def run(e):
    c, prop = e["commit"], e["property"]
    tree = "/var/tmp/rdp-revert.%s.%d" % (c, os.getpid())
    shutil.rmtree(tree, ignore_errors=True)
    subprocess.check_call(["rsync", "-a", "--exclude", "target", "--exclude", ".git", "/repo/", tree + "/"])
    subprocess.check_call(["git", "init", "-q"], cwd=tree)
    diff = subprocess.run(["git", "-C", "/repo", "diff", c, c + "^", "--", "src"], stdout=subprocess.PIPE).stdout
    r = subprocess.run(["git", "apply", "--3way"], input=diff, cwd=tree, stdout=subprocess.PIPE, stderr=subprocess.STDOUT)
    if r.returncode != 0:
        r = subprocess.run(["git", "apply"], input=diff, cwd=tree, stdout=subprocess.PIPE, stderr=subprocess.STDOUT)
    if r.returncode != 0:
        shutil.rmtree(tree, ignore_errors=True)
        return dict(commit=c, property=prop, verdict="REVERT-DOES-NOT-APPLY", detail=r.stdout.decode()[:200])
    env = dict(os.environ, VERIF_REPO=tree, VERIF_EVIDENCE_DIR=tree + "/.verif/evidence", VERIF_BUILD_DIR=tree + "/.verif/build", VERIF_REPLAY_DIR=tree + "/.verif/replays")
    p = subprocess.run(["./check", prop], cwd="/verif", env=env, stdout=subprocess.PIPE, stderr=subprocess.STDOUT)
    out = [l for l in p.stdout.decode().splitlines() if l.startswith(("VIOLATION", "UNDECIDED"))]
    shutil.rmtree(tree, ignore_errors=True)
    return dict(commit=c, property=prop, verdict={0: "MISSED", 1: "DETECTED", 2: "UNDECIDED"}.get(p.returncode, str(p.returncode)), lines=[l[:220] for l in out[:3]], what=e["line"][:160])
todo = [e for e in fixed if not only or e["commit"] in only]
res = []
with cf.ThreadPoolExecutor(max_workers=3) as ex:
    for r in ex.map(run, todo):
        print(r["commit"], r["property"], r["verdict"], (r.get("lines") or [r.get("detail", "")])[0][:150], flush=True)
        res.append(r)
if not only:
    json.dump(res, open("/verif/reverts.json", "w"), indent=1)
