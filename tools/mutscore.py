#!/usr/bin/env python3
"""mutscore.py [--per-unit N] [--jobs J] [units...]: mechanical first-order mutants (comparison operators, && / ||, +1 / -1, small literals) inside the
functions under contract; each mutant: scratch copy of /repo, one edit, the OWNING unit is assembled and verified (like vx.dev).  A mutant that still
verifies (SURVIVED) and also passes `cargo test --lib` points at a contract that does not pin that operator - or at an equivalent mutant.
Results: /verif/notes/mutscore<MUT_SEED>.json"""
import sys, os, re, json, random, shutil, subprocess, importlib, concurrent.futures as cf
sys.path.insert(0, "/verif")
os.environ.setdefault("VERIF_REPO", "/repo")
import specs
from vx.extract import Source, FnParts
random.seed(int(os.environ.get("MUT_SEED", "7")))
per_unit = int(sys.argv[sys.argv.index("--per-unit") + 1]) if "--per-unit" in sys.argv else 20
jobs = int(sys.argv[sys.argv.index("--jobs") + 1]) if "--jobs" in sys.argv else 3
units = [a for a in sys.argv[1:] if not a.startswith("--") and not a.isdigit()] or [u for u in specs.UNITS if u not in ("engine",)]
MUT = [(r" < ", " <= "), (r" <= ", " < "), (r" > ", " >= "), (r" >= ", " > "), (r" == ", " != "), (r" != ", " == "), (r" && ", " || "), (r" \|\| ", " && "),
       (r" \+ 1\b", " + 2"), (r" - 1\b", " - 2"), (r" \+ 4\b", " + 3"), (r" - 4\b", " - 3"), (r"\b0xf\b", "0x7"), (r"\b0x80\b", "0x40"), (r"\b0x7f\b", "0x3f"), (r" >> 4\b", " >> 3"), (r" << 8\b", " << 7")]
cands = []
for u in units:
    m = importlib.import_module("specs." + u)
    sites = []
    seen = set()
    for x in m.UNIT.items:
        if x.kind != "fn" or (x.file, x.name, x.impl) in seen:
            continue
        seen.add((x.file, x.name, x.impl))
        try:
            src = Source.get(x.file)
            fp = FnParts(src, src.find("fn", x.name, x.impl))
        except Exception:
            continue
        text = src.text
        b0, b1 = src.ct[fp.i_brace].start, src.ct[fp.i_end].end
        for pat, rep in MUT:
            for mm in re.finditer(pat, text[b0:b1]):
                ln = text.count("\n", 0, b0 + mm.start())
                line = text.split("\n")[ln]
                if line.strip().startswith("//") or "println!" in line or '"' in line[:line.find(mm.group(0)) if mm.group(0) in line else 0]:
                    continue
                sites.append(dict(unit=u, file=x.file, fn=x.name, off=b0 + mm.start(), end=b0 + mm.end(), rep=rep, line=ln + 1, text=line.strip()[:140]))
    random.shuffle(sites)
    cands += sites[:per_unit]
print("mutants:", len(cands), flush=True)
def run(i_c):
    i, c = i_c
    tree = "/var/tmp/rdp-mutscore.%d.%d" % (os.getpid(), i)
    shutil.rmtree(tree, ignore_errors=True)
    subprocess.check_call(["rsync", "-a", "--exclude", "target", "--exclude", ".git", "/repo/", tree + "/"])
    p = os.path.join(tree, c["file"])
    t = open(p).read()
    open(p, "w").write(t[:c["off"]] + c["rep"] + t[c["end"]:])
    env = dict(os.environ, VERIF_REPO=tree, VERIF_BUILD_DIR=tree + "/.b")
    r = subprocess.run([sys.executable, "-m", "vx.dev", c["unit"]], cwd="/verif", env=env, stdout=subprocess.PIPE, stderr=subprocess.STDOUT)
    out = r.stdout.decode("utf-8", "replace")
    st = re.search(r"^status (\S+)", out, re.M)
    status = st.group(1) if st else "?"
    killed = ("#### fn:" in out) or status != "ok"
    verdict = "KILLED" if ("#### fn:" in out and status == "ok") else ("UNDECIDED" if status != "ok" else "SURVIVED")
    if c["unit"] == "mcs" and verdict == "KILLED":
        # the unit has one permanent known failure: killed only if another function / obligation fails
        fails = re.findall(r"#### fn: (\S+)", out)
        if set(fails) <= {"gcc::server_network_data"} and out.count("error:") <= 1 + out.count("canary"):
            verdict = "SURVIVED"
    tests = None
    if verdict == "SURVIVED":
        tr = subprocess.run("CARGO_TARGET_DIR=/var/tmp/rdp-mutscore-target.%d cargo test --offline --lib 2>&1 | tail -3" % (i % jobs), shell=True, cwd=tree, stdout=subprocess.PIPE)
        tests = "pass" if b"test result: ok. 39 passed" in tr.stdout else "fail"
    shutil.rmtree(tree, ignore_errors=True)
    return dict(c, verdict=verdict, tests=tests)
res = []
with cf.ThreadPoolExecutor(max_workers=jobs) as ex:
    for r in ex.map(run, list(enumerate(cands))):
        res.append(r)
        print(r["verdict"], r.get("tests") or "-", r["unit"], "%s:%d" % (r["file"], r["line"]), r["fn"], "|", r["text"][:90], "->", r["rep"].strip(), flush=True)
json.dump(res, open("/verif/notes/mutscore%s.json" % os.environ.get("MUT_SEED", "") + "", "w"), indent=1)
import collections
print(collections.Counter((r["verdict"], r["tests"]) for r in res))
