// ===== prelude/tls.rs — TRUSTED: native_tls::TlsStream as an opaque Read + Write (TLS itself is not verified) =====
#[verifier::external_body]
#[verifier::accept_recursive_types(S)]
pub struct TlsStream<S> { s: S }

impl<S> TlsStream<S> {
    pub uninterp spec fn tls_rest(&self) -> Seq<u8>;
    pub uninterp spec fn tls_written(&self) -> Seq<u8>;
    /// subject public key bits of the certificate the peer presented on THIS stream
    pub uninterp spec fn peer_key(&self) -> Seq<u8>;
    pub uninterp spec fn cert_checked(&self) -> bool;

    #[verifier::external_body]
    pub fn shutdown(&mut self) -> (r: RdpResult<()>)
        ensures final(self).tls_rest() == old(self).tls_rest(), final(self).tls_written() == old(self).tls_written(),
            final(self).peer_key() == old(self).peer_key(), final(self).cert_checked() == old(self).cert_checked()
    { unimplemented!() }
}

impl<S> Read for TlsStream<S> {
    open spec fn rest(&self) -> Seq<u8> { self.tls_rest() }
    open spec fn wr(&self) -> Seq<u8> { self.tls_written() }
    #[verifier::external_body]
    fn read_u8(&mut self) -> (r: RdpResult<u8>) ensures final(self).peer_key() == old(self).peer_key(), final(self).cert_checked() == old(self).cert_checked() { unimplemented!() }
    #[verifier::external_body]
    fn read_u16<E: ByteOrder>(&mut self) -> (r: RdpResult<u16>) ensures final(self).peer_key() == old(self).peer_key(), final(self).cert_checked() == old(self).cert_checked() { unimplemented!() }
    #[verifier::external_body]
    fn read_u32<E: ByteOrder>(&mut self) -> (r: RdpResult<u32>) ensures final(self).peer_key() == old(self).peer_key(), final(self).cert_checked() == old(self).cert_checked() { unimplemented!() }
    #[verifier::external_body]
    fn read_exact(&mut self, buf: &mut [u8]) -> (r: RdpResult<()>) ensures final(self).peer_key() == old(self).peer_key(), final(self).cert_checked() == old(self).cert_checked() { unimplemented!() }
    #[verifier::external_body]
    fn read(&mut self, buf: &mut [u8]) -> (r: RdpResult<usize>) ensures final(self).peer_key() == old(self).peer_key(), final(self).cert_checked() == old(self).cert_checked() { unimplemented!() }
    #[verifier::external_body]
    fn read_to_end(&mut self, buf: &mut Vec<u8>) -> (r: RdpResult<usize>) ensures final(self).peer_key() == old(self).peer_key(), final(self).cert_checked() == old(self).cert_checked() { unimplemented!() }
}

impl<S> Write for TlsStream<S> {
    open spec fn written(&self) -> Seq<u8> { self.tls_written() }
    open spec fn rd(&self) -> Seq<u8> { self.tls_rest() }
    #[verifier::external_body]
    fn write(&mut self, buf: &[u8]) -> (r: RdpResult<usize>) ensures final(self).peer_key() == old(self).peer_key(), final(self).cert_checked() == old(self).cert_checked() { unimplemented!() }
    #[verifier::external_body]
    fn write_all(&mut self, buf: &[u8]) -> (r: RdpResult<()>) ensures final(self).peer_key() == old(self).peer_key(), final(self).cert_checked() == old(self).cert_checked() { unimplemented!() }
    #[verifier::external_body]
    fn write_u8(&mut self, v: u8) -> (r: RdpResult<()>) ensures final(self).peer_key() == old(self).peer_key(), final(self).cert_checked() == old(self).cert_checked() { unimplemented!() }
    #[verifier::external_body]
    fn write_u16<E: ByteOrder>(&mut self, v: u16) -> (r: RdpResult<()>) ensures final(self).peer_key() == old(self).peer_key(), final(self).cert_checked() == old(self).cert_checked() { unimplemented!() }
    #[verifier::external_body]
    fn write_u32<E: ByteOrder>(&mut self, v: u32) -> (r: RdpResult<()>) ensures final(self).peer_key() == old(self).peer_key(), final(self).cert_checked() == old(self).cert_checked() { unimplemented!() }
}

impl<S> Duplex for TlsStream<S> {}

// ---- native_tls::TlsConnector / TlsConnectorBuilder as far as Link::start_ssl uses them (TRUSTED: what the options mean is the crate's
// documentation: `danger_accept_invalid_certs(true)` disables certificate validation; a handshake or validation failure is an Err)
#[verifier::external_body]
pub struct TlsConnectorBuilder { _p: () }
#[verifier::external_body]
pub struct TlsConnector { _p: () }
impl TlsConnectorBuilder {
    pub uninterp spec fn accept_invalid(&self) -> bool;
    pub uninterp spec fn sni(&self) -> bool;
    /// (the real method returns `&mut Self` for chaining; Link::start_ssl uses it as a statement)
    #[verifier::external_body]
    pub fn danger_accept_invalid_certs(&mut self, accept_invalid_certs: bool)
        ensures final(self).accept_invalid() == accept_invalid_certs, final(self).sni() == old(self).sni()
    { unimplemented!() }
    #[verifier::external_body]
    pub fn use_sni(&mut self, use_sni: bool)
        ensures final(self).sni() == use_sni, final(self).accept_invalid() == old(self).accept_invalid()
    { unimplemented!() }
    #[verifier::external_body]
    pub fn build(&self) -> (r: RdpResult<TlsConnector>)
        ensures r is Ok ==> r->Ok_0.accept_invalid() == self.accept_invalid()
    { unimplemented!() }
}
impl TlsConnector {
    pub uninterp spec fn accept_invalid(&self) -> bool;
    /// the default of native-tls: certificates ARE validated
    #[verifier::external_body]
    pub fn builder() -> (r: TlsConnectorBuilder)
        ensures !r.accept_invalid()
    { unimplemented!() }
    /// handshake over `stream`: Ok only when the handshake (and, unless disabled, the certificate validation) succeeded.  Modelling
    /// convention: the ghost traces of the raw stream carry over to the TLS stream (the link's trace is one sequence across the upgrade)
    #[verifier::external_body]
    pub fn connect<S: Read + Write>(&self, domain: &str, stream: S) -> (r: RdpResult<TlsStream<S>>)
        ensures r is Ok ==> r->Ok_0.cert_checked() == !self.accept_invalid() && r->Ok_0.tls_written() == stream.written() && r->Ok_0.tls_rest() == stream.rest()
    { unimplemented!() }
}
