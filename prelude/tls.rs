// ===== prelude/tls.rs — TRUSTED: native_tls::TlsStream as an opaque Read + Write (TLS itself is not verified) =====
#[verifier::external_body]
#[verifier::accept_recursive_types(S)]
pub struct TlsStream<S> { s: S }

impl<S> TlsStream<S> {
    pub uninterp spec fn tls_rest(&self) -> Seq<u8>;
    pub uninterp spec fn tls_written(&self) -> Seq<u8>;
    /// subject public key bits of the certificate the peer presented on THIS stream
    pub uninterp spec fn peer_key(&self) -> Seq<u8>;
    pub uninterp spec fn cert_checked(&self) -> bool;

    #[verifier::external_body]
    pub fn shutdown(&mut self) -> (r: RdpResult<()>)
        ensures final(self).tls_rest() == old(self).tls_rest(), final(self).tls_written() == old(self).tls_written(),
            final(self).peer_key() == old(self).peer_key(), final(self).cert_checked() == old(self).cert_checked()
    { unimplemented!() }
}

impl<S> Read for TlsStream<S> {
    open spec fn rest(&self) -> Seq<u8> { self.tls_rest() }
    open spec fn wr(&self) -> Seq<u8> { self.tls_written() }
    #[verifier::external_body]
    fn read_u8(&mut self) -> (r: RdpResult<u8>) ensures final(self).peer_key() == old(self).peer_key(), final(self).cert_checked() == old(self).cert_checked() { unimplemented!() }
    #[verifier::external_body]
    fn read_u16<E: ByteOrder>(&mut self) -> (r: RdpResult<u16>) ensures final(self).peer_key() == old(self).peer_key(), final(self).cert_checked() == old(self).cert_checked() { unimplemented!() }
    #[verifier::external_body]
    fn read_u32<E: ByteOrder>(&mut self) -> (r: RdpResult<u32>) ensures final(self).peer_key() == old(self).peer_key(), final(self).cert_checked() == old(self).cert_checked() { unimplemented!() }
    #[verifier::external_body]
    fn read_exact(&mut self, buf: &mut [u8]) -> (r: RdpResult<()>) ensures final(self).peer_key() == old(self).peer_key(), final(self).cert_checked() == old(self).cert_checked() { unimplemented!() }
    #[verifier::external_body]
    fn read(&mut self, buf: &mut [u8]) -> (r: RdpResult<usize>) ensures final(self).peer_key() == old(self).peer_key(), final(self).cert_checked() == old(self).cert_checked() { unimplemented!() }
    #[verifier::external_body]
    fn read_to_end(&mut self, buf: &mut Vec<u8>) -> (r: RdpResult<usize>) ensures final(self).peer_key() == old(self).peer_key(), final(self).cert_checked() == old(self).cert_checked() { unimplemented!() }
}

impl<S> Write for TlsStream<S> {
    open spec fn written(&self) -> Seq<u8> { self.tls_written() }
    open spec fn rd(&self) -> Seq<u8> { self.tls_rest() }
    #[verifier::external_body]
    fn write(&mut self, buf: &[u8]) -> (r: RdpResult<usize>) ensures final(self).peer_key() == old(self).peer_key(), final(self).cert_checked() == old(self).cert_checked() { unimplemented!() }
    #[verifier::external_body]
    fn write_all(&mut self, buf: &[u8]) -> (r: RdpResult<()>) ensures final(self).peer_key() == old(self).peer_key(), final(self).cert_checked() == old(self).cert_checked() { unimplemented!() }
    #[verifier::external_body]
    fn write_u8(&mut self, v: u8) -> (r: RdpResult<()>) ensures final(self).peer_key() == old(self).peer_key(), final(self).cert_checked() == old(self).cert_checked() { unimplemented!() }
    #[verifier::external_body]
    fn write_u16<E: ByteOrder>(&mut self, v: u16) -> (r: RdpResult<()>) ensures final(self).peer_key() == old(self).peer_key(), final(self).cert_checked() == old(self).cert_checked() { unimplemented!() }
    #[verifier::external_body]
    fn write_u32<E: ByteOrder>(&mut self, v: u32) -> (r: RdpResult<()>) ensures final(self).peer_key() == old(self).peer_key(), final(self).cert_checked() == old(self).cert_checked() { unimplemented!() }
}

impl<S> Duplex for TlsStream<S> {}
