// ===== prelude/engine2_model.rs — unit engine2 only: the engine contract of prelude/model.rs restated for the REAL, object-safe trait =====
// Unit engine2 verifies the real container implementations of src/model/data.rs (Trame, Component, DynOption, Array, to_vec) against the
// clauses that every other unit ASSUMES through prelude/model.rs.  model.rs cannot be included here (it declares the generic trait and the
// external_body stand-ins `Field`, `Component`, `DynOption`, `Array` that this unit replaces by the real types), so:
//   * the spec-only part of model.rs (ghost view, serialization, shape predicates, option / visitor enums) is COPIED VERBATIM between the two
//     markers below; specs/engine2.py compares the copy with model.rs on every assembly and raises LostAnchor if they differ;
//   * the `ensures` clauses of the five trait methods are copied verbatim too (same check);
//   * what is NEW relative to model.rs is listed at the trait declaration (well-formedness side conditions, one extra write clause).

// >>> COPY-OF prelude/model.rs (spec part)
// Ghost view of a message tree
pub enum OV { None, Skip(Seq<char>), Size(Seq<char>, usize) }

pub enum MV {
    U8(u8),
    U16(u16, bool),
    U32(u32, bool),
    Bytes(Seq<u8>),
    Trame(Seq<MV>),
    Comp(Seq<(Seq<char>, MV)>),
    Check(Box<MV>),
    Opt(Option<Box<MV>>),
    Dyn(Box<MV>, OV),
    /// elements, prototype produced by the factory
    Arr(Seq<MV>, Box<MV>),
}

pub open spec fn opt_of(m: MV) -> OV { match m { MV::Dyn(_, o) => o, _ => OV::None } }

/// serialization = what Message::write emits
pub open spec fn ser(m: MV) -> Seq<u8>
    decreases m, 1int, 0int
{
    match m {
        MV::U8(v) => seq![v],
        MV::U16(v, le) => enc16(v, le),
        MV::U32(v, le) => enc32(v, le),
        MV::Bytes(b) => b,
        MV::Trame(s) => ser_seq_from(s, 0),
        MV::Comp(f) => ser_fields_from(f, 0, Set::empty()),
        MV::Check(b) => ser(*b),
        MV::Opt(o) => match o { Some(b) => ser(*b), None => Seq::empty() },
        MV::Dyn(b, _) => ser(*b),
        MV::Arr(s, _) => ser_seq_from(s, 0),
    }
}

pub open spec fn ser_seq(s: Seq<MV>) -> Seq<u8> { ser_seq_from(s, 0) }

pub open spec fn ser_seq_from(s: Seq<MV>, i: int) -> Seq<u8>
    decreases s, 0int, s.len() - i
{
    if i < 0 || i >= s.len() { Seq::empty() } else { ser(s[i]) + ser_seq_from(s, i + 1) }
}

/// Component::write: fields in insertion order; a field whose name an earlier field asked to skip is omitted
pub open spec fn ser_fields(f: Seq<(Seq<char>, MV)>, skip: Set<Seq<char>>) -> Seq<u8> { ser_fields_from(f, 0, skip) }

pub open spec fn ser_fields_from(f: Seq<(Seq<char>, MV)>, i: int, skip: Set<Seq<char>>) -> Seq<u8>
    decreases f, 0int, f.len() - i
{
    if i < 0 || i >= f.len() { Seq::empty() }
    else if skip.contains(f[i].0) { ser_fields_from(f, i + 1, skip) }
    else {
        let skip2 = match opt_of(f[i].1) { OV::Skip(k) => skip.insert(k), _ => skip };
        ser(f[i].1) + ser_fields_from(f, i + 1, skip2)
    }
}

/// what Message::read preserves: constructors, field names, endianness, constants under Check
pub open spec fn same_shape(a: MV, b: MV) -> bool
    decreases a
{
    match (a, b) {
        (MV::U8(_), MV::U8(_)) => true,
        (MV::U16(_, l1), MV::U16(_, l2)) => l1 == l2,
        (MV::U32(_, l1), MV::U32(_, l2)) => l1 == l2,
        (MV::Bytes(x), MV::Bytes(y)) => x.len() == 0 || x.len() == y.len(),
        (MV::Trame(s1), MV::Trame(s2)) => s1.len() == s2.len() && forall|i: int| #![trigger s1[i]] #![trigger s2[i]] 0 <= i < s1.len() ==> same_shape(s1[i], s2[i]),
        (MV::Comp(f1), MV::Comp(f2)) => f1.len() == f2.len() && forall|i: int| #![trigger f1[i]] #![trigger f2[i]] 0 <= i < f1.len() ==> f1[i].0 == f2[i].0 && same_shape(f1[i].1, f2[i].1),
        (MV::Check(x), MV::Check(y)) => *x == *y,
        (MV::Opt(Some(x)), MV::Opt(Some(y))) => same_shape(*x, *y),
        (MV::Opt(_), MV::Opt(None)) => true,
        (MV::Dyn(x, _), MV::Dyn(y, _)) => same_shape(*x, *y),
        (MV::Arr(_, p1), MV::Arr(s2, p2)) => *p1 == *p2 && forall|i: int| 0 <= i < s2.len() ==> same_shape(*p1, #[trigger] s2[i]),
        _ => false,
    }
}

/// layouts whose wire size does not depend on the data (no DynOption / Option / Array / unsized Vec<u8>)
pub open spec fn is_static(m: MV) -> bool
    decreases m
{
    match m {
        MV::U8(_) => true,
        MV::U16(_, _) => true,
        MV::U32(_, _) => true,
        MV::Bytes(b) => b.len() > 0,
        MV::Trame(s) => forall|i: int| 0 <= i < s.len() ==> is_static(#[trigger] s[i]),
        MV::Comp(f) => forall|i: int| 0 <= i < f.len() ==> is_static((#[trigger] f[i]).1),
        MV::Check(b) => is_static(*b),
        _ => false,
    }
}

/// layouts without DynOption / Option / Array: every field is read in order, a sized Vec<u8> reads exactly its size, an empty one reads
/// to the end of the (sub-)stream: the bytes consumed are exactly the serialization of what was read
pub open spec fn is_plain(m: MV) -> bool
    decreases m
{
    match m {
        MV::U8(_) => true,
        MV::U16(_, _) => true,
        MV::U32(_, _) => true,
        MV::Bytes(_) => true,
        MV::Trame(s) => forall|i: int| 0 <= i < s.len() ==> is_plain(#[trigger] s[i]),
        MV::Comp(f) => forall|i: int| 0 <= i < f.len() ==> is_plain((#[trigger] f[i]).1),
        MV::Check(b) => is_plain(*b),
        _ => false,
    }
}

/// a lower bound on the bytes a successful read consumes: leaves have their width, a record at least its fields up to and including the
/// first DynOption field (no earlier option can have skipped or resized them)
pub open spec fn min_wire_len(m: MV) -> nat
    decreases m, 1int, 0int
{
    match m {
        MV::U8(_) => 1,
        MV::U16(_, _) => 2,
        MV::U32(_, _) => 4,
        MV::Bytes(b) => b.len(),
        MV::Check(b) => min_wire_len(*b),
        MV::Dyn(b, _) => min_wire_len(*b),
        MV::Comp(f) => min_fields_from(f, 0),
        _ => 0,
    }
}
pub open spec fn min_fields_from(f: Seq<(Seq<char>, MV)>, i: int) -> nat
    decreases f, 0int, f.len() - i
{
    if i < 0 || i >= f.len() { 0 } else if f[i].1 is Dyn { min_wire_len(f[i].1) } else { min_wire_len(f[i].1) + min_fields_from(f, i + 1) }
}

/// no Array inside holds elements yet (Array::read APPENDS to what is already there: the consumption bound below is for fresh layouts)
pub open spec fn arrays_empty(m: MV) -> bool
    decreases m
{
    match m {
        MV::Trame(s) => forall|i: int| 0 <= i < s.len() ==> arrays_empty(#[trigger] s[i]),
        MV::Comp(f) => forall|i: int| 0 <= i < f.len() ==> arrays_empty((#[trigger] f[i]).1),
        MV::Check(b) => arrays_empty(*b),
        MV::Opt(o) => match o { Some(b) => arrays_empty(*b), None => true },
        MV::Dyn(b, _) => arrays_empty(*b),
        MV::Arr(s, p) => s.len() == 0 && arrays_empty(*p),
        _ => true,
    }
}

pub enum MessageOption {
    SkipField(String),
    Size(String, usize),
    None
}

impl MessageOption {
    pub open spec fn ov(&self) -> OV {
        match *self {
            MessageOption::SkipField(s) => OV::Skip(s@),
            MessageOption::Size(s, n) => OV::Size(s@, n),
            MessageOption::None => OV::None,
        }
    }
}

pub enum DataType<'a> {
    Component(&'a Component),
    Trame(&'a Trame),
    U32(u32),
    U16(u16),
    U8(u8),
    Slice(&'a [u8]),
    None
}

/// Message::visit
pub open spec fn dt_matches(d: DataType, m: MV) -> bool
    decreases m
{
    match m {
        MV::U8(v) => d == DataType::U8(v),
        MV::U16(v, _) => d == DataType::U16(v),
        MV::U32(v, _) => d == DataType::U32(v),
        MV::Bytes(b) => d is Slice && d->Slice_0@ == b,
        MV::Trame(s) => d is Trame && trame_view(d->Trame_0@) == s,
        MV::Comp(f) => d is Component && d->Component_0.fields() == f,
        MV::Check(b) => dt_matches(d, *b),
        MV::Opt(o) => match o { Some(b) => dt_matches(d, *b), None => d is None },
        MV::Dyn(b, _) => dt_matches(d, *b),
        MV::Arr(s, _) => d is Trame && trame_view(d->Trame_0@) == s,
    }
}
// <<< COPY-OF prelude/model.rs (spec part)

// ---------------------------------------------------------------------------------------------------------------------------------------
// Object-safe byte streams.  prelude/base.rs declares `Read: Sized` / `Write: Sized` with generic methods (`read_u16::<E>`), so `dyn Read`
// cannot be formed from them; the real trait passes `&mut dyn Read` / `&mut dyn Write`.  As in std + byteorder the object-safe core
// (std::io::Read / Write: read_exact, read_to_end, write_all) and the generic extension methods (byteorder::ReadBytesExt / WriteBytesExt,
// blanket-implemented for every reader / writer, sized or not) are separate traits.  Method contracts: VERBATIM from prelude/base.rs
// (`read` / `write`, which src/model/data.rs does not call, are left out); NEW: `infallible()` and its clause on every write method.
pub trait DynRead {
    spec fn rest(&self) -> Seq<u8>;
    /// everything else observable about the object (for a duplex stream: what has been written); reads leave it alone
    spec fn wr(&self) -> Seq<u8>;

    /// std: fills `buf` completely or fails.
    fn read_exact(&mut self, buf: &mut [u8]) -> (r: RdpResult<()>)
        ensures
            final(self).wr() == old(self).wr(),
            final(buf)@.len() == old(buf)@.len(),
            r is Ok ==> old(self).rest().len() >= old(buf)@.len()
                && final(buf)@ == old(self).rest().take(old(buf)@.len() as int)
                && final(self).rest() == old(self).rest().skip(old(buf)@.len() as int),
            r is Err ==> is_suffix(final(self).rest(), old(self).rest());

    /// std: appends everything that is left.
    fn read_to_end(&mut self, buf: &mut Vec<u8>) -> (r: RdpResult<usize>)
        ensures
            final(self).wr() == old(self).wr(),
            r is Ok ==> final(buf)@ == old(buf)@ + old(self).rest() && final(self).rest().len() == 0
                && r->Ok_0 == old(self).rest().len(),
            r is Err ==> is_suffix(final(self).rest(), old(self).rest());
}

/// byteorder::ReadBytesExt (`impl<R: io::Read + ?Sized> ReadBytesExt for R {}`)
pub trait ReadBytesExt: DynRead {
    fn read_u8(&mut self) -> (r: RdpResult<u8>)
        ensures
            final(self).wr() == old(self).wr(),
            r is Ok ==> old(self).rest().len() >= 1 && r->Ok_0 == old(self).rest()[0]
                && final(self).rest() == old(self).rest().skip(1),
            r is Err ==> is_suffix(final(self).rest(), old(self).rest());

    fn read_u16<E: ByteOrder>(&mut self) -> (r: RdpResult<u16>)
        ensures
            final(self).wr() == old(self).wr(),
            r is Ok ==> old(self).rest().len() >= 2 && r->Ok_0 == dec16(old(self).rest(), E::le())
                && final(self).rest() == old(self).rest().skip(2),
            r is Err ==> is_suffix(final(self).rest(), old(self).rest());

    fn read_u32<E: ByteOrder>(&mut self) -> (r: RdpResult<u32>)
        ensures
            final(self).wr() == old(self).wr(),
            r is Ok ==> old(self).rest().len() >= 4 && r->Ok_0 == dec32(old(self).rest(), E::le())
                && final(self).rest() == old(self).rest().skip(4),
            r is Err ==> is_suffix(final(self).rest(), old(self).rest());
}
impl<R: DynRead + ?Sized> ReadBytesExt for R {
    #[verifier::external_body]
    fn read_u8(&mut self) -> (r: RdpResult<u8>) { unimplemented!() }
    #[verifier::external_body]
    fn read_u16<E: ByteOrder>(&mut self) -> (r: RdpResult<u16>) { unimplemented!() }
    #[verifier::external_body]
    fn read_u32<E: ByteOrder>(&mut self) -> (r: RdpResult<u32>) { unimplemented!() }
}

pub trait DynWrite {
    spec fn written(&self) -> Seq<u8>;
    /// the read side of a duplex stream; writes leave it alone
    spec fn rd(&self) -> Seq<u8>;
    /// a sink that accepts everything (a Cursor<Vec<u8>> positioned at its end: base.rs `impl Write for Cursor<Vec<u8>>`)
    spec fn infallible(&self) -> bool;

    /// std: everything or an error (after a possibly partial delivery).
    fn write_all(&mut self, buf: &[u8]) -> (r: RdpResult<()>)
        ensures
            !automata_err(r),
            final(self).rd() == old(self).rd(),
            r is Ok ==> final(self).written() == old(self).written() + buf@,
            r is Err ==> is_prefix(old(self).written(), final(self).written())
                && final(self).written().len() <= old(self).written().len() + buf@.len(),
            old(self).infallible() ==> r is Ok && final(self).infallible();
}

/// byteorder::WriteBytesExt (`impl<W: io::Write + ?Sized> WriteBytesExt for W {}`)
pub trait WriteBytesExt: DynWrite {
    fn write_u8(&mut self, v: u8) -> (r: RdpResult<()>)
        ensures
            !automata_err(r),
            final(self).rd() == old(self).rd(),
            r is Ok ==> final(self).written() == old(self).written() + seq![v],
            r is Err ==> final(self).written() == old(self).written(),
            old(self).infallible() ==> r is Ok && final(self).infallible();

    fn write_u16<E: ByteOrder>(&mut self, v: u16) -> (r: RdpResult<()>)
        ensures
            !automata_err(r),
            final(self).rd() == old(self).rd(),
            r is Ok ==> final(self).written() == old(self).written() + enc16(v, E::le()),
            r is Err ==> is_prefix(old(self).written(), final(self).written())
                && final(self).written().len() <= old(self).written().len() + 2,
            old(self).infallible() ==> r is Ok && final(self).infallible();

    fn write_u32<E: ByteOrder>(&mut self, v: u32) -> (r: RdpResult<()>)
        ensures
            !automata_err(r),
            final(self).rd() == old(self).rd(),
            r is Ok ==> final(self).written() == old(self).written() + enc32(v, E::le()),
            r is Err ==> is_prefix(old(self).written(), final(self).written())
                && final(self).written().len() <= old(self).written().len() + 4,
            old(self).infallible() ==> r is Ok && final(self).infallible();
}
impl<W: DynWrite + ?Sized> WriteBytesExt for W {
    #[verifier::external_body]
    fn write_u8(&mut self, v: u8) -> (r: RdpResult<()>) { unimplemented!() }
    #[verifier::external_body]
    fn write_u16<E: ByteOrder>(&mut self, v: u16) -> (r: RdpResult<()>) { unimplemented!() }
    #[verifier::external_body]
    fn write_u32<E: ByteOrder>(&mut self, v: u32) -> (r: RdpResult<()>) { unimplemented!() }
}

/// TRUSTED (explicit form of the unsizing coercion `&mut Cursor<Vec<u8>> -> &mut dyn Read`, which Verus rejects at call sites): the same reader
#[verifier::external_body]
pub fn dyn_reader(c: &mut Cursor<Vec<u8>>) -> (r: &mut dyn DynRead)
    ensures r.rest() == old(c).rest()
{ unimplemented!() }

/// TRUSTED (explicit form of `&mut Cursor<Vec<u8>> -> &mut dyn Write`): the same writer; what it accepts ends up in the cursor's vector;
/// positioned at its end it never fails (base.rs `impl Write for Cursor<Vec<u8>>`)
#[verifier::external_body]
pub fn dyn_writer(c: &mut Cursor<Vec<u8>>) -> (r: &mut dyn DynWrite)
    ensures
        r.written() == old(c).data(),
        final(c).data() == final(r).written(),
        old(c).pos() == old(c).data().len() ==> r.infallible(),
        // a cursor that starts at its end and is written through an infallible view stays at its end (std Cursor<Vec<u8>>::write appends and advances)
        old(c).pos() == old(c).data().len() ==> final(c).pos() == final(c).data().len(),
{ unimplemented!() }

// ---------------------------------------------------------------------------------------------------------------------------------------
/// src/model/data.rs `pub trait Message : Send`, object-safe as in the source.
/// ensures clauses of write / read / length / visit / options: VERBATIM from prelude/model.rs (checked by specs/engine2.py).
/// NEW relative to model.rs (each is a side condition that model.rs leaves implicit in its external_body stand-ins):
///   wf()   every DynOption inside is applied to a value its closure accepts, and the closure is callable on every value of the same layout
///          (the `requires` of model.rs DynOption::new) and yields ONE option per value;  needed by write / length / options (they call the closures)
///   rwf()  the tree can be read: every Array inside has a callable factory producing well-formed, readable values of ONE layout with
///          min_wire_len > 0 (termination of Array::read), its elements have that layout; every node satisfies same_shape(x, x)
///   length(): the result type is u64, so the serialization must fit (true of anything held in memory)
///   write(): extra clause E1 `an infallible sink never makes write fail` (what to_vec's unwrap() needs)
///   read(): a successful read re-establishes wf() and rwf()
pub trait Message {
    spec fn mv(&self) -> MV;
    spec fn wf(&self) -> bool;
    spec fn rwf(&self) -> bool;

    fn write(&self, writer: &mut dyn DynWrite) -> (r: RdpResult<()>)
        requires
            self.wf(),
        ensures
            r is Ok ==> final(writer).written() == old(writer).written() + ser(self.mv()),
            r is Err ==> is_prefix(old(writer).written(), final(writer).written()),
            !automata_err(r),
            old(writer).infallible() ==> r is Ok && final(writer).infallible();

    fn read(&mut self, reader: &mut dyn DynRead) -> (r: RdpResult<()>)
        requires
            old(self).wf(),
            old(self).rwf(),
        ensures
            is_suffix(final(reader).rest(), old(reader).rest()),
            r is Ok ==> same_shape(old(self).mv(), final(self).mv()),
            r is Ok && is_static(old(self).mv()) ==> ({
                let n = ser(old(self).mv()).len() as int;
                &&& old(reader).rest().len() >= n
                &&& ser(final(self).mv()) == old(reader).rest().take(n)
                &&& final(reader).rest() == old(reader).rest().skip(n)
            }),
            r is Ok && is_plain(old(self).mv()) ==> old(reader).rest() == ser(final(self).mv()) + final(reader).rest(),
            r is Ok ==> old(reader).rest().len() >= final(reader).rest().len() + min_wire_len(old(self).mv()),
            r is Ok && arrays_empty(old(self).mv()) ==> ser(final(self).mv()).len() + final(reader).rest().len() <= old(reader).rest().len(),
            r is Ok ==> final(self).wf() && final(self).rwf();

    fn length(&self) -> (r: u64)
        requires
            self.wf(),
            ser(self.mv()).len() <= u64::MAX,
        ensures r == ser(self.mv()).len();

    fn options(&self) -> (r: MessageOption)
        requires
            self.wf(),
        ensures r.ov() == opt_of(self.mv());
}

/// `Message::visit`, declared in a trait of its own: Verus rejects the definition cycle trait Message -> DataType (result of visit) ->
/// &Vec<Box<dyn Message>> -> trait Message.  No visit() call in src/model/data.rs goes through `dyn Message`, so the bodies are unaffected.
pub trait MessageVisit: Message {
    fn visit(&self) -> (r: DataType)
        ensures dt_matches(r, self.mv());
}

/// Trame = Vec<Box<dyn Message>> (native); its ghost view
pub open spec fn trame_view(s: Seq<Box<dyn Message>>) -> Seq<MV> {
    Seq::new(s.len(), |i: int| s[i].mv())
}

/// TRUSTED (explicit form of the unsizing coercion `Box<T> -> Box<dyn Message>`; Verus accepts the implicit one but then knows nothing about
/// the coerced value when T is generic): dynamic dispatch on the trait object runs T's implementation, so the three spec functions agree
#[verifier::external_body]
pub fn box_dyn<T: Message + 'static>(b: Box<T>) -> (r: Box<dyn Message>)
    ensures r.mv() == b.mv(), r.wf() == b.wf(), r.rwf() == b.rwf()
{ unimplemented!() }

// ---------------------------------------------------------------------------------------------------------------------------------------
// TRUSTED collection stand-ins (indexmap / std::collections)

/// indexmap::IndexMap<K, V>: an insertion-ordered sequence of entries.  Assumed: iteration (`iter()`, `into_iter()` on `&mut`) visits the
/// entries in index order 0..len(), `get_index(i)` / `get_index_mut(i)` give the i-th entry, mutation through the `&mut V` changes that
/// entry's value only (keys and order stay).  `insert` is not used by the engine functions.
#[verifier::external_body]
#[verifier::accept_recursive_types(K)]
#[verifier::accept_recursive_types(V)]
pub struct IndexMap<K, V> { _k: core::marker::PhantomData<K>, _v: core::marker::PhantomData<V> }

impl<K, V> IndexMap<K, V> {
    pub uninterp spec fn entries(&self) -> Seq<(K, V)>;

    #[verifier::external_body]
    pub fn len(&self) -> (r: usize)
        ensures r == self.entries().len()
    { unimplemented!() }

    #[verifier::external_body]
    pub fn get_index(&self, i: usize) -> (r: Option<(&K, &V)>)
        ensures
            i < self.entries().len() ==> r is Some && *r->Some_0.0 == self.entries()[i as int].0 && *r->Some_0.1 == self.entries()[i as int].1,
            i >= self.entries().len() ==> r is None,
    { unimplemented!() }

    #[verifier::external_body]
    pub fn get_index_mut(&mut self, i: usize) -> (r: Option<(&K, &mut V)>)
        ensures
            i < old(self).entries().len() ==> r is Some && *r->Some_0.0 == old(self).entries()[i as int].0 && *r->Some_0.1 == old(self).entries()[i as int].1
                && final(self).entries() == old(self).entries().update(i as int, (old(self).entries()[i as int].0, *final(r->Some_0.1))),
            i >= old(self).entries().len() ==> r is None,
    { unimplemented!() }
}

/// Component = IndexMap<String, Box<dyn Message>>: its ghost view (name view, element view) in insertion order
impl IndexMap<String, Box<dyn Message>> {
    pub open spec fn fields(&self) -> Seq<(Seq<char>, MV)> {
        Seq::new(self.entries().len(), |i: int| (self.entries()[i].0@, self.entries()[i].1.mv()))
    }
}

/// std::collections::HashSet<String> as a ghost set of key views
#[verifier::external_body]
#[verifier::accept_recursive_types(K)]
pub struct HashSet<K> { _k: core::marker::PhantomData<K> }

impl<K: KeyView> HashSet<K> {
    pub uninterp spec fn s(&self) -> Set<K::KV>;

    #[verifier::external_body]
    pub fn new() -> (r: Self)
        ensures r.s() == Set::<K::KV>::empty()
    { unimplemented!() }

    #[verifier::external_body]
    pub fn contains(&self, k: &K) -> (r: bool)
        ensures r == self.s().contains(k.kv())
    { unimplemented!() }

    #[verifier::external_body]
    pub fn insert(&mut self, k: K) -> (r: bool)
        ensures final(self).s() == old(self).s().insert(k.kv())
    { unimplemented!() }
}

// ---------------------------------------------------------------------------------------------------------------------------------------
// TRUSTED stand-ins for the boxed closures (`Box<dyn Fn(..) -> .. + Send>`: Verus has no `dyn Fn`).  A boxed closure IS the closure:
// same precondition, same input/output relation.  No determinism is assumed here (it is part of wf()/rwf()).

/// Box<DynOptionFnSend<T>> = Box<dyn Fn(&T) -> MessageOption + Send>
#[verifier::external_body]
#[verifier::accept_recursive_types(T)]
pub struct BoxedFilter<T> { _p: core::marker::PhantomData<T> }

impl<T> BoxedFilter<T> {
    pub uninterp spec fn req(&self, t: &T) -> bool;
    pub uninterp spec fn ens(&self, t: &T, r: MessageOption) -> bool;

    /// Box::new(filter)
    #[verifier::external_body]
    pub fn new<F: Fn(&T) -> MessageOption>(f: F) -> (r: Self)
        ensures
            forall|t: &T| #[trigger] r.req(t) == call_requires(f, (t,)),
            forall|t: &T, o: MessageOption| #[trigger] r.ens(t, o) == call_ensures(f, (t,), o),
    { unimplemented!() }

    /// (self.filter)(&self.inner)
    #[verifier::external_body]
    pub fn call(&self, t: &T) -> (r: MessageOption)
        requires self.req(t)
        ensures self.ens(t, r)
    { unimplemented!() }
}

/// Box<ArrayFnSend<T>> = Box<dyn Fn() -> T + Send>
#[verifier::external_body]
#[verifier::accept_recursive_types(T)]
pub struct BoxedFactory<T> { _p: core::marker::PhantomData<T> }

impl<T> BoxedFactory<T> {
    pub uninterp spec fn req(&self) -> bool;
    pub uninterp spec fn ens(&self, r: T) -> bool;

    /// Box::new(factory)
    #[verifier::external_body]
    pub fn new<F: Fn() -> T>(f: F) -> (r: Self)
        ensures
            r.req() == call_requires(f, ()),
            forall|t: T| #[trigger] r.ens(t) == call_ensures(f, (), t),
    { unimplemented!() }

    /// (self.factory)()
    #[verifier::external_body]
    pub fn call(&self) -> (r: T)
        requires self.req()
        ensures self.ens(r)
    { unimplemented!() }
}
