// ===== prelude/lemmas.rs — PROVED helper lemmas about the spec functions (not trusted) =====
/// trame![..] pushes: the view of a pushed Vec<Field>
pub proof fn lemma_trame_view_push(s: Seq<Field>, f: Field)
    ensures trame_view(s.push(f)) == trame_view(s).push(f.fview())
{
    assert(trame_view(s.push(f)) =~= trame_view(s).push(f.fview()));
}

pub proof fn lemma_be16_roundtrip(v: u16)
    ensures u16_be(be16(v)[0], be16(v)[1]) == v, be16(v).len() == 2
{
    assert(((((v >> 8) & 0xff) as u8) as u16) << 8 | (((v & 0xff) as u8) as u16) == v) by(bit_vector);
}

pub proof fn lemma_le16_roundtrip(v: u16)
    ensures u16_le(le16(v)[0], le16(v)[1]) == v, le16(v).len() == 2
{
    assert((((v & 0xff) as u8) as u16) | ((((v >> 8) & 0xff) as u8) as u16) << 8 == v) by(bit_vector);
}

pub proof fn lemma_u16_be_bytes(b0: u8, b1: u8)
    ensures be16(u16_be(b0, b1)) == seq![b0, b1], u16_be(b0, b1) as int == (b0 as int) * 256 + b1 as int
{
    let v = u16_be(b0, b1);
    assert(((((b0 as u16) << 8 | (b1 as u16)) >> 8) & 0xff) as u8 == b0) by(bit_vector);
    assert((((b0 as u16) << 8 | (b1 as u16)) & 0xff) as u8 == b1) by(bit_vector);
    assert(((b0 as u16) << 8 | (b1 as u16)) == (b0 as u16) * 256 + (b1 as u16)) by(bit_vector);
    assert(be16(v) =~= seq![b0, b1]);
}
