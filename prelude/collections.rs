// ===== prelude/collections.rs — TRUSTED: std::collections::HashMap as a ghost map (keys compared through their view) =====
pub trait KeyView {
    type KV;
    spec fn kv(&self) -> Self::KV;
}
impl KeyView for String {
    type KV = Seq<char>;
    open spec fn kv(&self) -> Seq<char> { self@ }
}

#[verifier::external_body]
#[verifier::accept_recursive_types(K)]
#[verifier::accept_recursive_types(V)]
pub struct HashMap<K, V> { _k: core::marker::PhantomData<K>, _v: core::marker::PhantomData<V> }

impl<K: KeyView, V> HashMap<K, V> {
    pub uninterp spec fn m(&self) -> Map<K::KV, V>;

    #[verifier::external_body]
    pub fn new() -> (r: Self) ensures r.m() == Map::<K::KV, V>::empty() { unimplemented!() }

    #[verifier::external_body]
    pub fn insert(&mut self, k: K, v: V) -> (r: Option<V>)
        ensures final(self).m() == old(self).m().insert(k.kv(), v)
    { unimplemented!() }

    #[verifier::external_body]
    pub fn get(&self, k: &K) -> (r: Option<&V>)
        ensures (r is Some) == self.m().contains_key(k.kv()), r is Some ==> *r->Some_0 == self.m()[k.kv()]
    { unimplemented!() }

    #[verifier::external_body]
    pub fn contains_key(&self, k: &K) -> (r: bool)
        ensures r == self.m().contains_key(k.kv())
    { unimplemented!() }
}

/// `map[key]` panics on a missing key: obligation at the index site
impl<K: KeyView, V> vstd::std_specs::core::IndexSpecImpl<&K> for HashMap<K, V> {
    open spec fn index_req(&self, index: &&K) -> bool { self.m().contains_key(index.kv()) }
}
impl<K: KeyView, V> core::ops::Index<&K> for HashMap<K, V> {
    type Output = V;
    #[verifier::external_body]
    fn index(&self, k: &K) -> (r: &V)
        ensures *r == self.m()[k.kv()]
    { unimplemented!() }
}

/// rule R6: `map.values()` iterated by a for loop -> snapshot of the values in the (arbitrary) iteration order of the map
#[verifier::external_body]
pub fn hashmap_values<K: KeyView, V: Copy>(map: &HashMap<K, V>) -> (r: Vec<V>)
    ensures
        r@.len() == map.m().dom().len(),
        forall|i: int| 0 <= i < r@.len() ==> exists|k: K::KV| #[trigger] map.m().contains_key(k) && map.m()[k] == (#[trigger] r@[i]),
        forall|k: K::KV| #[trigger] map.m().contains_key(k) ==> exists|i: int| 0 <= i < r@.len() && r@[i] == map.m()[k],
{ unimplemented!() }

/// rule R6: `map.iter().find(|x| *x.1 == value)`
#[verifier::external_body]
pub fn hashmap_find_by_value<'a, K: KeyView, V: Copy + PartialEq>(map: &'a HashMap<K, V>, value: V) -> (r: Option<(&'a K, &'a V)>)
    ensures
        r is Some ==> map.m().contains_key(r->Some_0.0.kv()) && map.m()[r->Some_0.0.kv()] == value && *r->Some_0.1 == value,
        r is None ==> forall|k: K::KV| #[trigger] map.m().contains_key(k) ==> map.m()[k] != value,
{ unimplemented!() }

/// rule R6: `reader.take(limit)` (std::io::Read::take on a `&mut impl Read`): a reader over at most `limit` bytes of `reader`
#[verifier::external_body]
#[verifier::accept_recursive_types(R)]
pub struct Take<'a, R> { inner: &'a mut R, limit: u64 }
pub uninterp spec fn take_rest<'a, R>(t: &Take<'a, R>) -> Seq<u8>;
#[verifier::external_body]
pub fn take_reader<'a, R: Read>(reader: &'a mut R, limit: u64) -> (r: Take<'a, R>)
    ensures take_rest(&r) == (if limit as int <= old(reader).rest().len() { old(reader).rest().take(limit as int) } else { old(reader).rest() })
{ unimplemented!() }
impl<'a, R: Read> Read for Take<'a, R> {
    open spec fn rest(&self) -> Seq<u8> { take_rest(self) }
    uninterp spec fn wr(&self) -> Seq<u8>;
    #[verifier::external_body]
    fn read_u8(&mut self) -> (r: RdpResult<u8>) { unimplemented!() }
    #[verifier::external_body]
    fn read_u16<E: ByteOrder>(&mut self) -> (r: RdpResult<u16>) { unimplemented!() }
    #[verifier::external_body]
    fn read_u32<E: ByteOrder>(&mut self) -> (r: RdpResult<u32>) { unimplemented!() }
    #[verifier::external_body]
    fn read_exact(&mut self, buf: &mut [u8]) -> (r: RdpResult<()>) { unimplemented!() }
    #[verifier::external_body]
    fn read(&mut self, buf: &mut [u8]) -> (r: RdpResult<usize>) { unimplemented!() }
    #[verifier::external_body]
    fn read_to_end(&mut self, buf: &mut Vec<u8>) -> (r: RdpResult<usize>) { unimplemented!() }
}

/// `map["literal"]` on a HashMap<String, V> (Borrow<str>)
impl<V> vstd::std_specs::core::IndexSpecImpl<&str> for HashMap<String, V> {
    open spec fn index_req(&self, index: &&str) -> bool { self.m().contains_key(index@) }
}
impl<V> core::ops::Index<&str> for HashMap<String, V> {
    type Output = V;
    #[verifier::external_body]
    fn index(&self, k: &str) -> (r: &V)
        ensures *r == self.m()[k@]
    { unimplemented!() }
}
