// ===== prelude/nla.rs — TRUSTED externals of src/nla/cssp.rs: num-bigint, x509-parser, native-tls certificate =====
/// little-endian natural number of a byte string
pub open spec fn le_nat(b: Seq<u8>) -> nat
    decreases b.len()
{
    if b.len() == 0 { 0 } else { (b[0] as nat) + 256 * le_nat(b.skip(1)) }
}

/// num_bigint::BigUint: an arbitrary-precision natural number
#[verifier::external_body]
pub struct BigUint { _p: () }
impl BigUint {
    pub uninterp spec fn val(&self) -> nat;
    #[verifier::external_body]
    pub fn from_bytes_le(bytes: &[u8]) -> (r: BigUint) ensures r.val() == le_nat(bytes@) { unimplemented!() }
    /// BigUint::new(digits): base 2^32 little-endian digits
    #[verifier::external_body]
    pub fn new(digits: Vec<u32>) -> (r: BigUint) ensures digits@.len() == 1 ==> r.val() == digits@[0] as nat { unimplemented!() }
}
impl vstd::std_specs::ops::AddSpecImpl<BigUint> for BigUint {
    open spec fn obeys_add_spec() -> bool { true }
    open spec fn add_req(self, rhs: BigUint) -> bool { true }
    open spec fn add_spec(self, rhs: BigUint) -> BigUint { big_of((self.val() + rhs.val()) as nat) }
}
pub uninterp spec fn big_of(n: nat) -> BigUint;
pub broadcast axiom fn axiom_big_of(n: nat) ensures #[trigger] big_of(n).val() == n;
impl core::ops::Add<BigUint> for BigUint {
    type Output = BigUint;
    #[verifier::external_body]
    fn add(self, rhs: BigUint) -> (r: BigUint) { unimplemented!() }
}
/// num-bigint: `a - b` on BigUint PANICS when b > a ("Cannot subtract b from a because b is larger than a"): precondition
impl vstd::std_specs::ops::SubSpecImpl<BigUint> for BigUint {
    open spec fn obeys_sub_spec() -> bool { true }
    open spec fn sub_req(self, rhs: BigUint) -> bool { self.val() >= rhs.val() }
    open spec fn sub_spec(self, rhs: BigUint) -> BigUint { big_of((self.val() - rhs.val()) as nat) }
}
impl core::ops::Sub<BigUint> for BigUint {
    type Output = BigUint;
    #[verifier::external_body]
    fn sub(self, rhs: BigUint) -> (r: BigUint) { unimplemented!() }
}
impl vstd::std_specs::cmp::PartialEqSpecImpl<BigUint> for BigUint {
    open spec fn obeys_eq_spec() -> bool { true }
    open spec fn eq_spec(&self, other: &BigUint) -> bool { self.val() == other.val() }
}
impl core::cmp::PartialEq<BigUint> for BigUint {
    #[verifier::external_body]
    fn eq(&self, other: &BigUint) -> (r: bool) { unimplemented!() }
}

/// x509_parser::X509Certificate: only the path to the subject public key bits is modelled
pub struct BitString<'a> { pub data: &'a [u8] }
pub struct SubjectPublicKeyInfo<'a> { pub subject_public_key: BitString<'a> }
pub struct TbsCertificate<'a> { pub subject_pki: SubjectPublicKeyInfo<'a> }
pub struct X509Certificate<'a> { pub tbs_certificate: TbsCertificate<'a> }
/// the subject public key bits inside a DER certificate (None when the DER does not parse)
pub uninterp spec fn der_cert_key(der: Seq<u8>) -> Option<Seq<u8>>;

/// native_tls::Certificate
#[verifier::external_body]
pub struct Certificate { _p: () }
impl Certificate {
    pub uninterp spec fn key(&self) -> Seq<u8>;
    #[verifier::external_body]
    pub fn to_der(&self) -> (r: RdpResult<Vec<u8>>) ensures r is Ok ==> der_cert_key(r->Ok_0@) == Some(self.key()) { unimplemented!() }
}
