// ===== prelude/asn1_cssp.rs — TRUSTED: src/nla/asn1.rs over the yasna crate + the x509-parser entry point, as far as src/nla/cssp.rs uses them =====
// (used by unit csspder only; unit mcs keeps prelude/asn1.rs.  Needs prelude/base.rs and prelude/nla.rs; the enum `ASN1Type` is EXTRACTED
//  from src/nla/asn1.rs by the unit, not restated here.)
// Nothing below promises that a parse succeeds or that a SEQUENCE OF is non-empty: a successful parse keeps the SHAPE of the structure it
// fills (same keys, same node kinds, every element of a SEQUENCE OF shaped like the factory's prototype) and nothing is known about values
// except that they are `der_decode(prototype, bytes)`, an uninterpreted function.
pub type OctetString = Vec<u8>;
pub type Integer = u32;

/// yasna::Tag (only context-specific tags are built by cssp.rs)
pub struct Tag { pub tag_number: u64 }
impl Tag {
    pub fn context(tag_number: u64) -> (r: Tag) ensures r.tag_number == tag_number { Tag { tag_number } }
}

/// ghost view of an ASN.1 tree of src/nla/asn1.rs (ExplicitTag is transparent: its `visit` and `read_asn1` delegate to the inner node)
pub enum AV {
    U32(u32),
    Octets(Seq<u8>),
    Bool(bool),
    Enumerate(i64),
    /// Sequence = IndexMap<String, Box<dyn ASN1>>: (key, child) in insertion order
    Seq(Seq<(Seq<char>, AV)>),
    /// SequenceOf: the elements of `inner`, and the view of what the factory builds (None: no factory, built by sequence_of![..])
    SeqOf(Seq<AV>, Option<Box<AV>>),
}

/// what ASN1::read_asn1 preserves (read off the impls of src/nla/asn1.rs): leaves are overwritten by a leaf of the same kind; a Sequence reads its
/// children in place (same keys, same order); a SequenceOf APPENDS one factory-built element per item (possibly none) and leaves `inner` alone
/// when it has no factory
pub open spec fn a_same_shape(a: AV, b: AV) -> bool
    decreases a
{
    match (a, b) {
        (AV::U32(_), AV::U32(_)) => true,
        (AV::Octets(_), AV::Octets(_)) => true,
        (AV::Bool(_), AV::Bool(_)) => true,
        (AV::Enumerate(_), AV::Enumerate(_)) => true,
        (AV::Seq(f1), AV::Seq(f2)) => f1.len() == f2.len() && forall|i: int| #![trigger f1[i]] #![trigger f2[i]] 0 <= i < f1.len() ==> f1[i].0 == f2[i].0 && a_same_shape(f1[i].1, f2[i].1),
        (AV::SeqOf(s1, p1), AV::SeqOf(s2, p2)) => p1 == p2 && s1.len() <= s2.len() && (forall|i: int| 0 <= i < s1.len() ==> s1[i] == #[trigger] s2[i])
            && match p1 { Some(p) => forall|i: int| s1.len() <= i < s2.len() ==> a_same_shape(*p, #[trigger] s2[i]), None => s1.len() == s2.len() },
        _ => false,
    }
}

pub trait ASN1: Sized {
    spec fn av(&self) -> AV;
}
impl ASN1 for Integer { open spec fn av(&self) -> AV { AV::U32(*self) } }
impl ASN1 for OctetString { open spec fn av(&self) -> AV { AV::Octets(self@) } }

/// a boxed node inside a Sequence / SequenceOf (stands for Box<dyn ASN1>: trait objects are outside the verifier)
#[verifier::external_body]
pub struct ANode { _p: () }

/// ASN1::visit
pub open spec fn at_matches(d: ASN1Type, m: AV) -> bool {
    match m {
        AV::U32(v) => d == ASN1Type::U32(v),
        AV::Octets(b) => d is OctetString && d->OctetString_0@ == b,
        AV::Bool(v) => d == ASN1Type::Bool(v),
        AV::Enumerate(v) => d == ASN1Type::Enumerate(v),
        AV::Seq(f) => d is Sequence && d->Sequence_0.fields() == f,
        AV::SeqOf(_, _) => d is SequenceOf && d->SequenceOf_0.av() == m,
    }
}

impl ANode {
    pub uninterp spec fn aview(&self) -> AV;

    /// the unsizing coercion Box<T> -> Box<dyn ASN1> (reason: trait objects; keeps the view)
    #[verifier::external_body]
    pub fn of<M: ASN1>(m: Box<M>) -> (r: ANode)
        ensures r.aview() == m.av()
    { unimplemented!() }

    /// <dyn ASN1>::visit through the box (reason: dynamic dispatch; each impl of asn1.rs returns its own variant, ExplicitTag its inner node's)
    #[verifier::external_body]
    pub fn visit(&self) -> (r: ASN1Type<'_>)
        ensures at_matches(r, self.aview())
    { unimplemented!() }
}
impl ASN1 for ANode { open spec fn av(&self) -> AV { self.aview() } }

pub open spec fn nodes_view(s: Seq<ANode>) -> Seq<AV> { Seq::new(s.len(), |i: int| s[i].aview()) }

/// Sequence = IndexMap<String, Box<dyn ASN1>> (reason: indexmap crate + trait objects)
#[verifier::external_body]
pub struct Sequence { _p: () }

pub open spec fn a_has_key(f: Seq<(Seq<char>, AV)>, k: Seq<char>) -> bool {
    exists|i: int| 0 <= i < f.len() && (#[trigger] f[i]).0 == k
}
pub open spec fn a_first_key(f: Seq<(Seq<char>, AV)>, k: Seq<char>) -> int {
    choose|i: int| 0 <= i < f.len() && (#[trigger] f[i]).0 == k && forall|j: int| 0 <= j < i ==> (#[trigger] f[j]).0 != k
}

impl Sequence {
    pub uninterp spec fn fields(&self) -> Seq<(Seq<char>, AV)>;

    /// IndexMap::new (reason: indexmap crate)
    #[verifier::external_body]
    pub fn new() -> (r: Self)
        ensures r.fields() == Seq::<(Seq<char>, AV)>::empty()
    { unimplemented!() }

    /// IndexMap::insert (reason: indexmap crate): a present key keeps its place and gets the new value, a new key is appended
    #[verifier::external_body]
    pub fn insert<M: ASN1>(&mut self, k: String, v: Box<M>) -> (r: Option<ANode>)
        ensures final(self).fields() == (if a_has_key(old(self).fields(), k@) { old(self).fields().update(a_first_key(old(self).fields(), k@), (k@, v.av())) }
                                         else { old(self).fields().push((k@, v.av())) })
    { unimplemented!() }
}
impl ASN1 for Sequence { open spec fn av(&self) -> AV { AV::Seq(self.fields()) } }

/// sequence["name"]: IndexMap panics on a missing key -> obligation at every index site
impl vstd::std_specs::core::IndexSpecImpl<&str> for Sequence {
    open spec fn index_req(&self, index: &&str) -> bool { a_has_key(self.fields(), index@) }
}
impl core::ops::Index<&str> for Sequence {
    type Output = ANode;
    /// IndexMap::index (reason: indexmap crate)
    #[verifier::external_body]
    fn index(&self, k: &str) -> (r: &ANode)
        ensures r.aview() == self.fields()[a_first_key(self.fields(), k@)].1
    { unimplemented!() }
}

/// SequenceOf { pub inner: Vec<Box<dyn ASN1>>, factory: Option<Box<dyn Fn() -> Box<dyn ASN1>>> }: `inner` is a real vector (it MAY BE EMPTY after a
/// successful parse: indexing it is an obligation); of the boxed factory only the view of what it builds is kept
pub struct SequenceOf {
    pub inner: Vec<ANode>,
    pub proto: Ghost<Option<AV>>,
}
impl SequenceOf {
    pub fn new() -> (r: Self)
        ensures r.inner@.len() == 0, r.proto@ is None
    { SequenceOf { inner: Vec::new(), proto: Ghost(None) } }

    /// SequenceOf::reader(factory): the factory must be callable and build the same layout every time (it is called once per element during a parse;
    /// here it is called once to obtain the prototype's view)
    pub fn reader<T: ASN1, F: Fn() -> Box<T>>(factory: F) -> (r: Self)
        requires
            call_requires(factory, ()),
            forall|a: Box<T>, b: Box<T>| #![auto] call_ensures(factory, (), a) && call_ensures(factory, (), b) ==> a.av() == b.av(),
        ensures
            r.inner@.len() == 0,
            r.proto@ is Some && (exists|a: Box<T>| #![auto] call_ensures(factory, (), a) && a.av() == r.proto@->Some_0),
    {
        let a = factory();
        SequenceOf { inner: Vec::new(), proto: Ghost(Some(a.av())) }
    }
}
impl ASN1 for SequenceOf {
    open spec fn av(&self) -> AV { AV::SeqOf(nodes_view(self.inner@), match self.proto@ { Some(p) => Some(Box::new(p)), None => None }) }
}

/// what yasna + ASN1::read_asn1 decode from DER bytes into a structure whose view was `proto` (None: the parse fails)
pub uninterp spec fn der_decode(proto: AV, der: Seq<u8>) -> Option<AV>;
/// what yasna + ASN1::write_asn1 emit for a structure
pub uninterp spec fn der_encode(v: AV) -> Seq<u8>;

/// `yasna::parse_der(stream, |reader| { if let Err(Error::ASN1Error(e)) = message.read_asn1(reader) { return Err(e) } Ok(()) })` with the
/// ASN1Error converted as `?` does (reason: yasna crate, FnMut closure over the structure).  May fail on any input; when it succeeds the structure
/// has kept its shape.  Nothing is said about the structure after a failure.
#[verifier::external_body]
pub fn parse_der_into<M: ASN1>(message: &mut M, stream: &[u8]) -> (r: RdpResult<()>)
    ensures
        r is Ok ==> a_same_shape(old(message).av(), final(message).av()),
        r is Ok ==> der_decode(old(message).av(), stream@) == Some(final(message).av()),
{ unimplemented!() }

/// src/nla/asn1.rs to_der = yasna::construct_der(|writer| message.write_asn1(writer).unwrap()) (reason: yasna crate; the wrappers' write_asn1 return Ok(()) on every path)
#[verifier::external_body]
pub fn to_der<M: ASN1>(message: &M) -> (r: Vec<u8>)
    ensures r@ == der_encode(message.av())
{ unimplemented!() }

/// x509_parser::error::X509Error inside nom::Err (Debug: what Result::unwrap needs)
#[derive(Debug)]
pub struct X509Error { pub _p: () }
/// x509_parser::parse_x509_der (reason: x509-parser crate).  May fail on any input: returns a Result
#[verifier::external_body]
pub fn parse_x509_der<'a>(i: &'a [u8]) -> (r: Result<(&'a [u8], X509Certificate<'a>), X509Error>)
    ensures r is Ok ==> der_cert_key(i@) == Some(r->Ok_0.1.tbs_certificate.subject_pki.subject_public_key.data@)
{ unimplemented!() }

// src/nla/asn1.rs sequence! / sequence_of!, same shape; the element is handed to the container through the generic `insert` / `ANode::of(..)` instead
// of an unsizing `Box<dyn ASN1>` coercion.  Routed through Verus' expression rewriter so that the factory closure may carry a contract.
#[allow(unused_macros)]
macro_rules! sequence {
    [$($tail:tt)*] => { ::vstd::prelude::verus_exec_macro_exprs!(sequence_internal!($($tail)*)) };
}
#[allow(unused_macros)]
macro_rules! sequence_internal {
    ($( $key: expr => $val: expr ),*) => {{
         let mut map = Sequence::new();
         $( map.insert($key.to_string(), Box::new($val)); )*
         map
    }}
}
#[allow(unused_macros)]
macro_rules! sequence_of {
    [$($tail:tt)*] => { ::vstd::prelude::verus_exec_macro_exprs!(sequence_of_internal!($($tail)*)) };
}
#[allow(unused_macros)]
macro_rules! sequence_of_internal {
    ($( $val: expr ),*) => {{
         let mut map = SequenceOf::new();
         $( map.inner.push(ANode::of(Box::new($val))); )*
         map
    }}
}
