// ===== prelude/asn1.rs — TRUSTED: the BER/DER wrappers of src/nla/asn1.rs over the yasna crate, as far as core/mcs.rs uses them =====
pub type OctetString = Vec<u8>;
pub type Integer = u32;
pub type Enumerate = i64;

/// a boxed ASN.1 node inside a Sequence
#[verifier::external_body]
pub struct ANode { _p: () }
pub enum ASN1Type<'a> {
    Sequence(&'a Sequence),
    U32(u32),
    OctetString(&'a OctetString),
    Bool(bool),
    Enumerate(i64),
}
impl ANode {
    pub uninterp spec fn is_octets(&self) -> bool;
    #[verifier::external_body]
    pub fn visit(&self) -> (r: ASN1Type)
        ensures self.is_octets() ==> r is OctetString
    { unimplemented!() }
}
/// Sequence = IndexMap<String, Box<dyn ASN1>>
#[verifier::external_body]
pub struct Sequence { _p: () }
impl Sequence {
    pub uninterp spec fn skeys(&self) -> Set<Seq<char>>;
    pub uninterp spec fn octet_keys(&self) -> Set<Seq<char>>;
}
impl vstd::std_specs::core::IndexSpecImpl<&str> for Sequence {
    open spec fn index_req(&self, index: &&str) -> bool { self.skeys().contains(index@) }
}
impl core::ops::Index<&str> for Sequence {
    type Output = ANode;
    #[verifier::external_body]
    fn index(&self, k: &str) -> (r: &ANode)
        ensures self.octet_keys().contains(k@) ==> r.is_octets()
    { unimplemented!() }
}
pub struct ImplicitTag<T> { pub inner: T }
pub trait ASN1 {}
impl ASN1 for Sequence {}
impl<T: ASN1> ASN1 for ImplicitTag<T> {}

/// T.125 Connect-Initial / Connect-Response BER bodies (abstract)
pub uninterp spec fn ber_connect_initial(user_data: Seq<u8>) -> Seq<u8>;
#[verifier::external_body]
pub fn to_der(message: &ImplicitTag<Sequence>) -> (r: Vec<u8>)
    ensures r@ == seq_der(message)
{ unimplemented!() }
pub uninterp spec fn seq_der(message: &ImplicitTag<Sequence>) -> Seq<u8>;
/// BER decode into the shape of `message`: keeps the shape (keys) or fails
#[verifier::external_body]
pub fn from_ber(message: &mut ImplicitTag<Sequence>, stream: &[u8]) -> (r: RdpResult<()>)
    ensures final(message).inner.skeys() == old(message).inner.skeys(), final(message).inner.octet_keys() == old(message).inner.octet_keys()
{ unimplemented!() }
