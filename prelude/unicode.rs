// ===== prelude/unicode.rs — UTF-16LE (src/model/unicode.rs `String::to_unicode`, src/nla/ntlm.rs `unicode`) =====
// TRUSTED here: `utf16_units` (what std's str::encode_utf16 yields), its length axiom, the exec stand-in `encode_utf16_units`, and the
// callable contract of `String::to_unicode` (its real body is PROVED against the identical clause in unit `text`).
// Everything else (units_le, utf16le, the length facts of utf16le) is defined / proved.

/// TRUSTED (std): the UTF-16 code units that `str::encode_utf16` yields for a string, in order (uninterpreted)
pub uninterp spec fn utf16_units(s: Seq<char>) -> Seq<u16>;
/// TRUSTED axiom (std / Unicode): every char becomes one code unit (BMP) or two (surrogate pair)
pub broadcast axiom fn axiom_utf16_units_len(s: Seq<char>)
    ensures s.len() <= #[trigger] utf16_units(s).len() <= 2 * s.len();

/// the little-endian bytes of a sequence of 16-bit units: concatenation of le16(x), in order
pub open spec fn units_le(u: Seq<u16>) -> Seq<u8>
    decreases u.len()
{
    if u.len() == 0 { Seq::empty() } else { units_le(u.drop_last()) + le16(u.last()) }
}
/// PROVED: two bytes per unit
pub proof fn lemma_units_le_len(u: Seq<u16>)
    ensures units_le(u).len() == 2 * u.len()
    decreases u.len()
{
    if u.len() > 0 { lemma_units_le_len(u.drop_last()); }
}
/// PROVED: one more unit appends its two bytes (the step of the encoding loops)
pub proof fn lemma_units_le_push(u: Seq<u16>, x: u16)
    ensures units_le(u.push(x)) == units_le(u) + le16(x)
{
    assert(u.push(x).drop_last() =~= u);
}

/// UTF-16LE encoding of a string: the code units of encode_utf16, each written little-endian.
/// Opaque: units that only need the length facts see an uninterpreted function (as before); `reveal(utf16le)` gives the definition.
#[verifier::opaque]
pub open spec fn utf16le(s: Seq<char>) -> Seq<u8> { units_le(utf16_units(s)) }

/// PROVED (was an axiom): even length, between 2 and 4 bytes per char.  The name is historical (units mcs, sec, ntlm, connector use it).
pub broadcast proof fn axiom_utf16le_len(s: Seq<char>)
    ensures #[trigger] utf16le(s).len() % 2 == 0, 2 * s.len() <= utf16le(s).len() <= 4 * s.len()
{
    reveal(utf16le);
    lemma_units_le_len(utf16_units(s));
    axiom_utf16_units_len(s);
}

/// TRUSTED std stand-in for the iterator `s.encode_utf16()` (Verus has no model of core::str::EncodeUtf16): the same code units, collected.
/// The declared rewrite R6 of the two encoding loops (`for c in x.encode_utf16() {` -> index loop over this vector) goes through it.
#[verifier::external_body]
pub fn encode_utf16_units(s: &String) -> (r: Vec<u16>)
    ensures r@ == utf16_units(s@)
{ s.encode_utf16().collect() }

pub trait Unicode {
    fn to_unicode(&self) -> (r: Vec<u8>);
}
impl Unicode for String {
    // contract proved for the real body in unit text (specs/text.py: same clause text, checked on every assembly)
    #[verifier::external_body]
    fn to_unicode(&self) -> (r: Vec<u8>)
        ensures r@ == utf16le(self@)
    { unimplemented!() }
}
