// ===== prelude/unicode.rs — TRUSTED: src/model/unicode.rs `String::to_unicode` (UTF-16LE through std's encode_utf16) =====
/// UTF-16LE encoding of a string; only structural facts are exposed
pub uninterp spec fn utf16le(s: Seq<char>) -> Seq<u8>;
pub broadcast axiom fn axiom_utf16le_len(s: Seq<char>)
    ensures #[trigger] utf16le(s).len() % 2 == 0, 2 * s.len() <= utf16le(s).len() <= 4 * s.len();
pub trait Unicode {
    fn to_unicode(&self) -> (r: Vec<u8>);
}
impl Unicode for String {
    #[verifier::external_body]
    fn to_unicode(&self) -> (r: Vec<u8>)
        ensures r@ == utf16le(self@)
    { unimplemented!() }
}
