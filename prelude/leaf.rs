// ===== prelude/leaf.rs — leaf Message impls as contracts (the real bodies are verified in unit `engine`) =====
impl Message for u8 {
    open spec fn mv(&self) -> MV { MV::U8(*self) }
    #[verifier::external_body]
    fn write<W: Write>(&self, writer: &mut W) -> (r: RdpResult<()>) { unimplemented!() }
    #[verifier::external_body]
    fn read<R: Read>(&mut self, reader: &mut R) -> (r: RdpResult<()>)
        ensures r is Ok ==> old(reader).rest().len() >= 1 && *final(self) == old(reader).rest()[0] && final(reader).rest() == old(reader).rest().skip(1),
            final(reader).wr() == old(reader).wr(),
    { unimplemented!() }
    #[verifier::external_body]
    fn length(&self) -> (r: u64) { unimplemented!() }
    #[verifier::external_body]
    fn visit(&self) -> (r: DataType) { unimplemented!() }
    #[verifier::external_body]
    fn options(&self) -> (r: MessageOption) { unimplemented!() }
}

impl Message for U16 {
    open spec fn mv(&self) -> MV { match *self { Value::BE(v) => MV::U16(v, false), Value::LE(v) => MV::U16(v, true) } }
    #[verifier::external_body]
    fn write<W: Write>(&self, writer: &mut W) -> (r: RdpResult<()>) { unimplemented!() }
    #[verifier::external_body]
    fn read<R: Read>(&mut self, reader: &mut R) -> (r: RdpResult<()>)
        ensures r is Ok ==> old(reader).rest().len() >= 2 && ((*old(self)) is LE <==> (*final(self)) is LE)
                && final(self).val() == dec16(old(reader).rest(), (*old(self)) is LE) && final(reader).rest() == old(reader).rest().skip(2),
            final(reader).wr() == old(reader).wr(),
    { unimplemented!() }
    #[verifier::external_body]
    fn length(&self) -> (r: u64) { unimplemented!() }
    #[verifier::external_body]
    fn visit(&self) -> (r: DataType) { unimplemented!() }
    #[verifier::external_body]
    fn options(&self) -> (r: MessageOption) { unimplemented!() }
}

impl Message for U32 {
    open spec fn mv(&self) -> MV { match *self { Value::BE(v) => MV::U32(v, false), Value::LE(v) => MV::U32(v, true) } }
    #[verifier::external_body]
    fn write<W: Write>(&self, writer: &mut W) -> (r: RdpResult<()>) { unimplemented!() }
    #[verifier::external_body]
    fn read<R: Read>(&mut self, reader: &mut R) -> (r: RdpResult<()>)
        ensures r is Ok ==> old(reader).rest().len() >= 4 && ((*old(self)) is LE <==> (*final(self)) is LE)
                && final(self).val() == dec32(old(reader).rest(), (*old(self)) is LE) && final(reader).rest() == old(reader).rest().skip(4),
            final(reader).wr() == old(reader).wr(),
    { unimplemented!() }
    #[verifier::external_body]
    fn length(&self) -> (r: u64) { unimplemented!() }
    #[verifier::external_body]
    fn visit(&self) -> (r: DataType) { unimplemented!() }
    #[verifier::external_body]
    fn options(&self) -> (r: MessageOption) { unimplemented!() }
}

impl Message for Vec<u8> {
    open spec fn mv(&self) -> MV { MV::Bytes(self@) }
    #[verifier::external_body]
    fn write<W: Write>(&self, writer: &mut W) -> (r: RdpResult<()>) { unimplemented!() }
    /// an empty Vec reads to the end of the (sub-)stream, a sized one reads exactly its size
    #[verifier::external_body]
    fn read<R: Read>(&mut self, reader: &mut R) -> (r: RdpResult<()>)
        ensures
            r is Ok && old(self)@.len() == 0 ==> final(self)@ == old(reader).rest() && final(reader).rest().len() == 0,
    { unimplemented!() }
    #[verifier::external_body]
    fn length(&self) -> (r: u64) { unimplemented!() }
    #[verifier::external_body]
    fn visit(&self) -> (r: DataType) { unimplemented!() }
    #[verifier::external_body]
    fn options(&self) -> (r: MessageOption) { unimplemented!() }
}

impl<T: Message> Message for Check<T> {
    open spec fn mv(&self) -> MV { MV::Check(Box::new(self.value.mv())) }
    #[verifier::external_body]
    fn write<W: Write>(&self, writer: &mut W) -> (r: RdpResult<()>) { unimplemented!() }
    #[verifier::external_body]
    fn read<R: Read>(&mut self, reader: &mut R) -> (r: RdpResult<()>) { unimplemented!() }
    #[verifier::external_body]
    fn length(&self) -> (r: u64) { unimplemented!() }
    #[verifier::external_body]
    fn visit(&self) -> (r: DataType) { unimplemented!() }
    #[verifier::external_body]
    fn options(&self) -> (r: MessageOption) { unimplemented!() }
}

impl<T: Message> Message for Option<T> {
    open spec fn mv(&self) -> MV { MV::Opt(match *self { Some(v) => Some(Box::new(v.mv())), None => None }) }
    #[verifier::external_body]
    fn write<W: Write>(&self, writer: &mut W) -> (r: RdpResult<()>) { unimplemented!() }
    /// never fails: an inner failure turns the field into None
    #[verifier::external_body]
    fn read<R: Read>(&mut self, reader: &mut R) -> (r: RdpResult<()>)
        ensures r is Ok
    { unimplemented!() }
    #[verifier::external_body]
    fn length(&self) -> (r: u64) { unimplemented!() }
    #[verifier::external_body]
    fn visit(&self) -> (r: DataType) { unimplemented!() }
    #[verifier::external_body]
    fn options(&self) -> (r: MessageOption) { unimplemented!() }
}
