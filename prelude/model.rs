// ===== prelude/model.rs — TRUSTED engine contract for src/model/data.rs (Component / Trame / Array / DynOption) =====
// Ghost view of a message tree
pub enum OV { None, Skip(Seq<char>), Size(Seq<char>, usize) }

pub enum MV {
    U8(u8),
    U16(u16, bool),
    U32(u32, bool),
    Bytes(Seq<u8>),
    Trame(Seq<MV>),
    Comp(Seq<(Seq<char>, MV)>),
    Check(Box<MV>),
    Opt(Option<Box<MV>>),
    Dyn(Box<MV>, OV),
    /// elements, prototype produced by the factory
    Arr(Seq<MV>, Box<MV>),
}

pub open spec fn opt_of(m: MV) -> OV { match m { MV::Dyn(_, o) => o, _ => OV::None } }

/// serialization = what Message::write emits
pub open spec fn ser(m: MV) -> Seq<u8>
    decreases m, 1int, 0int
{
    match m {
        MV::U8(v) => seq![v],
        MV::U16(v, le) => enc16(v, le),
        MV::U32(v, le) => enc32(v, le),
        MV::Bytes(b) => b,
        MV::Trame(s) => ser_seq_from(s, 0),
        MV::Comp(f) => ser_fields_from(f, 0, Set::empty()),
        MV::Check(b) => ser(*b),
        MV::Opt(o) => match o { Some(b) => ser(*b), None => Seq::empty() },
        MV::Dyn(b, _) => ser(*b),
        MV::Arr(s, _) => ser_seq_from(s, 0),
    }
}

pub open spec fn ser_seq(s: Seq<MV>) -> Seq<u8> { ser_seq_from(s, 0) }

pub open spec fn ser_seq_from(s: Seq<MV>, i: int) -> Seq<u8>
    decreases s, 0int, s.len() - i
{
    if i < 0 || i >= s.len() { Seq::empty() } else { ser(s[i]) + ser_seq_from(s, i + 1) }
}

/// Component::write: fields in insertion order; a field whose name an earlier field asked to skip is omitted
pub open spec fn ser_fields(f: Seq<(Seq<char>, MV)>, skip: Set<Seq<char>>) -> Seq<u8> { ser_fields_from(f, 0, skip) }

pub open spec fn ser_fields_from(f: Seq<(Seq<char>, MV)>, i: int, skip: Set<Seq<char>>) -> Seq<u8>
    decreases f, 0int, f.len() - i
{
    if i < 0 || i >= f.len() { Seq::empty() }
    else if skip.contains(f[i].0) { ser_fields_from(f, i + 1, skip) }
    else {
        let skip2 = match opt_of(f[i].1) { OV::Skip(k) => skip.insert(k), _ => skip };
        ser(f[i].1) + ser_fields_from(f, i + 1, skip2)
    }
}

/// what Message::read preserves: constructors, field names, endianness, constants under Check
pub open spec fn same_shape(a: MV, b: MV) -> bool
    decreases a
{
    match (a, b) {
        (MV::U8(_), MV::U8(_)) => true,
        (MV::U16(_, l1), MV::U16(_, l2)) => l1 == l2,
        (MV::U32(_, l1), MV::U32(_, l2)) => l1 == l2,
        (MV::Bytes(x), MV::Bytes(y)) => x.len() == 0 || x.len() == y.len(),
        (MV::Trame(s1), MV::Trame(s2)) => s1.len() == s2.len() && forall|i: int| #![trigger s1[i]] #![trigger s2[i]] 0 <= i < s1.len() ==> same_shape(s1[i], s2[i]),
        (MV::Comp(f1), MV::Comp(f2)) => f1.len() == f2.len() && forall|i: int| #![trigger f1[i]] #![trigger f2[i]] 0 <= i < f1.len() ==> f1[i].0 == f2[i].0 && same_shape(f1[i].1, f2[i].1),
        (MV::Check(x), MV::Check(y)) => *x == *y,
        (MV::Opt(Some(x)), MV::Opt(Some(y))) => same_shape(*x, *y),
        (MV::Opt(_), MV::Opt(None)) => true,
        (MV::Dyn(x, _), MV::Dyn(y, _)) => same_shape(*x, *y),
        (MV::Arr(_, p1), MV::Arr(s2, p2)) => *p1 == *p2 && forall|i: int| 0 <= i < s2.len() ==> same_shape(*p1, #[trigger] s2[i]),
        _ => false,
    }
}

/// layouts whose wire size does not depend on the data (no DynOption / Option / Array / unsized Vec<u8>)
pub open spec fn is_static(m: MV) -> bool
    decreases m
{
    match m {
        MV::U8(_) => true,
        MV::U16(_, _) => true,
        MV::U32(_, _) => true,
        MV::Bytes(b) => b.len() > 0,
        MV::Trame(s) => forall|i: int| 0 <= i < s.len() ==> is_static(#[trigger] s[i]),
        MV::Comp(f) => forall|i: int| 0 <= i < f.len() ==> is_static((#[trigger] f[i]).1),
        MV::Check(b) => is_static(*b),
        _ => false,
    }
}

/// layouts without DynOption / Option / Array: every field is read in order, a sized Vec<u8> reads exactly its size, an empty one reads
/// to the end of the (sub-)stream: the bytes consumed are exactly the serialization of what was read
pub open spec fn is_plain(m: MV) -> bool
    decreases m
{
    match m {
        MV::U8(_) => true,
        MV::U16(_, _) => true,
        MV::U32(_, _) => true,
        MV::Bytes(_) => true,
        MV::Trame(s) => forall|i: int| 0 <= i < s.len() ==> is_plain(#[trigger] s[i]),
        MV::Comp(f) => forall|i: int| 0 <= i < f.len() ==> is_plain((#[trigger] f[i]).1),
        MV::Check(b) => is_plain(*b),
        _ => false,
    }
}

/// a lower bound on the bytes a successful read consumes: leaves have their width, a record at least its fields up to and including the
/// first DynOption field (no earlier option can have skipped or resized them)
pub open spec fn min_wire_len(m: MV) -> nat
    decreases m, 1int, 0int
{
    match m {
        MV::U8(_) => 1,
        MV::U16(_, _) => 2,
        MV::U32(_, _) => 4,
        MV::Bytes(b) => b.len(),
        MV::Check(b) => min_wire_len(*b),
        MV::Dyn(b, _) => min_wire_len(*b),
        MV::Comp(f) => min_fields_from(f, 0),
        _ => 0,
    }
}
pub open spec fn min_fields_from(f: Seq<(Seq<char>, MV)>, i: int) -> nat
    decreases f, 0int, f.len() - i
{
    if i < 0 || i >= f.len() { 0 } else if f[i].1 is Dyn { min_wire_len(f[i].1) } else { min_wire_len(f[i].1) + min_fields_from(f, i + 1) }
}

/// no Array inside holds elements yet (Array::read APPENDS to what is already there: the consumption bound below is for fresh layouts)
pub open spec fn arrays_empty(m: MV) -> bool
    decreases m
{
    match m {
        MV::Trame(s) => forall|i: int| 0 <= i < s.len() ==> arrays_empty(#[trigger] s[i]),
        MV::Comp(f) => forall|i: int| 0 <= i < f.len() ==> arrays_empty((#[trigger] f[i]).1),
        MV::Check(b) => arrays_empty(*b),
        MV::Opt(o) => match o { Some(b) => arrays_empty(*b), None => true },
        MV::Dyn(b, _) => arrays_empty(*b),
        MV::Arr(s, p) => s.len() == 0 && arrays_empty(*p),
        _ => true,
    }
}

pub enum MessageOption {
    SkipField(String),
    Size(String, usize),
    None
}

impl MessageOption {
    pub open spec fn ov(&self) -> OV {
        match *self {
            MessageOption::SkipField(s) => OV::Skip(s@),
            MessageOption::Size(s, n) => OV::Size(s@, n),
            MessageOption::None => OV::None,
        }
    }
}

pub enum DataType<'a> {
    Component(&'a Component),
    Trame(&'a Trame),
    U32(u32),
    U16(u16),
    U8(u8),
    Slice(&'a [u8]),
    None
}

/// Message::visit
pub open spec fn dt_matches(d: DataType, m: MV) -> bool
    decreases m
{
    match m {
        MV::U8(v) => d == DataType::U8(v),
        MV::U16(v, _) => d == DataType::U16(v),
        MV::U32(v, _) => d == DataType::U32(v),
        MV::Bytes(b) => d is Slice && d->Slice_0@ == b,
        MV::Trame(s) => d is Trame && trame_view(d->Trame_0@) == s,
        MV::Comp(f) => d is Component && d->Component_0.fields() == f,
        MV::Check(b) => dt_matches(d, *b),
        MV::Opt(o) => match o { Some(b) => dt_matches(d, *b), None => d is None },
        MV::Dyn(b, _) => dt_matches(d, *b),
        MV::Arr(s, _) => d is Trame && trame_view(d->Trame_0@) == s,
    }
}

pub trait Message: Sized {
    spec fn mv(&self) -> MV;
    /// every option options() can ever return for this object (a DynOption: every possible result of its closure); leaves: only None
    open spec fn ov_range(&self) -> Set<OV> { set![OV::None] }

    fn write<W: Write>(&self, writer: &mut W) -> (r: RdpResult<()>)
        ensures
            r is Ok ==> final(writer).written() == old(writer).written() + ser(self.mv()),
            r is Err ==> is_prefix(old(writer).written(), final(writer).written()),
            !automata_err(r);

    fn read<R: Read>(&mut self, reader: &mut R) -> (r: RdpResult<()>)
        ensures
            is_suffix(final(reader).rest(), old(reader).rest()),
            r is Ok ==> same_shape(old(self).mv(), final(self).mv()),
            r is Ok && is_static(old(self).mv()) ==> ({
                let n = ser(old(self).mv()).len() as int;
                &&& old(reader).rest().len() >= n
                &&& ser(final(self).mv()) == old(reader).rest().take(n)
                &&& final(reader).rest() == old(reader).rest().skip(n)
            }),
            r is Ok && is_plain(old(self).mv()) ==> old(reader).rest() == ser(final(self).mv()) + final(reader).rest(),
            r is Ok ==> old(reader).rest().len() >= final(reader).rest().len() + min_wire_len(old(self).mv()),
            // what was read was consumed: every non-skipped field took at least its own serialization from the stream
            r is Ok && arrays_empty(old(self).mv()) ==> ser(final(self).mv()).len() + final(reader).rest().len() <= old(reader).rest().len();

    fn length(&self) -> (r: u64)
        ensures r == ser(self.mv()).len();

    fn visit(&self) -> (r: DataType)
        ensures dt_matches(r, self.mv());

    fn options(&self) -> (r: MessageOption)
        ensures r.ov() == opt_of(self.mv());
}

/// A boxed message inside a container (stands for Box<dyn Message>)
#[verifier::external_body]
pub struct Field { _p: () }

impl Field {
    pub uninterp spec fn fview(&self) -> MV;
    pub uninterp spec fn frange(&self) -> Set<OV>;

    #[verifier::external_body]
    pub fn of<M: Message>(m: Box<M>) -> (r: Field)
        ensures r.fview() == m.mv(), r.frange() == m.ov_range()
    { unimplemented!() }
}

impl Message for Field {
    open spec fn mv(&self) -> MV { self.fview() }
    open spec fn ov_range(&self) -> Set<OV> { self.frange() }
    #[verifier::external_body]
    fn write<W: Write>(&self, writer: &mut W) -> (r: RdpResult<()>) { unimplemented!() }
    #[verifier::external_body]
    fn read<R: Read>(&mut self, reader: &mut R) -> (r: RdpResult<()>) { unimplemented!() }
    #[verifier::external_body]
    fn length(&self) -> (r: u64) { unimplemented!() }
    #[verifier::external_body]
    fn visit(&self) -> (r: DataType) { unimplemented!() }
    #[verifier::external_body]
    fn options(&self) -> (r: MessageOption) { unimplemented!() }
}

/// Trame = Vec<Box<dyn Message>>
pub type Trame = Vec<Field>;

pub open spec fn trame_view(s: Seq<Field>) -> Seq<MV> {
    Seq::new(s.len(), |i: int| s[i].fview())
}

impl Message for Trame {
    open spec fn mv(&self) -> MV { MV::Trame(trame_view(self@)) }
    #[verifier::external_body]
    fn write<W: Write>(&self, writer: &mut W) -> (r: RdpResult<()>) { unimplemented!() }
    #[verifier::external_body]
    fn read<R: Read>(&mut self, reader: &mut R) -> (r: RdpResult<()>) { unimplemented!() }
    #[verifier::external_body]
    fn length(&self) -> (r: u64) { unimplemented!() }
    #[verifier::external_body]
    fn visit(&self) -> (r: DataType) { unimplemented!() }
    #[verifier::external_body]
    fn options(&self) -> (r: MessageOption) { unimplemented!() }
}

/// Component = IndexMap<String, Box<dyn Message>>
#[verifier::external_body]
pub struct Component { _p: () }

pub open spec fn has_key(f: Seq<(Seq<char>, MV)>, k: Seq<char>) -> bool {
    exists|i: int| 0 <= i < f.len() && (#[trigger] f[i]).0 == k
}

pub open spec fn first_key(f: Seq<(Seq<char>, MV)>, k: Seq<char>) -> int {
    choose|i: int| 0 <= i < f.len() && (#[trigger] f[i]).0 == k && forall|j: int| 0 <= j < i ==> (#[trigger] f[j]).0 != k
}

impl Component {
    pub uninterp spec fn fields(&self) -> Seq<(Seq<char>, MV)>;
    /// per field: every option that field can ever yield
    pub uninterp spec fn ranges(&self) -> Seq<Set<OV>>;
    /// TRUSTED invariant of every Component: the option a field yields now is one of those it can yield (the engine obtains it by calling the field's closure)
    pub broadcast axiom fn axiom_ranges(&self)
        ensures #[trigger] self.ranges().len() == self.fields().len(),
            forall|i: int| 0 <= i < self.fields().len() ==> #[trigger] self.ranges()[i].contains(opt_of(self.fields()[i].1));

    #[verifier::external_body]
    pub fn new() -> (r: Self)
        ensures r.fields() == Seq::<(Seq<char>, MV)>::empty(), r.ranges() == Seq::<Set<OV>>::empty()
    { unimplemented!() }

    /// IndexMap::insert of a key not yet present (distinctness of the literal keys of one component! is
    /// checked syntactically by the extractor): appended at the end.
    #[verifier::external_body]
    pub fn insert<M: Message>(&mut self, k: String, v: Box<M>) -> (r: Option<Field>)
        ensures final(self).fields() == old(self).fields().push((k@, v.mv())), final(self).ranges() == old(self).ranges().push(v.ov_range())
    { unimplemented!() }
}

impl Message for Component {
    open spec fn mv(&self) -> MV { MV::Comp(self.fields()) }
    #[verifier::external_body]
    fn write<W: Write>(&self, writer: &mut W) -> (r: RdpResult<()>) { unimplemented!() }
    #[verifier::external_body]
    fn read<R: Read>(&mut self, reader: &mut R) -> (r: RdpResult<()>)
        ensures final(self).ranges() == old(self).ranges()
    { unimplemented!() }
    #[verifier::external_body]
    fn length(&self) -> (r: u64) { unimplemented!() }
    #[verifier::external_body]
    fn visit(&self) -> (r: DataType) { unimplemented!() }
    #[verifier::external_body]
    fn options(&self) -> (r: MessageOption) { unimplemented!() }
}

/// component["name"]: IndexMap panics on a missing key -> obligation at every index site
impl vstd::std_specs::core::IndexSpecImpl<&str> for Component {
    open spec fn index_req(&self, index: &&str) -> bool { has_key(self.fields(), index@) }
}
impl core::ops::Index<&str> for Component {
    type Output = Field;
    #[verifier::external_body]
    fn index(&self, k: &str) -> (r: &Field)
        ensures r.fview() == self.fields()[first_key(self.fields(), k@)].1
    { unimplemented!() }
}

#[verifier::allow(autoderive_clone_without_spec)]
#[derive(Copy, Clone)]
pub enum Value<Type> {
    BE(Type),
    LE(Type)
}
pub type U16 = Value<u16>;
pub type U32 = Value<u32>;

impl<Type: Copy> Value<Type> {
    pub open spec fn val(&self) -> Type { match *self { Value::BE(e) => e, Value::LE(e) => e } }
    pub fn inner(&self) -> (r: Type)
        ensures r == self.val()
    {
        match self {
            Value::<Type>::BE(e) | Value::<Type>::LE(e) => *e
        }
    }
}

/// wrapper that checks a constant on read
pub struct Check<T> { pub value: T }
impl<T> Check<T> {
    pub fn new(value: T) -> (r: Self) ensures r.value == value { Check { value } }
}

/// DynOption: inner message + closure computing the parent-directed option from the inner value
#[verifier::external_body]
#[verifier::accept_recursive_types(T)]
pub struct DynOption<T> { inner: T }

impl<T: Message> DynOption<T> {
    pub uninterp spec fn dview(&self) -> MV;
    pub uninterp spec fn drange(&self) -> Set<OV>;

    /// the closure must be callable for EVERY inner value of the same layout (the engine runs it on whatever the peer sent
    /// into that layout); its result for the current value is recorded
    #[verifier::external_body]
    pub fn new<F: Fn(&T) -> MessageOption>(current: T, filter: F) -> (r: Self)
        requires forall|t: &T| same_shape(current.mv(), t.mv()) ==> #[trigger] call_requires(filter, (t,))
        ensures
            r.dview() matches MV::Dyn(b, o) && *b == current.mv()
                && (exists|mo: MessageOption| #![auto] call_ensures(filter, (&current,), mo) && mo.ov() == o),
            forall|o: OV| #[trigger] r.drange().contains(o) ==> exists|t: T, mo: MessageOption| #![auto] same_shape(current.mv(), t.mv()) && call_ensures(filter, (&t,), mo) && mo.ov() == o
    { unimplemented!() }
}

impl<T: Message> Message for DynOption<T> {
    open spec fn mv(&self) -> MV { self.dview() }
    open spec fn ov_range(&self) -> Set<OV> { self.drange() }
    #[verifier::external_body]
    fn write<W: Write>(&self, writer: &mut W) -> (r: RdpResult<()>) { unimplemented!() }
    #[verifier::external_body]
    fn read<R: Read>(&mut self, reader: &mut R) -> (r: RdpResult<()>) { unimplemented!() }
    #[verifier::external_body]
    fn length(&self) -> (r: u64) { unimplemented!() }
    #[verifier::external_body]
    fn visit(&self) -> (r: DataType) { unimplemented!() }
    #[verifier::external_body]
    fn options(&self) -> (r: MessageOption) { unimplemented!() }
}

/// Array: elements built by a factory until the (sub-)stream is exhausted
#[verifier::external_body]
#[verifier::accept_recursive_types(T)]
pub struct Array<T> { _p: core::marker::PhantomData<T> }

impl<T: Message> Array<T> {
    pub uninterp spec fn aview(&self) -> MV;

    #[verifier::external_body]
    pub fn new<F: Fn() -> T>(factory: F) -> (r: Self)
        requires
            call_requires(factory, ()),
            forall|a: T, b: T| #![auto] call_ensures(factory, (), a) && call_ensures(factory, (), b) ==> a.mv() == b.mv(),
        ensures
            r.aview() matches MV::Arr(s, p) && s.len() == 0
                && (exists|a: T| #![auto] call_ensures(factory, (), a) && a.mv() == *p)
    { unimplemented!() }

    #[verifier::external_body]
    pub fn from_trame(inner: Trame) -> (r: Self)
        ensures r.aview() matches MV::Arr(s, p) && s == trame_view(inner@)
    { unimplemented!() }

    #[verifier::external_body]
    pub fn inner(&self) -> (r: &Trame)
        ensures self.aview() matches MV::Arr(s, p) && s == trame_view(r@)
    { unimplemented!() }
}

impl<T: Message> Message for Array<T> {
    open spec fn mv(&self) -> MV { self.aview() }
    #[verifier::external_body]
    fn write<W: Write>(&self, writer: &mut W) -> (r: RdpResult<()>) { unimplemented!() }
    #[verifier::external_body]
    fn read<R: Read>(&mut self, reader: &mut R) -> (r: RdpResult<()>) { unimplemented!() }
    #[verifier::external_body]
    fn length(&self) -> (r: u64) { unimplemented!() }
    #[verifier::external_body]
    fn visit(&self) -> (r: DataType) { unimplemented!() }
    #[verifier::external_body]
    fn options(&self) -> (r: MessageOption) { unimplemented!() }
}

/// model::data::to_vec — `message.write(&mut Cursor::new(Vec::new())).unwrap()`; a Cursor<Vec<u8>> never fails
#[verifier::external_body]
pub fn to_vec(message: &impl Message) -> (r: Vec<u8>)
    ensures r@ == ser(message.mv())
{ unimplemented!() }
