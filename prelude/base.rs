// ===== prelude/base.rs — TRUSTED: errors, byte streams (std::io / byteorder contracts) =====
global size_of usize == 8;  // ASSUMPTION: 64-bit target (usize = u64)
#[derive(Debug, Copy, Clone, Eq, PartialEq)]
pub enum RdpErrorKind {
    InvalidData,
    InvalidRespond,
    NotImplemented,
    ProtocolNegFailure,
    InvalidAutomata,
    InvalidProtocol,
    InvalidCast,
    InvalidConst,
    InvalidChecksum,
    InvalidOptionalField,
    InvalidSize,
    PossibleMITM,
    RejectedByServer,
    Disconnect,
    Unknown,
    UnexpectedType
}

#[derive(Debug)]
pub struct RdpError {
    pub kind: RdpErrorKind,
}

impl RdpError {
    pub fn new(kind: RdpErrorKind, _message: &str) -> (r: Self)
        ensures r.kind == kind
    {
        RdpError { kind }
    }

    pub fn kind(&self) -> (r: RdpErrorKind)
        ensures r == self.kind
    {
        self.kind
    }
}

/// std::io::ErrorKind / std::io::Error stand-ins: an I/O error is opaque except for its kind (nothing is known about WHICH kind a failing
/// transport reports: code that treats some kinds as success must satisfy its contract for every kind)
#[derive(Debug, PartialEq, Eq, Clone, Copy)]
pub enum ErrorKind { NotFound, PermissionDenied, ConnectionRefused, ConnectionReset, ConnectionAborted, NotConnected, AddrInUse, AddrNotAvailable, BrokenPipe,
    AlreadyExists, WouldBlock, InvalidInput, InvalidData, TimedOut, WriteZero, Interrupted, Unsupported, UnexpectedEof, OutOfMemory, Other }
impl vstd::std_specs::cmp::PartialEqSpecImpl for ErrorKind {
    open spec fn obeys_eq_spec() -> bool { true }
    open spec fn eq_spec(&self, other: &ErrorKind) -> bool { *self == *other }
}
#[verifier::external_body]
#[derive(Debug)]
pub struct IoError { _p: () }
impl IoError {
    pub uninterp spec fn kind_spec(&self) -> ErrorKind;
    #[verifier::external_body]
    pub fn kind(&self) -> (r: ErrorKind)
        ensures r == self.kind_spec()
    { unimplemented!() }
}

#[derive(Debug)]
pub enum Error {
    RdpError(RdpError),
    Io(IoError),
    SslHandshakeError,
    SslError,
    ASN1Error,
    TryError,
}

pub type RdpResult<T> = Result<T, Error>;

/// std::cell::Cell stand-in: interior mutability is outside Verus' std support; `get` returns an UNSPECIFIED value
/// (sound over-approximation: nothing can be proved from a Cell's content, so code whose behaviour depends on it
/// must satisfy its contract for every content)
#[verifier::external_body]
#[verifier::reject_recursive_types(T)]
pub struct Cell<T> { _p: core::marker::PhantomData<T> }
impl<T: Copy> Cell<T> {
    #[verifier::external_body]
    pub fn new(v: T) -> (r: Cell<T>) { unimplemented!() }
    #[verifier::external_body]
    pub fn get(&self) -> (r: T) { unimplemented!() }
    #[verifier::external_body]
    pub fn set(&self, v: T) { unimplemented!() }
}


/// the error that RdpClient::try_write swallows; I/O and serialization never produce it
pub open spec fn automata_err<T>(r: RdpResult<T>) -> bool {
    r is Err && r->Err_0 is RdpError && r->Err_0->RdpError_0.kind == RdpErrorKind::InvalidAutomata
}

pub open spec fn is_suffix(s: Seq<u8>, of: Seq<u8>) -> bool {
    s.len() <= of.len() && forall|i: int| 0 <= i < s.len() ==> #[trigger] s[i] == of[of.len() - s.len() + i]
}

pub open spec fn is_prefix(p: Seq<u8>, of: Seq<u8>) -> bool {
    p.len() <= of.len() && forall|i: int| 0 <= i < p.len() ==> #[trigger] p[i] == of[i]
}

pub open spec fn le16(v: u16) -> Seq<u8> { seq![(v & 0xff) as u8, ((v >> 8) & 0xff) as u8] }
pub open spec fn be16(v: u16) -> Seq<u8> { seq![((v >> 8) & 0xff) as u8, (v & 0xff) as u8] }
pub open spec fn le32(v: u32) -> Seq<u8> { seq![(v & 0xff) as u8, ((v >> 8) & 0xff) as u8, ((v >> 16) & 0xff) as u8, ((v >> 24) & 0xff) as u8] }
pub open spec fn be32(v: u32) -> Seq<u8> { seq![((v >> 24) & 0xff) as u8, ((v >> 16) & 0xff) as u8, ((v >> 8) & 0xff) as u8, (v & 0xff) as u8] }
pub open spec fn u16_le(b0: u8, b1: u8) -> u16 { (b0 as u16) | ((b1 as u16) << 8) }
pub open spec fn u16_be(b0: u8, b1: u8) -> u16 { ((b0 as u16) << 8) | (b1 as u16) }
pub open spec fn u32_le(b0: u8, b1: u8, b2: u8, b3: u8) -> u32 { (b0 as u32) | ((b1 as u32) << 8) | ((b2 as u32) << 16) | ((b3 as u32) << 24) }
pub open spec fn u32_be(b0: u8, b1: u8, b2: u8, b3: u8) -> u32 { ((b0 as u32) << 24) | ((b1 as u32) << 16) | ((b2 as u32) << 8) | (b3 as u32) }

pub trait ByteOrder {
    spec fn le() -> bool;
}
pub struct LittleEndian;
pub struct BigEndian;
impl ByteOrder for LittleEndian { open spec fn le() -> bool { true } }
impl ByteOrder for BigEndian { open spec fn le() -> bool { false } }

pub open spec fn enc16(v: u16, le: bool) -> Seq<u8> { if le { le16(v) } else { be16(v) } }
pub open spec fn enc32(v: u32, le: bool) -> Seq<u8> { if le { le32(v) } else { be32(v) } }
pub open spec fn dec16(s: Seq<u8>, le: bool) -> u16 { if le { u16_le(s[0], s[1]) } else { u16_be(s[0], s[1]) } }
pub open spec fn dec32(s: Seq<u8>, le: bool) -> u32 { if le { u32_le(s[0], s[1], s[2], s[3]) } else { u32_be(s[0], s[1], s[2], s[3]) } }

/// std::io::Read + byteorder::ReadBytesExt.
/// `rest()` is the (prophesied) sequence of bytes the stream will still deliver.
/// A successful sized read returns exactly the next bytes; a failing read consumes some prefix.
pub trait Read: Sized {
    spec fn rest(&self) -> Seq<u8>;
    /// everything else observable about the object (for a duplex stream: what has been written); reads leave it alone
    spec fn wr(&self) -> Seq<u8>;

    fn read_u8(&mut self) -> (r: RdpResult<u8>)
        ensures
            final(self).wr() == old(self).wr(),
            r is Ok ==> old(self).rest().len() >= 1 && r->Ok_0 == old(self).rest()[0]
                && final(self).rest() == old(self).rest().skip(1),
            r is Err ==> is_suffix(final(self).rest(), old(self).rest());

    fn read_u16<E: ByteOrder>(&mut self) -> (r: RdpResult<u16>)
        ensures
            final(self).wr() == old(self).wr(),
            r is Ok ==> old(self).rest().len() >= 2 && r->Ok_0 == dec16(old(self).rest(), E::le())
                && final(self).rest() == old(self).rest().skip(2),
            r is Err ==> is_suffix(final(self).rest(), old(self).rest());

    fn read_u32<E: ByteOrder>(&mut self) -> (r: RdpResult<u32>)
        ensures
            final(self).wr() == old(self).wr(),
            r is Ok ==> old(self).rest().len() >= 4 && r->Ok_0 == dec32(old(self).rest(), E::le())
                && final(self).rest() == old(self).rest().skip(4),
            r is Err ==> is_suffix(final(self).rest(), old(self).rest());

    /// std: fills `buf` completely or fails.
    fn read_exact(&mut self, buf: &mut [u8]) -> (r: RdpResult<()>)
        ensures
            final(self).wr() == old(self).wr(),
            final(buf)@.len() == old(buf)@.len(),
            r is Ok ==> old(self).rest().len() >= old(buf)@.len()
                && final(buf)@ == old(self).rest().take(old(buf)@.len() as int)
                && final(self).rest() == old(self).rest().skip(old(buf)@.len() as int),
            r is Err ==> is_suffix(final(self).rest(), old(self).rest());

    /// std: returns ANY prefix of what is left that fits (short reads allowed); 0 only at end of
    /// stream or for an empty buffer.
    fn read(&mut self, buf: &mut [u8]) -> (r: RdpResult<usize>)
        ensures
            final(self).wr() == old(self).wr(),
            final(buf)@.len() == old(buf)@.len(),
            r is Ok ==> r->Ok_0 <= old(buf)@.len() && r->Ok_0 <= old(self).rest().len()
                && final(buf)@.take(r->Ok_0 as int) == old(self).rest().take(r->Ok_0 as int)
                && final(self).rest() == old(self).rest().skip(r->Ok_0 as int),
            r is Err ==> is_suffix(final(self).rest(), old(self).rest());

    /// std: appends everything that is left.
    fn read_to_end(&mut self, buf: &mut Vec<u8>) -> (r: RdpResult<usize>)
        ensures
            final(self).wr() == old(self).wr(),
            r is Ok ==> final(buf)@ == old(buf)@ + old(self).rest() && final(self).rest().len() == 0
                && r->Ok_0 == old(self).rest().len(),
            r is Err ==> is_suffix(final(self).rest(), old(self).rest());
}

/// std::io::Write + byteorder::WriteBytesExt.
/// `written()` is everything the sink has accepted so far.
pub trait Write: Sized {
    spec fn written(&self) -> Seq<u8>;
    /// the read side of a duplex stream; writes leave it alone
    spec fn rd(&self) -> Seq<u8>;

    /// std: accepts ANY prefix of `buf` (short writes allowed).
    fn write(&mut self, buf: &[u8]) -> (r: RdpResult<usize>)
        ensures
            !automata_err(r),
            final(self).rd() == old(self).rd(),
            r is Ok ==> r->Ok_0 <= buf@.len()
                && final(self).written() == old(self).written() + buf@.take(r->Ok_0 as int),
            r is Err ==> final(self).written() == old(self).written();

    /// std: everything or an error (after a possibly partial delivery).
    fn write_all(&mut self, buf: &[u8]) -> (r: RdpResult<()>)
        ensures
            !automata_err(r),
            final(self).rd() == old(self).rd(),
            r is Ok ==> final(self).written() == old(self).written() + buf@,
            r is Err ==> is_prefix(old(self).written(), final(self).written())
                && final(self).written().len() <= old(self).written().len() + buf@.len();

    fn write_u8(&mut self, v: u8) -> (r: RdpResult<()>)
        ensures
            !automata_err(r),
            final(self).rd() == old(self).rd(),
            r is Ok ==> final(self).written() == old(self).written() + seq![v],
            r is Err ==> final(self).written() == old(self).written();

    fn write_u16<E: ByteOrder>(&mut self, v: u16) -> (r: RdpResult<()>)
        ensures
            !automata_err(r),
            final(self).rd() == old(self).rd(),
            r is Ok ==> final(self).written() == old(self).written() + enc16(v, E::le()),
            r is Err ==> is_prefix(old(self).written(), final(self).written())
                && final(self).written().len() <= old(self).written().len() + 2;

    fn write_u32<E: ByteOrder>(&mut self, v: u32) -> (r: RdpResult<()>)
        ensures
            !automata_err(r),
            final(self).rd() == old(self).rd(),
            r is Ok ==> final(self).written() == old(self).written() + enc32(v, E::le()),
            r is Err ==> is_prefix(old(self).written(), final(self).written())
                && final(self).written().len() <= old(self).written().len() + 4;
}

/// Anything a std::io::Cursor can wrap in this code base: Vec<u8>, &[u8], &Vec<u8>, [u8; N].
pub trait CursorData: Sized {
    spec fn cbytes(&self) -> Seq<u8>;
}
impl CursorData for Vec<u8> { open spec fn cbytes(&self) -> Seq<u8> { self@ } }
impl<'a> CursorData for &'a [u8] { open spec fn cbytes(&self) -> Seq<u8> { self@ } }
impl<'a> CursorData for &'a Vec<u8> { open spec fn cbytes(&self) -> Seq<u8> { self@ } }
impl<const N: usize> CursorData for [u8; N] { open spec fn cbytes(&self) -> Seq<u8> { self@ } }

/// std::io::Cursor
#[verifier::external_body]
#[verifier::accept_recursive_types(T)]
pub struct Cursor<T> { inner: T, pos: u64 }

impl<T: CursorData> Cursor<T> {
    pub uninterp spec fn data(&self) -> Seq<u8>;
    pub uninterp spec fn pos(&self) -> nat;

    #[verifier::external_body]
    pub fn new(inner: T) -> (r: Self)
        ensures r.data() == inner.cbytes(), r.pos() == 0
    { unimplemented!() }

    #[verifier::external_body]
    pub fn into_inner(self) -> (r: T)
        ensures r.cbytes() == self.data()
    { unimplemented!() }

    #[verifier::external_body]
    pub fn get_ref(&self) -> (r: &T)
        ensures r.cbytes() == self.data()
    { unimplemented!() }

    #[verifier::external_body]
    pub fn position(&self) -> (r: u64)
        ensures r == self.pos()
    { unimplemented!() }

    /// std Cursor::set_position: any position is accepted (beyond the end: nothing left to read)
    #[verifier::external_body]
    pub fn set_position(&mut self, pos: u64)
        ensures final(self).data() == old(self).data(), final(self).pos() == pos
    { unimplemented!() }

    /// BufRead::fill_buf on a Cursor: the unread remainder
    #[verifier::external_body]
    pub fn fill_buf(&mut self) -> (r: RdpResult<&[u8]>)
        ensures r is Ok ==> r->Ok_0@ == old(self).rest(), final(self).data() == old(self).data(), final(self).pos() == old(self).pos()
    { unimplemented!() }
}

pub open spec fn cursor_rest(data: Seq<u8>, pos: nat) -> Seq<u8> {
    if pos <= data.len() { data.skip(pos as int) } else { Seq::empty() }
}

impl<T: CursorData> Read for Cursor<T> {
    open spec fn rest(&self) -> Seq<u8> { cursor_rest(self.data(), self.pos()) }
    open spec fn wr(&self) -> Seq<u8> { self.data() }

    #[verifier::external_body]
    fn read_u8(&mut self) -> (r: RdpResult<u8>)
        ensures final(self).data() == old(self).data(), final(self).pos() >= old(self).pos(),
            (r is Ok) == (old(self).rest().len() >= 1),
            r is Ok ==> final(self).pos() == old(self).pos() + 1,
    { unimplemented!() }
    #[verifier::external_body]
    fn read_u16<E: ByteOrder>(&mut self) -> (r: RdpResult<u16>)
        ensures final(self).data() == old(self).data(), final(self).pos() >= old(self).pos(),
            (r is Ok) == (old(self).rest().len() >= 2),
            r is Ok ==> final(self).pos() == old(self).pos() + 2,
    { unimplemented!() }
    #[verifier::external_body]
    fn read_u32<E: ByteOrder>(&mut self) -> (r: RdpResult<u32>)
        ensures final(self).data() == old(self).data(), final(self).pos() >= old(self).pos(),
            (r is Ok) == (old(self).rest().len() >= 4),
            r is Ok ==> final(self).pos() == old(self).pos() + 4,
    { unimplemented!() }
    #[verifier::external_body]
    fn read_exact(&mut self, buf: &mut [u8]) -> (r: RdpResult<()>)
        ensures final(self).data() == old(self).data(), final(self).pos() >= old(self).pos(),
            (r is Ok) == (old(self).rest().len() >= old(buf)@.len()),
            r is Ok ==> final(self).pos() == old(self).pos() + old(buf)@.len(),
    { unimplemented!() }
    #[verifier::external_body]
    fn read(&mut self, buf: &mut [u8]) -> (r: RdpResult<usize>)
        ensures final(self).data() == old(self).data(), final(self).pos() >= old(self).pos(),
            r is Ok,
            r->Ok_0 == (if old(buf)@.len() <= old(self).rest().len() { old(buf)@.len() } else { old(self).rest().len() }),
            final(self).pos() == old(self).pos() + r->Ok_0,
    { unimplemented!() }
    #[verifier::external_body]
    fn read_to_end(&mut self, buf: &mut Vec<u8>) -> (r: RdpResult<usize>)
        ensures final(self).data() == old(self).data(), r is Ok,
    { unimplemented!() }
}

/// Writing into a Cursor<Vec<u8>> positioned at its end (the only use in this code base): never fails,
/// never short.
impl Write for Cursor<Vec<u8>> {
    open spec fn written(&self) -> Seq<u8> { self.data() }
    open spec fn rd(&self) -> Seq<u8> { cursor_rest(self.data(), self.pos()) }

    #[verifier::external_body]
    fn write(&mut self, buf: &[u8]) -> (r: RdpResult<usize>)
        ensures old(self).pos() == old(self).data().len() ==> r is Ok && r->Ok_0 == buf@.len() && final(self).pos() == final(self).data().len(),
    { unimplemented!() }
    #[verifier::external_body]
    fn write_all(&mut self, buf: &[u8]) -> (r: RdpResult<()>)
        ensures old(self).pos() == old(self).data().len() ==> r is Ok && final(self).pos() == final(self).data().len(),
    { unimplemented!() }
    #[verifier::external_body]
    fn write_u8(&mut self, v: u8) -> (r: RdpResult<()>)
        ensures old(self).pos() == old(self).data().len() ==> r is Ok && final(self).pos() == final(self).data().len(),
    { unimplemented!() }
    #[verifier::external_body]
    fn write_u16<E: ByteOrder>(&mut self, v: u16) -> (r: RdpResult<()>)
        ensures old(self).pos() == old(self).data().len() ==> r is Ok && final(self).pos() == final(self).data().len(),
    { unimplemented!() }
    #[verifier::external_body]
    fn write_u32<E: ByteOrder>(&mut self, v: u32) -> (r: RdpResult<()>)
        ensures old(self).pos() == old(self).data().len() ==> r is Ok && final(self).pos() == final(self).data().len(),
    { unimplemented!() }
}

/// A transport: a type that is both Read and Write and whose two directions are independent (TcpStream,
/// TlsStream).  Rule R3 adds this marker to every `S: Read + Write` bound of the extracted code.
pub trait Duplex: Read + Write {}

/// TRUSTED axiom: reading from a transport does not change what has been written to it, writing does not
/// change what will be read from it.
pub broadcast axiom fn axiom_duplex_w<S: Duplex>(s: &S)
    ensures #[trigger] s.wr() == s.written();
pub broadcast axiom fn axiom_duplex_r<S: Duplex>(s: &S)
    ensures #[trigger] s.rd() == s.rest();
pub broadcast group axiom_duplex { axiom_duplex_w, axiom_duplex_r }

// ---- commutativity of the bitwise operators (PROVED by bit_vector): Verus' default integer encoding leaves & | ^ uninterpreted, so
// `a & b` and `b & a` would be unrelated terms and a harmless operand swap in the code would make a proof fail
pub broadcast proof fn lemma_and_comm_u8(a: u8, b: u8) ensures #[trigger] (a & b) == b & a { assert(a & b == b & a) by(bit_vector); }
pub broadcast proof fn lemma_or_comm_u8(a: u8, b: u8) ensures #[trigger] (a | b) == b | a { assert(a | b == b | a) by(bit_vector); }
pub broadcast proof fn lemma_and_comm_u16(a: u16, b: u16) ensures #[trigger] (a & b) == b & a { assert(a & b == b & a) by(bit_vector); }
pub broadcast proof fn lemma_or_comm_u16(a: u16, b: u16) ensures #[trigger] (a | b) == b | a { assert(a | b == b | a) by(bit_vector); }
pub broadcast proof fn lemma_and_comm_u32(a: u32, b: u32) ensures #[trigger] (a & b) == b & a { assert(a & b == b & a) by(bit_vector); }
pub broadcast proof fn lemma_or_comm_u32(a: u32, b: u32) ensures #[trigger] (a | b) == b | a { assert(a | b == b | a) by(bit_vector); }
pub broadcast group bit_commute { lemma_and_comm_u8, lemma_or_comm_u8, lemma_and_comm_u16, lemma_or_comm_u16, lemma_and_comm_u32, lemma_or_comm_u32 }


// ---- std functions without a vstd specification (TRUSTED: their documented meaning)
pub assume_specification<T: Clone> [<[T]>::to_vec] (s: &[T]) -> (r: Vec<T>)
    ensures r@ == s@;

/// UTF-8 encoding of a string (uninterpreted: only its length bound is used)
pub uninterp spec fn utf8_bytes(s: Seq<char>) -> Seq<u8>;
pub broadcast axiom fn axiom_utf8_len(s: Seq<char>)
    ensures #[trigger] utf8_bytes(s).len() <= 4 * s.len(), utf8_bytes(s).len() >= s.len();
pub assume_specification [std::string::String::as_bytes] (s: &String) -> (r: &[u8])
    ensures r@ == utf8_bytes(s@);
pub assume_specification<T: core::cmp::Ord> [core::cmp::min] (a: T, b: T) -> (r: T)
    ensures r == a || r == b;
pub assume_specification<T: core::cmp::Ord> [core::cmp::max] (a: T, b: T) -> (r: T)
    ensures r == a || r == b;
