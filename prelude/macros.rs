// ===== prelude/macros.rs — the message-model construction macros (engine level, TRUSTED) =====
// Same shape as src/model/data.rs `trame!` / `component!`; the only difference is that the element is
// handed to the prelude container through `Field::of(..)` instead of an unsizing `Box<dyn Message>` coercion.
// Both macros are routed through Verus' expression rewriter (as vstd does for vec!/seq!) so that closures inside
// component![..] may carry Verus contracts (`|x: &U16| -> (r: T) ensures ..`).
#[allow(unused_macros)]
macro_rules! trame {
    [$($tail:tt)*] => { ::vstd::prelude::verus_exec_macro_exprs!(trame_internal!($($tail)*)) };
}
#[allow(unused_macros)]
macro_rules! trame_internal {
    () => { Trame::new() };
    ($( $val: expr ),*) => {{
         let mut vec = Trame::new();
         $( vec.push(Field::of(Box::new($val))); )*
         vec
    }}
}
#[allow(unused_macros)]
macro_rules! component {
    [$($tail:tt)*] => { ::vstd::prelude::verus_exec_macro_exprs!(component_internal!($($tail)*)) };
}
#[allow(unused_macros)]
macro_rules! component_internal {
    () => { Component::new() };
    ($( $key: expr => $val: expr ),*) => {{
         let mut map = Component::new();
         $( map.insert($key.to_string(), Box::new($val)) ; )*
         map
    }}
}
// src/model/data.rs cast!, verbatim
#[allow(unused_macros)]
macro_rules! cast {
    ($ident:path, $expr:expr) => (match $expr.visit() {
        $ident(e) => Ok(e),
        _ => Err(Error::RdpError(RdpError::new(RdpErrorKind::InvalidCast, "Invalid Cast")))
    })
}
// src/model/error.rs try_option!, try_let!, verbatim
#[allow(unused_macros)]
macro_rules! try_option {
    ($val: expr, $expr: expr) => {
         if let Some(x) = $val {
            Ok(x)
         } else {
            Err(Error::RdpError(RdpError::new(RdpErrorKind::InvalidOptionalField, $expr)))
         }
    }
}
#[allow(unused_macros)]
macro_rules! try_let {
    ($ident: path, $val: expr) => {
         if let $ident(x) = $val {
            Ok(x)
         } else {
            Err(Error::RdpError(RdpError::new(RdpErrorKind::InvalidCast, "Invalid Cast")))
         }
    }
}
