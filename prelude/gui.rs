// ===== prelude/gui.rs — TRUSTED: the unsafe primitives of src/bin/mstsc-rs.rs (rule R5) =====
// `transmute_vec<S, T>` itself is NOT a stub any more: its real body is verified (unit gui) above the stand-ins
// below, which carry the safety contracts of the raw operations it is made of.

/// the 32-bit little-endian words of a byte string (x86/ARM LE targets)
pub open spec fn words_le(b: Seq<u8>) -> Seq<u32> {
    Seq::new((b.len() / 4) as nat, |i: int| u32_le(b[4 * i], b[4 * i + 1], b[4 * i + 2], b[4 * i + 3]))
}

/// ghost capacity of a vector (`Vec::capacity` has no Verus specification; the allocator-generic signature that an
/// `assume_specification` needs is behind the unstable `allocator_api` feature)
pub uninterp spec fn vec_capacity<T>(v: &Vec<T>) -> nat;

/// `vec.capacity()`.  std guarantees: capacity >= len, and the allocation never exceeds isize::MAX bytes
/// (for a zero-sized element type the capacity is usize::MAX and the allocation is 0 bytes).
#[verifier::external_body]
pub fn capacity_of<T>(v: &Vec<T>) -> (r: usize)
    ensures
        r == vec_capacity(v),
        v@.len() <= r,
        r * vstd::layout::size_of::<T>() <= isize::MAX,
{ v.capacity() }

/// `core::mem::forget(x)`: no effect on anything a contract can observe.
/// NOT modelled: that the forgotten vector no longer frees the buffer (a transmute_vec without the `forget` would be a
/// double free; ownership of the raw allocation is outside these contracts).
pub assume_specification<T> [core::mem::forget] (t: T);

/// Opaque token standing for the raw pointer `vec.as_mut_ptr()` of a `Vec<S>`, currently typed `*mut T`.
/// Ghost facts attached to it: the number of initialised bytes behind it (`bytes`), the size of the allocation in bytes
/// (`cap_bytes`) and the elements of the source vector at the time the pointer was taken (`src`).
#[verifier::external_body]
#[verifier::reject_recursive_types(S)]
#[verifier::reject_recursive_types(T)]
pub struct RawBuf<S, T> { p: *mut T, s: core::marker::PhantomData<S> }

impl<S, T> RawBuf<S, T> {
    pub uninterp spec fn bytes(&self) -> nat;
    pub uninterp spec fn cap_bytes(&self) -> nat;
    pub uninterp spec fn src(&self) -> Seq<S>;

    /// `ptr as *mut U`: same address, same allocation; only the static element type changes.
    #[verifier::external_body]
    pub fn cast<U>(self) -> (r: RawBuf<S, U>)
        ensures r.bytes() == self.bytes(), r.cap_bytes() == self.cap_bytes(), r.src() == self.src(),
    { RawBuf { p: self.p as *mut U, s: core::marker::PhantomData } }
}

/// `vec.as_mut_ptr()`: the vector is unchanged; the token describes the memory the vector owns:
/// len * size_of::<S>() initialised bytes inside an allocation of capacity * size_of::<S>() bytes (len <= capacity and
/// an allocation of at most isize::MAX bytes are invariants of Vec).
#[verifier::external_body]
pub fn vec_as_mut_ptr<S>(vec: &mut Vec<S>) -> (r: RawBuf<S, S>)
    ensures
        final(vec)@ == old(vec)@,
        vec_capacity(final(vec)) == vec_capacity(old(vec)),
        r.bytes() == old(vec)@.len() * vstd::layout::size_of::<S>(),
        r.cap_bytes() == vec_capacity(old(vec)) * vstd::layout::size_of::<S>(),
        r.src() == old(vec)@,
        old(vec)@.len() <= vec_capacity(old(vec)),
        r.cap_bytes() <= isize::MAX,
{ RawBuf { p: vec.as_mut_ptr(), s: core::marker::PhantomData } }

/// the first `len` values of type T read from the memory that holds the elements `src` of type S (target dependent)
pub uninterp spec fn retyped<S, T>(src: Seq<S>, len: nat) -> Seq<T>;

/// bytes re-read as 32-bit words on a little-endian target: word i is made of bytes 4i .. 4i+3 (every bit pattern is a valid u32)
#[verifier::external_body]
pub proof fn axiom_retyped_u8_u32(b: Seq<u8>, len: nat)
    requires len * 4 <= b.len()
    ensures retyped::<u8, u32>(b, len) == words_le(b).subrange(0, len as int)
{ }

/// `Vec::from_raw_parts(ptr, len, capacity)`.  The precondition is the part of std's safety contract that is about
/// sizes: the `len` elements lie inside the initialised bytes, the `capacity` elements inside the allocation, len <= capacity.
/// NOT checked (listed as unchecked assumptions of C19): std also wants the alignment of T to be the one the block was
/// allocated with (u8 -> u32: align 1 vs 4) and `capacity * size_of::<T>()` to be EXACTLY the allocated size (the block is later
/// freed with that layout); the contract below only asks for `<=`, i.e. "describes no more memory than the source owns" —
/// with `==` the real transmute_vec is not provable: capacity * size_of::<S>() need not be a multiple of size_of::<T>().
/// Also not checked: that the first `len` values are valid values of T (true for the integer types used here).
#[verifier::external_body]
pub fn vec_from_raw_parts<S, T>(ptr: RawBuf<S, T>, len: usize, capacity: usize) -> (r: Vec<T>)
    requires
        len * vstd::layout::size_of::<T>() <= ptr.bytes(),
        capacity * vstd::layout::size_of::<T>() <= ptr.cap_bytes(),
        len <= capacity,
    ensures
        r@.len() == len,
        r@ == retyped::<S, T>(ptr.src(), len as nat),
{ unsafe { Vec::from_raw_parts(ptr.p, len, capacity) } }

/// `ptr::copy_nonoverlapping(src.as_ptr().offset(s), dst.as_mut_ptr().offset(d), n)` for two live, distinct
/// Vec<u32>: its safety contract is the precondition; its effect is the element-wise copy.
#[verifier::external_body]
pub fn copy_rows(src: &Vec<u32>, s: usize, dst: &mut Vec<u32>, d: usize, n: usize)
    requires
        s + n <= src@.len(),
        d + n <= old(dst)@.len(),
    ensures
        final(dst)@.len() == old(dst)@.len(),
        forall|k: int| 0 <= k < old(dst)@.len() ==> #[trigger] final(dst)@[k] == (if d <= k < d + n { src@[s + (k - d)] } else { old(dst)@[k] }),
{ unimplemented!() }
