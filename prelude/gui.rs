// ===== prelude/gui.rs — TRUSTED: the two unsafe primitives of src/bin/mstsc-rs.rs (rule R5) =====
/// `transmute_vec::<u8, u32>`: re-types the allocation; length / 4 words, little endian (x86/ARM LE targets).
/// NOT modelled: the allocation is later freed with a different layout (align 1 vs 4) — undefined behaviour that
/// no contract can express; listed as an unchecked assumption.
pub open spec fn words_le(b: Seq<u8>) -> Seq<u32> {
    Seq::new((b.len() / 4) as nat, |i: int| u32_le(b[4 * i], b[4 * i + 1], b[4 * i + 2], b[4 * i + 3]))
}
#[verifier::external_body]
pub fn transmute_vec(vec: Vec<u8>) -> (r: Vec<u32>)
    ensures r@ == words_le(vec@)
{ unimplemented!() }

/// `ptr::copy_nonoverlapping(src.as_ptr().offset(s), dst.as_mut_ptr().offset(d), n)` for two live, distinct
/// Vec<u32>: its safety contract is the precondition; its effect is the element-wise copy.
#[verifier::external_body]
pub fn copy_rows(src: &Vec<u32>, s: usize, dst: &mut Vec<u32>, d: usize, n: usize)
    requires
        s + n <= src@.len(),
        d + n <= old(dst)@.len(),
    ensures
        final(dst)@.len() == old(dst)@.len(),
        forall|k: int| 0 <= k < old(dst)@.len() ==> #[trigger] final(dst)@[k] == (if d <= k < d + n { src@[s + (k - d)] } else { old(dst)@[k] }),
{ unimplemented!() }
