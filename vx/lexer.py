"""Minimal Rust lexer: enough to cut items, find loops / closures / macro calls with balanced brackets.
It never re-types code: every operation returns spans into the original text."""
import re

class Tok:
    __slots__ = ("kind", "text", "start", "end")
    def __init__(self, kind, text, start, end):
        self.kind, self.text, self.start, self.end = kind, text, start, end
    def __repr__(self):
        return "Tok(%s,%r,%d)" % (self.kind, self.text, self.start)

_ident = re.compile(r"[A-Za-z_][A-Za-z0-9_]*")
_num = re.compile(r"[0-9][0-9a-zA-Z_\.]*")
_ws = re.compile(r"\s+")
PUNCT3 = ("<<=", ">>=", "...", "..=")
PUNCT2 = ("->", "=>", "::", "==", "!=", "<=", ">=", "&&", "||", "+=", "-=", "*=", "/=", "%=", "^=", "&=", "|=", "<<", ">>", "..")


def lex(src):
    toks = []
    i, n = 0, len(src)
    while i < n:
        c = src[i]
        m = _ws.match(src, i)
        if m:
            toks.append(Tok("ws", m.group(0), i, m.end())); i = m.end(); continue
        if src.startswith("//", i):
            j = src.find("\n", i)
            j = n if j < 0 else j
            toks.append(Tok("comment", src[i:j], i, j)); i = j; continue
        if src.startswith("/*", i):
            depth, j = 1, i + 2
            while j < n and depth:
                if src.startswith("/*", j): depth += 1; j += 2
                elif src.startswith("*/", j): depth -= 1; j += 2
                else: j += 1
            toks.append(Tok("comment", src[i:j], i, j)); i = j; continue
        # raw strings r"..", r#".."#, br".."
        m = re.match(r"b?r(#*)\"", src[i:i + 12])
        if m:
            hashes = m.group(1)
            close = '"' + hashes
            j = src.find(close, i + len(m.group(0)))
            j = n if j < 0 else j + len(close)
            toks.append(Tok("str", src[i:j], i, j)); i = j; continue
        if c == '"' or (c == 'b' and i + 1 < n and src[i + 1] == '"'):
            j = i + (2 if c == 'b' else 1)
            while j < n and src[j] != '"':
                j += 2 if src[j] == '\\' else 1
            j += 1
            toks.append(Tok("str", src[i:j], i, j)); i = j; continue
        if c == "'" or (c == 'b' and i + 1 < n and src[i + 1] == "'"):
            k = i + (1 if c == 'b' else 0)
            # char literal or lifetime
            m = re.match(r"'(\\.[^']*|[^'\\])'", src[k:k + 12])
            if m:
                j = k + m.end()
                toks.append(Tok("char", src[i:j], i, j)); i = j; continue
            m = re.match(r"'[A-Za-z_][A-Za-z0-9_]*", src[k:])
            if m and c == "'":
                j = k + m.end()
                toks.append(Tok("lifetime", src[i:j], i, j)); i = j; continue
        m = _ident.match(src, i)
        if m:
            toks.append(Tok("ident", m.group(0), i, m.end())); i = m.end(); continue
        m = _num.match(src, i)
        if m:
            # do not swallow `..` of ranges: 0..n
            t = m.group(0)
            k = t.find("..")
            if k >= 0:
                t = t[:k]
            # `1.foo()` method call on int is not used in this code base
            toks.append(Tok("num", t, i, i + len(t))); i += len(t); continue
        for p in PUNCT3:
            if src.startswith(p, i):
                toks.append(Tok("punct", p, i, i + 3)); i += 3; break
        else:
            for p in PUNCT2:
                if src.startswith(p, i):
                    toks.append(Tok("punct", p, i, i + 2)); i += 2; break
            else:
                toks.append(Tok("punct", c, i, i + 1)); i += 1
    return toks


OPEN = {"(": ")", "[": "]", "{": "}"}
CLOSE = {")": "(", "]": "[", "}": "{"}


def code_toks(toks):
    """tokens without whitespace / comments"""
    return [t for t in toks if t.kind not in ("ws", "comment")]


def match_close(ct, i):
    """ct: code tokens; ct[i] is an opening bracket; return index of its closing bracket"""
    depth = 0
    for j in range(i, len(ct)):
        t = ct[j]
        if t.kind == "punct":
            if t.text in OPEN: depth += 1
            elif t.text in CLOSE:
                depth -= 1
                if depth == 0:
                    return j
    raise ValueError("unbalanced bracket at offset %d" % ct[i].start)


def line_of(src, off):
    return src.count("\n", 0, off) + 1
