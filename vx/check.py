"""./check <ID> [--tier quick|thorough] [--replay file] [--rebaseline] [--unit name]"""
import sys, os, json, time, re, hashlib, importlib, argparse, traceback, subprocess
from concurrent.futures import ThreadPoolExecutor

VERIF = os.path.dirname(os.path.dirname(os.path.abspath(__file__)))
sys.path.insert(0, VERIF)
from vx.assemble import assemble
from vx import assemble as asm_mod
from vx.extract import LostAnchor, Source, REPO
from vx.runner import run_verus, classify_msg
from vx import kani as kani_mod

BUILD = os.environ.get("VERIF_BUILD_DIR") or os.path.join(VERIF, "build")
EVID = os.environ.get("VERIF_EVIDENCE_DIR") or os.path.join(VERIF, "evidence")
REPLAYS = os.environ.get("VERIF_REPLAY_DIR") or os.path.join(VERIF, "replays")
LOAD_FAILURES = {}


def load_units():
    import specs
    importlib.reload(specs)
    units = {}
    only = os.environ.get("VERIF_ONLY_UNIT")
    for name in specs.UNITS:
        if only and name != only:
            continue
        try:
            m = importlib.import_module("specs." + name)
        except Exception as e:
            sys.stderr.write("WARNING: spec module %s failed to load: %r\n" % (name, e))
            LOAD_FAILURES[name] = repr(e)
            continue
        units[name] = m.UNIT
    return units, specs


def fn_props(f):
    ps = set(f.props)
    for c in f.ensures:
        if c.props:
            ps.update(c.props)
    for c in getattr(f, "claims", None) or []:
        if len(c) > 4 and c[4]:
            ps.update(c[4].split(","))
    return ps


_COMMON_NAMES = {"new", "read", "write", "connect", "length", "from", "inner", "shutdown", "visit", "options", "next", "process", "get", "into", "clone", "len", "push"}
_REACH_CACHE = {}
_RECEIVERS = {"mcs": "src/core/mcs.rs", "x224": "src/core/x224.rs", "tpkt": "src/core/tpkt.rs", "global": "src/core/global.rs", "link": "src/model/link.rs", "stream": "src/model/link.rs"}


def _call_graph(units):
    """(file, name, impl) -> set of keys of functions under contract it calls, resolved by name on the CURRENT text of /repo.  Names that
    several functions share and that are generic (`read`, `new` ...) are resolved only for qualified calls `module::[Type::]name(`."""
    if "graph" in _REACH_CACHE:
        return _REACH_CACHE["graph"]
    from vx.extract import FnParts
    fns = {}
    byname = {}
    dev = getattr(sys.modules.get("specs"), "DEV_UNITS", ())
    for n, u in units.items():
        if n in dev:
            continue
        for x in u.items:
            if x.kind == "fn":
                k = (x.file, x.name, x.impl)
                fns.setdefault(k, []).append((n, x))
                if k not in byname.setdefault(x.name, []):
                    byname[x.name].append(k)
    calls = {}
    for k in fns:
        f = fns[k][0][1]
        try:
            src = Source.get(f.file)
            body = FnParts(src, src.find("fn", f.name, f.impl)).body_text()
        except Exception:
            body = ""
        out = set()
        for name, ks in byname.items():
            if name in _COMMON_NAMES and len(ks) > 1:
                for k2 in ks:
                    mod = k2[0].split("/")[-1][:-3]
                    if re.search(r"\b%s::(?:\w+::)?%s\s*\(" % (mod, name), body):
                        out.add(k2)
                continue
            if re.search(r"(?<![\w])%s\s*\(" % re.escape(name), body) or re.search(r"[.:]%s\s*(?:::<[^>]*>)?\(" % re.escape(name), body):
                out.update(k2 for k2 in ks if k2 != k)
        # method calls through a field / variable named after a layer: `self.mcs.read(`, `mcs.write(`, `self.transport.read(` ...
        for recv, name in re.findall(r"\b(\w+)\s*\.\s*(\w+)\s*\(", body):
            tgt = _RECEIVERS.get(recv)
            if recv == "transport":
                tgt = {"src/core/x224.rs": "src/core/tpkt.rs", "src/core/tpkt.rs": "src/model/link.rs"}.get(k[0])
            if tgt:
                out.update(k2 for k2 in byname.get(name, []) if k2[0] == tgt and k2 != k)
        calls[k] = out
    _REACH_CACHE["graph"] = (fns, calls)
    return fns, calls


def reach_for(prop, units):
    """functions under contract that a function tagged with `prop` calls, transitively, WITHOUT being tagged themselves: verification is
    modular, so a change inside such a callee fails only the callee's own clauses; they are counted for `prop` (all their clauses: there is
    no tag to select by).  Returns {unit name: set(qname)}."""
    if prop in _REACH_CACHE:
        return _REACH_CACHE[prop]
    fns, calls = _call_graph(units)
    seed = [k for k, lst in fns.items() if any(prop in fn_props(x) for _, x in lst)]
    seen = set(seed)
    todo = list(seed)
    called = set()  # reached through a call edge from (a callee of) a function of this property, whether or not tagged itself
    while todo:
        k = todo.pop()
        for k2 in calls.get(k, ()):
            if k2 != k:
                called.add(k2)
            if k2 not in seen:
                seen.add(k2)
                todo.append(k2)
    out = {}
    for k in called:
        for n, x in fns[k]:
            # a function that is tagged AND called by another function of the property counts with all its clauses too: its own tag may
            # only be there to carry one clause, while the callers rely on its whole contract
            out.setdefault(n, set()).add(x.qname())
    _REACH_CACHE[prop] = out
    return out


def units_for(prop, units):
    out = []
    reach = reach_for(prop, units) if not os.environ.get("VERIF_NO_CLOSURE") else {}
    for n, u in units.items():
        if getattr(u, "dev", False) or n in getattr(sys.modules.get("specs"), "DEV_UNITS", ()):
            continue
        if n in reach:
            out.append(n)
            continue
        for x in u.items:
            if x.kind == "fn" and prop in fn_props(x):
                out.append(n)
                break
    return out


class UnitOutcome:
    def __init__(self, unit):
        self.unit = unit
        self.status = "ok"
        self.detail = ""
        self.asm = None
        self.res = None
        self.failures = {}  # qname -> [failure dict]
        self.hint_failures = {}  # qname -> [failure]
        self.hint_compile = {}  # qname -> set(hint tags) whose text does not compile on the current body
        self.compile_outside_hints = False
        self.claim_compile = {}  # qname -> set(claim index) whose text does not compile on the current body
        self.undecided = {}  # qname -> reason
        self.canary_ok = {}
        self.wall = 0.0
        self.path = None
        self.other_errors = []


def norm(s):
    return " ".join((s or "").split())


def run_unit(unit, drop_hints=(), suffix="", mark_dropped=False):
    t0 = time.time()
    oc = UnitOutcome(unit)
    try:
        Source._cache.clear()
        b = load_baseline(unit.name)
        asm_mod.ANCHOR_BASE[unit.name] = (b or {}).get("anchors", {})
        asm_mod.ANCHOR_OUT[unit.name] = {}
        asm = assemble(unit, drop_hints=drop_hints)
    except LostAnchor as e:
        oc.status = "lost-anchor"
        oc.detail = str(e)
        oc.wall = time.time() - t0
        return oc
    except Exception as e:
        oc.status = "lost-anchor"
        oc.detail = "extractor failure: %r\n%s" % (e, traceback.format_exc())
        oc.wall = time.time() - t0
        return oc
    oc.asm = asm
    if mark_dropped and isinstance(drop_hints, dict):
        # hints removed because they no longer COMPILE: like unplaceable hints, a function that does not verify without them is undecided
        for q_, tags_ in drop_hints.items():
            asm.dropped_hints[q_] = asm.dropped_hints.get(q_, 0) + len(tags_)
    os.makedirs(BUILD, exist_ok=True)
    path = os.path.join(BUILD, unit.name + suffix + ".rs")
    with open(path, "w") as fh:
        fh.write(asm.text)
    oc.path = path
    res = run_verus(path, threads=int(os.environ.get("VERIF_THREADS", "8")))
    oc.res = res
    lm = asm.linemap
    fns = {x.qname(): x for x in unit.items if x.kind == "fn"}
    real_compile_error = False
    for e in res.errors:
        kind = classify_msg(e["msg"])
        ent = lm[e["line"] - 1] if e.get("line") and 0 < e["line"] <= len(lm) else None
        if kind is None:
            real_compile_error = True
            oc.other_errors.append(e)
            # a compile-level error inside OUR proof text (a hint that names a local the edited body no longer has ...)
            if ent and (ent.get("kind") or "").startswith("hint") and ent.get("fn"):
                oc.hint_compile.setdefault(ent["fn"], set()).add(ent["kind"])
            elif ent and (ent.get("kind") or "").startswith("claim:") and ent.get("fn"):
                oc.claim_compile.setdefault(ent["fn"], set()).add(int(ent["kind"].split(":")[1]))
            else:
                oc.compile_outside_hints = True
            continue
        if ent is None:
            oc.other_errors.append(e)
            continue
        q = ent.get("fn")
        ek = ent.get("kind")
        if (q is None or q not in fns) and kind == "postcondition":
            # ensures declared on a trait method (prelude text): the body that failed it is named by a secondary label
            for (ln, lab, txt) in e["labels"]:
                ent2 = lm[ln - 1] if 0 < ln <= len(lm) else None
                if ent2 and ent2.get("fn") in fns:
                    q = ent2["fn"]
                    ek = "trait-contract"
                    break
        if ek == "canary":
            oc.canary_ok[q] = oc.canary_ok.get(q, 0) + 1
            continue
        if q is None or q not in fns:
            # failure inside prelude / raw lemma / generated code: never a property violation by itself
            oc.undecided[q or "<prelude>"] = "%s in %s (line %s): %s" % (kind, ek, e["line"], e["msg"])
            continue
        f = fns[q]
        fail = dict(kind=kind, msg=e["msg"], gen_line=e["line"], origin=ek, src_file=ent.get("file"), src_line=ent.get("line"),
                    text=norm(e.get("text")), labels=e["labels"], rendered=e["rendered"], clause=None, props=None)
        if kind == "rlimit":
            oc.undecided[q] = "resource limit exceeded"
            continue
        if kind == "postcondition":
            # primary span is the failed ensures clause
            t = norm(e.get("text")).rstrip(",")
            for i, c in enumerate(f.ensures):
                first = norm(c.text.split("\n")[0]).rstrip(",")
                if first and (t == first or t.startswith(first) or first.startswith(t)):
                    fail["clause"] = c.cid or ("ensures#%d" % (i + 1))
                    fail["clause_text"] = c.text
                    fail["props"] = c.props
                    break
            if fail["clause"] is None:
                fail["clause"] = ("trait-ensures:" if ek == "trait-contract" else "ensures:") + t[:60]
        if kind == "assertion" and ek and ek.startswith("claim:"):
            c = f.claims[int(ek.split(":")[1])]
            fail["clause"] = "claim:" + (c[5] if len(c) > 5 else ek)
            fail["props"] = c[4].split(",") if len(c) > 4 and c[4] else None
            fail["clause_text"] = c[2]
        if kind == "assertion" and ek and ek.startswith("hint"):
            fail["hint_tag"] = ek
            oc.hint_failures.setdefault(q, []).append(fail)
            continue
        if kind in ("invariant-end", "invariant-entry", "decreases", "termination", "invariant"):
            # invariant / measure text is ours, but what it protects is the loop body of the real code
            fail["clause"] = kind
        if asm.dropped_hints.get(q):
            oc.undecided[q] = "%d proof hint(s) could not be placed (anchored statement no longer in the body) and the function does not verify without: %s" % (asm.dropped_hints[q], fail["msg"][:120])
            continue
        oc.failures.setdefault(q, []).append(fail)
    if not (res.compile_error and (real_compile_error or not res.functions)):
        # a diagnostic whose wording the classifier does not know must never disappear silently
        for e in oc.other_errors:
            ent = lm[e["line"] - 1] if e.get("line") and 0 < e["line"] <= len(lm) else None
            q_ = (ent or {}).get("fn") or "<unit %s>" % unit.name
            oc.undecided.setdefault(q_, "unclassified verifier diagnostic: %s" % (e.get("msg") or "")[:200])
    if res.compile_error and (real_compile_error or not res.functions):
        oc.status = "compile-error"
        oc.detail = "\n".join((e.get("rendered") or e.get("msg") or "")[:600] for e in (oc.other_errors or res.errors)[:5]) or res.raw_stderr[-1500:]
    # canaries: each must fail exactly at its assert(false)
    for cname, q in asm.canaries.items():
        if oc.status == "ok" and oc.canary_ok.get(q, 0) < 1:
            oc.undecided[q] = "vacuity canary verified: the precondition of %s is contradictory (or the solver proved false)" % q
    oc.wall = time.time() - t0
    return oc


def obligation_id(q, fail):
    if fail.get("clause"):
        return "%s::%s" % (q, fail["clause"])
    return "%s::%s@%s" % (q, fail["kind"], fail.get("text") or ("line %s" % fail.get("src_line")))


def load_known():
    p = os.path.join(VERIF, "known_findings.json")
    if not os.path.exists(p):
        return []
    return json.load(open(p)).get("entries", [])


def load_baseline(unit):
    p = os.path.join(VERIF, "baseline", unit + ".json")
    if not os.path.exists(p):
        return None
    return json.load(open(p))


def verus_fn_lookup(res_functions, crate, q):
    """match our qname (mod::Type::fn) to verus' function naming"""
    cands = []
    parts = q.split("::")
    for name, v in res_functions.items():
        if not name.startswith(crate + "::"):
            continue
        np = name.split("::")[1:]
        # drop impl&%N components
        np2 = [p for p in np if not p.startswith("impl&%")]
        if np2 == parts or (np2[0] == parts[0] and np2[-1] == parts[-1] and len(parts) >= 2 and (len(np2) == len(parts) or "impl&%" in name)):
            cands.append((name, v))
    return cands


def check_property(prop, tier, units, specs, rebaseline=False, only_unit=None, seed=0):
    t0 = time.time()
    unames = units_for(prop, units)
    if only_unit:
        unames = [u for u in unames if u == only_unit]
    lines = []
    if not unames:
        print("UNDECIDED property=%s reason=no-unit-claims-this-property" % prop)
        return 2
    dev = getattr(specs, "DEV_UNITS", set())
    bad = [u for u in LOAD_FAILURES if u not in dev]
    if bad:
        print("UNDECIDED property=%s reason=spec-module-failed-to-load %s" % (prop, "; ".join("%s: %s" % (u, LOAD_FAILURES[u][:300]) for u in bad)))
        return 2
    with ThreadPoolExecutor(max_workers=min(4, len(unames))) as ex:
        outcomes = list(ex.map(lambda n: run_unit(units[n]), unames))
    # proof hints that do not compile against the current body (renamed / removed local ...): re-run without them; the affected functions
    # are then proved without the hint or reported undecided, never as a violation
    for i, oc in enumerate(outcomes):
        if oc.status == "compile-error" and (oc.hint_compile or oc.claim_compile) and not oc.compile_outside_hints:
            asm_mod.DROP_CLAIMS.clear()
            asm_mod.DROP_CLAIMS.update({q: set(t) for q, t in oc.claim_compile.items()})
            try:
                oc2 = run_unit(oc.unit, drop_hints={q: set(t) for q, t in oc.hint_compile.items()}, suffix="_nohints", mark_dropped=True)
            finally:
                asm_mod.DROP_CLAIMS.clear()
            lines.append("NOTE property=%s proof text of %s does not compile on the current body (a hint / claim names a local that is gone): re-run without it (%s)" % (prop, ", ".join(sorted(set(oc.hint_compile) | set(oc.claim_compile))), oc2.status))
            outcomes[i] = oc2
    # hint failures: re-run the unit with the FAILING hints (only those) of the affected functions removed; a hint that depended on a removed
    # one may fail in turn, hence a few rounds.  Verus assumes a failed assertion afterwards, so results below a failed hint are not trusted.
    for i, oc in enumerate(outcomes):
        if oc.status == "ok" and oc.hint_failures:
            drop = {}
            oc2 = oc
            for rnd in range(4):
                for q, fl in oc2.hint_failures.items():
                    drop.setdefault(q, set()).update(f_.get("hint_tag", "hint") for f_ in fl)
                oc2 = run_unit(oc.unit, drop_hints={q: set(t) for q, t in drop.items()}, suffix="_nohints")
                if oc2.status != "ok" or not oc2.hint_failures:
                    break
            for q in drop:
                if oc2.status != "ok":
                    oc.undecided[q] = "proof hint failed and the re-run without it did not complete (%s)" % oc2.status
                elif q in oc2.hint_failures:
                    oc.undecided[q] = "proof hints keep failing after %d rounds of removal" % 4
                elif q in oc2.failures:
                    oc.failures.setdefault(q, [])
                    have = set(obligation_id(q, f) for f in oc.failures[q])
                    for f in oc2.failures[q]:
                        if obligation_id(q, f) not in have:
                            oc.failures[q].append(f)
                elif q in oc2.undecided:
                    oc.undecided[q] = "proof hint failed; undecided without it (%s)" % oc2.undecided[q][:160]
                else:
                    lines.append("NOTE property=%s stale proof hint in %s (function verifies without it)" % (prop, q))
    known = load_known()
    violations = []
    known_hits = []
    foreign_known = []
    undecided = []
    inventory = []
    obligations = 0
    discharged = 0
    clause_count = 0
    solver_us = 0
    trusted = []
    rewrites = []
    samples = []
    fn_reports = []
    unverified_notes = getattr(specs, "UNVERIFIED", {}).get(prop, [])
    for oc in outcomes:
        u = oc.unit
        if oc.status != "ok":
            undecided.append("%s: %s: %s" % (u.name, oc.status, oc.detail.strip()[:800]))
            continue
        base = load_baseline(u.name)
        if rebaseline:
            os.makedirs(os.path.join(VERIF, "baseline"), exist_ok=True)
        crate = os.path.basename(oc.path)[:-3]
        reach_u = ({} if os.environ.get("VERIF_NO_CLOSURE") else reach_for(prop, units)).get(u.name, set())
        for inv in oc.asm.inventory:
            q = inv["qname"]
            f = next(x for x in u.items if x.kind in ("fn", "stub") and x.qname() == q)
            if inv["stub"]:
                continue
            via_call = q in reach_u
            if prop not in fn_props(f) and not via_call:
                continue
            fails = [x for x in oc.failures.get(q, []) if (via_call or x.get("props") is None or prop in x["props"])]
            und = oc.undecided.get(q)
            nclauses = len([c for c in f.ensures if via_call or c.props is None or prop in c.props]) + len(f.requires) + len(f.loops) \
                + len([c for c in f.claims if via_call or len(c) <= 4 or not c[4] or prop in c[4].split(",")])
            clause_count += nclauses
            cands = verus_fn_lookup(oc.res.functions, crate, q)
            t_us = sum(v["time_us"] for _, v in cands)
            solver_us += t_us
            # obligations recorded as known findings (of this or of another property) are not claimed: they are listed under known_findings,
            # taken out of the obligation count, and the function counts as verified when nothing else fails in it
            def _is_known(fl_):
                oid_ = obligation_id(q, fl_)
                return any(k.get("kind") == "finding" and k.get("fn") == q and re.search(k.get("obligation_re", "^$"), oid_) for k in known)
            n_known = len([x for x in fails if _is_known(x)])
            other = [x for x in fails if not _is_known(x)]
            obligations += 1 + nclauses - (n_known + 1 if n_known else 0)
            ok = not other and not und
            if ok:
                discharged += 1 + nclauses - (n_known + 1 if n_known else 0)
            else:
                # count the clauses that did not fail as discharged
                bad = max(1, len(fails)) if fails else 1
                discharged += max(0, 1 + nclauses - bad - 1)
            fn_reports.append(dict(function=q, file=inv["file"], lines=inv["lines"], sha1=inv["sha1"], relation=("callee of a function of this property (call-graph closure)" if via_call else "tagged"), verdict=("verified" if ok else ("undecided" if und and not fails else "failed")),
                                   solver_s=round(t_us / 1e6, 3), clauses=nclauses, backend="verus/z3"))
            if und and not fails:
                undecided.append("%s: %s" % (q, und))
            for cid_, cprops_ in oc.asm.lost_claims.get(q, []):
                if via_call or not cprops_ or prop in cprops_.split(","):
                    undecided.append("%s: claim %s cannot be placed (its anchored statement is no longer in the body)" % (q, cid_))
            for fl in fails:
                oid = obligation_id(q, fl)
                in_base = base is not None and q in base.get("verified", [])
                hit = None
                for k in known:
                    if k.get("kind") == "finding" and k.get("fn") == q and re.search(k.get("obligation_re", "^$"), oid):
                        hit = k
                        break
                if hit and hit.get("property") != prop:
                    # a recorded finding of ANOTHER property, reached here only because this property's functions call that function:
                    # reported by that property's check, not counted (and not re-announced) here
                    foreign_known.append(dict(property=hit.get("property"), obligation=oid))
                elif hit:
                    known_hits.append((hit, oid))
                elif not in_base:
                    undecided.append("%s: obligation %s fails but the function is not in the committed baseline of discharged obligations" % (q, oid))
                else:
                    violations.append((u.name, q, oid, fl))
        # undecided entries that belong to no function of the inventory (a failure located in prelude / generated text, an unclassified
        # diagnostic of the unit ...) must surface too: nothing the verifier said may disappear
        inv_names = set(inv_["qname"] for inv_ in oc.asm.inventory)
        for q_, why_ in oc.undecided.items():
            if q_ not in inv_names:
                undecided.append("%s: %s" % (q_, why_))
        for t in oc.asm.trusted:
            if t not in trusted:
                trusted.append(t)
        rewrites.extend("%s @ %s" % r for r in oc.asm.rewrites)
        if rebaseline:
            def _known_only(q_):
                # a function whose only failing obligations are recorded findings stays in the baseline (another failure in it is a violation)
                fl_ = oc.failures.get(q_, [])
                return bool(fl_) and all(any(k.get("kind") == "finding" and k.get("fn") == q_ and re.search(k.get("obligation_re", "^$"), obligation_id(q_, f_)) for k in known) for f_ in fl_)
            ver = [inv["qname"] for inv in oc.asm.inventory if not inv["stub"] and (inv["qname"] not in oc.failures or _known_only(inv["qname"])) and inv["qname"] not in oc.undecided]
            json.dump(dict(unit=u.name, verified=sorted(ver), verus_verified=oc.res.verified, verus_errors=oc.res.failed, anchors=asm_mod.ANCHOR_OUT.get(u.name, {})),
                      open(os.path.join(VERIF, "baseline", u.name + ".json"), "w"), indent=1, sort_keys=True)
    # samples: a few obligations written out
    for oc in outcomes:
        if oc.status != "ok":
            continue
        for inv in oc.asm.inventory:
            f = next(x for x in oc.unit.items if x.kind in ("fn", "stub") and x.qname() == inv["qname"])
            if inv["stub"] or prop not in fn_props(f):
                continue
            for c in f.claims[:2]:
                if len(samples) < 8 and (len(c) <= 4 or not c[4] or prop in c[4].split(",")):
                    samples.append(dict(function=inv["qname"], obligation="claim:" + (c[5] if len(c) > 5 else ""), clause=norm(c[2])[:400], source="%s:%d-%d" % (inv["file"], inv["lines"][0], inv["lines"][1])))
            for c in f.ensures[:2]:
                if (c.props is None or prop in c.props) and len(samples) < 8:
                    samples.append(dict(function=inv["qname"], obligation="ensures", clause=norm(c.text)[:400], source="%s:%d-%d" % (inv["file"], inv["lines"][0], inv["lines"][1])))
    # thorough tier: (a) solver-stability re-runs (other z3 seeds, doubled resource limit), (b) sensitivity self-test on the
    # committed seeded changes, (c) kani pairings and bounded stand-ins
    bounded = []
    stability = []
    selftest_res = []
    if tier == "thorough" and not os.environ.get("VERIF_NO_SELFTEST"):
        for oc in outcomes:
            if oc.status != "ok" or not oc.path:
                continue
            for k in (1, 2):
                sd = seed * 7 + k
                res2 = run_verus(oc.path, rlimit=80, threads=int(os.environ.get("VERIF_THREADS", "8")), extra=["--smt-option", "smt.random_seed=%d" % sd])
                flipped = sorted(n for n, v in res2.functions.items() if not v.get("success") and oc.res.functions.get(n, {}).get("success"))
                stability.append(dict(unit=oc.unit.name, z3_random_seed=sd, rlimit=80, verified=res2.verified, errors=res2.failed,
                                      same_verdicts=(not flipped and res2.verified == oc.res.verified), flipped=flipped[:10], wall_s=round(res2.wall, 1)))
                if flipped:
                    lines.append("NOTE property=%s unstable under z3 seed %d in unit %s: %s" % (prop, sd, oc.unit.name, ", ".join(flipped[:5])))
        selftest_res = selftest(prop)
        for st in selftest_res:
            if st["expected"] == "DETECTED" and st["got"] != "DETECTED":
                lines.append("NOTE property=%s self-test: seeded change %s expected DETECTED, got %s" % (prop, st["change"], st["got"]))
    if tier == "thorough":
        try:
            kres = kani_mod.run_for_property(prop, seed=seed)
        except Exception as e:
            kres = []
            lines.append("NOTE kani pairing failed to run: %r" % (e,))
        for k in kres:
            bounded.append(k)
            if k.get("status") == "FAILED" and k.get("counts_as_violation"):
                violations.append(("kani", k["harness"], "kani::%s" % k["harness"], dict(kind="kani", msg=k.get("detail", ""), rendered=k.get("output", "")[-3000:], text=k.get("playback", ""), src_file=k.get("file"), src_line=None, labels=[], origin="kani")))
    # ---------------- verdict
    rc = 0
    os.makedirs(REPLAYS, exist_ok=True)
    for hit, oid in known_hits:
        lines.append("KNOWN-FINDING: property=%s %s [%s]" % (prop, hit.get("what", ""), oid))
    seen = set()
    used_kani_cex = False
    for uname, q, oid, fl in violations:
        if oid in seen:
            continue
        seen.add(oid)
        h = hashlib.sha1(oid.encode()).hexdigest()[:10]
        rp = os.path.join(REPLAYS, "%s-%s.json" % (prop, h))
        replay = dict(property=prop, unit=uname, function=q, obligation=oid, kind=fl["kind"], verifier_message=fl["msg"],
                      source_file=fl.get("src_file"), source_line=fl.get("src_line"), source_text=fl.get("text"),
                      clause_text=fl.get("clause_text"), verifier_output=fl.get("rendered"), labels=fl.get("labels"),
                      failing_input=None, note="obligation discharged on the baseline tree and failing now")
        cex = None
        try:
            # a paired loop-free / small-domain Kani harness on the REAL function (kani/harnesses.json "pairs": the PER primitives) looks for a
            # concrete input and confirms it with a native `cargo test` of the same reference assertion; 10-120 s, only run on a violation
            paired = q in kani_mod.registry().get("pairs", {})
            if (tier == "thorough" or os.environ.get("VERIF_CEX") or paired) and not os.environ.get("VERIF_NO_CEX"):
                cex = kani_mod.counterexample_for(prop, q, fl, seed=seed)
        except Exception as e:
            replay["cex_error"] = repr(e)
        tail = " no-failing-input-found"
        if cex and cex.get("confirmed"):
            # (the input is found per FUNCTION: it refutes the function's reference specification, which obligation of the function it
            # belongs to is told by kani_failed_checks)
            replay["failing_input"] = cex
            replay["failing_input_scope"] = "function-level: Kani refuted the reference specification of %s on this input; see kani_failed_checks" % q
            used_kani_cex = True
            tail = ""
        elif cex:
            replay["failing_input_search"] = {k_: v_ for k_, v_ in cex.items() if k_ in ("confirmed", "error", "harness", "kani_failed_checks", "wall_s")}
        json.dump(replay, open(rp, "w"), indent=1)
        lines.append("VIOLATION property=%s replay=%s obligation=%s%s" % (prop, rp, oid.replace(" ", "_")[:160], tail))
        rc = 1
    if rc == 0 and undecided:
        rc = 2
        for u_ in undecided:
            lines.append("UNDECIDED property=%s %s" % (prop, u_.replace("\n", " | ")[:1200]))
    wall = time.time() - t0
    if rc == 0:
        lines.append("PROVED property=%s obligations=%d discharged=%d functions=%d units=%s wall=%.1fs" % (prop, obligations, discharged, len(fn_reports), ",".join(unames), wall))
    # ---------------- evidence
    meta = getattr(specs, "PROPERTIES", {}).get(prop, {})
    ev = dict(property_id=prop, tier=tier, seed=seed, level="proof",
              coverage=dict(obligations=obligations, discharged=discharged,
                            checker_cmd="verus build/<unit>.rs --output-json --time-expanded --error-format=json --multiple-errors 40  (units: %s; files regenerated from %s on this run)" % (",".join(unames), REPO),
                            trusted_base=trusted, samples=samples or [dict(note="no obligations")],
                            explanation=meta.get("scope", ""), functions_under_contract=fn_reports,
                            rewrites=sorted(set(rewrites)), unverified=unverified_notes, bounded=bounded, solver_stability=stability, sensitivity_selftest=selftest_res,
                            solver_s=round(solver_us / 1e6, 3), backends=["verus 0.2026.09.13 / z3"] + (["kani 0.68 / cbmc"] if (bounded or used_kani_cex) else []),
                            known_findings=[dict(what=h.get("what"), obligation=o) for h, o in known_hits], known_findings_of_other_properties_on_the_call_path=foreign_known,
                            undecided=undecided, exhaustive=False),
              assumptions=meta.get("assumptions", []) + ["machine arithmetic is checked as fixed-width (overflow = failed obligation), not treated as mathematical"],
              wall_s=round(wall, 2), violations=len(seen))
    os.makedirs(EVID, exist_ok=True)
    json.dump(ev, open(os.path.join(EVID, prop + ".json"), "w"), indent=1)
    for l in lines:
        print(l)
    sys.stdout.flush()
    return rc


def selftest(prop):
    """thorough tier: apply every committed seeded change of this property to a scratch copy of the tree under check and run the
    quick check on it (outputs redirected into the scratch directory); reports expected (recorded) vs obtained verdict"""
    import shutil
    S = os.path.join(VERIF, "seeded")
    out = []
    if not os.path.isdir(S):
        return out
    for d in sorted(os.listdir(S)):
        mp = os.path.join(S, d, "meta.json")
        if not os.path.exists(mp):
            continue
        meta = json.load(open(mp))
        if meta.get("property") != prop:
            continue
        tree = "/var/tmp/rdp-selftest.%d" % os.getpid()
        shutil.rmtree(tree, ignore_errors=True)
        try:
            subprocess.check_call(["rsync", "-a", "--exclude", "target", "--exclude", ".git", REPO + "/", tree + "/"])
            subprocess.check_call(["git", "init", "-q"], cwd=tree)
            r = subprocess.run(["git", "apply", os.path.join(S, d, "patch.diff")], cwd=tree, stdout=subprocess.PIPE, stderr=subprocess.STDOUT)
            if r.returncode != 0:
                out.append(dict(change=d, expected=meta.get("check_result", {}).get("verdict"), got="PATCH-DOES-NOT-APPLY", detail=r.stdout.decode()[:200]))
                continue
            env = dict(os.environ, VERIF_REPO=tree, VERIF_TIER="quick", VERIF_EVIDENCE_DIR=tree + "/.verif/evidence", VERIF_BUILD_DIR=tree + "/.verif/build", VERIF_REPLAY_DIR=tree + "/.verif/replays")
            c = subprocess.run([sys.executable, "-m", "vx.check", prop, "--tier", "quick"], cwd=VERIF, env=env, stdout=subprocess.PIPE, stderr=subprocess.STDOUT)
            txt = c.stdout.decode("utf-8", "replace")
            got = {0: "MISSED", 1: "DETECTED", 2: "UNDECIDED"}.get(c.returncode, "rc=%d" % c.returncode)
            obl = [l.split("obligation=")[1].split(" ")[0] for l in txt.splitlines() if l.startswith("VIOLATION") and "obligation=" in l]
            out.append(dict(change=d, expected=meta.get("check_result", {}).get("verdict"), got=got, obligations=obl[:4], summary=meta.get("summary", "")[:200]))
        finally:
            shutil.rmtree(tree, ignore_errors=True)
    return out


def main():
    ap = argparse.ArgumentParser()
    ap.add_argument("prop")
    ap.add_argument("--tier", default=os.environ.get("VERIF_TIER", "quick"))
    ap.add_argument("--replay")
    ap.add_argument("--rebaseline", action="store_true")
    ap.add_argument("--unit")
    a = ap.parse_args()
    seed = int(os.environ.get("VERIF_SEED", "0") or 0)
    units, specs = load_units()
    if a.replay:
        rp = json.load(open(a.replay))
        rc = check_property(rp["property"], a.tier, units, specs, only_unit=rp.get("unit") if rp.get("unit") in units else None, seed=seed)
        sys.exit(rc)
    if a.prop == "all":
        rcs = []
        for p in sorted(getattr(specs, "PROPERTIES", {})):
            rcs.append(check_property(p, a.tier, units, specs, rebaseline=a.rebaseline, seed=seed))
        sys.exit(max(rcs) if rcs else 0)
    sys.exit(check_property(a.prop, a.tier, units, specs, rebaseline=a.rebaseline, only_unit=a.unit, seed=seed))


if __name__ == "__main__":
    main()
