"""dev helper: python3 -m vx.dev <unit> [fnfilter]  — assemble, run verus, print located errors"""
import sys, os, importlib
VERIF = os.path.dirname(os.path.dirname(os.path.abspath(__file__)))
sys.path.insert(0, VERIF)
os.environ['VERIF_ONLY_UNIT'] = sys.argv[1]
from vx.check import run_unit, load_units
units, specs = load_units()
oc = run_unit(units[sys.argv[1]])
flt = sys.argv[2] if len(sys.argv) > 2 else None
print("status", oc.status, oc.detail[:3000])
if oc.res:
    print("verified", oc.res.verified, "errors", oc.res.failed, "wall %.1f" % oc.wall)
    for e in oc.res.errors:
        ent = oc.asm.linemap[e["line"] - 1] if e.get("line") and e["line"] <= len(oc.asm.linemap) else None
        if ent and ent.get("kind") == "canary":
            continue
        fnn = (ent or {}).get("fn")
        if not fnn:
            for (ln, lab, txt) in e["labels"]:
                e2 = oc.asm.linemap[ln - 1] if 0 < ln <= len(oc.asm.linemap) else None
                if e2 and e2.get("fn"):
                    fnn = e2["fn"] + " (via label)"; break
        if flt and not (fnn and flt in fnn):
            continue
        print("#### fn:", fnn)
        print("----", ent)
        print(e["rendered"][:1800])
    print("canaries ok:", oc.canary_ok, "undecided:", oc.undecided)
    slow = sorted(((v["time_us"], k) for k, v in oc.res.functions.items()), reverse=True)[:5]
    print("slowest:", [(round(t / 1e6, 2), k) for t, k in slow])
