"""Run Verus on a generated unit file and turn its output into per-function verdicts and located errors."""
import json, os, subprocess, time, re

VERUS = os.environ.get("VERIF_VERUS", "verus")


class VerusResult:
    def __init__(self):
        self.rc = None
        self.wall = 0.0
        self.functions = {}  # verus name -> dict(success, time_us, rlimit, mode)
        self.errors = []  # dict(msg, line, labels, rendered, code)
        self.compile_error = False
        self.raw_stdout = ""
        self.raw_stderr = ""
        self.verified = 0
        self.failed = 0
        self.cmd = ""


def run_verus(path, rlimit=None, threads=None, timeout=1800, extra=()):
    cmd = [VERUS, path, "--output-json", "--time-expanded", "--error-format=json", "--multiple-errors", "40",
           "--triggers-mode", "silent"]
    # a fixed, generous resource limit (Verus default is 10): the preludes grow, proofs near the default limit would flip to "undecided"
    cmd += ["--rlimit", str(rlimit or int(os.environ.get("VERIF_RLIMIT", "40")))]
    if threads:
        cmd += ["--num-threads", str(threads)]
    cmd += list(extra)
    res = VerusResult()
    res.cmd = " ".join(cmd)
    t0 = time.time()
    try:
        p = subprocess.run(cmd, stdout=subprocess.PIPE, stderr=subprocess.PIPE, timeout=timeout, cwd=os.path.dirname(path))
        res.rc = p.returncode
        res.raw_stdout = p.stdout.decode("utf-8", "replace")
        res.raw_stderr = p.stderr.decode("utf-8", "replace")
    except subprocess.TimeoutExpired:
        res.rc = -9
        res.compile_error = True
        res.errors.append(dict(msg="verus timed out", line=None, labels=[], rendered="", code=None, kind="tool"))
        res.wall = time.time() - t0
        return res
    res.wall = time.time() - t0
    out = None
    try:
        out = json.loads(res.raw_stdout)
    except Exception:
        # stdout may contain junk before the JSON
        i = res.raw_stdout.find("{")
        if i >= 0:
            try:
                out = json.loads(res.raw_stdout[i:])
            except Exception:
                out = None
    if out is not None:
        vr = out.get("verification-results", {})
        res.verified = vr.get("verified", 0)
        res.failed = vr.get("errors", 0)
        if vr.get("encountered-vir-error"):
            res.compile_error = True
        smt = out.get("times-ms", {}).get("smt", {})
        for m in smt.get("smt-run-module-times", []):
            for f in m.get("function-breakdown", []):
                res.functions[f["function"]] = dict(success=f.get("success"), time_us=f.get("time-micros", 0),
                                                    rlimit=f.get("rlimit", 0), mode=f.get("mode:", f.get("mode")))
        if "verification-results" not in out:
            res.compile_error = True
    else:
        res.compile_error = True
    if "panicked at" in res.raw_stderr and ("rust_verify" in res.raw_stderr or "internal error" in res.raw_stderr):
        res.compile_error = True
        i = res.raw_stderr.find("panicked at")
        res.errors.append(dict(msg="verus crashed: " + " ".join(res.raw_stderr[i:i + 300].split()), line=None, text="", labels=[], rendered=res.raw_stderr[i:i + 600], code="ICE"))
    if res.rc not in (0, 1) and not res.functions:
        res.compile_error = True
    for line in res.raw_stderr.splitlines():
        line = line.strip()
        if not line.startswith("{"):
            continue
        try:
            d = json.loads(line)
        except Exception:
            continue
        lvl = d.get("level")
        if lvl not in ("error",):
            continue
        msg = d.get("message", "")
        if msg.startswith("aborting due to"):
            continue
        base = os.path.basename(path)

        def _own(sp):
            """the span inside OUR generated file: a span that lies in a macro definition elsewhere (core's panic!, vstd ...) is followed
            through its expansion chain to the invocation site"""
            seen = 0
            while sp is not None and seen < 8:
                if os.path.basename(sp.get("file_name", "")) == base:
                    return sp
                sp = (sp.get("expansion") or {}).get("span")
                seen += 1
            return None
        spans = [x for x in (_own(sp) for sp in d.get("spans", [])) if x is not None]
        raw_spans = d.get("spans", [])
        prim = [x for x in (_own(sp) for sp in raw_spans if sp.get("is_primary")) if x is not None]
        line_no = prim[0]["line_start"] if prim else (spans[0]["line_start"] if spans else None)
        text = ""
        if prim and prim[0].get("text"):
            text = prim[0]["text"][0].get("text", "")
        labels = [(s["line_start"], s.get("label") or "", (s.get("text") or [{}])[0].get("text", "")) for s in spans]
        code = (d.get("code") or {}).get("code") if d.get("code") else None
        res.errors.append(dict(msg=msg, line=line_no, text=text, labels=labels, rendered=d.get("rendered", ""), code=code))
        if code:
            res.compile_error = True
    return res


VERIF_MSGS = (
    ("postcondition not satisfied", "postcondition"),
    ("precondition not satisfied", "precondition"),
    ("possible arithmetic underflow/overflow", "arithmetic-overflow"),
    ("possible division by zero", "division-by-zero"),
    ("assertion failed", "assertion"),
    ("requires not satisfied", "assertion"),  # `assert(..) by(..) requires ..`: the stated premises of a proof step do not hold
    ("invariant not satisfied at end of loop body", "invariant-end"),
    ("invariant not satisfied before loop", "invariant-entry"),
    ("decreases not satisfied", "decreases"),
    ("could not prove termination", "termination"),
    ("possible bit shift underflow/overflow", "shift-overflow"),
    ("recommendation not met", "recommends"),
    ("unreachable", "unreachable"),
    ("cannot show invariant", "invariant"),
    ("loop invariant", "invariant"),
    ("index out of bounds", "index"),
    ("post-condition of closure", "closure-postcondition"),
    ("pre-condition of closure", "closure-precondition"),
    ("unable to prove", "other-verification"),
    ("failed this", "other-verification"),
)


def classify_msg(msg):
    m = msg.lower()
    if "rlimit" in m or "resource limit" in m or "timed out" in m:
        return "rlimit"
    for k, v in VERIF_MSGS:
        if k in m:
            return v
    return None
