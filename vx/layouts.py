"""Helper contracts derived from the code (allowed for SHAPES only: field count, field names, field kinds of the
component![..] a builder returns).  Value clauses (lengths, flags, constants) are written by hand from the protocol documents."""
import re
from .extract import Source, FnParts, LostAnchor


def _split_top(inner):
    """split `"k" => expr, "k2" => expr2` at depth-0 commas; returns [(key, expr)]"""
    out = []
    depth = 0
    cur = []
    i = 0
    n = len(inner)
    while i < n:
        c = inner[i]
        if c == '"':
            j = i + 1
            while inner[j] != '"':
                j += 2 if inner[j] == "\\" else 1
            cur.append(inner[i:j + 1])
            i = j + 1
            continue
        if c == "'" and i + 2 < n and (inner[i + 2] == "'" or inner[i + 1] == "\\"):
            j = inner.index("'", i + 1 + (1 if inner[i + 1] == "\\" else 0))
            cur.append(inner[i:j + 1]); i = j + 1; continue
        if c == "/" and inner.startswith("//", i):
            j = inner.find("\n", i)
            i = n if j < 0 else j
            continue
        if c in "([{": depth += 1
        elif c in ")]}": depth -= 1
        elif c == "," and depth == 0:
            out.append("".join(cur)); cur = []; i += 1; continue
        elif c == "|" and depth == 0:
            pass
        cur.append(c)
        i += 1
    if "".join(cur).strip():
        out.append("".join(cur))
    res = []
    for part in out:
        m = re.match(r'\s*"((?:[^"\\]|\\.)*)"\s*=>\s*(.*)$', part, re.S)
        if not m:
            raise LostAnchor("cannot parse component! entry %r" % part[:60])
        res.append((m.group(1), m.group(2).strip()))
    return res


def kind_of(expr):
    e = expr.strip()
    if re.match(r"U16::(LE|BE)\(", e): return "U16"
    if re.match(r"U32::(LE|BE)\(", e): return "U32"
    if re.match(r"Check::new\(", e): return "Check"
    if re.match(r"DynOption::new\(", e): return "Dyn"
    if re.match(r"Array::(new|from_trame)\(", e): return "Arr"
    if re.match(r"Some\(", e): return "Opt"
    if re.match(r"trame!\s*[\[\(]", e): return "Trame"
    if re.match(r"(vec!\s*\[|Vec::<u8>::new\(\)|b\"|to_vec\()", e) or re.search(r"\.(to_vec|to_unicode)\(\)$", e): return "Bytes"
    if re.search(r"\bas u8\s*$", e): return "U8"
    return None


def component_text(fn_text, nth=1):
    ms = list(re.finditer(r"component!\s*[\[\(]", fn_text))
    if len(ms) < nth:
        raise LostAnchor("component! #%d not found" % nth)
    i = ms[nth - 1].end()
    depth = 1
    j = i
    in_str = False
    while j < len(fn_text) and depth:
        c = fn_text[j]
        if c == '"':
            j += 1
            while fn_text[j] != '"':
                j += 2 if fn_text[j] == "\\" else 1
        elif c in "([{": depth += 1
        elif c in ")]}": depth -= 1
        j += 1
    return fn_text[i:j - 1]


def shape_clauses(file, name, impl=None, res="c", nth=1, kinds=True):
    """ensures clauses: field count, names (and kinds where the expression form is recognised) of the nth component! of the function"""
    src = Source.get(file)
    it = src.find("fn", name, impl)
    fp = FnParts(src, it)
    entries = _split_top(component_text(fp.body_text(), nth))
    cl = ["%s.fields().len() == %d" % (res, len(entries))]
    for i, (k, e) in enumerate(entries):
        c = '%s.fields()[%d].0 == "%s"@' % (res, i, k)
        kd = kind_of(e) if kinds else None
        if kd:
            c += " && %s.fields()[%d].1 is %s" % (res, i, kd)
        cl.append(c)
    return [(None, "shape", " && ".join(cl))]


def field_index(file, name, key, impl=None, nth=1):
    src = Source.get(file)
    it = src.find("fn", name, impl)
    fp = FnParts(src, it)
    entries = _split_top(component_text(fp.body_text(), nth))
    for i, (k, e) in enumerate(entries):
        if k == key:
            return i
    raise LostAnchor("field %s not found in %s" % (key, name))


def list_fns(file):
    """[(fn name, impl header or None)] of every function of a source file outside #[cfg(test)] modules"""
    src = Source.get(file)
    out = []
    for it in src.items():
        if it[0] == "fn":
            out.append((it[1], None))
        elif it[0] == "impl":
            hdr = " ".join(it[2].split())
            for it2 in src.items(it[5] + 1, it[4]):
                if it2[0] == "fn":
                    out.append((it2[1], hdr))
    return out


def has_component(file, name, impl=None):
    src = Source.get(file)
    fp = FnParts(src, src.find("fn", name, impl))
    return len(re.findall(r"component!\s*[\[\(]", fp.body_text()))
