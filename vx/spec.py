"""Spec DSL: a unit is a list of items placed into modules of one generated Verus file."""


def _lst(x):
    if x is None:
        return []
    if isinstance(x, (str, tuple)):
        return [x]
    return list(x)


class Clause:
    """one requires/ensures clause, optionally restricted to some properties and given a stable id"""

    def __init__(self, text, props=None, cid=None):
        self.text = text.strip().rstrip(",")
        self.props = props
        self.cid = cid


def _clauses(x):
    out = []
    for c in _lst(x):
        if isinstance(c, Clause):
            out.append(c)
        elif isinstance(c, tuple):
            if len(c) == 2:
                out.append(Clause(c[1], props=c[0].split(",") if c[0] else None))
            else:
                out.append(Clause(c[2], props=c[0].split(",") if c[0] else None, cid=c[1]))
        else:
            out.append(Clause(c))
    return out


class Fn:
    """a function of /repo whose real body is verified against the contract"""
    kind = "fn"

    def __init__(self, file, name, impl=None, mod=None, ret="r", requires=None, ensures=None, loops=None,
                 hints=None, closures=None, pre=None, props=(), keys=False, sig_sub=None, body_sub=None,
                 expand=None, attrs=None, canary=True, nloops=None, decreases=None, rename=None, dyn=True,
                 no_unwind=False, fuel=None, post=None, claims=None, impl_sub=None):
        self.file, self.name, self.impl, self.mod = file, name, impl, mod
        self.ret = ret
        self.requires = _clauses(requires)
        self.ensures = _clauses(ensures)
        self.loops = loops or {}
        self.hints = hints or []
        self.closures = closures or {}
        self.pre = pre
        self.props = list(props)
        self.keys = keys
        self.sig_sub = sig_sub or []
        self.body_sub = body_sub or []
        self.expand = expand or []
        self.attrs = attrs or []
        self.canary = canary
        self.nloops = nloops
        self.decreases = decreases
        self.rename = rename
        self.dyn = dyn
        self.no_unwind = no_unwind
        self.fuel = fuel
        self.post = post
        # claims: (regex, nth, text, where, props, cid) — asserted PROPERTY obligations inside the body (a failure is a violation, unlike a hint)
        self.claims = claims or []
        self.impl_sub = impl_sub or []
        self.stub = False

    def qname(self):
        return "%s::%s%s" % (self.mod, (self.impl_name() + "::") if self.impl else "", self.rename or self.name)

    def impl_name(self):
        return self.impl_label if hasattr(self, "impl_label") else (self.impl or "")


class Stub(Fn):
    """a function of /repo used through its contract only (signature extracted, body dropped): ASSUMED here,
    normally because it is verified in another unit (verified_in) or is external"""
    kind = "stub"

    def __init__(self, file, name, verified_in=None, why=None, **kw):
        Fn.__init__(self, file, name, **kw)
        self.stub = True
        self.verified_in = verified_in
        self.why = why
        self.canary = False


class Item:
    """struct / enum / const / type / macro_rules copied verbatim"""
    kind = "item"

    def __init__(self, file, ikind, name, mod=None, strip_derive=None, sub=None, try_from=None, add_derive=None):
        self.file, self.ikind, self.name, self.mod = file, ikind, name, mod
        self.strip_derive = strip_derive or []
        self.sub = sub or []
        self.try_from = try_from  # repr type name: generate `try_from` with contract from the discriminants
        self.add_derive = add_derive


class ImplHeader:
    """open an impl block with the header taken verbatim from the source (matched by regex)"""
    kind = "impl"

    def __init__(self, file, impl, mod=None, label=None, sub=None):
        self.file, self.impl, self.mod, self.label, self.sub = file, impl, mod, label, sub or []


class Raw:
    """unit-local text: spec functions, lemmas (proved) or assumed contracts (trusted=True)"""
    kind = "raw"

    def __init__(self, text, mod=None, trusted=None, name=None, file=None, impl=None):
        self.text, self.mod, self.trusted, self.name = text, mod, trusted, name
        # when file+impl are given the text is placed INSIDE that impl block (e.g. the `spec fn` of a trait impl)
        self.file, self.impl = file, impl


class Unit:
    def __init__(self, name, preludes, items, mods=None, uses=None, keys_from=None, doc="", broadcasts=("axiom_duplex", "bit_commute")):
        self.name = name
        self.broadcasts = tuple(broadcasts)  # module-level `broadcast use` groups (prelude/base.rs)
        self.preludes = preludes
        self.items = items
        self.mods = mods  # module order
        self.uses = uses or {}  # mod -> extra `use` lines
        self.doc = doc


def to_stub(f, verified_in):
    """the same contract, assumed instead of verified (for use in a unit above the one that proves it)"""
    s = Stub(f.file, f.name, verified_in=verified_in, impl=f.impl, mod=f.mod, ret=f.ret, sig_sub=f.sig_sub, rename=f.rename, dyn=f.dyn, attrs=f.attrs)
    s.requires = list(f.requires)
    s.ensures = list(f.ensures)
    s.impl_sub = getattr(f, "impl_sub", [])
    return s


def stubs_of(items, verified_in, verify=()):
    """copy an item list turning every verified Fn into a Stub, except the names in `verify`"""
    out = []
    for x in items:
        if x.kind == "fn" and x.name not in verify:
            out.append(to_stub(x, verified_in))
        else:
            out.append(x)
    return out
