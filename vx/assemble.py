"""Assemble one Verus file for a unit: prelude + extracted real items + contracts.  Produces the file text, a
line map (generated line -> origin) and the inventory used for evidence."""
import os, re, hashlib
from .lexer import lex, code_toks, match_close, line_of
from .extract import Source, FnParts, Edits, LostAnchor, split_args, macro_def
from . import spec as S

VERIF = os.path.dirname(os.path.dirname(os.path.abspath(__file__)))

# R1: dyn I/O parameters -> static dispatch
R1 = [
    (re.compile(r"&\s*mut\s+dyn\s+(Read|Write|AuthenticationProtocol|GenericSecurityService)\b"), r"&mut impl \1"),
    (re.compile(r"&\s*dyn\s+(Message)\b"), r"&impl \1"),
    # R3: transports are duplex
    (re.compile(r"\b(\w+)\s*:\s*Read\s*\+\s*Write\b(?!\s*\+\s*Duplex)"), r"\1: Read + Write + Duplex"),
]


class TextSource(Source):
    """a Source over in-memory text (phase B of function processing)"""

    def __init__(self, rel, text):
        self.rel = rel
        self.path = None
        self.text = text
        self.toks = lex(text)
        self.ct = code_toks(self.toks)


def _origin_lookup(origin, off):
    """origin: list of (out_start, out_end, src_start|None, tag); returns (src_off|None, tag)"""
    for a, b, s, tag in origin:
        if a <= off < b:
            if s is None:
                return None, tag
            return s + (off - a), None
    return None, None


def _compose(originB, originA):
    """originB maps phase-B output -> phase-A offsets; originA maps phase-A output -> source offsets"""
    out = []
    for a, b, s, tag in originB:
        if s is None:
            out.append((a, b, None, tag))
            continue
        # split [s, s+(b-a)) along originA segments
        pos = s
        o = a
        end = s + (b - a)
        for a2, b2, s2, tag2 in originA:
            if b2 <= pos or a2 >= end:
                continue
            lo = max(pos, a2)
            hi = min(end, b2)
            if lo > pos:
                # gap (should not happen)
                out.append((o, o + (lo - pos), None, "gap"))
                o += lo - pos
            out.append((o, o + (hi - lo), None if s2 is None else s2 + (lo - a2), tag2))
            o += hi - lo
            pos = hi
            if pos >= end:
                break
    return out


class Assembled:
    def __init__(self):
        self.chunks = []  # (text, meta) ; meta: dict(kind=..., fn=..., file=..., origin=..., src=Source)
        self.inventory = []  # per Fn/Stub: dict
        self.rewrites = []  # (rule, where)
        self.dropped_hints = {}  # qname -> number of proof hints whose anchor is lost (not placed)
        self.lost_claims = {}  # qname -> [(clause id, props)] claims whose anchored statement is no longer in the body
        self.trusted = []  # names of assumed items
        self.canaries = {}  # canary fn name -> fn qname
        self.keys = []
        self.text = None
        self.linemap = None

    def add(self, text, **meta):
        if not text.endswith("\n"):
            text += "\n"
        self.chunks.append((text, meta))

    def finish(self):
        self.text = "".join(t for t, _ in self.chunks)
        lm = []
        for text, meta in self.chunks:
            lines = text.split("\n")[:-1]
            off = 0
            for ln in lines:
                entry = {"kind": meta.get("kind", "gen"), "fn": meta.get("fn"), "file": meta.get("file"), "line": None, "tag": meta.get("tag")}
                origin = meta.get("origin")
                if origin is not None:
                    stripped = len(ln) - len(ln.lstrip())
                    so, tag = _origin_lookup(origin, off + min(stripped, max(len(ln) - 1, 0)))
                    if so is not None:
                        entry["line"] = line_of(meta["srctext"], so)
                        entry["kind"] = "src"
                    else:
                        entry["kind"] = tag or "spec"
                        # remember nearest source line for context
                        entry["tag"] = tag
                lm.append(entry)
                off += len(ln) + 1
        self.linemap = lm
        return self


def _r2(fp, ed, asm, where):
    """R2: diagnostics dropped: println!(fmt, a, b) -> { let _ = &(a); let _ = &(b); } ; &format!(fmt, a) -> { let _ = &(a); "" }.
    The ARGUMENTS are still evaluated (an index, an unwrap or a `?` inside them stays under verification); only formatting / printing goes."""
    ct = fp.src.ct
    def args_eval(o, c):
        parts = split_args(fp.src, o, c)[1:]
        out = []
        for (a, b) in parts:
            txt = fp.src.text[ct[a].start:ct[b - 1].end]
            m = re.match(r"^\s*[A-Za-z_][A-Za-z0-9_]*\s*=(?!=)\s*(.*)$", txt, re.S)
            if m:
                txt = m.group(1)
            out.append("let _ = &(%s);" % txt)
        return " ".join(out)
    for (i, o, c) in fp.macro_calls("println"):
        ed.replace(ct[i].start, ct[c].end, "{ " + args_eval(o, c) + " }", "R2")
        asm.rewrites.append(("R2 println! dropped (arguments still evaluated)", "%s:%d" % (where, fp.src.line(i))))
    for (i, o, c) in fp.macro_calls("format"):
        if ct[i - 1].text == "&":
            ed.replace(ct[i - 1].start, ct[c].end, "{ " + args_eval(o, c) + ' "" }', "R2")
            asm.rewrites.append(("R2 &format!(..) message -> \"\" (arguments still evaluated)", "%s:%d" % (where, fp.src.line(i))))


def _bytes_literal(tok_text):
    """b"..." -> list of byte values"""
    body = tok_text[2:-1]
    out = []
    i = 0
    while i < len(body):
        c = body[i]
        if c == "\\":
            n = body[i + 1]
            if n == "x":
                out.append(int(body[i + 2:i + 4], 16)); i += 4; continue
            m = {"0": 0, "n": 10, "r": 13, "t": 9, "\\": 92, '"': 34, "'": 39}
            if n in m:
                out.append(m[n]); i += 2; continue
            raise LostAnchor("unsupported escape in byte string %r" % tok_text)
        out.append(ord(c)); i += 1
    return out


def _r13(src, lo_tok, hi_tok, ed, asm, where):
    """R13: Verus knows the length but not the content of byte-string literals: b"\\x00\\x01" is spelled (&[0x00u8, 0x01u8]) (same type &[u8; N], same bytes)"""
    ct = src.ct
    for j in range(lo_tok, hi_tok + 1):
        t = ct[j]
        if t.kind == "str" and t.text.startswith('b"'):
            vals = _bytes_literal(t.text)
            ed.replace(t.start, t.end, "(&[" + ", ".join("0x%02xu8" % v for v in vals) + "])", "R13")
            asm.rewrites.append(("R13 byte-string literal spelled as a byte array", "%s:%d" % (where, src.line(j))))



def _expand_macros(fp, ed, asm, names, where):
    """R4: textual expansion of local single-arm expr macros (repeat!)"""
    ct = fp.src.ct
    for name in names:
        params, tmpl = macro_def(fp.src, name)
        for (i, o, c) in fp.macro_calls(name):
            args = split_args(fp.src, o, c)
            if len(args) != len(params):
                raise LostAnchor("macro %s! called with %d args" % (name, len(args)))
            text = tmpl
            vals = {}
            for p, (a, b) in zip(params, args):
                vals[p] = fp.src.text[ct[a].start:ct[b - 1].end]
            # substitute longest names first
            for p in sorted(params, key=len, reverse=True):
                text = re.sub(r"\$" + p + r"\b", lambda m: vals[p], text)
            end = ct[c].end
            # swallow the trailing `;` of the statement form
            ed.replace(ct[i].start, end, "{" + text + "}", "R4")
            asm.rewrites.append(("R4 %s! expanded" % name, "%s:%d" % (where, fp.src.line(i))))


def _clause_block(kw, clauses):
    if not clauses:
        return ""
    return "    %s\n" % kw + "".join("        %s,\n" % c.text for c in clauses)


ANCHOR_BASE = {}   # unit name -> {qname: {"nlines": int, "hints": [[line, col0, col1]|None...], "claims": [...]}} loaded by the checker from baseline/<unit>.json
ANCHOR_OUT = {}    # filled on every assembly: same structure for the current tree (written into the baseline on --rebaseline)


def _relax(pat):
    """whitespace-insensitive variant of an anchor regex: a literal blank matches any run of blanks (so re-formatting does not lose anchors)"""
    return re.sub(r"(?<!\\) +", r"\\s*", pat)


def _resolve_anchor(textA, body0, pat, nth, what, f, unit_name, kind, idx):
    """returns (start, end, positional) offsets in textA of the anchor match.  When the text of the anchored line itself changed, the
    position recorded in the committed baseline is mapped onto the current text through a line diff of the function (baseline lines vs
    current lines): the anchor follows its line if that line was replaced in place (possibly by a few lines, e.g. with an added comment)."""
    import difflib
    seg = textA[body0:]
    ms = [m for m in re.finditer(pat, seg)]
    if len(ms) < nth:
        ms = [m for m in re.finditer(_relax(pat), seg)]
    cur_lines = [l.strip() for l in textA.split("\n")]
    rec = ANCHOR_OUT.setdefault(unit_name, {}).setdefault(f.qname(), {"lines": cur_lines, "hints": {}, "claims": {}})
    rec["lines"] = cur_lines
    # where the committed baseline says this anchor sits, mapped onto the current text through a line diff of the function
    base = ANCHOR_BASE.get(unit_name, {}).get(f.qname())
    lo = hi = None
    if base and base.get("lines") and str(idx) in base.get(kind, {}) and base["lines"] != cur_lines:
        b0, b1 = base[kind][str(idx)]
        sm = difflib.SequenceMatcher(None, base["lines"], cur_lines, autojunk=False)
        for tag, i1, i2, j1, j2 in sm.get_opcodes():
            if tag == "equal":
                if i1 <= b0 < i2: lo = j1 + (b0 - i1)
                if i1 <= b1 < i2: hi = j1 + (b1 - i1)
            elif tag == "replace" and (i2 - i1) <= 2 and (j2 - j1) <= 4:
                # the anchored line was edited in place: the hint keeps its place relative to the replaced block
                if i1 <= b0 < i2 and lo is None: lo = j1
                if i1 <= b1 < i2 and hi is None: hi = j2 - 1
    if len(ms) >= nth:
        m = ms[nth - 1]
        n_base = None
        if lo is not None:
            bt = "\n".join(base["lines"])
            n_base = len(re.findall(pat, bt)) or len(re.findall(_relax(pat), bt))
        if lo is not None and n_base != len(ms):
            # (only when the NUMBER of occurrences changed: with the same number, "the nth occurrence" is still the nth one, also when
            # statements were moved around)
            # "the nth occurrence" shifts when an EARLIER occurrence of the same statement was edited away: among the regex matches prefer
            # the one on the line the baseline position maps to; if none is there, the anchored statement itself changed: positional placement
            same = [x for x in ms if textA.count("\n", 0, body0 + x.start()) == lo]
            if same:
                m = same[0]
            elif textA.count("\n", 0, body0 + m.start()) != lo:
                m = None
        if m is not None:
            s0, e0 = body0 + m.start(), body0 + m.end()
            l0 = textA.count("\n", 0, s0)
            l1 = textA.count("\n", 0, max(s0, e0 - 1))
            rec[kind][str(idx)] = [l0, l1]
            return s0, e0, False
    if base and base.get("lines") and str(idx) in base.get(kind, {}):
        if lo is not None and hi is not None and lo <= hi:
            lines_off = [0]
            for mm in re.finditer("\n", textA):
                lines_off.append(mm.end())
            s0 = lines_off[lo]
            e0 = (lines_off[hi + 1] - 1) if hi + 1 < len(lines_off) else len(textA)
            if s0 >= body0:
                rec[kind][str(idx)] = [lo, hi]
                return s0, e0, True
    raise LostAnchor("%s::%s: %s anchor /%s/ #%d not found" % (f.file, f.name, what, pat, nth))


def process_fn(asm, f, unit):
    """returns list of (text, meta) chunks for one Fn / Stub"""
    src = Source.get(f.file)
    it = src.find("fn", f.name, f.impl)
    fpA = FnParts(src, it)
    where = f.file
    fn_start = src.ct[fpA.i_sig].start
    fn_end = src.ct[fpA.i_end].end
    srctext = src.text
    # ---------------- phase A: R2, R4 on the raw function text
    edA = Edits(srctext[fn_start:fn_end], base=fn_start)
    if not f.stub:
        _r2(fpA, edA, asm, where)
        _r13(src, fpA.i_brace, fpA.i_end, edA, asm, where)
        if f.expand:
            _expand_macros(fpA, edA, asm, f.expand, where)
        for (pat, rep) in f.body_sub:
            # declared, logged textual substitutions inside the body (rules R5/R6); must match
            body0 = src.ct[fpA.i_brace].start
            seg = srctext[body0:fn_end]
            ms = list(re.finditer(pat, seg))
            if not ms:
                # the construct the substitution stands for is no longer in the body: nothing to rewrite.  If the body now holds another
                # construct outside the dialect, Verus rejects the file (undecided); otherwise the contract is checked against the new text.
                asm.rewrites.append(("body substitution /%s/ not applicable (pattern absent from the current body)" % pat, where))
                continue
            for m in ms:
                edA.replace(body0 + m.start(), body0 + m.end(), m.expand(rep), "Rsub")
                asm.rewrites.append(("body substitution /%s/ -> %s" % (pat, rep), "%s:%d" % (where, line_of(srctext, body0 + m.start()))))
    textA, originA = edA.apply()
    # ---------------- phase B on re-lexed text
    ts = TextSource(f.file, textA)
    itB = None
    for x in ts.items():
        if x[0] == "fn":
            itB = x
            break
    if itB is None:
        raise LostAnchor("cannot re-parse %s" % f.name)
    fp = FnParts(ts, itB)
    ct = ts.ct
    ed = Edits(textA)
    # --- signature
    sig_end = ct[fp.i_brace].start
    head_end_tok = fp.i_arrow if fp.i_arrow is not None else (fp.i_where if fp.i_where is not None else fp.i_brace)
    head = textA[ct[fp.i_sig].start:ct[head_end_tok].start].rstrip()
    if f.dyn:
        for rx, rep in R1:
            head2 = rx.sub(rep, head)
            if head2 != head:
                asm.rewrites.append(("R1 dyn parameter -> impl", "%s:%d %s" % (where, fpA.start_line, f.name)))
                head = head2
    pending_where_subs = []
    for (pat, rep) in f.sig_sub:
        head2 = re.sub(pat, rep, head)
        if head2 == head:
            pending_where_subs.append((pat, rep))
            continue
        asm.rewrites.append(("signature substitution /%s/ -> %s" % (pat, rep), "%s:%d" % (where, fpA.start_line)))
        head = head2
    if f.rename:
        head = re.sub(r"\bfn\s+" + re.escape(f.name) + r"\b", "fn " + f.rename, head, count=1)
    ret = ""
    if fp.i_arrow is not None:
        r_end = fp.i_where if fp.i_where is not None else fp.i_brace
        rty = textA[ct[fp.i_arrow + 1].start:ct[r_end].start].strip()
        ret = " -> (%s: %s)" % (f.ret, rty)
    wh = ""
    if fp.i_where is not None:
        wh = "\n    " + textA[ct[fp.i_where].start:sig_end].strip()
        if f.dyn:
            for rx, rep in R1:
                wh = rx.sub(rep, wh)
    for (pat, rep) in pending_where_subs:
        wh2 = re.sub(pat, rep, wh)
        if wh2 == wh:
            raise LostAnchor("sig_sub /%s/ did not match in %s" % (pat, f.name))
        asm.rewrites.append(("signature substitution /%s/ -> %s" % (pat, rep), "%s:%d" % (where, fpA.start_line)))
        wh = wh2
    contract = "\n" + _clause_block("requires", f.requires) + _clause_block("ensures", f.ensures)
    if f.decreases:
        contract += "    decreases %s\n" % f.decreases
    if f.no_unwind:
        contract += "    no_unwind\n"
    new_sig = head + ret + wh + contract
    attrs = "".join("%s\n" % a for a in f.attrs)
    if f.stub:
        attrs += "#[verifier::external_body]\n"
        text = attrs + new_sig + "{ unimplemented!() }\n"
        meta = dict(kind="stub", fn=f.qname(), file=f.file, origin=None, srctext=None)
        return [(text, meta)], fpA
    ed.replace(ct[fp.i_sig].start, sig_end, attrs + new_sig, "contract")
    # --- body start
    pre = ""
    if f.keys:
        pre += " proof { lemma_keys(); }"
    if f.fuel:
        pre += " proof { reveal_with_fuel(ser, %d); reveal_with_fuel(ser_fields_from, %d); reveal_with_fuel(ser_seq_from, %d); }" % (f.fuel, f.fuel, f.fuel)
    if pre:
        ed.insert(ct[fp.i_brace].end, pre + "\n", "hint:gen")
    if f.pre:
        ed.insert(ct[fp.i_brace].end, " " + f.pre.strip() + "\n", "hint:pre")
    # --- R10: bind the tail expression so that a proof block can follow it
    if f.post:
        depth = 0
        tail = fp.i_brace + 1
        for j in range(fp.i_brace + 1, fp.i_end):
            x = ct[j]
            if x.kind == "punct":
                if x.text in ("(", "[", "{"): depth += 1
                elif x.text in (")", "]", "}"): depth -= 1
                elif x.text == ";" and depth == 0:
                    tail = j + 1
        if tail >= fp.i_end:
            raise LostAnchor("%s::%s: no tail expression to bind" % (f.file, f.name))
        ed.insert(ct[tail].start, "let %s = " % f.ret, "hint:post")
        ed.insert(ct[fp.i_end].start, "; " + f.post.strip() + " " + f.ret + "\n", "hint:post")
        asm.rewrites.append(("R10 tail expression bound to `%s` (proof block follows)" % f.ret, "%s:%d %s" % (where, fpA.start_line, f.name)))
    # --- loops
    loops = fp.loops()
    if f.nloops is not None and f.nloops != len(loops):
        raise LostAnchor("%s::%s: expected %d loops, found %d" % (f.file, f.name, f.nloops, len(loops)))
    for n, inv in f.loops.items():
        if n < 1 or n > len(loops):
            raise LostAnchor("%s::%s: loop #%d not found (%d loops)" % (f.file, f.name, n, len(loops)))
        kw, ob = loops[n - 1]
        ed.insert(ct[ob].start, "\n" + inv.strip() + "\n", "invariant")
    # --- closures
    cls = fp.closures()
    def _closure_key(tok_i):
        """name of the component![..] entry (`"name" => ...`) the closure belongs to, if any"""
        for j in range(tok_i - 1, fp.i_brace, -1):
            if ct[j].text == "=>" and ct[j - 1].kind == "str":
                return ct[j - 1].text
        return "<none>"
    ckeys = [_closure_key(c[0]) for c in cls]
    crec = ANCHOR_OUT.setdefault(unit.name, {}).setdefault(f.qname(), {"lines": [], "hints": {}, "claims": {}})
    crec["closures"] = {}
    cbase = (ANCHOR_BASE.get(unit.name, {}).get(f.qname()) or {}).get("closures", {})
    for n, ann in f.closures.items():
        idx = n - 1
        want = cbase.get(str(n))
        if want is not None and (idx >= len(cls) or idx < 0 or ckeys[idx] != want):
            # the closures of the function were re-numbered (one added / removed): follow the component key recorded in the baseline
            cands = [k for k, key in enumerate(ckeys) if key == want]
            if len(cands) == 1:
                idx = cands[0]
                asm.rewrites.append(("closure contract #%d re-attached by component key %s" % (n, want), "%s %s" % (f.file, f.name)))
            elif len(cands) == 0:
                # the annotated closure no longer exists: its contract has nothing to attach to (the function is verified without it)
                asm.rewrites.append(("closure contract #%d dropped: the closure (key %s) is gone" % (n, want), "%s %s" % (f.file, f.name)))
                continue
            else:
                raise LostAnchor("%s::%s: closure #%d (key %s) is ambiguous" % (f.file, f.name, n, want))
        if idx < 0 or idx >= len(cls):
            raise LostAnchor("%s::%s: closure #%d not found (%d closures)" % (f.file, f.name, n, len(cls)))
        crec["closures"][str(n)] = ckeys[idx]
        b0, b1, s, e = cls[idx]
        params = ann.get("params", "")
        ed.replace(ct[b0].start, ct[b1].end, "|%s| %s %s " % (params, ann.get("ret", ""), ann.get("spec", "")), "closure-contract")
        if ct[s].text != "{":
            ed.insert(ct[s].start, "{ ", "closure-contract")
            ed.insert(ct[e - 1].end, " }", "closure-contract")
    # --- hints
    body0 = ct[fp.i_brace].start
    body_lines_off = []
    for k, h in enumerate(f.hints):
        if h is None:
            continue
        pat, nth, text = h[0], h[1], h[2]
        where_ = h[3] if len(h) > 3 else "after"
        try:
            s0, e0, positional = _resolve_anchor(textA, body0, pat, nth, "hint", f, unit.name, "hints", k)
        except LostAnchor:
            if where_ in ("at", "atend"):
                raise  # inline hints (labels, iterator names inside an expression) cannot be left out
            # (a hint that declares ghost variables is left out too: text that depends on them then fails to COMPILE, which is handled as
            # "hint does not compile" / undecided by the checker, never as a violation)
            # a proof aid that cannot be placed is left out: the function is then either proved without it, or reported UNDECIDED
            # (never as a violation: vx/check.py downgrades failures of functions listed here)
            asm.dropped_hints[f.qname()] = asm.dropped_hints.get(f.qname(), 0) + 1
            asm.rewrites.append(("proof hint #%d not placed: anchor /%s/ no longer in the body" % (k, pat), "%s %s" % (f.file, f.name)))
            continue
        if positional and where_ in ("at", "atend"):
            raise LostAnchor("%s::%s: hint anchor /%s/ #%d not found (inline hint: no positional fallback)" % (f.file, f.name, pat, nth))
        if positional:
            asm.rewrites.append(("anchor of hint #%d re-placed by recorded line position (anchored line changed)" % k, "%s %s" % (f.file, f.name)))
        if where_ == "before":
            at = textA.rfind("\n", 0, s0) + 1
            ed.insert(at, text.strip() + "\n", "hint:%d" % k)
        elif where_ == "at":
            ed.insert(s0, text.strip() + " ", "hint:%d" % k)
        elif where_ == "atend":
            ed.insert(e0, " " + text.strip() + " ", "hint:%d" % k)
        else:
            at = textA.find("\n", e0)
            at = len(textA) if at < 0 else at + 1
            ed.insert(at, text.strip() + "\n", "hint:%d" % k)
    for k, c in enumerate(f.claims):
        pat, nth, text = c[0], c[1], c[2]
        where_ = c[3] if len(c) > 3 else "after"
        tag = "claim:%d" % k
        if k in DROP_CLAIMS.get(f.qname(), ()):
            # the claim names a local that the current body no longer has: it cannot be stated -> undecided for that claim only
            asm.lost_claims.setdefault(f.qname(), []).append((c[5] if len(c) > 5 else tag, c[4] if len(c) > 4 else None))
            continue
        if nth == 0:
            # "at EVERY occurrence" (e.g. every `return Ok(false)`): the claim is a condition of each such exit, including ones added later
            seg_ = textA[body0:]
            ms_ = list(re.finditer(pat, seg_)) or list(re.finditer(_relax(pat), seg_))
            if len(c) > 6 and c[6]:
                # only the occurrences AFTER the first match of a second pattern (e.g. after the `let` that binds a local the claim names)
                ma_ = re.search(c[6], seg_)
                ms_ = [m_ for m_ in ms_ if ma_ and m_.start() > ma_.end()]
            if not ms_:
                asm.lost_claims.setdefault(f.qname(), []).append((c[5] if len(c) > 5 else tag, c[4] if len(c) > 4 else None))
                continue
            for m_ in ms_:
                if where_ == "before":
                    ed.insert(textA.rfind("\n", 0, body0 + m_.start()) + 1, text.strip() + "\n", tag)
                else:
                    at_ = textA.find("\n", body0 + m_.end())
                    ed.insert(len(textA) if at_ < 0 else at_ + 1, text.strip() + "\n", tag)
            continue
        try:
            s0, e0, positional = _resolve_anchor(textA, body0, pat, nth, "claim", f, unit.name, "claims", k)
            if positional:
                # a claim is never re-placed by position: at a wrong place its condition may simply be false there (a false alarm);
                # a hint may be (a misplaced hint can only fail and be removed)
                raise LostAnchor("claim: no positional fallback")
        except LostAnchor:
            # the statement the claim is about is gone: the claim is UNDECIDED (reported as such), the rest of the function is still checked:
            # a violation found elsewhere is a violation all the same
            asm.lost_claims.setdefault(f.qname(), []).append((c[5] if len(c) > 5 else tag, c[4] if len(c) > 4 else None))
            continue
        if where_ == "before":
            at = textA.rfind("\n", 0, s0) + 1
            ed.insert(at, text.strip() + "\n", tag)
        elif where_ == "at":
            ed.insert(s0, text.strip() + " ", tag)
        elif where_ == "atend":
            ed.insert(e0, " " + text.strip() + " ", tag)
        else:
            at = textA.find("\n", e0)
            at = len(textA) if at < 0 else at + 1
            ed.insert(at, text.strip() + "\n", tag)
    textB, originB = ed.apply()
    origin = _compose(originB, originA)
    meta = dict(kind="fn", fn=f.qname(), file=f.file, origin=origin, srctext=srctext)
    chunks = [(textB, meta)]
    # --- canary
    if f.canary and f.requires:
        cname = "__canary_" + (f.rename or f.name)
        chead = re.sub(r"\bfn\s+" + re.escape(f.rename or f.name) + r"\b", "fn " + cname, head, count=1)
        chead = re.sub(r"^\s*pub\s+", "", chead)
        ctext = "#[allow(unused_variables, unused_mut)]\n" + chead + ret + wh + "\n" + _clause_block("requires", f.requires) + \
                "{ proof { assert(false); } vstd::pervasive::unreached() }\n"
        chunks.append((ctext, dict(kind="canary", fn=f.qname(), file=f.file, origin=None)))
        asm.canaries[cname] = f.qname()
    return chunks, fpA


def _enum_variants(text):
    """[(name, value)] with num_enum's implicit discriminant rule (previous + 1)"""
    body = text[text.index("{") + 1:text.rindex("}")]
    body = re.sub(r"//[^\n]*", "", body)
    body = re.sub(r"#\[[^\]]*\]", "", body)
    out = []
    prev = -1
    for part in body.split(","):
        part = part.strip()
        if not part:
            continue
        m = re.match(r"^([A-Za-z_][A-Za-z0-9_]*)\s*(=\s*(.+))?$", part, re.S)
        if not m:
            raise LostAnchor("cannot parse enum variant %r" % part)
        if m.group(3):
            v = int(m.group(3).strip().replace("_", ""), 0)
        else:
            v = prev + 1
        out.append((m.group(1), v))
        prev = v
    return out


def gen_try_from(name, repr_ty, variants):
    conds = " else ".join("if v == %d { Some(%s::%s) }" % (v, name, n) for n, v in variants)
    exec_ = " else ".join("if v == %d { Ok(%s::%s) }" % (v, name, n) for n, v in variants)
    return """impl %(n)s {
    /// num_enum::TryFromPrimitive, generated from the extracted discriminants
    pub open spec fn from_repr(v: %(t)s) -> Option<%(n)s> { %(c)s else { None } }
    pub fn try_from(v: %(t)s) -> (r: RdpResult<%(n)s>)
        ensures (r is Ok) == (%(n)s::from_repr(v) is Some), r is Ok ==> Some(r->Ok_0) == %(n)s::from_repr(v),
            r is Err ==> (r->Err_0 is RdpError && r->Err_0->RdpError_0.kind == RdpErrorKind::InvalidCast)
    { %(e)s else { Err(Error::RdpError(RdpError::new(RdpErrorKind::InvalidCast, "Invalid enum conversion"))) } }
}
""" % dict(n=name, t=repr_ty, c=conds, e=exec_)


def process_item(asm, x):
    src = Source.get(x.file)
    it = src.find(x.ikind, x.name)
    text = src.item_text(it)
    for d in x.strip_derive:
        text2 = re.sub(r"(#\[derive\([^\)]*?)\b%s\b\s*,?\s*" % re.escape(d), r"\1", text)
        text2 = re.sub(r",\s*\)\]", ")]", text2)
        text2 = re.sub(r"#\[derive\(\s*\)\]\s*", "", text2)
        if text2 != text:
            asm.rewrites.append(("R7 derive(%s) dropped (contract generated from discriminants)" % d, "%s %s" % (x.file, x.name)))
        text = text2
    # R13 on items (e.g. `const K: [u8; 4] = *b"Duca";`)
    def _bl(m):
        vals = _bytes_literal(m.group(0))
        asm.rewrites.append(("R13 byte-string literal spelled as a byte array", "%s %s" % (x.file, x.name)))
        return "(&[" + ", ".join("0x%02xu8" % v for v in vals) + "])"
    if x.ikind in ("const", "static"):
        text = re.sub(r'b"(?:[^"\\]|\\.)*"', _bl, text)
    for pat, rep in x.sub:
        text2 = re.sub(pat, rep, text)
        if text2 == text:
            raise LostAnchor("item sub /%s/ did not match in %s" % (pat, x.name))
        asm.rewrites.append(("item substitution /%s/ -> %s" % (pat, rep), "%s %s" % (x.file, x.name)))
        text = text2
    # R7: one generated file, one module per source file: private enums / structs are made `pub` so that contracts in other modules can name them
    m = re.search(r"(?m)^(\s*)(enum|struct)\s+" + re.escape(x.name) + r"\b", text)
    if m and not re.search(r"(?m)^\s*pub(\([^)]*\))?\s+(enum|struct)\s+" + re.escape(x.name) + r"\b", text):
        text = text[:m.start(2)] + "pub " + text[m.start(2):]
        asm.rewrites.append(("R7 private item made pub", "%s %s" % (x.file, x.name)))
    if x.ikind == "struct" and "{" in text:
        # R7: fields of extracted structs are made `pub` as well (contracts of pub functions may then mention them)
        b = text.index("{")
        body = text[b:]
        body2 = re.sub(r"(?m)^(\s*)(?!pub\b|///|//|#)([A-Za-z_][A-Za-z0-9_]*\s*:)", r"\1pub \2", body)
        if body2 != body:
            asm.rewrites.append(("R7 struct fields made pub", "%s %s" % (x.file, x.name)))
        text = text[:b] + body2
    if x.add_derive:
        text = "#[derive(%s)]\n" % x.add_derive + text
    # doc comments are harmless; keep verbatim
    chunks = [(text, dict(kind="item", fn=None, file=x.file, origin=[(0, len(text), src.ct[it[3]].start, None)], srctext=src.text))]
    if x.try_from:
        chunks.append((gen_try_from(x.name, x.try_from, _enum_variants(text)), dict(kind="gen", fn="%s::try_from" % x.name)))
    return chunks


def gen_key_lemma(groups):
    """pairwise distinctness of the literal keys of each component! (proved by reveal_strlit, not assumed)"""
    lits = sorted(set(k for g in groups for k in g))
    if not lits:
        return "pub proof fn lemma_keys() {}\n"
    pairs = set()
    for g in groups:
        g = sorted(set(g))
        for i in range(len(g)):
            for j in range(i + 1, len(g)):
                pairs.add((g[i], g[j]))
    lines = ["#[verifier::spinoff_prover]", "pub proof fn lemma_keys()", "    ensures"]
    for a, b in sorted(pairs):
        lines.append('        "%s"@ != "%s"@,' % (a, b))
    lines.append("{")
    for l in lits:
        lines.append('    reveal_strlit("%s"); assert("%s"@.len() == %d);' % (l, l, len(l)))
    for a, b in sorted(pairs):
        if len(a) == len(b):
            k = next(i for i in range(len(a)) if a[i] != b[i])
            lines.append("    assert(\"%s\"@[%d] == '%s' && \"%s\"@[%d] == '%s');" % (a, k, a[k], b, k, b[k]))
    lines.append("}")
    return "\n".join(lines) + "\n"


def component_key_groups(text):
    """literal keys of every component![..] invocation in text"""
    groups = []
    for m in re.finditer(r"component!\s*[\[\(]", text):
        i = m.end()
        depth = 1
        j = i
        while j < len(text) and depth:
            if text[j] in "([{": depth += 1
            elif text[j] in ")]}": depth -= 1
            j += 1
        inner = text[i:j - 1]
        # only keys at depth 0 of this invocation
        keys = []
        d = 0
        k = 0
        while k < len(inner):
            c = inner[k]
            if c in "([{": d += 1
            elif c in ")]}": d -= 1
            elif c == '"' and d == 0:
                e = inner.index('"', k + 1)
                rest = inner[e + 1:].lstrip()
                if rest.startswith("=>"):
                    keys.append(inner[k + 1:e])
                k = e
            elif c == '"':
                e = k + 1
                while inner[e] != '"':
                    e += 2 if inner[e] == "\\" else 1
                k = e
            k += 1
        if keys:
            if len(set(keys)) != len(keys):
                raise LostAnchor("duplicate literal key in a component!: %s" % keys)
            groups.append(keys)
    return groups


DROP_CLAIMS = {}  # qname -> set(claim index): claims whose text does not compile against the current body (set by the checker for a re-run)


def assemble(unit, drop_hints=()):
    asm = Assembled()
    asm.add("// GENERATED by /verif/vx for unit `%s` — do not edit; bodies are extracted from /repo on every run\n"
            "#![allow(unused_imports, unused_variables, unused_mut, dead_code, unused_parens, non_camel_case_types, unused_assignments, unused_braces, unreachable_code, unused_must_use)]\n"
            "use vstd::prelude::*;" % unit.name, kind="gen")
    asm.add(open(os.path.join(VERIF, "prelude", "macros.rs")).read(), kind="prelude", tag="macros.rs")
    asm.add("verus! {", kind="gen")
    for p in unit.preludes:
        txt = open(os.path.join(VERIF, "prelude", p)).read()
        asm.add(txt, kind="prelude", tag=p)
        for m in re.finditer(r"#\[verifier::external_body\]\s*(?:#\[[^\]]*\]\s*)*(?:pub\s+)?(fn|struct)\s+(\w+)", txt):
            asm.trusted.append("prelude/%s: %s %s" % (p, m.group(1), m.group(2)))
    mods = unit.mods or []
    for x in unit.items:
        if x.mod not in mods:
            mods.append(x.mod)
    all_fn_text = []
    mod_chunks = {m: [] for m in mods}
    open_impl = {m: None for m in mods}
    for x in unit.items:
        out = mod_chunks[x.mod]
        if x.kind in ("fn", "stub") or (x.kind == "raw" and x.impl):
            if x.kind != "raw" and x.qname() in drop_hints:
                x = _without_hints(x, drop_hints[x.qname()] if isinstance(drop_hints, dict) else None)
            key = (x.file, x.impl) if x.impl else None
            if open_impl[x.mod] != key:
                if open_impl[x.mod] is not None:
                    out.append(("}\n", dict(kind="gen")))
                if key is not None:
                    src = Source.get(x.file)
                    hdr = None
                    rx = re.compile(x.impl)
                    for it in src.items():
                        if it[0] == "impl" and rx.search(" ".join(it[2].split())):
                            hdr = " ".join(it[2].split())
                            break
                    if hdr is None:
                        raise LostAnchor("impl /%s/ not found in %s" % (x.impl, x.file))
                    for rx1, rep in R1:
                        hdr = rx1.sub(rep, hdr)
                    for pat, rep in getattr(x, "impl_sub", []) or []:
                        hdr = re.sub(pat, rep, hdr)
                    out.append((hdr + " {\n", dict(kind="gen")))
                open_impl[x.mod] = key
            if x.kind == "raw":
                out.append((x.text, dict(kind="raw", fn=x.name, tag=x.name)))
                if x.trusted:
                    asm.trusted.append("unit-local assumed: %s" % x.trusted)
                elif "external_body" in x.text:
                    raise LostAnchor("unit %s: raw block %s contains external_body but is not declared trusted" % (unit.name, x.name))
                continue
            chunks, fpA = process_fn(asm, x, unit)
            out.extend(chunks)
            if not x.stub:
                all_fn_text.append(chunks[0][0])
            asm.inventory.append(dict(qname=x.qname(), stub=x.stub, file=x.file, name=x.name, lines=[fpA.start_line, fpA.end_line],
                                      sha1=fpA.sha1(), props=x.props, requires=[c.text for c in x.requires],
                                      ensures=[dict(text=c.text, props=c.props, cid=c.cid) for c in x.ensures],
                                      loops=len(x.loops), hints=len(x.hints), verified_in=getattr(x, "verified_in", None),
                                      why=getattr(x, "why", None)))
            if x.stub:
                asm.trusted.append("assumed contract: %s (%s)" % (x.qname(), x.verified_in and ("verified in unit " + x.verified_in) or (x.why or "external")))
        else:
            if open_impl[x.mod] is not None:
                out.append(("}\n", dict(kind="gen")))
                open_impl[x.mod] = None
            if x.kind == "item":
                ch = process_item(asm, x)
                out.extend(ch)
                all_fn_text.append(ch[0][0])
            elif x.kind == "raw":
                out.append((x.text, dict(kind="raw", fn=x.name, tag=x.name)))
                if x.trusted:
                    asm.trusted.append("unit-local assumed: %s" % x.trusted)
                for m in re.finditer(r"#\[verifier::external_body\]", x.text):
                    if not x.trusted:
                        raise LostAnchor("unit %s: raw block %s contains external_body but is not declared trusted" % (unit.name, x.name))
    for m in mods:
        if open_impl[m] is not None:
            mod_chunks[m].append(("}\n", dict(kind="gen")))
    # key lemma
    groups = component_key_groups("\n".join(all_fn_text))
    asm.keys = groups
    asm.add(gen_key_lemma(groups), kind="gen", fn="lemma_keys")
    for m in mods:
        if m is None:
            for t, meta in mod_chunks[m]:
                asm.add(t, **meta)
        else:
            asm.add("pub mod %s {\nuse super::*;\n%s%s" % (m, ("broadcast use {%s};\n" % ", ".join(getattr(unit, "broadcasts", ("axiom_duplex", "bit_commute"))) if getattr(unit, "broadcasts", True) else ""), "".join("%s\n" % u for u in unit.uses.get(m, []))), kind="gen")
            for t, meta in mod_chunks[m]:
                asm.add(t, **meta)
            asm.add("} // mod %s" % m, kind="gen")
    asm.add("} // verus!\nfn main() {}", kind="gen")
    return asm.finish()


def _strip_asserts(text):
    """remove `proof { .. }` blocks and top-level assert statements from a hint text; ghost declarations and labels stay"""
    out = []
    i = 0
    n = len(text)
    while i < n:
        m = re.compile(r"\bproof\s*\{").match(text, i)
        m2 = re.compile(r"\bassert\b").match(text, i)
        if m:
            depth = 1
            j = m.end()
            while j < n and depth:
                if text[j] == "{": depth += 1
                elif text[j] == "}": depth -= 1
                j += 1
            i = j
            continue
        if m2:
            depth = 0
            j = i
            while j < n:
                c = text[j]
                if c in "([{": depth += 1
                elif c in ")]}": depth -= 1
                elif c == ";" and depth == 0:
                    j += 1
                    break
                j += 1
            i = j
            continue
        out.append(text[i])
        i += 1
    return "".join(out).strip()


def _without_hints(x, tags=None):
    """tags: set of linemap tags ("hint:<k>", "hint:pre", "hint:post") whose assertions failed; None = every asserting hint"""
    import copy
    y = copy.copy(x)
    hs = []
    for k, h in enumerate(x.hints):
        if tags is not None and ("hint:%d" % k) not in tags:
            hs.append(h)
            continue
        t = _strip_asserts(h[2])
        if t:
            hs.append((h[0], h[1], t) + tuple(h[3:]))
        elif len(h) > 3 and h[3] in ("at", "atend"):
            hs.append(h)
        else:
            hs.append(None)  # placeholder: the indices of the other hints (baseline anchors, linemap tags) must not shift
    y.hints = hs
    if x.pre and (tags is None or "hint:pre" in tags):
        y.pre = _strip_asserts(x.pre) or None
    if x.post and (tags is None or "hint:post" in tags):
        y.post = None
    return y
