"""setup: nothing to build (python + verus are pre-installed); sanity-check the tools and warm verus once"""
import subprocess, sys, os, tempfile
VERIF = os.path.dirname(os.path.dirname(os.path.abspath(__file__)))
def main():
    os.makedirs(os.path.join(VERIF, "build"), exist_ok=True)
    os.makedirs(os.path.join(VERIF, "evidence"), exist_ok=True)
    os.makedirs(os.path.join(VERIF, "replays"), exist_ok=True)
    p = os.path.join(VERIF, "build", "_warm.rs")
    open(p, "w").write("use vstd::prelude::*;\nverus!{ proof fn t() ensures 1 + 1 == 2int {} }\nfn main(){}\n")
    r = subprocess.run(["verus", p], stdout=subprocess.PIPE, stderr=subprocess.STDOUT)
    print(r.stdout.decode()[-300:])
    sys.exit(0 if r.returncode == 0 else 1)
main()
