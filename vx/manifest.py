"""regenerate MANIFEST.json from specs/__init__.py  (python3 -m vx.manifest)"""
import json, os, sys
VERIF = os.path.dirname(os.path.dirname(os.path.abspath(__file__)))
sys.path.insert(0, VERIF)
import specs
ids = [json.loads(l)["id"] for l in open(os.path.join(VERIF, "properties.jsonl"))]
checks = []
for p in ids:
    if p not in specs.PROPERTIES:
        continue
    m = specs.PROPERTIES[p]
    checks.append(dict(property_id=p, quick_cmd="./check %s --tier quick" % p, thorough_cmd="./check %s --tier thorough" % p,
                       evidence_file="/verif/evidence/%s.json" % p, replay_cmd_template="./check %s --replay {path}" % p,
                       engine="vx", level_claimed=dict(category="proof", text=m["scope"], design_ref=m.get("design_ref", "DESIGN.md §7")),
                       level_note=m["level_note"], technique=m["technique"]))
na = []
for p in ids:
    if p in specs.PROPERTIES:
        continue
    na.append(dict(property_id=p, reason=specs.NOT_APPLICABLE.get(p, "not claimed yet: no contract for this property has been built in this round (the check would have nothing to decide)")))
man = dict(version=1,
           setup_cmd="python3 -m vx.setup",
           hooks=dict(guard="none", enable="no hooks: contracts live in /verif/specs and are attached to text extracted from /repo on every run",
                      baseline_off_cmd="cd /repo && cargo test --workspace --lib --no-fail-fast --offline", source_commits=[], add_only=True),
           engines=[dict(name="vx", path="/verif/vx", serves_properties=[c["property_id"] for c in checks],
                         kind_free_text="extractor + contract assembler + Verus runner (single-file verus per unit), Kani pairing for leaf code")],
           checks=checks, not_applicable=na,
           notes="exit 0 proved / exit 1 VIOLATION (baseline obligation fails) / exit 2 undecided (lost anchor, unsupported construct, resource limit). fix: commits in /repo are listed in known_findings.json")
json.dump(man, open(os.path.join(VERIF, "MANIFEST.json"), "w"), indent=1)
print("MANIFEST.json: %d checks, %d not_applicable" % (len(checks), len(na)))
