"""Kani side (thorough tier only): loop-free harnesses over full domains (complete, reported as such) and bounded stand-ins
(labelled bounded, never counted as proved) on the REAL crate: a scratch copy of /repo gets `#[cfg(kani)] #[path = ..] mod verif_kani_N;`
appended to the target source files, so the harness modules are children of the files whose private items they call."""
import os, re, shutil, subprocess, time, json

VERIF = os.path.dirname(os.path.dirname(os.path.abspath(__file__)))
REPO = os.environ.get("VERIF_REPO", "/repo")
KDIR = os.path.join(VERIF, "kani")
CACHE = os.path.join(VERIF, ".cache", "kani-target")


def registry():
    p = os.path.join(KDIR, "harnesses.json")
    if not os.path.exists(p):
        return {}
    return json.load(open(p))


def _scratch():
    d = "/var/tmp/rdp-verif-kani.%d" % os.getpid()
    if os.path.exists(d):
        shutil.rmtree(d)
    os.makedirs(d)
    subprocess.check_call(["rsync", "-a", "--exclude", "target", "--exclude", ".git", REPO + "/", d + "/"])
    return d


def run_for_property(prop, seed=0, only=None, timeout=900):
    reg = registry().get(prop, [])
    if not reg:
        return []
    d = _scratch()
    results = []
    try:
        # attach harness modules
        attached = {}
        for ent in reg:
            key = (ent["target_file"], ent["module"])
            if key in attached:
                continue
            attached[key] = True
            tf = os.path.join(d, ent["target_file"])
            modname = "verif_kani_" + re.sub(r"\W", "_", os.path.basename(ent["module"]))[:-3]
            with open(tf, "a") as fh:
                fh.write('\n#[cfg(kani)]\n#[path = "%s"]\nmod %s;\n' % (os.path.join(KDIR, ent["module"]), modname))
        env = dict(os.environ, CARGO_NET_OFFLINE="true", CARGO_TARGET_DIR=CACHE)
        os.makedirs(CACHE, exist_ok=True)
        for ent in reg:
            for h in ent["harnesses"]:
                if only and h["name"] not in only:
                    continue
                cmd = ["cargo", "kani", "--lib", "-Z", "function-contracts", "-Z", "stubbing", "--harness", h["name"]] + h.get("args", [])
                t0 = time.time()
                try:
                    p = subprocess.run(cmd, cwd=d, env=env, stdout=subprocess.PIPE, stderr=subprocess.STDOUT, timeout=h.get("timeout", timeout))
                    out = p.stdout.decode("utf-8", "replace")
                    if "VERIFICATION:- SUCCESSFUL" in out:
                        st = "SUCCESSFUL"
                    elif "VERIFICATION:- FAILED" in out:
                        st = "FAILED"
                    else:
                        st = "ERROR"
                except subprocess.TimeoutExpired:
                    out, st = "timeout", "TIMEOUT"
                fails = re.findall(r"Failed Checks: (.*)", out)
                if st == "FAILED" and fails and all("unwinding assertion" in f_ for f_ in fails):
                    # the bound was too small for this tree (e.g. loop numbering changed after an edit): nothing was refuted
                    st = "INCONCLUSIVE"
                results.append(dict(harness=h["name"], file=ent["target_file"], kind=h.get("kind", "bounded"), bound=h.get("bound"), status=st,
                                    wall_s=round(time.time() - t0, 1), detail="; ".join(fails[:4]), output=out[-2500:] if st != "SUCCESSFUL" else "",
                                    backend="kani 0.68 / cbmc", counts_as_violation=(st == "FAILED"), what=h.get("what", "")))
    finally:
        shutil.rmtree(d, ignore_errors=True)
    return results


# ------------------------------------------------------------------------------------------------
# counterexamples for failed Verus obligations (harnesses.json: "pairs")
# ------------------------------------------------------------------------------------------------
TEST_CACHE = os.path.join(VERIF, ".cache", "cex-test-target")
CEX_BUDGET = 360            # seconds per call, everything included
_CEX_SEQ = [0]
_CEX_MEMO = {}


def _mod_name(module):
    return "verif_kani_" + re.sub(r"\W", "_", os.path.basename(module))[:-3]


def _crate_path(target_file):
    # src/core/per.rs -> core::per ; src/core/mod.rs -> core
    p = re.sub(r"^src/", "", target_file)[:-3].split("/")
    if p[-1] in ("mod", "lib"):
        p = p[:-1]
    return "::".join(p)


def parse_playback(out):
    """the byte vectors of the FIRST concrete playback unit test printed by `--concrete-playback=print`, in order"""
    m = re.search(r"let concrete_vals: Vec<Vec<u8>> = vec!\[(.*?)\n\s*\];", out, re.S)
    if not m:
        return None
    vecs = []
    for line in m.group(1).splitlines():
        line = line.strip()
        if line.startswith("//") or not line:
            continue
        mm = re.match(r"vec!\[([0-9,\s]*)\],?$", line)
        if not mm:
            return None
        vecs.append([int(x) for x in mm.group(1).replace(" ", "").split(",") if x != ""])
    return vecs


def decode_inputs(layout, raw):
    """harness inputs from the raw bytes, in the fixed order documented in the harness module.
    layout items: [name, "stream", cap] = cap bytes then one length byte n (the function sees the first n bytes);
                  [name, "bytes", cap]  = the same for a byte-slice argument; [name, "u8"|"u16"|"u32"] little-endian"""
    o, data, args, ok = 0, None, {}, True
    for it in layout:
        name, kind = it[0], it[1]
        if kind in ("stream", "bytes"):
            cap = it[2]
            n = raw[o + cap]
            val = raw[o:o + min(n, cap)]
            ok = ok and n <= cap
            o += cap + 1
            if kind == "stream":
                data = val
            else:
                args[name] = val
        else:
            w = {"u8": 1, "u16": 2, "u32": 4}[kind]
            args[name] = int.from_bytes(bytes(raw[o:o + w]), "little")
            o += w
    return dict(data=data, args=args, raw=list(raw), inside_domain=ok)


def _rust_lit(v):
    if isinstance(v, list):
        return "[" + ", ".join("%du8" % b for b in v) + "]" if v else "[0u8; 0]"
    return str(v)


def replay_test_source(ent, modname, inputs):
    """a plain #[test] (no Kani): first prints what the real function returns on the decoded inputs (a panic there already is the
    failure), then runs the harness body check_<fn> — real function + reference assertions — on the same raw bytes"""
    raw = inputs["raw"]
    subst = dict(inputs["args"])
    if inputs["data"] is not None:
        subst["data"] = inputs["data"]
    lines = ["#[cfg(test)]", "mod verif_replay {",
             "    // failing input found by Kani (harness %s), replayed natively; inputs: %s" % (ent["harness"], json.dumps({k: subst[k] for k in sorted(subst)})),
             "    #[test]", "    fn verif_replay_%s() {" % ent["harness"]]
    obs = ent.get("observe")
    if obs:
        for k, v in subst.items():
            obs = obs.replace("{%s}" % k, _rust_lit(v))
        lines.append("        eprintln!(\"real function returns: {:?}\", { %s });" % obs)
    lines.append("        super::%s::%s(&[%s]);" % (modname, ent["check"], ", ".join(str(b) for b in raw)))
    lines += ["    }", "}"]
    return "\n".join(lines) + "\n"


def _forget_artifacts(cache, scratch, since):
    """the artefacts of a scratch path are keyed by a hash of that path and would pile up in the shared target directories; the scratch
    path itself is only recorded inside the binaries (crate metadata / debug info), so those written since `since` are searched for it"""
    needle = (scratch + "/").encode()
    try:
        for root, dirs, files in os.walk(cache):
            for f in files:
                m = re.match(r"^(?:librdp-([0-9a-f]{16})\.rmeta|rdp-([0-9a-f]{16}))$", f)
                if not m:
                    continue
                p = os.path.join(root, f)
                try:
                    if os.path.getmtime(p) < since - 2 or needle not in open(p, "rb").read():
                        continue
                except OSError:
                    continue
                h = m.group(1) or m.group(2)
                if os.path.basename(root) == "out" and os.path.basename(os.path.dirname(root)) == h:
                    shutil.rmtree(os.path.dirname(root), ignore_errors=True)      # build/<pkg>/<hash>/{out,fingerprint}
                else:
                    for g in os.listdir(root):                                    # deps/rdp-<hash>*, deps/librdp-<hash>*
                        if g.startswith("rdp-" + h) or g.startswith("librdp-" + h):
                            try:
                                os.remove(os.path.join(root, g))
                            except OSError:
                                pass
                    fp = os.path.join(os.path.dirname(root), ".fingerprint")
                    if os.path.isdir(fp):
                        for g in os.listdir(fp):
                            if g.endswith("-" + h):
                                shutil.rmtree(os.path.join(fp, g), ignore_errors=True)
    except Exception:
        pass


def counterexample_for(prop, qname, failure, seed=0):
    """A concrete failing input for a failed Verus obligation of `qname`, when harnesses.json "pairs" has a harness for that function.
    1. scratch copy of the tree under check (VERIF_REPO), harness module attached as a child of the target file;
    2. `cargo kani --harness <h> --exact -Z concrete-playback --concrete-playback=print`: the harness compares the REAL function with an
       executable reference over fully symbolic inputs; when it fails Kani prints the input bytes;
    3. a plain #[test] is generated from those bytes and run with `cargo test` (no Kani): confirmed = that native test fails.
    Returns None when no harness is paired; otherwise a dict (confirmed True/False; tool errors are reported in "error")."""
    ent = registry().get("pairs", {}).get(qname)
    if not ent:
        return None
    if (REPO, qname) in _CEX_MEMO:      # several obligations of one function fail together: one search per function and tree
        return _CEX_MEMO[(REPO, qname)]
    res = _counterexample(ent, qname)
    _CEX_MEMO[(REPO, qname)] = res
    return res


def _counterexample(ent, qname):
    t0 = time.time()
    deadline = t0 + CEX_BUDGET
    _CEX_SEQ[0] += 1
    d = "/var/tmp/rdp-verif-cex.%d.%d" % (os.getpid(), _CEX_SEQ[0])
    res = dict(confirmed=False, harness=ent["harness"], function=qname, domain=ent.get("domain"), tree=REPO, backend="kani 0.68 / cbmc + native cargo test")
    try:
        if os.path.exists(d):
            shutil.rmtree(d)
        os.makedirs(d)
        subprocess.check_call(["rsync", "-a", "--exclude", "target", "--exclude", ".git", "--exclude", ".verif", REPO + "/", d + "/"])
        tf = os.path.join(d, ent["target_file"])
        modname = _mod_name(ent["module"])
        with open(tf, "a") as fh:
            fh.write('\n#[cfg(any(kani, test))]\n#[path = "%s"]\nmod %s;\n' % (os.path.join(KDIR, ent["module"]), modname))
        full = "%s::%s::proofs::%s" % (_crate_path(ent["target_file"]), modname, ent["harness"])
        env = dict(os.environ, CARGO_NET_OFFLINE="true", CARGO_TARGET_DIR=CACHE, RUST_BACKTRACE="0")
        os.makedirs(CACHE, exist_ok=True)
        cmd = ["cargo", "kani", "--lib", "--harness", full, "--exact", "-Z", "concrete-playback", "--concrete-playback=print"] + ent.get("args", [])
        res["kani_cmd"] = " ".join(cmd)
        try:
            p = subprocess.run(cmd, cwd=d, env=env, stdout=subprocess.PIPE, stderr=subprocess.STDOUT,
                               timeout=max(10, min(ent.get("timeout", 300), deadline - time.time() - 45)))
            out = p.stdout.decode("utf-8", "replace")
        except subprocess.TimeoutExpired:
            res["error"] = "kani timeout"
            return res
        res["kani_wall_s"] = round(time.time() - t0, 1)
        fails = re.findall(r"Failed Checks: (.*)", out)
        res["kani_failed_checks"] = fails[:8]
        if "VERIFICATION:- SUCCESSFUL" in out:
            res["kani_status"] = "SUCCESSFUL"
            res["note"] = "the paired harness finds no failing input in its domain on this tree (the violated obligation is not visible to the executable reference, or needs inputs outside the domain)"
            return res
        if "VERIFICATION:- FAILED" not in out:
            res["kani_status"] = "ERROR"
            res["error"] = "kani did not reach a verdict: " + out[-1500:]
            return res
        res["kani_status"] = "FAILED"
        if fails and all("unwinding assertion" in f_ for f_ in fails):
            res["error"] = "only unwinding assertions failed: the harness bound is too small for this tree, nothing was refuted"
            return res
        vecs = parse_playback(out)
        if not vecs:
            res["error"] = "no concrete playback test in the Kani output: " + out[-1500:]
            return res
        raw = [b for v in vecs for b in v]
        if len(raw) != ent["raw_len"]:
            res["error"] = "playback has %d bytes, the harness reads %d" % (len(raw), ent["raw_len"])
            res["playback_vectors"] = vecs
            return res
        inputs = decode_inputs(ent["layout"], raw)
        res["inputs"] = inputs
        res["call"] = ent.get("call")
        # ---- native confirmation
        src = replay_test_source(ent, modname, inputs)
        res["replay_test"] = src
        res["replay_how"] = ("append `#[cfg(test)] #[path = \"%s\"] mod %s;` and this module to %s of the tree under check, then `cargo test --offline --lib verif_replay`"
                             % (os.path.join(KDIR, ent["module"]), modname, ent["target_file"]))
        with open(tf, "a") as fh:
            fh.write("\n" + src)
        os.makedirs(TEST_CACHE, exist_ok=True)
        env2 = dict(os.environ, CARGO_NET_OFFLINE="true", CARGO_TARGET_DIR=TEST_CACHE, RUST_BACKTRACE="0", CARGO_INCREMENTAL="0")
        # the native test binary has the same name in every scratch copy (cargo's hash of a workspace member does not depend on its
        # path): build + run are serialised across processes so that a concurrent call cannot swap the binary in between
        import fcntl
        lock = open(os.path.join(TEST_CACHE, ".verif-cex.lock"), "w")
        try:
            fcntl.flock(lock, fcntl.LOCK_EX)
            p2 = subprocess.run(["cargo", "test", "--offline", "--lib", "verif_replay"], cwd=d, env=env2, stdout=subprocess.PIPE, stderr=subprocess.STDOUT,
                                timeout=max(10, deadline - time.time()))
            out2 = p2.stdout.decode("utf-8", "replace")
        except subprocess.TimeoutExpired:
            res["error"] = "native replay timeout"
            return res
        finally:
            lock.close()
        tname = "verif_replay_" + ent["harness"]
        ran_failed = re.search(r"test \S*%s \.\.\. FAILED" % re.escape(tname), out2) is not None
        ran_ok = re.search(r"test \S*%s \.\.\. ok" % re.escape(tname), out2) is not None
        m = re.search(r"---- \S*%s stdout ----\n(.*?)\n\n\nfailures:" % re.escape(tname), out2, re.S)
        res["native_output_tail"] = (m.group(1) if m else out2[-1500:]).replace(d, "<tree>")[-1500:]
        mo = re.search(r"real function returns: (.*)", out2)
        if mo:
            res["real_function_returns"] = mo.group(1).strip()
        if ran_failed:
            res["confirmed"] = True
        elif ran_ok:
            res["note"] = "Kani reports a failing input but the native replay passes (difference between the Kani model and native execution?)"
        else:
            res["error"] = "native replay did not run: " + out2[-1500:]
        return res
    except Exception as e:
        res["error"] = repr(e)
        return res
    finally:
        res["wall_s"] = round(time.time() - t0, 1)
        shutil.rmtree(d, ignore_errors=True)
        _forget_artifacts(CACHE, d, t0)


if __name__ == "__main__":
    import sys
    if len(sys.argv) > 1 and sys.argv[1] == "cex":
        # python3 -m vx.kani cex [per::read_length ...]   (no name = every paired function) on the tree VERIF_REPO
        names = sys.argv[2:] or sorted(registry().get("pairs", {}))
        for q in names:
            r = counterexample_for(None, q, {})
            print(json.dumps(r if r is None else {k: v for k, v in r.items() if k not in ("replay_test", "native_output_tail")}))
            if r and r.get("replay_test"):
                print(r["replay_test"])
                print(r.get("native_output_tail", ""))
        sys.exit(0)
    for r in run_for_property(sys.argv[1], only=sys.argv[2:] or None):
        print(json.dumps({k: v for k, v in r.items() if k != "output"}))
        if r["status"] not in ("SUCCESSFUL",):
            print(r["output"])
