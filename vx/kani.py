"""Kani side: counterexample finder for leaf code + bounded stand-ins (thorough tier). Filled in later."""
def run_for_property(prop, seed=0):
    return []
def counterexample_for(prop, qname, failure, seed=0):
    return None
