"""Kani side (thorough tier only): loop-free harnesses over full domains (complete, reported as such) and bounded stand-ins
(labelled bounded, never counted as proved) on the REAL crate: a scratch copy of /repo gets `#[cfg(kani)] #[path = ..] mod verif_kani_N;`
appended to the target source files, so the harness modules are children of the files whose private items they call."""
import os, re, shutil, subprocess, time, json

VERIF = os.path.dirname(os.path.dirname(os.path.abspath(__file__)))
REPO = os.environ.get("VERIF_REPO", "/repo")
KDIR = os.path.join(VERIF, "kani")
CACHE = os.path.join(VERIF, ".cache", "kani-target")


def registry():
    p = os.path.join(KDIR, "harnesses.json")
    if not os.path.exists(p):
        return {}
    return json.load(open(p))


def _scratch():
    d = "/var/tmp/rdp-verif-kani.%d" % os.getpid()
    if os.path.exists(d):
        shutil.rmtree(d)
    os.makedirs(d)
    subprocess.check_call(["rsync", "-a", "--exclude", "target", "--exclude", ".git", REPO + "/", d + "/"])
    return d


def run_for_property(prop, seed=0, only=None, timeout=900):
    reg = registry().get(prop, [])
    if not reg:
        return []
    d = _scratch()
    results = []
    try:
        # attach harness modules
        attached = {}
        for ent in reg:
            key = (ent["target_file"], ent["module"])
            if key in attached:
                continue
            attached[key] = True
            tf = os.path.join(d, ent["target_file"])
            modname = "verif_kani_" + re.sub(r"\W", "_", os.path.basename(ent["module"]))[:-3]
            with open(tf, "a") as fh:
                fh.write('\n#[cfg(kani)]\n#[path = "%s"]\nmod %s;\n' % (os.path.join(KDIR, ent["module"]), modname))
        env = dict(os.environ, CARGO_NET_OFFLINE="true", CARGO_TARGET_DIR=CACHE)
        os.makedirs(CACHE, exist_ok=True)
        for ent in reg:
            for h in ent["harnesses"]:
                if only and h["name"] not in only:
                    continue
                cmd = ["cargo", "kani", "--lib", "-Z", "function-contracts", "-Z", "stubbing", "--harness", h["name"]] + h.get("args", [])
                t0 = time.time()
                try:
                    p = subprocess.run(cmd, cwd=d, env=env, stdout=subprocess.PIPE, stderr=subprocess.STDOUT, timeout=h.get("timeout", timeout))
                    out = p.stdout.decode("utf-8", "replace")
                    if "VERIFICATION:- SUCCESSFUL" in out:
                        st = "SUCCESSFUL"
                    elif "VERIFICATION:- FAILED" in out:
                        st = "FAILED"
                    else:
                        st = "ERROR"
                except subprocess.TimeoutExpired:
                    out, st = "timeout", "TIMEOUT"
                fails = re.findall(r"Failed Checks: (.*)", out)
                if st == "FAILED" and fails and all("unwinding assertion" in f_ for f_ in fails):
                    # the bound was too small for this tree (e.g. loop numbering changed after an edit): nothing was refuted
                    st = "INCONCLUSIVE"
                results.append(dict(harness=h["name"], file=ent["target_file"], kind=h.get("kind", "bounded"), bound=h.get("bound"), status=st,
                                    wall_s=round(time.time() - t0, 1), detail="; ".join(fails[:4]), output=out[-2500:] if st != "SUCCESSFUL" else "",
                                    backend="kani 0.68 / cbmc", counts_as_violation=(st == "FAILED"), what=h.get("what", "")))
    finally:
        shutil.rmtree(d, ignore_errors=True)
    return results


def counterexample_for(prop, qname, failure, seed=0):
    """concrete playback for a failed Verus obligation when a paired harness exists (harnesses.json: "pairs")"""
    return None


if __name__ == "__main__":
    import sys
    for r in run_for_property(sys.argv[1], only=sys.argv[2:] or None):
        print(json.dumps({k: v for k, v in r.items() if k != "output"}))
        if r["status"] not in ("SUCCESSFUL",):
            print(r["output"])
