"""Mechanical extraction of items from /repo sources.  Nothing here re-types a body: functions are cut with
balanced braces and edited only through span replacements that implement the rewrite rules of DESIGN.md §4."""
import os, re, hashlib
from .lexer import lex, code_toks, match_close, line_of, OPEN, CLOSE

REPO = os.environ.get("VERIF_REPO", "/repo")


class LostAnchor(Exception):
    pass


class Source:
    _cache = {}

    def __init__(self, rel):
        self.rel = rel
        self.path = os.path.join(REPO, rel)
        if not os.path.exists(self.path):
            raise LostAnchor("source file missing: %s" % rel)
        self.text = open(self.path, encoding="utf-8").read()
        self.toks = lex(self.text)
        self.ct = code_toks(self.toks)

    @classmethod
    def get(cls, rel):
        key = (REPO, rel)
        if key not in cls._cache:
            cls._cache[key] = Source(rel)
        return cls._cache[key]

    # ------------------------------------------------------------------ items
    def items(self, lo=0, hi=None):
        """yield (kind, name, header_text, i_start, i_end, i_brace) over code tokens in [lo,hi) at depth 0.
        i_start includes attributes / visibility; i_end is the index of the last token of the item."""
        ct = self.ct
        hi = len(ct) if hi is None else hi
        i = lo
        while i < hi:
            start = i
            # attributes
            while i < hi and ct[i].text == "#":
                j = i + 1
                if ct[j].text == "!":
                    j += 1
                j = match_close(ct, j)
                i = j + 1
            # visibility / qualifiers
            while i < hi and ct[i].text in ("pub", "unsafe", "async", "default"):
                i += 1
                if i < hi and ct[i].text == "(" and ct[i - 1].text == "pub":
                    i = match_close(ct, i) + 1
            if i >= hi:
                break
            t = ct[i]
            kw = t.text
            if kw == "const" and ct[i + 1].text == "fn":
                i += 1; kw = "fn"
            if kw == "extern" and ct[i + 1].kind == "str" and ct[i + 2].text == "fn":
                i += 2; kw = "fn"
            if kw in ("fn", "struct", "enum", "trait", "mod", "union", "type", "const", "static", "impl", "use", "extern", "macro_rules"):
                name = None
                if kw == "macro_rules":
                    name = ct[i + 2].text
                elif kw != "impl" and kw != "use" and kw != "extern":
                    name = ct[i + 1].text
                    if name == "mut":
                        name = ct[i + 2].text
                # find end: first `;` or `{` at depth 0
                j = i + 1
                depth = 0
                brace = None
                while j < hi:
                    x = ct[j].text
                    if ct[j].kind == "punct":
                        if x in ("(", "["): depth += 1
                        elif x in (")", "]"): depth -= 1
                        elif x == "{" and depth == 0:
                            # `const X: T = Foo { .. };` / macro_rules! name { .. }
                            brace = j
                            break
                        elif x == ";" and depth == 0:
                            break
                    j += 1
                if j >= hi:
                    raise LostAnchor("unterminated item in %s" % self.rel)
                if brace is not None:
                    end = match_close(ct, brace)
                    if kw in ("const", "static", "type", "use") or (kw == "struct" and False):
                        # initializer with braces: continue to `;`
                        k = end + 1
                        while k < hi and ct[k].text != ";":
                            k += 1
                        end = k
                    elif end + 1 < hi and ct[end + 1].text == ";" and kw in ("struct",):
                        end += 1
                    header = self.text[ct[i].start:ct[brace].start]
                    yield (kw, name, header, start, end, brace)
                    i = end + 1
                else:
                    header = self.text[ct[i].start:ct[j].start]
                    yield (kw, name, header, start, j, None)
                    i = j + 1
            else:
                # something we do not know at item level (e.g. a stray macro invocation): skip to `;` or block
                j = i
                depth = 0
                while j < hi:
                    x = ct[j]
                    if x.kind == "punct" and x.text in OPEN:
                        j = match_close(ct, j)
                        if x.text == "{":
                            break
                    elif x.text == ";":
                        break
                    j += 1
                i = j + 1

    def find(self, kind, name, impl_re=None):
        """locate an item; functions may live inside an impl block whose header matches impl_re"""
        if impl_re is None:
            for it in self.items():
                if it[0] == kind and it[1] == name:
                    return it
                if it[0] == "mod" and it[1] != "test" and it[5] is not None:
                    for it2 in self.items(it[5] + 1, it[4]):
                        if it2[0] == kind and it2[1] == name:
                            return it2
            raise LostAnchor("%s %s not found in %s" % (kind, name, self.rel))
        rx = re.compile(impl_re)
        for it in self.items():
            if it[0] == "impl" and rx.search(" ".join(it[2].split())):
                for it2 in self.items(it[5] + 1, it[4]):
                    if it2[0] == kind and it2[1] == name:
                        return it2
        raise LostAnchor("%s %s in impl /%s/ not found in %s" % (kind, name, impl_re, self.rel))

    def item_text(self, it, with_attrs=True):
        ct = self.ct
        s = ct[it[3]].start
        if not with_attrs:
            # skip attributes
            i = it[3]
            while ct[i].text == "#":
                j = i + 1
                if ct[j].text == "!":
                    j += 1
                i = match_close(ct, j) + 1
            s = ct[i].start
        return self.text[s:ct[it[4]].end]

    def line(self, tok_index):
        return line_of(self.text, self.ct[tok_index].start)


# ---------------------------------------------------------------------- span editing
class Edits:
    def __init__(self, text, base=0):
        self.text = text
        self.base = base
        self.ed = []

    def replace(self, start, end, new, tag=None):
        self.ed.append((start - self.base, end - self.base, new, tag))

    def insert(self, at, new, tag=None):
        self.ed.append((at - self.base, at - self.base, new, tag))

    def apply(self):
        """returns (new_text, origin) where origin[k] for output char k is the offset in the original text or
        None (inserted text) together with the tag of the inserted piece"""
        ed = sorted(self.ed, key=lambda e: (e[0], e[1]))
        out = []
        origin = []  # list of (out_start, out_end, src_start|None, tag)
        pos = 0
        olen = 0
        for s, e, new, tag in ed:
            if s < pos:
                raise ValueError("overlapping edits at %d" % (s + self.base))
            if s > pos:
                seg = self.text[pos:s]
                out.append(seg)
                origin.append((olen, olen + len(seg), pos + self.base, None))
                olen += len(seg)
            if new:
                out.append(new)
                origin.append((olen, olen + len(new), None, tag))
                olen += len(new)
            pos = e
        if pos < len(self.text):
            seg = self.text[pos:]
            out.append(seg)
            origin.append((olen, olen + len(seg), pos + self.base, None))
        return "".join(out), origin


# ---------------------------------------------------------------------- function anatomy
class FnParts:
    """a function cut into signature pieces and body, all as spans of the source text"""

    def __init__(self, src, it):
        self.src = src
        self.it = it
        ct = src.ct
        i = it[3]
        # skip attributes
        while ct[i].text == "#":
            j = i + 1
            if ct[j].text == "!":
                j += 1
            i = match_close(ct, j) + 1
        self.i_sig = i
        self.i_brace = it[5]
        self.i_end = it[4]
        if self.i_brace is None:
            raise LostAnchor("function %s has no body" % it[1])
        # find `fn`
        k = i
        while ct[k].text != "fn":
            k += 1
        self.i_fn = k
        self.name = ct[k + 1].text
        # generics
        k += 2
        if ct[k].text == "<":
            depth = 0
            while True:
                if ct[k].text == "<": depth += 1
                elif ct[k].text == ">": depth -= 1
                elif ct[k].text == ">>": depth -= 2
                k += 1
                if depth <= 0:
                    break
        if ct[k].text != "(":
            raise LostAnchor("cannot parse signature of %s" % self.name)
        self.i_lpar = k
        self.i_rpar = match_close(ct, k)
        # return arrow and where
        self.i_arrow = None
        self.i_where = None
        depth = 0
        for j in range(self.i_rpar + 1, self.i_brace):
            x = ct[j]
            if x.kind == "punct" and x.text in ("(", "["): depth += 1
            elif x.kind == "punct" and x.text in (")", "]"): depth -= 1
            elif depth == 0 and x.text == "->" and self.i_arrow is None and self.i_where is None:
                self.i_arrow = j
            elif depth == 0 and x.text == "where" and self.i_where is None:
                self.i_where = j
        self.start_line = src.line(self.i_sig)
        self.end_line = src.line(self.i_end)

    def span(self, i, j):
        """text from token i (inclusive) to token j (exclusive start of j)"""
        return self.src.text[self.src.ct[i].start:self.src.ct[j].start]

    def body_text(self):
        return self.src.text[self.src.ct[self.i_brace].start:self.src.ct[self.i_end].end]

    def sha1(self):
        return hashlib.sha1(self.src.text[self.src.ct[self.i_sig].start:self.src.ct[self.i_end].end].encode()).hexdigest()

    # ---- things inside the body (token index ranges are over src.ct)
    def body_range(self):
        return self.i_brace, self.i_end

    def loops(self):
        """[(i_kw, i_open_brace)] in source order"""
        ct = self.src.ct
        res = []
        for j in range(self.i_brace + 1, self.i_end):
            t = ct[j]
            if t.kind == "ident" and t.text in ("while", "for", "loop"):
                if ct[j - 1].text in (".", "::"):
                    continue
                # header ends at first `{` at depth 0
                depth = 0
                k = j + 1
                while k < self.i_end:
                    x = ct[k]
                    if x.kind == "punct":
                        if x.text in ("(", "["): depth += 1
                        elif x.text in (")", "]"): depth -= 1
                        elif x.text == "{" and depth == 0:
                            break
                    k += 1
                res.append((j, k))
        return res

    def macro_calls(self, name):
        """[(i_name, i_open, i_close)] for `name!( .. )` inside the body"""
        ct = self.src.ct
        res = []
        for j in range(self.i_brace + 1, self.i_end - 2):
            if ct[j].kind == "ident" and ct[j].text == name and ct[j + 1].text == "!" and ct[j + 2].text in OPEN:
                res.append((j, j + 2, match_close(ct, j + 2)))
        return res

    def closures(self):
        """[(i_bar_open, i_bar_close, i_body_start, i_body_end_exclusive)] in source order.
        A closure starts with `|` or `||` in expression-start position."""
        ct = self.src.ct
        res = []
        j = self.i_brace + 1
        while j < self.i_end:
            t = ct[j]
            if t.kind == "punct" and t.text in ("|", "||") and ct[j - 1].text in ("(", ",", "=", "move", "return"):
                if t.text == "||":
                    b0 = b1 = j
                else:
                    k = j + 1
                    while ct[k].text != "|":
                        k += 1
                    b0, b1 = j, k
                s = b1 + 1
                # optional `-> T` is not used in this code base
                if ct[s].text == "{":
                    e = match_close(ct, s) + 1
                else:
                    depth = 0
                    e = s
                    while e < self.i_end:
                        x = ct[e]
                        if x.kind == "punct":
                            if x.text in OPEN: depth += 1
                            elif x.text in CLOSE:
                                if depth == 0:
                                    break
                                depth -= 1
                            elif x.text == "," and depth == 0:
                                break
                        e += 1
                res.append((b0, b1, s, e))
                j = s
                continue
            j += 1
        return res


def split_args(src, i_open, i_close):
    """split the code tokens between brackets at depth-0 commas: returns list of (i_first, i_last_exclusive)"""
    ct = src.ct
    args = []
    depth = 0
    s = i_open + 1
    for j in range(i_open + 1, i_close):
        x = ct[j]
        if x.kind == "punct":
            if x.text in OPEN: depth += 1
            elif x.text in CLOSE: depth -= 1
            elif x.text == "," and depth == 0:
                args.append((s, j)); s = j + 1
    if s < i_close:
        args.append((s, i_close))
    return args


def macro_def(src, name):
    """return (param_names, template_text) for a single-arm macro_rules! with only $x:expr parameters"""
    it = src.find("macro_rules", name)
    ct = src.ct
    b = it[5]
    # ( pattern ) => { template }
    p_open = b + 1
    p_close = match_close(ct, p_open)
    params = [ct[j + 1].text for j in range(p_open, p_close) if ct[j].text == "$"]
    k = p_close + 1
    assert ct[k].text == "=>"
    t_open = k + 1
    t_close = match_close(ct, t_open)
    tmpl = src.text[ct[t_open].end:ct[t_close].start]
    return params, tmpl
