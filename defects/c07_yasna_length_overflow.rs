extern crate rdp;
use rdp::nla::cssp::{read_ts_validate, read_ts_server_challenge};
#[test]
fn der_length_usize_max_does_not_panic() {
    let bytes = [0x30u8, 0x88, 0xff, 0xff, 0xff, 0xff, 0xff, 0xff, 0xff, 0xff];
    let r = std::panic::catch_unwind(|| { let _ = read_ts_validate(&bytes); });
    let r2 = std::panic::catch_unwind(|| { let _ = read_ts_server_challenge(&bytes); });
    assert!(r.is_ok() && r2.is_ok(), "panic inside the DER parser");
}
