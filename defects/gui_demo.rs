// appended to src/bin/mstsc-rs.rs in a scratch copy:  cargo test --offline --features mstsc-rs --bin mstsc-rs
#[cfg(test)]
mod verif_demo {
    use super::*;
    fn ev(l: u16, t: u16, r: u16, b: u16, w: u16, h: u16) -> BitmapEvent {
        BitmapEvent { dest_left: l, dest_top: t, dest_right: r, dest_bottom: b, width: w, height: h, bpp: 32, is_compress: false, data: vec![7u8; w as usize * h as usize * 4] }
    }
    fn run(l: u16, t: u16, r: u16, b: u16, w: u16, h: u16) -> Result<bool, ()> {
        std::panic::catch_unwind(|| { let mut buffer = vec![0u32; 64 * 64]; fast_bitmap_transfer(&mut buffer, 64, ev(l, t, r, b, w, h)).is_ok() }).map_err(|_| ())
    }
    // C19: inverted rectangles must be refused (or painted), never panic / corrupt memory
    #[test] fn c19_inverted_vertical() { assert_eq!(run(0, 10, 3, 5, 4, 4), Ok(false)); }
    #[test] fn c19_inverted_horizontal() { assert_eq!(run(10, 0, 5, 3, 4, 4), Ok(false)); }
    // C19: a rectangle inside the window is copied row by row and nothing else changes
    #[test] fn c19_exact_copy() {
        let mut buffer = vec![1u32; 8 * 8];
        let mut e = ev(2, 3, 4, 4, 3, 2);
        e.data = (0..24u8).collect();
        fast_bitmap_transfer(&mut buffer, 8, e).unwrap();
        for y in 0..8 { for x in 0..8 {
            let v = buffer[y * 8 + x];
            if y >= 3 && y <= 4 && x >= 2 && x <= 4 {
                // uncompressed bitmaps are bottom-up: window row 3 shows wire row 1
                let wire_row = 1 - (y - 3); let k = (wire_row * 3 + (x - 2)) * 4;
                assert_eq!(v, u32::from_le_bytes([k as u8, k as u8 + 1, k as u8 + 2, k as u8 + 3]));
            } else { assert_eq!(v, 1); }
        }}
    }
}
