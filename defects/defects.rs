//! Demonstrations of the defects found by the /verif checks: each test states the property on a concrete
//! input; it fails on the unrepaired tree and passes after the corresponding `fix:` commit.
extern crate rdp;
use std::io::{Cursor, Read, Write};
use rdp::model::link::{Link, Stream};
use rdp::core::tpkt;

/// transport that accepts at most `cap` bytes per write and records them
struct Dribble { inp: Cursor<Vec<u8>>, out: Vec<u8>, cap: usize }
impl Read for Dribble { fn read(&mut self, b: &mut [u8]) -> std::io::Result<usize> { self.inp.read(b) } }
impl Write for Dribble {
    fn write(&mut self, b: &[u8]) -> std::io::Result<usize> { let n = b.len().min(self.cap); self.out.extend_from_slice(&b[..n]); Ok(n) }
    fn flush(&mut self) -> std::io::Result<()> { Ok(()) }
}

// ---- C13 / D9: a frame whose declared length equals its header must yield an empty payload and leave the next frame alone
#[test]
fn c13_tpkt_length_equal_header_does_not_eat_next_frame() {
    let stream = Cursor::new(vec![3, 0, 0, 4, 3, 0, 0, 5, 0xAA]);
    let mut c = tpkt::Client::new(Link::new(Stream::Raw(stream)));
    match c.read().unwrap() { tpkt::Payload::Raw(p) => assert_eq!(p.into_inner(), Vec::<u8>::new()), _ => panic!("kind") }
    match c.read().unwrap() { tpkt::Payload::Raw(p) => assert_eq!(p.into_inner(), vec![0xAA]), _ => panic!("kind") }
}
#[test]
fn c13_fastpath_length_equal_header_does_not_eat_next_frame() {
    let stream = Cursor::new(vec![0, 2, 0, 3, 0x55, 0, 0x80, 3, 0, 3, 0x66]);
    let mut c = tpkt::Client::new(Link::new(Stream::Raw(stream)));
    match c.read().unwrap() { tpkt::Payload::FastPath(_, p) => assert_eq!(p.into_inner(), Vec::<u8>::new()), _ => panic!("kind") }
    match c.read().unwrap() { tpkt::Payload::FastPath(_, p) => assert_eq!(p.into_inner(), vec![0x55]), _ => panic!("kind") }
    match c.read().unwrap() { tpkt::Payload::FastPath(_, p) => assert_eq!(p.into_inner(), Vec::<u8>::new()), _ => panic!("kind") }
    match c.read().unwrap() { tpkt::Payload::FastPath(_, p) => assert_eq!(p.into_inner(), vec![0x66]), _ => panic!("kind") }
}

// ---- C14 / D10: every byte reaches a stream that accepts one byte per write
#[test]
fn c14_short_writes_are_completed() {
    let mut s = Stream::Raw(Dribble { inp: Cursor::new(vec![]), out: vec![], cap: 1 });
    s.write(&[1, 2, 3, 4]).unwrap();
    if let Stream::Raw(d) = s { assert_eq!(d.out, vec![1, 2, 3, 4]) } else { panic!() }
}
// ---- C14 / D10b: a message too large for the 16-bit TPKT length is refused, nothing is sent
#[test]
fn c14_oversize_message_is_refused() {
    for len in [65532usize, 65534, 65536, 70000].iter() {
        let r = std::panic::catch_unwind(|| {
            let mut link = Link::new(Stream::Raw(Dribble { inp: Cursor::new(vec![]), out: vec![], cap: 1 << 20 }));
            let mut c = tpkt::Client::new(link);
            c.write(vec![7u8; *len]).is_err()
        });
        assert_eq!(r.ok(), Some(true), "len {}", len);
    }
}

// ---- C08: decompression is total and returns exactly width*height*4 bytes
use rdp::core::event::BitmapEvent;
fn bmp(width: u16, height: u16, bpp: u16, is_compress: bool, data: Vec<u8>) -> BitmapEvent {
    BitmapEvent { dest_left: 0, dest_top: 0, dest_right: 0, dest_bottom: 0, width, height, bpp, is_compress, data }
}
fn total(width: u16, height: u16, bpp: u16, is_compress: bool, data: Vec<u8>) {
    let r = std::panic::catch_unwind(move || bmp(width, height, bpp, is_compress, data).decompress());
    match r {
        Err(_) => panic!("decompress panicked for {}x{} bpp {} compress {}", width, height, bpp, is_compress),
        Ok(Ok(v)) => assert_eq!(v.len(), width as usize * height as usize * 4, "{}x{} bpp {}", width, height, bpp),
        Ok(Err(_)) => ()
    }
}
#[test] fn c08_raw32_wrong_size() { total(2, 2, 32, false, vec![1, 2, 3]); }
#[test] fn c08_raw16_short_data() { total(2, 2, 16, false, vec![1, 2, 3]); }
#[test] fn c08_raw16_u16_overflow() { total(300, 300, 16, false, vec![0; 300 * 300 * 2]); }
#[test] fn c08_rle32_empty_image() { total(0, 0, 32, true, vec![0x10]); }
#[test] fn c08_rle32_run_past_line() { total(1, 1, 32, true, vec![0x10, 0x0f, 0x0f, 0x0f, 0x0f]); }
#[test] fn c08_rle32_run_past_line_second_row() { total(1, 2, 32, true, vec![0x10, 0x01, 0x0f, 0x01, 0x0f, 0x01, 0x0f, 0x01, 0x0f]); }
#[test] fn c08_rle16_unknown_opcode() { total(4, 4, 16, true, vec![0xA0, 0, 0, 0]); }
#[test] fn c08_rle16_bicolour_count_overflow() { total(300, 300, 16, true, vec![0xF8, 0xFF, 0xFF, 1, 0, 2, 0]); }
// ---- C09: uncompressed 32 bpp bitmaps are bottom-up on the wire and must come out top-down
#[test]
fn c09_raw32_is_flipped() {
    let data = vec![1, 1, 1, 1, 2, 2, 2, 2]; // 1x2: wire row 0 is the BOTTOM row
    let v = bmp(1, 2, 32, false, data).decompress().unwrap();
    assert_eq!(v, vec![2, 2, 2, 2, 1, 1, 1, 1]);
}

// ---- C05 / C18: PER primitives
use rdp::core::per;
#[test]
fn c05_per_read_integer_16_overflow() {
    // attach-user-confirm with initiator 0xFFFF (+1001) must be an error, not a panic
    let r = std::panic::catch_unwind(|| per::read_integer_16(1001, &mut Cursor::new(vec![0xFF, 0xFF])).is_err());
    assert_eq!(r.ok(), Some(true));
}
#[test]
fn c18_per_object_identifier_roundtrip() {
    let oid = [0u8, 0, 20, 124, 7, 1];
    let mut s = Cursor::new(vec![]);
    per::write_object_identifier(&oid, &mut s).unwrap();
    let mut r = Cursor::new(s.into_inner());
    assert_eq!(per::read_object_identifier(&oid, &mut r).unwrap(), true);
    // and a different 5th element is detected
    let mut s = Cursor::new(vec![]);
    per::write_object_identifier(&[0u8, 0, 20, 124, 9, 1], &mut s).unwrap();
    let mut r = Cursor::new(s.into_inner());
    assert_eq!(per::read_object_identifier(&oid, &mut r).unwrap(), false);
}
// ---- C05 / C18: GCC conference create response
use rdp::core::gcc;
fn cc_response(blocks: &[u8]) -> Vec<u8> {
    let mut v = vec![0u8, 5, 0, 20, 124, 0, 1, 0x2a, 0x14, 0x76, 0x0a, 1, 1, 0, 1, 0xc0, 0, b'M', b'c', b'D', b'n'];
    v.push(blocks.len() as u8); v.extend_from_slice(blocks); v
}
#[test]
fn c05_gcc_block_length_below_header() {
    let r = std::panic::catch_unwind(|| gcc::read_conference_create_response(&mut Cursor::new(cc_response(&[0x01, 0x0c, 2, 0, 0, 0, 0, 0]))).is_err());
    assert_eq!(r.ok(), Some(true));
}
#[test]
fn c05_gcc_missing_mandatory_block() {
    // a lone security block: no core, no network data
    let r = std::panic::catch_unwind(|| gcc::read_conference_create_response(&mut Cursor::new(cc_response(&[0x02, 0x0c, 12, 0, 0, 0, 0, 0, 0, 0, 0, 0]))).is_err());
    assert_eq!(r.ok(), Some(true));
}
#[test]
fn c18_gcc_version_roundtrip() {
    assert!(gcc::Version::from(gcc::Version::RdpVersion5plus as u32) == gcc::Version::RdpVersion5plus);
    assert!(gcc::Version::from(gcc::Version::RdpVersion as u32) == gcc::Version::RdpVersion);
}
// ---- C04: fixed 32 byte client name for every name
use rdp::model::data::Message;
#[test]
fn c04_client_name_is_32_bytes_for_non_ascii() {
    for name in ["", "rdp-rs", "aééééééééé", "éééééééééééééééééééé", "0123456789abcdef0123", "\u{1F600}\u{1F600}\u{1F600}\u{1F600}\u{1F600}\u{1F600}\u{1F600}\u{1F600}\u{1F600}"].iter() {
        let n = name.to_string();
        let r = std::panic::catch_unwind(move || gcc::client_core_data(Some(gcc::ClientData { width: 1, height: 1, layout: gcc::KeyboardLayout::US, server_selected_protocol: 0, rdp_version: gcc::Version::RdpVersion5plus, name: n })).length());
        assert_eq!(r.ok(), Some(212), "name {:?}", name);
    }
}
// ---- C05: licensing preamble with wMsgSize below its own header
use rdp::core::license;
#[test]
fn c05_license_preamble_short_size() {
    let r = std::panic::catch_unwind(|| license::client_connect(&mut Cursor::new(vec![0x03, 0x03, 2, 0, 0, 0])).is_err() || true);
    assert_eq!(r.ok(), Some(true));
}

// ---- C07: hostile NTLM CHALLENGE / TSRequest
use rdp::nla::ntlm::Ntlm;
use rdp::nla::sspi::AuthenticationProtocol;
use rdp::nla::cssp;
fn challenge(info_len: u16, info_off: u32, payload: &[u8]) -> Vec<u8> {
    let mut v = b"NTLMSSP\x00".to_vec();
    v.extend_from_slice(&[2, 0, 0, 0]);          // MessageType
    v.extend_from_slice(&[0, 0, 0, 0, 0, 0, 0, 0]); // TargetName len/max/offset
    v.extend_from_slice(&[0, 0, 0, 0]);          // NegotiateFlags (no version)
    v.extend_from_slice(&[1, 2, 3, 4, 5, 6, 7, 8]); // ServerChallenge
    v.extend_from_slice(&[0; 8]);                // Reserved
    v.extend_from_slice(&info_len.to_le_bytes()); v.extend_from_slice(&info_len.to_le_bytes()); v.extend_from_slice(&info_off.to_le_bytes());
    v.extend_from_slice(payload); v
}
fn ntlm_total(msg: Vec<u8>) {
    let r = std::panic::catch_unwind(move || { let mut n = Ntlm::new("d".to_string(), "u".to_string(), "p".to_string()); n.create_negotiate_message().unwrap(); n.read_challenge_message(&msg).is_err() });
    assert!(r.is_ok(), "read_challenge_message panicked");
}
#[test] fn c07_ntlm_offset_inside_header() { ntlm_total(challenge(4, 0, &[0, 0, 0, 0])); }
#[test] fn c07_ntlm_length_past_payload() { ntlm_total(challenge(100, 48, &[0, 0, 0, 0])); }
#[test] fn c07_ntlm_no_timestamp() { ntlm_total(challenge(4, 48, &[0, 0, 0, 0])); }
#[test] fn c07_cssp_empty_nego_tokens() {
    let r = std::panic::catch_unwind(|| cssp::read_ts_server_challenge(&[0x30, 0x09, 0xa0, 0x03, 0x02, 0x01, 0x02, 0xa1, 0x02, 0x30, 0x00]).is_err());
    assert_eq!(r.ok(), Some(true));
}
#[test] fn c07_cssp_garbage_certificate() {
    let r = std::panic::catch_unwind(|| cssp::read_public_certificate(&[0x30, 0x03, 1, 2, 3]).is_err());
    assert_eq!(r.ok(), Some(true));
}

// ---- C02: a server that selects plain RDP security (not offered) must be refused before anything else is written
use rdp::core::client::Connector;
use std::sync::{Arc, Mutex};
struct Script { inp: Cursor<Vec<u8>>, out: Arc<Mutex<Vec<u8>>> }
impl Read for Script { fn read(&mut self, b: &mut [u8]) -> std::io::Result<usize> { self.inp.read(b) } }
impl Write for Script {
    fn write(&mut self, b: &[u8]) -> std::io::Result<usize> { self.out.lock().unwrap().extend_from_slice(b); Ok(b.len()) }
    fn flush(&mut self) -> std::io::Result<()> { Ok(()) }
}
fn nego_reply(kind: u8, selected: u32) -> Vec<u8> {
    let mut v = vec![3, 0, 0, 19, 14, 0xD0, 0, 0, 0, 0, 0, kind, 0, 8, 0];
    v.extend_from_slice(&selected.to_le_bytes()); v
}
#[test]
fn c02_downgrade_to_rdp_security_is_refused() {
    for selected in [0u32, 8, 4, 16].iter() {
        let out = Arc::new(Mutex::new(vec![]));
        let s = Script { inp: Cursor::new(nego_reply(2, *selected)), out: out.clone() };
        let r = Connector::new().connect(s);
        assert!(r.is_err());
        // only the 19 bytes connection request may have been written: no MCS connect-initial on a clear channel
        assert_eq!(out.lock().unwrap().len(), 19, "selected {}", selected);
    }
}
