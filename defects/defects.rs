//! Demonstrations of the defects found by the /verif checks: each test states the property on a concrete
//! input; it fails on the unrepaired tree and passes after the corresponding `fix:` commit.
extern crate rdp;
use std::io::{Cursor, Read, Write};
use rdp::model::link::{Link, Stream};
use rdp::core::tpkt;

/// transport that accepts at most `cap` bytes per write and records them
struct Dribble { inp: Cursor<Vec<u8>>, out: Vec<u8>, cap: usize }
impl Read for Dribble { fn read(&mut self, b: &mut [u8]) -> std::io::Result<usize> { self.inp.read(b) } }
impl Write for Dribble {
    fn write(&mut self, b: &[u8]) -> std::io::Result<usize> { let n = b.len().min(self.cap); self.out.extend_from_slice(&b[..n]); Ok(n) }
    fn flush(&mut self) -> std::io::Result<()> { Ok(()) }
}

// ---- C13 / D9: a frame whose declared length equals its header must yield an empty payload and leave the next frame alone
#[test]
fn c13_tpkt_length_equal_header_does_not_eat_next_frame() {
    let stream = Cursor::new(vec![3, 0, 0, 4, 3, 0, 0, 5, 0xAA]);
    let mut c = tpkt::Client::new(Link::new(Stream::Raw(stream)));
    match c.read().unwrap() { tpkt::Payload::Raw(p) => assert_eq!(p.into_inner(), Vec::<u8>::new()), _ => panic!("kind") }
    match c.read().unwrap() { tpkt::Payload::Raw(p) => assert_eq!(p.into_inner(), vec![0xAA]), _ => panic!("kind") }
}
#[test]
fn c13_fastpath_length_equal_header_does_not_eat_next_frame() {
    let stream = Cursor::new(vec![0, 2, 0, 3, 0x55, 0, 0x80, 3, 0, 3, 0x66]);
    let mut c = tpkt::Client::new(Link::new(Stream::Raw(stream)));
    match c.read().unwrap() { tpkt::Payload::FastPath(_, p) => assert_eq!(p.into_inner(), Vec::<u8>::new()), _ => panic!("kind") }
    match c.read().unwrap() { tpkt::Payload::FastPath(_, p) => assert_eq!(p.into_inner(), vec![0x55]), _ => panic!("kind") }
    match c.read().unwrap() { tpkt::Payload::FastPath(_, p) => assert_eq!(p.into_inner(), Vec::<u8>::new()), _ => panic!("kind") }
    match c.read().unwrap() { tpkt::Payload::FastPath(_, p) => assert_eq!(p.into_inner(), vec![0x66]), _ => panic!("kind") }
}

// ---- C14 / D10: every byte reaches a stream that accepts one byte per write
#[test]
fn c14_short_writes_are_completed() {
    let mut s = Stream::Raw(Dribble { inp: Cursor::new(vec![]), out: vec![], cap: 1 });
    s.write(&[1, 2, 3, 4]).unwrap();
    if let Stream::Raw(d) = s { assert_eq!(d.out, vec![1, 2, 3, 4]) } else { panic!() }
}
// ---- C14 / D10b: a message too large for the 16-bit TPKT length is refused, nothing is sent
#[test]
fn c14_oversize_message_is_refused() {
    for len in [65532usize, 65534, 65536, 70000].iter() {
        let r = std::panic::catch_unwind(|| {
            let mut link = Link::new(Stream::Raw(Dribble { inp: Cursor::new(vec![]), out: vec![], cap: 1 << 20 }));
            let mut c = tpkt::Client::new(link);
            c.write(vec![7u8; *len]).is_err()
        });
        assert_eq!(r.ok(), Some(true), "len {}", len);
    }
}

// ---- C08: decompression is total and returns exactly width*height*4 bytes
use rdp::core::event::BitmapEvent;
fn bmp(width: u16, height: u16, bpp: u16, is_compress: bool, data: Vec<u8>) -> BitmapEvent {
    BitmapEvent { dest_left: 0, dest_top: 0, dest_right: 0, dest_bottom: 0, width, height, bpp, is_compress, data }
}
fn total(width: u16, height: u16, bpp: u16, is_compress: bool, data: Vec<u8>) {
    let r = std::panic::catch_unwind(move || bmp(width, height, bpp, is_compress, data).decompress());
    match r {
        Err(_) => panic!("decompress panicked for {}x{} bpp {} compress {}", width, height, bpp, is_compress),
        Ok(Ok(v)) => assert_eq!(v.len(), width as usize * height as usize * 4, "{}x{} bpp {}", width, height, bpp),
        Ok(Err(_)) => ()
    }
}
#[test] fn c08_raw32_wrong_size() { total(2, 2, 32, false, vec![1, 2, 3]); }
#[test] fn c08_raw16_short_data() { total(2, 2, 16, false, vec![1, 2, 3]); }
#[test] fn c08_raw16_u16_overflow() { total(300, 300, 16, false, vec![0; 300 * 300 * 2]); }
#[test] fn c08_rle32_empty_image() { total(0, 0, 32, true, vec![0x10]); }
#[test] fn c08_rle32_run_past_line() { total(1, 1, 32, true, vec![0x10, 0x0f, 0x0f, 0x0f, 0x0f]); }
#[test] fn c08_rle32_run_past_line_second_row() { total(1, 2, 32, true, vec![0x10, 0x01, 0x0f, 0x01, 0x0f, 0x01, 0x0f, 0x01, 0x0f]); }
#[test] fn c08_rle16_unknown_opcode() { total(4, 4, 16, true, vec![0xA0, 0, 0, 0]); }
#[test] fn c08_rle16_bicolour_count_overflow() { total(300, 300, 16, true, vec![0xF8, 0xFF, 0xFF, 1, 0, 2, 0]); }
// ---- C09: uncompressed 32 bpp bitmaps are bottom-up on the wire and must come out top-down
#[test]
fn c09_raw32_is_flipped() {
    let data = vec![1, 1, 1, 1, 2, 2, 2, 2]; // 1x2: wire row 0 is the BOTTOM row
    let v = bmp(1, 2, 32, false, data).decompress().unwrap();
    assert_eq!(v, vec![2, 2, 2, 2, 1, 1, 1, 1]);
}
