//! Demonstrations of the defects found by the /verif checks: each test states the property on a concrete
//! input; it fails on the unrepaired tree and passes after the corresponding `fix:` commit.
extern crate rdp;
use std::io::{Cursor, Read, Write};
use rdp::model::link::{Link, Stream};
use rdp::core::tpkt;

/// transport that accepts at most `cap` bytes per write and records them
struct Dribble { inp: Cursor<Vec<u8>>, out: Vec<u8>, cap: usize }
impl Read for Dribble { fn read(&mut self, b: &mut [u8]) -> std::io::Result<usize> { self.inp.read(b) } }
impl Write for Dribble {
    fn write(&mut self, b: &[u8]) -> std::io::Result<usize> { let n = b.len().min(self.cap); self.out.extend_from_slice(&b[..n]); Ok(n) }
    fn flush(&mut self) -> std::io::Result<()> { Ok(()) }
}

// ---- C13 / D9: a frame whose declared length equals its header must yield an empty payload and leave the next frame alone
#[test]
fn c13_tpkt_length_equal_header_does_not_eat_next_frame() {
    let stream = Cursor::new(vec![3, 0, 0, 4, 3, 0, 0, 5, 0xAA]);
    let mut c = tpkt::Client::new(Link::new(Stream::Raw(stream)));
    match c.read().unwrap() { tpkt::Payload::Raw(p) => assert_eq!(p.into_inner(), Vec::<u8>::new()), _ => panic!("kind") }
    match c.read().unwrap() { tpkt::Payload::Raw(p) => assert_eq!(p.into_inner(), vec![0xAA]), _ => panic!("kind") }
}
#[test]
fn c13_fastpath_length_equal_header_does_not_eat_next_frame() {
    let stream = Cursor::new(vec![0, 2, 0, 3, 0x55, 0, 0x80, 3, 0, 3, 0x66]);
    let mut c = tpkt::Client::new(Link::new(Stream::Raw(stream)));
    match c.read().unwrap() { tpkt::Payload::FastPath(_, p) => assert_eq!(p.into_inner(), Vec::<u8>::new()), _ => panic!("kind") }
    match c.read().unwrap() { tpkt::Payload::FastPath(_, p) => assert_eq!(p.into_inner(), vec![0x55]), _ => panic!("kind") }
    match c.read().unwrap() { tpkt::Payload::FastPath(_, p) => assert_eq!(p.into_inner(), Vec::<u8>::new()), _ => panic!("kind") }
    match c.read().unwrap() { tpkt::Payload::FastPath(_, p) => assert_eq!(p.into_inner(), vec![0x66]), _ => panic!("kind") }
}

// ---- C14 / D10: every byte reaches a stream that accepts one byte per write
#[test]
fn c14_short_writes_are_completed() {
    let mut s = Stream::Raw(Dribble { inp: Cursor::new(vec![]), out: vec![], cap: 1 });
    s.write(&[1, 2, 3, 4]).unwrap();
    if let Stream::Raw(d) = s { assert_eq!(d.out, vec![1, 2, 3, 4]) } else { panic!() }
}
// ---- C14 / D10b: a message too large for the 16-bit TPKT length is refused, nothing is sent
#[test]
fn c14_oversize_message_is_refused() {
    for len in [65532usize, 65534, 65536, 70000].iter() {
        let r = std::panic::catch_unwind(|| {
            let mut link = Link::new(Stream::Raw(Dribble { inp: Cursor::new(vec![]), out: vec![], cap: 1 << 20 }));
            let mut c = tpkt::Client::new(link);
            c.write(vec![7u8; *len]).is_err()
        });
        assert_eq!(r.ok(), Some(true), "len {}", len);
    }
}
