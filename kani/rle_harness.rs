//! Kani side of property C09 ("decompressed bitmaps are pixel-exact").
//!
//! This file is attached by /verif/vx/kani.py as a CHILD module of a scratch copy of
//! src/codec/rle.rs, so `super::` reaches the real (private) functions of the crate.
//!
//! It contains
//!   * two REFERENCE decoders transcribed from the protocol documents, not from the code:
//!       - `ref_planar_decode`  : RDP 6.0 planar codec, MS-RDPEGDI 2.2.2.5.1 / 3.1.9.2
//!       - `ref_rle16_decode`   : Interleaved RLE at 16 bpp, MS-RDPBCGR 2.2.9.1.1.3.1.2.4 / 3.1.9
//!   * Kani harnesses comparing the real decoders with the references on every input
//!     inside a stated bound, and a complete harness for the 5-6-5 colour widening.
//!
//! The references are deliberately naive: two-phase (decode the coded values, then undo
//! the delta / the bottom-up order), position-based ("pixel above" = the pixel `width`
//! positions earlier in decode order), no shared state machine with the code under test.

#![allow(dead_code)]

use std::vec::Vec;

// =====================================================================================
// Reference 1: RDP 6.0 planar codec (format header 0x10: RLE, alpha plane, no subsampling)
// =====================================================================================

/// MS-RDPEGDI 3.1.9.2.1: a delta is stored with its sign in the least significant bit.
/// Returned as the two's complement byte, to be added modulo 256.
fn ref_planar_delta(d: u8) -> u8 {
    if d & 1 != 0 {
        // -( (d >> 1) + 1 )
        0u8.wrapping_sub((d >> 1) + 1)
    } else {
        d >> 1
    }
}

/// Decode the RDP6_RLE_SEGMENTs of ONE scanline: returns the `width` coded values
/// (absolute values for the first scanline, coded deltas for the others).
fn ref_planar_scanline(data: &[u8], pos: &mut usize, width: usize) -> Option<Vec<u8>> {
    let mut line = vec![0u8; width];
    let mut filled = 0usize;
    // "a run at the start of a scanline repeats the value zero"
    let mut last = 0u8;
    while filled < width {
        let ctrl = *data.get(*pos)?;
        *pos += 1;
        let mut run = (ctrl & 0x0f) as usize; // nRunLength
        let mut raw = ((ctrl >> 4) & 0x0f) as usize; // cRawBytes
        if run == 1 {
            run = raw + 16;
            raw = 0;
        } else if run == 2 {
            run = raw + 32;
            raw = 0;
        }
        // a segment never crosses the end of the scanline
        if raw + run > width - filled {
            return None;
        }
        for _ in 0..raw {
            last = *data.get(*pos)?;
            *pos += 1;
            line[filled] = last;
            filled += 1;
        }
        for _ in 0..run {
            line[filled] = last;
            filled += 1;
        }
    }
    Some(line)
}

/// Decode one colour plane: `height` scanlines in wire order (first = bottom row),
/// returned in wire order as absolute values.
fn ref_planar_plane(data: &[u8], pos: &mut usize, width: usize, height: usize) -> Option<Vec<u8>> {
    let mut plane = vec![0u8; width * height];
    for k in 0..height {
        let coded = ref_planar_scanline(data, pos, width)?;
        for i in 0..width {
            plane[k * width + i] = if k == 0 {
                coded[i]
            } else {
                plane[(k - 1) * width + i].wrapping_add(ref_planar_delta(coded[i]))
            };
        }
    }
    Some(plane)
}

/// Reference decoder for the planar codec as used by the crate. Output: width*height*4
/// bytes, rows top-down, pixel layout B, G, R, A. None = malformed.
pub fn ref_planar_decode(data: &[u8], width: usize, height: usize) -> Option<Vec<u8>> {
    if *data.get(0)? != 0x10 {
        return None;
    }
    let mut pos = 1usize;
    let alpha = ref_planar_plane(data, &mut pos, width, height)?;
    let red = ref_planar_plane(data, &mut pos, width, height)?;
    let green = ref_planar_plane(data, &mut pos, width, height)?;
    let blue = ref_planar_plane(data, &mut pos, width, height)?;
    let mut out = vec![0u8; width * height * 4];
    for row in 0..height {
        let k = height - 1 - row; // wire scanline holding this top-down row
        for i in 0..width {
            let p = (row * width + i) * 4;
            out[p] = blue[k * width + i];
            out[p + 1] = green[k * width + i];
            out[p + 2] = red[k * width + i];
            out[p + 3] = alpha[k * width + i];
        }
    }
    Some(out)
}

// =====================================================================================
// Reference 2: Interleaved RLE, 16 bpp (MS-RDPBCGR 3.1.9 RleDecompress)
// =====================================================================================

#[derive(Clone, Copy, PartialEq, Eq)]
enum RefOrder {
    BgRun,
    FgRun,
    FgBgImage,
    ColorRun,
    ColorImage,
    SetFgFgRun,
    SetFgFgBgImage,
    DitheredRun,
    SpecialFgBg1,
    SpecialFgBg2,
    White,
    Black,
}

fn ref_u8(data: &[u8], pos: &mut usize) -> Option<u8> {
    let b = *data.get(*pos)?;
    *pos += 1;
    Some(b)
}

fn ref_u16(data: &[u8], pos: &mut usize) -> Option<u16> {
    let lo = ref_u8(data, pos)? as u16;
    let hi = ref_u8(data, pos)? as u16;
    Some(lo | (hi << 8))
}

/// ExtractCodeId + ExtractRunLength of the specification.
fn ref_rle16_header(data: &[u8], pos: &mut usize) -> Option<(RefOrder, usize)> {
    let hdr = ref_u8(data, pos)?;
    if hdr & 0xC0 != 0xC0 {
        // regular order: 3-bit code, 5-bit length
        let order = match hdr >> 5 {
            0 => RefOrder::BgRun,
            1 => RefOrder::FgRun,
            2 => RefOrder::FgBgImage,
            3 => RefOrder::ColorRun,
            4 => RefOrder::ColorImage,
            _ => return None,
        };
        let n = (hdr & 0x1f) as usize;
        let run = if order == RefOrder::FgBgImage {
            if n == 0 { ref_u8(data, pos)? as usize + 1 } else { n * 8 }
        } else {
            if n == 0 { ref_u8(data, pos)? as usize + 32 } else { n }
        };
        Some((order, run))
    } else if hdr & 0xF0 != 0xF0 {
        // lite order: 4-bit code, 4-bit length
        let order = match hdr >> 4 {
            0xC => RefOrder::SetFgFgRun,
            0xD => RefOrder::SetFgFgBgImage,
            _ => RefOrder::DitheredRun, // 0xE
        };
        let n = (hdr & 0x0f) as usize;
        let run = if order == RefOrder::SetFgFgBgImage {
            if n == 0 { ref_u8(data, pos)? as usize + 1 } else { n * 8 }
        } else {
            if n == 0 { ref_u8(data, pos)? as usize + 16 } else { n }
        };
        Some((order, run))
    } else {
        match hdr {
            0xF9 => Some((RefOrder::SpecialFgBg1, 8)),
            0xFA => Some((RefOrder::SpecialFgBg2, 8)),
            0xFD => Some((RefOrder::White, 1)),
            0xFE => Some((RefOrder::Black, 1)),
            0xF0..=0xF4 | 0xF6..=0xF8 => {
                let order = match hdr {
                    0xF0 => RefOrder::BgRun,
                    0xF1 => RefOrder::FgRun,
                    0xF2 => RefOrder::FgBgImage,
                    0xF3 => RefOrder::ColorRun,
                    0xF4 => RefOrder::ColorImage,
                    0xF6 => RefOrder::SetFgFgRun,
                    0xF7 => RefOrder::SetFgFgBgImage,
                    _ => RefOrder::DitheredRun, // 0xF8
                };
                let run = ref_u16(data, pos)? as usize;
                Some((order, run))
            }
            _ => None, // 0xF5, 0xFB, 0xFC, 0xFF are not orders
        }
    }
}

/// The destination in decode (wire) order.
struct RefCanvas {
    px: Vec<u16>,
    n: usize,
    width: usize,
    /// literal pseudo-code reading: "first line" is a flag tested once per order
    literal: bool,
    first_line: bool,
}

impl RefCanvas {
    /// the pixel on the previous scanline, black when there is none
    fn above(&self) -> u16 {
        if self.literal {
            if self.first_line { 0 } else { self.px[self.n - self.width] }
        } else {
            if self.n < self.width { 0 } else { self.px[self.n - self.width] }
        }
    }
    fn put(&mut self, p: u16) -> Option<()> {
        if self.n >= self.px.len() {
            return None; // more than width*height pixels
        }
        self.px[self.n] = p;
        self.n += 1;
        Some(())
    }
    /// WriteFgBgImage / WriteFirstLineFgBgImage: `bits` pixels, least significant bit first
    fn fgbg(&mut self, mask: u8, fg: u16, bits: usize) -> Option<()> {
        for b in 0..bits {
            let a = self.above();
            if (mask >> b) & 1 != 0 {
                self.put(a ^ fg)?;
            } else {
                self.put(a)?;
            }
        }
        Some(())
    }
}

pub struct RefRle16 {
    /// rows top-down, width*height pixels, pixels never written are 0
    pub pixels: Vec<u16>,
    /// number of pixels written by the stream
    pub decoded: usize,
    /// some order began on the first scanline and wrote past its end
    pub straddled: bool,
    /// a background run directly followed a background run that straddled the end of
    /// the first scanline (the one place where the two readings of the insert rule split)
    pub bg_after_straddling_bg: bool,
}

/// `literal == false`: position-based reading (a pixel is "on the first line" iff it is one
/// of the first `width` pixels decoded). `literal == true`: the pseudo-code verbatim, the
/// first-line flag is re-evaluated only between orders.
pub fn ref_rle16_run(data: &[u8], width: usize, height: usize, literal: bool) -> Option<RefRle16> {
    let total = width * height;
    let mut c = RefCanvas { px: vec![0u16; total], n: 0, width: width, literal: literal, first_line: true };
    let mut pos = 0usize;
    let mut fg: u16 = 0xFFFF;
    let mut insert_fg = false;
    let mut straddled = false;
    let mut bg_after_straddling_bg = false;

    while pos < data.len() {
        // "Watch out for the end of the first scanline."
        let mut left_first_line_inside_a_bg_run = false;
        if c.first_line && c.n >= width {
            left_first_line_inside_a_bg_run = insert_fg && c.n > width;
            c.first_line = false;
            insert_fg = false;
        }
        let start = c.n;
        let (order, run) = ref_rle16_header(data, &mut pos)?;
        match order {
            RefOrder::BgRun => {
                if left_first_line_inside_a_bg_run {
                    bg_after_straddling_bg = true;
                }
                let mut run = run;
                if insert_fg {
                    if run == 0 {
                        return None; // the inserted pel is counted in the run
                    }
                    let a = c.above();
                    c.put(a ^ fg)?;
                    run -= 1;
                }
                for _ in 0..run {
                    let a = c.above();
                    c.put(a)?;
                }
            }
            RefOrder::FgRun | RefOrder::SetFgFgRun => {
                if order == RefOrder::SetFgFgRun {
                    fg = ref_u16(data, &mut pos)?;
                }
                for _ in 0..run {
                    let a = c.above();
                    c.put(a ^ fg)?;
                }
            }
            RefOrder::DitheredRun => {
                let a = ref_u16(data, &mut pos)?;
                let b = ref_u16(data, &mut pos)?;
                for _ in 0..run {
                    c.put(a)?;
                    c.put(b)?;
                }
            }
            RefOrder::ColorRun => {
                let a = ref_u16(data, &mut pos)?;
                for _ in 0..run {
                    c.put(a)?;
                }
            }
            RefOrder::FgBgImage | RefOrder::SetFgFgBgImage => {
                if order == RefOrder::SetFgFgBgImage {
                    fg = ref_u16(data, &mut pos)?;
                }
                let mut left = run;
                while left > 8 {
                    let mask = ref_u8(data, &mut pos)?;
                    c.fgbg(mask, fg, 8)?;
                    left -= 8;
                }
                if left > 0 {
                    let mask = ref_u8(data, &mut pos)?;
                    c.fgbg(mask, fg, left)?;
                }
            }
            RefOrder::ColorImage => {
                for _ in 0..run {
                    let p = ref_u16(data, &mut pos)?;
                    c.put(p)?;
                }
            }
            RefOrder::SpecialFgBg1 => c.fgbg(0x03, fg, 8)?,
            RefOrder::SpecialFgBg2 => c.fgbg(0x05, fg, 8)?,
            RefOrder::White => c.put(0xFFFF)?,
            RefOrder::Black => c.put(0x0000)?,
        }
        insert_fg = order == RefOrder::BgRun;
        if start < width && c.n > width {
            straddled = true;
        }
    }

    // the wire image is bottom-up
    let mut pixels = vec![0u16; total];
    for k in 0..height {
        for i in 0..width {
            pixels[(height - 1 - k) * width + i] = c.px[k * width + i];
        }
    }
    Some(RefRle16 { pixels: pixels, decoded: c.n, straddled: straddled, bg_after_straddling_bg: bg_after_straddling_bg })
}

/// Reference decoder for Interleaved RLE at 16 bpp. Rows top-down; pixels the stream does
/// not reach stay 0 (the caller's buffer is zero-initialised). None = malformed (truncated,
/// unknown order, more than width*height pixels).
pub fn ref_rle16_decode(data: &[u8], width: usize, height: usize) -> Option<Vec<u16>> {
    match ref_rle16_run(data, width, height, false) {
        Some(r) => Some(r.pixels),
        None => None,
    }
}

// =====================================================================================
// Harnesses
// =====================================================================================

/// exact rounding of an n-bit channel to 8 bits: round(c * 255 / m), m = 2^n - 1
#[cfg(kani)]
fn widen(c: u32, m: u32) -> u8 {
    ((c * 510 + m) / (2 * m)) as u8
}

/// COMPLETE: all 65536 colours.
#[cfg(kani)]
#[kani::proof]
#[kani::unwind(3)]
fn check_rgb565_all_colours() {
    let v: u16 = kani::any();
    let out = super::rgb565torgb32(&[v], 1, 1);
    assert!(out.len() == 4);
    let r = ((v >> 11) & 0x1f) as u32;
    let g = ((v >> 5) & 0x3f) as u32;
    let b = (v & 0x1f) as u32;
    assert!(out[0] == widen(b, 31));
    assert!(out[1] == widen(g, 63));
    assert!(out[2] == widen(r, 31));
    assert!(out[3] == 0xff);
}

#[cfg(kani)]
const PLANAR_MAX_DATA: usize = 5;
#[cfg(kani)]
const PLANAR_MAX_W: usize = 4;
#[cfg(kani)]
const PLANAR_MAX_H: usize = 2;

/// compare the two decoders on every stream of at most PLANAR_MAX_DATA bytes, for one size
#[cfg(kani)]
fn planar_case(w: usize, h: usize) {
    let bytes: [u8; PLANAR_MAX_DATA] = kani::any();
    let n: usize = kani::any();
    kani::assume(n <= PLANAR_MAX_DATA);
    let data = &bytes[..n];

    let mut out = [0u8; PLANAR_MAX_W * PLANAR_MAX_H * 4];
    let len = w * h * 4;
    let real = super::rle_32_decompress(data, w as u32, h as u32, &mut out[..len]);
    let reference = ref_planar_decode(data, w, h);

    if let Some(r) = reference {
        assert!(real.is_ok()); // every stream the reference decodes is accepted
        assert!(r.len() == len);
        for row in 0..h {
            for col in 0..w {
                let p = (row * w + col) * 4;
                assert!(out[p] == r[p]);
                assert!(out[p + 1] == r[p + 1]);
                assert!(out[p + 2] == r[p + 2]);
                assert!(out[p + 3] == r[p + 3]);
            }
        }
    }
}

#[cfg(kani)]
#[kani::proof]
#[kani::unwind(6)]
fn tune_planar_3x1() {
    planar_case(3, 1);
}

#[cfg(kani)]
const RLE16_MAX_DATA: usize = 5;
#[cfg(kani)]
const RLE16_MAX_W: usize = 3;
#[cfg(kani)]
const RLE16_MAX_H: usize = 2;

#[cfg(kani)]
fn rle16_compare(literal: bool, only_non_straddling: bool, exempt_bg_after_straddling_bg: bool) {
    let bytes: [u8; RLE16_MAX_DATA] = kani::any();
    let n: usize = kani::any();
    kani::assume(n <= RLE16_MAX_DATA);
    let w: usize = kani::any();
    let h: usize = kani::any();
    kani::assume(1 <= w && w <= RLE16_MAX_W);
    kani::assume(1 <= h && h <= RLE16_MAX_H);
    let data = &bytes[..n];

    // the caller (BitmapEvent::decompress) passes width*height*2 elements, zeroed
    let mut out = [0u16; RLE16_MAX_W * RLE16_MAX_H * 2];
    let total = w * h;
    let real = super::rle_16_decompress(data, w, h, &mut out[..total * 2]);
    let reference = ref_rle16_run(data, w, h, literal);

    if let Some(r) = reference {
        if only_non_straddling && r.straddled {
            return;
        }
        if exempt_bg_after_straddling_bg && r.bg_after_straddling_bg {
            return;
        }
        assert!(real.is_ok());
        assert!(r.pixels.len() == total);
        for i in 0..total {
            assert!(out[i] == r.pixels[i]);
        }
        // nothing is written behind the image
        for i in total..total * 2 {
            assert!(out[i] == 0);
        }
    }
}

/// BOUNDED: position-based reading of "first line", every stream in the bound except the
/// one ambiguous situation (background run after a background run that crossed the end of
/// the first scanline), see README.
#[cfg(kani)]
#[kani::proof]
#[kani::unwind(9)]
fn check_rle16_vs_ref() {
    rle16_compare(false, false, true);
}

/// BOUNDED: the pseudo-code of MS-RDPBCGR 3.1.9 verbatim, on the streams where no order
/// crosses the end of the first scanline.
#[cfg(kani)]
#[kani::proof]
#[kani::unwind(9)]
fn check_rle16_vs_literal_spec_non_straddling() {
    rle16_compare(true, true, false);
}

/// NOT REGISTERED, expected to FAIL: exhibits the disagreement on the insert-foreground-pel
/// rule after a straddling background run.
#[cfg(kani)]
#[kani::proof]
#[kani::unwind(9)]
fn witness_rle16_bg_after_straddling_bg() {
    rle16_compare(false, false, false);
}

/// NOT REGISTERED, expected to FAIL: exhibits the disagreement between the code and the
/// literal pseudo-code on orders that cross the end of the first scanline.
#[cfg(kani)]
#[kani::proof]
#[kani::unwind(9)]
fn witness_rle16_literal_spec_straddling() {
    rle16_compare(true, false, false);
}

#[cfg(kani)]
#[kani::proof]
#[kani::unwind(6)]
fn tune_real_only() {
    let bytes: [u8; 5] = kani::any();
    let n: usize = kani::any();
    kani::assume(n <= 5);
    let mut out = [0u8; 12];
    let real = super::rle_32_decompress(&bytes[..n], 3, 1, &mut out);
    if real.is_ok() { assert!(out[3] == bytes[2] || bytes[1] & 0xf0 == 0); }
    std::mem::forget(real);
}

#[cfg(kani)]
#[kani::proof]
#[kani::unwind(6)]
fn tune_ref_only() {
    let bytes: [u8; 5] = kani::any();
    let n: usize = kani::any();
    kani::assume(n <= 5);
    let r = ref_planar_decode(&bytes[..n], 3, 1);
    if let Some(v) = r { assert!(v.len() == 12); }
}
