//! Kani side of property C09 ("decompressed bitmaps are pixel-exact").
//!
//! This file is attached by /verif/vx/kani.py as a CHILD module of a scratch copy of
//! src/codec/rle.rs, so `super::` reaches the real (private) functions of the crate.
//!
//! It contains
//!   * two REFERENCE decoders transcribed from the protocol documents, not from the code:
//!       - `ref_planar_decode`  : RDP 6.0 planar codec, MS-RDPEGDI 2.2.2.5.1 / 3.1.9.2
//!       - `ref_rle16_decode`   : Interleaved RLE at 16 bpp, MS-RDPBCGR 2.2.9.1.1.3.1.2.4 / 3.1.9
//!   * Kani harnesses comparing the real decoders with the references on every input
//!     inside a stated bound, and a complete harness for the 5-6-5 colour widening.
//!
//! The references are deliberately naive: two-phase (decode the coded values, then undo
//! the delta / the bottom-up order), position-based ("pixel above" = the pixel `width`
//! positions earlier in decode order), no shared state machine with the code under test.

#![allow(dead_code)]

use std::vec::Vec;

// =====================================================================================
// Reference 1: RDP 6.0 planar codec (format header 0x10: RLE, alpha plane, no subsampling)
// =====================================================================================

/// MS-RDPEGDI 3.1.9.2.1: a delta is stored with its sign in the least significant bit.
/// Returned as the two's complement byte, to be added modulo 256.
fn ref_planar_delta(d: u8) -> u8 {
    if d & 1 != 0 {
        // -( (d >> 1) + 1 )
        0u8.wrapping_sub((d >> 1) + 1)
    } else {
        d >> 1
    }
}

/// Decode the RDP6_RLE_SEGMENTs of ONE scanline into `line[base .. base + width]`: the
/// coded values (absolute values for the first scanline, coded deltas for the others).
fn ref_planar_scanline(data: &[u8], pos: &mut usize, line: &mut [u8], base: usize, width: usize) -> Option<()> {
    let mut filled = 0usize;
    // "a run at the start of a scanline repeats the value zero"
    let mut last = 0u8;
    while filled < width {
        if *pos >= data.len() {
            return None; // truncated
        }
        let ctrl = data[*pos];
        *pos += 1;
        let mut run = (ctrl & 0x0f) as usize; // nRunLength
        let mut raw = ((ctrl >> 4) & 0x0f) as usize; // cRawBytes
        if run == 1 {
            run = raw + 16;
            raw = 0;
        } else if run == 2 {
            run = raw + 32;
            raw = 0;
        }
        // a segment never crosses the end of the scanline
        if raw + run > width - filled {
            return None;
        }
        while raw > 0 {
            if *pos >= data.len() {
                return None; // truncated
            }
            last = data[*pos];
            *pos += 1;
            line[base + filled] = last;
            filled += 1;
            raw -= 1;
        }
        while run > 0 {
            line[base + filled] = last;
            filled += 1;
            run -= 1;
        }
    }
    Some(())
}

/// Decode one colour plane into `plane[0 .. width*height]`: `height` scanlines in wire order
/// (scanline 0 = bottom row of the image), as absolute values.
fn ref_planar_plane(data: &[u8], pos: &mut usize, plane: &mut [u8], width: usize, height: usize) -> Option<()> {
    // 1. undo the run-length stage
    let mut k = 0usize;
    while k < height {
        ref_planar_scanline(data, pos, plane, k * width, width)?;
        k += 1;
    }
    // 2. undo the delta stage: every scanline after the first holds coded deltas against
    //    the scanline decoded just before it
    let mut k = 1usize;
    while k < height {
        let mut i = 0usize;
        while i < width {
            plane[k * width + i] = plane[(k - 1) * width + i].wrapping_add(ref_planar_delta(plane[k * width + i]));
            i += 1;
        }
        k += 1;
    }
    Some(())
}

/// The reference decoder proper, on caller-provided buffers:
/// `planes.len() >= 4*width*height` (scratch), `out.len() >= 4*width*height`.
fn ref_planar_decode_into(data: &[u8], width: usize, height: usize, planes: &mut [u8], out: &mut [u8]) -> Option<()> {
    if data.len() < 1 || data[0] != 0x10 {
        return None;
    }
    let size = width * height;
    let mut pos = 1usize;
    // wire order of the planes: alpha, red, green, blue
    ref_planar_plane(data, &mut pos, &mut planes[0..], width, height)?;
    ref_planar_plane(data, &mut pos, &mut planes[size..], width, height)?;
    ref_planar_plane(data, &mut pos, &mut planes[2 * size..], width, height)?;
    ref_planar_plane(data, &mut pos, &mut planes[3 * size..], width, height)?;
    let mut row = 0usize;
    while row < height {
        let k = height - 1 - row; // wire scanline holding this top-down row
        let mut i = 0usize;
        while i < width {
            let p = (row * width + i) * 4;
            out[p] = planes[3 * size + k * width + i]; // blue
            out[p + 1] = planes[2 * size + k * width + i]; // green
            out[p + 2] = planes[size + k * width + i]; // red
            out[p + 3] = planes[k * width + i]; // alpha
            i += 1;
        }
        row += 1;
    }
    Some(())
}

/// Reference decoder for the planar codec as used by the crate. Output: width*height*4
/// bytes, rows top-down, pixel layout B, G, R, A. None = malformed.
pub fn ref_planar_decode(data: &[u8], width: usize, height: usize) -> Option<Vec<u8>> {
    let mut planes = vec![0u8; width * height * 4];
    let mut out = vec![0u8; width * height * 4];
    ref_planar_decode_into(data, width, height, &mut planes[..], &mut out[..])?;
    Some(out)
}

// =====================================================================================
// Reference 2: Interleaved RLE, 16 bpp (MS-RDPBCGR 3.1.9 RleDecompress)
// =====================================================================================

#[derive(Clone, Copy, PartialEq, Eq)]
enum RefOrder {
    BgRun,
    FgRun,
    FgBgImage,
    ColorRun,
    ColorImage,
    SetFgFgRun,
    SetFgFgBgImage,
    DitheredRun,
    SpecialFgBg1,
    SpecialFgBg2,
    White,
    Black,
}

fn ref_u8(data: &[u8], pos: &mut usize) -> Option<u8> {
    if *pos >= data.len() {
        return None; // truncated
    }
    let b = data[*pos];
    *pos += 1;
    Some(b)
}

fn ref_u16(data: &[u8], pos: &mut usize) -> Option<u16> {
    let lo = ref_u8(data, pos)? as u16;
    let hi = ref_u8(data, pos)? as u16;
    Some(lo | (hi << 8))
}

/// ExtractCodeId + ExtractRunLength of the specification.
fn ref_rle16_header(data: &[u8], pos: &mut usize) -> Option<(RefOrder, usize)> {
    let hdr = ref_u8(data, pos)?;
    if hdr & 0xC0 != 0xC0 {
        // regular order: 3-bit code, 5-bit length
        let order = match hdr >> 5 {
            0 => RefOrder::BgRun,
            1 => RefOrder::FgRun,
            2 => RefOrder::FgBgImage,
            3 => RefOrder::ColorRun,
            4 => RefOrder::ColorImage,
            _ => return None,
        };
        let n = (hdr & 0x1f) as usize;
        let run = if order == RefOrder::FgBgImage {
            if n == 0 { ref_u8(data, pos)? as usize + 1 } else { n * 8 }
        } else {
            if n == 0 { ref_u8(data, pos)? as usize + 32 } else { n }
        };
        Some((order, run))
    } else if hdr & 0xF0 != 0xF0 {
        // lite order: 4-bit code, 4-bit length
        let order = match hdr >> 4 {
            0xC => RefOrder::SetFgFgRun,
            0xD => RefOrder::SetFgFgBgImage,
            _ => RefOrder::DitheredRun, // 0xE
        };
        let n = (hdr & 0x0f) as usize;
        let run = if order == RefOrder::SetFgFgBgImage {
            if n == 0 { ref_u8(data, pos)? as usize + 1 } else { n * 8 }
        } else {
            if n == 0 { ref_u8(data, pos)? as usize + 16 } else { n }
        };
        Some((order, run))
    } else {
        match hdr {
            0xF9 => Some((RefOrder::SpecialFgBg1, 8)),
            0xFA => Some((RefOrder::SpecialFgBg2, 8)),
            0xFD => Some((RefOrder::White, 1)),
            0xFE => Some((RefOrder::Black, 1)),
            0xF0..=0xF4 | 0xF6..=0xF8 => {
                let order = match hdr {
                    0xF0 => RefOrder::BgRun,
                    0xF1 => RefOrder::FgRun,
                    0xF2 => RefOrder::FgBgImage,
                    0xF3 => RefOrder::ColorRun,
                    0xF4 => RefOrder::ColorImage,
                    0xF6 => RefOrder::SetFgFgRun,
                    0xF7 => RefOrder::SetFgFgBgImage,
                    _ => RefOrder::DitheredRun, // 0xF8
                };
                let run = ref_u16(data, pos)? as usize;
                Some((order, run))
            }
            _ => None, // 0xF5, 0xFB, 0xFC, 0xFF are not orders
        }
    }
}

/// The destination in decode (wire) order: px[0] is the first pixel decoded.
struct RefCanvas<'a> {
    px: &'a mut [u16],
    /// width * height
    total: usize,
    /// pixels written so far
    n: usize,
    width: usize,
    /// literal pseudo-code reading: "first line" is a flag tested once per order
    literal: bool,
    first_line: bool,
}

impl<'a> RefCanvas<'a> {
    /// the pixel on the previous scanline, black when there is none
    fn above(&self) -> u16 {
        if self.literal {
            if self.first_line { 0 } else { self.px[self.n - self.width] }
        } else {
            if self.n < self.width { 0 } else { self.px[self.n - self.width] }
        }
    }
    fn put(&mut self, p: u16) -> Option<()> {
        if self.n >= self.total {
            return None; // more than width*height pixels
        }
        self.px[self.n] = p;
        self.n += 1;
        Some(())
    }
    /// WriteFgBgImage / WriteFirstLineFgBgImage: `bits` pixels, least significant bit first
    fn fgbg(&mut self, mask: u8, fg: u16, bits: usize) -> Option<()> {
        let mut b = 0usize;
        while b < bits {
            let a = self.above();
            if (mask >> b) & 1 != 0 {
                self.put(a ^ fg)?;
            } else {
                self.put(a)?;
            }
            b += 1;
        }
        Some(())
    }
}

#[derive(Clone, Copy)]
pub struct RefRle16Info {
    /// number of pixels written by the stream
    pub decoded: usize,
    /// some order began on the first scanline and wrote past its end
    pub straddled: bool,
    /// a background run directly followed a background run that straddled the end of
    /// the first scanline (the one place where the two readings of the insert rule split)
    pub bg_after_straddling_bg: bool,
}

/// The reference decoder proper, on caller-provided buffers: `wire` (scratch, decode order)
/// and `out` (result, rows top-down) hold at least width*height pixels and are zero-filled.
///
/// `literal == false`: position-based reading (a pixel is "on the first line" iff it is one
/// of the first `width` pixels decoded). `literal == true`: the pseudo-code verbatim, the
/// first-line flag is re-evaluated only between orders.
pub fn ref_rle16_decode_into(data: &[u8], width: usize, height: usize, literal: bool, wire: &mut [u16], out: &mut [u16]) -> Option<RefRle16Info> {
    let total = width * height;
    let mut c = RefCanvas { px: wire, total: total, n: 0, width: width, literal: literal, first_line: true };
    let mut pos = 0usize;
    let mut fg: u16 = 0xFFFF;
    let mut insert_fg = false;
    let mut straddled = false;
    let mut bg_after_straddling_bg = false;

    while pos < data.len() {
        // "Watch out for the end of the first scanline."
        let mut left_first_line_inside_a_bg_run = false;
        if c.first_line && c.n >= width {
            left_first_line_inside_a_bg_run = insert_fg && c.n > width;
            c.first_line = false;
            insert_fg = false;
        }
        let start = c.n;
        let (order, run) = ref_rle16_header(data, &mut pos)?;
        let mut run = run;
        match order {
            RefOrder::BgRun => {
                if left_first_line_inside_a_bg_run {
                    bg_after_straddling_bg = true;
                }
                if insert_fg {
                    if run == 0 {
                        return None; // the inserted pel is counted in the run
                    }
                    let a = c.above();
                    c.put(a ^ fg)?;
                    run -= 1;
                }
                while run > 0 {
                    let a = c.above();
                    c.put(a)?;
                    run -= 1;
                }
            }
            RefOrder::FgRun | RefOrder::SetFgFgRun => {
                if order == RefOrder::SetFgFgRun {
                    fg = ref_u16(data, &mut pos)?;
                }
                while run > 0 {
                    let a = c.above();
                    c.put(a ^ fg)?;
                    run -= 1;
                }
            }
            RefOrder::DitheredRun => {
                let a = ref_u16(data, &mut pos)?;
                let b = ref_u16(data, &mut pos)?;
                while run > 0 {
                    c.put(a)?;
                    c.put(b)?;
                    run -= 1;
                }
            }
            RefOrder::ColorRun => {
                let a = ref_u16(data, &mut pos)?;
                while run > 0 {
                    c.put(a)?;
                    run -= 1;
                }
            }
            RefOrder::FgBgImage | RefOrder::SetFgFgBgImage => {
                if order == RefOrder::SetFgFgBgImage {
                    fg = ref_u16(data, &mut pos)?;
                }
                while run > 8 {
                    let mask = ref_u8(data, &mut pos)?;
                    c.fgbg(mask, fg, 8)?;
                    run -= 8;
                }
                if run > 0 {
                    let mask = ref_u8(data, &mut pos)?;
                    c.fgbg(mask, fg, run)?;
                }
            }
            RefOrder::ColorImage => {
                while run > 0 {
                    let p = ref_u16(data, &mut pos)?;
                    c.put(p)?;
                    run -= 1;
                }
            }
            RefOrder::SpecialFgBg1 => c.fgbg(0x03, fg, 8)?,
            RefOrder::SpecialFgBg2 => c.fgbg(0x05, fg, 8)?,
            RefOrder::White => c.put(0xFFFF)?,
            RefOrder::Black => c.put(0x0000)?,
        }
        insert_fg = order == RefOrder::BgRun;
        if start < width && c.n > width {
            straddled = true;
        }
    }

    // the wire image is bottom-up
    let mut k = 0usize;
    while k < height {
        let mut i = 0usize;
        while i < width {
            out[(height - 1 - k) * width + i] = c.px[k * width + i];
            i += 1;
        }
        k += 1;
    }
    Some(RefRle16Info { decoded: c.n, straddled: straddled, bg_after_straddling_bg: bg_after_straddling_bg })
}

/// Reference decoder for Interleaved RLE at 16 bpp. Rows top-down; pixels the stream does
/// not reach stay 0 (the caller's buffer is zero-initialised). None = malformed (truncated,
/// unknown order, more than width*height pixels).
pub fn ref_rle16_decode(data: &[u8], width: usize, height: usize) -> Option<Vec<u16>> {
    let mut wire = vec![0u16; width * height];
    let mut out = vec![0u16; width * height];
    ref_rle16_decode_into(data, width, height, false, &mut wire[..], &mut out[..])?;
    Some(out)
}

// =====================================================================================
// Harnesses
// =====================================================================================
//
// Measured facts that shape the harnesses (kani 0.68 / CBMC 6.11 on this crate):
//  * `RdpResult<()>` carries the crate's `Error` enum (native_tls, yasna, io::Error, String
//    variants). CBMC is field-sensitive, so every `?` / `return Err(..)` copies some hundred
//    scalar fields and every feasible read adds a conjunct to all later path guards; symbolic
//    execution time grows quadratically with the number of feasible `read_u8()?` sites.
//    One symbolic order byte of rle_16_decompress costs about 80 s; two symbolic bytes did not
//    finish in 19 minutes. The bounds below are what fits in the 10-15 minute budget.
//  * The error value returned by the real decoders is `mem::forget`-ed in the harnesses:
//    its drop glue triples the cost and is irrelevant to the property.
//  * Vec indexing and `for` ranges are avoided in the references (7x cheaper in CBMC).

/// exact rounding of an n-bit channel to 8 bits: round(c * 255 / m), m = 2^n - 1
#[cfg(kani)]
fn widen(c: u32, m: u32) -> u8 {
    ((c * 510 + m) / (2 * m)) as u8
}

/// COMPLETE: all 65536 colours.
#[cfg(kani)]
#[kani::proof]
#[kani::unwind(3)]
fn check_rgb565_all_colours() {
    let v: u16 = kani::any();
    let out = super::rgb565torgb32(&[v], 1, 1);
    assert!(out.len() == 4);
    let r = ((v >> 11) & 0x1f) as u32;
    let g = ((v >> 5) & 0x3f) as u32;
    let b = (v & 0x1f) as u32;
    assert!(out[0] == widen(b, 31));
    assert!(out[1] == widen(g, 63));
    assert!(out[2] == widen(r, 31));
    assert!(out[3] == 0xff);
}

#[cfg(kani)]
const PLANAR_MAX_PIXELS: usize = 4;

/// compare the two planar decoders on every stream of at most `N` bytes, for one image size
#[cfg(kani)]
fn planar_case<const N: usize>(w: usize, h: usize) {
    let bytes: [u8; N] = kani::any();
    let n: usize = kani::any();
    kani::assume(n <= N);
    let data = &bytes[..n];

    let len = w * h * 4;
    let mut out = [0u8; PLANAR_MAX_PIXELS * 4];
    let real = super::rle_32_decompress(data, w as u32, h as u32, &mut out[..len]);
    let real_ok = real.is_ok();
    std::mem::forget(real);

    let mut planes = [0u8; PLANAR_MAX_PIXELS * 4];
    let mut expected = [0u8; PLANAR_MAX_PIXELS * 4];
    let reference = ref_planar_decode_into(data, w, h, &mut planes, &mut expected);

    kani::cover!(reference.is_some() && expected[0] == 1 && expected[1] == 2 && expected[2] == 3 && expected[3] == 4);
    if reference.is_some() {
        assert!(real_ok); // every stream the reference decodes is accepted
        let mut p = 0;
        while p < len {
            assert!(out[p] == expected[p]);
            assert!(out[p + 1] == expected[p + 1]);
            assert!(out[p + 2] == expected[p + 2]);
            assert!(out[p + 3] == expected[p + 3]);
            p += 4;
        }
    }
}

/// NOT REGISTERED. The whole planar codec (header, four planes, B,G,R,A interleaving) on a 1x1
/// image, every stream of at most 9 bytes; meant to run with --no-unwinding-checks and unwind 4,
/// i.e. streams in which the scanline of a plane is coded with at most 3 segments.
/// History: the run that reported SUCCESSFUL in 545 s was VACUOUS (its cover was
/// UNSATISFIABLE): the reference then looped `while c < 4` over the planes, which unwind 4
/// cuts. The loop is now four explicit calls; the harness has not been re-validated.
#[cfg(kani)]
#[kani::proof]
#[kani::unwind(4)]
fn unregistered_planar_vs_ref_1x1() {
    planar_case::<9>(1, 1);
}

/// compare `process_plane` with the reference plane decoder on every stream of `N` bytes
#[cfg(kani)]
fn plane_case<const N: usize>(w: usize, h: usize) {
    let bytes: [u8; N] = kani::any();
    let mut out = [0u8; PLANAR_MAX_PIXELS * 4];
    let mut cursor = std::io::Cursor::new(&bytes[..]);
    let real = super::process_plane(&mut cursor, w as u32, h as u32, &mut out[..w * h * 4]);
    let real_ok = real.is_ok();
    std::mem::forget(real);

    let mut wire = [0u8; PLANAR_MAX_PIXELS];
    let mut pos = 0usize;
    let reference = ref_planar_plane(&bytes, &mut pos, &mut wire, w, h);

    kani::cover!(reference.is_some() && h == 2 && wire[0] != wire[w]);
    if reference.is_some() {
        assert!(real_ok);
        // both consumed the same number of bytes
        assert!(cursor.position() as usize == pos);
        // the plane is written with a stride of 4, wire scanline k is row h-1-k
        let mut k = 0;
        while k < h {
            let mut i = 0;
            while i < w {
                assert!(out[((h - 1 - k) * w + i) * 4] == wire[k * w + i]);
                i += 1;
            }
            k += 1;
        }
    }
}

/// BOUNDED: one plane, 1 pixel wide and 2 scanlines high (so the delta stage and the
/// bottom-up order are exercised), every stream of exactly 4 bytes (longer streams only add
/// ignored trailing bytes or empty segments); all loops fully unwound (unwinding checks on).
#[cfg(kani)]
#[kani::proof]
#[kani::unwind(6)]
fn check_planar_plane_vs_ref_1x2() {
    plane_case::<4>(1, 2);
}

#[cfg(kani)]
const RLE16_MAX_PIXELS: usize = 6;

#[cfg(kani)]
fn rle16_check(w: usize, h: usize, data: &[u8], literal: bool, only_non_straddling: bool, exempt_bg_after_straddling_bg: bool) {
    // the caller (BitmapEvent::decompress) passes width*height*2 elements, zeroed
    let mut out = [0u16; RLE16_MAX_PIXELS * 2];
    let total = w * h;
    let real = super::rle_16_decompress(data, w, h, &mut out[..total * 2]);
    let real_ok = real.is_ok();
    std::mem::forget(real);

    let mut wire = [0u16; RLE16_MAX_PIXELS];
    let mut expected = [0u16; RLE16_MAX_PIXELS];
    let reference = ref_rle16_decode_into(data, w, h, literal, &mut wire, &mut expected);

    if let Some(info) = reference {
        kani::cover!(info.decoded == total);
        if only_non_straddling && info.straddled {
            return;
        }
        if exempt_bg_after_straddling_bg && info.bg_after_straddling_bg {
            return;
        }
        assert!(real_ok);
        let mut i = 0;
        while i < total {
            assert!(out[i] == expected[i]);
            // nothing is written behind the image
            assert!(out[total + i] == 0);
            i += 1;
        }
    }
}

/// BOUNDED: every 1-byte stream (all 256 order headers) on a 3x2 image, position-based
/// reading of "first line"; all loops fully unwound (unwinding checks on; needs the
/// per-loop --unwindset of harnesses.json, the 8x-unrolled loops of `repeat!` get bound 1).
#[cfg(kani)]
#[kani::proof]
#[kani::unwind(8)]
fn check_rle16_vs_ref_1byte_3x2() {
    let bytes: [u8; 1] = kani::any();
    rle16_check(3, 2, &bytes, false, false, true);
}

/// same, with the pseudo-code of MS-RDPBCGR 3.1.9 read verbatim (first-line flag per order),
/// restricted to the streams whose order does not cross the end of the first scanline.
/// Without that restriction Kani reports `out[i] == expected[i]` FAILED (README, D2).
#[cfg(kani)]
#[kani::proof]
#[kani::unwind(8)]
fn check_rle16_vs_literal_spec_1byte_3x2() {
    let bytes: [u8; 1] = kani::any();
    rle16_check(3, 2, &bytes, true, true, false);
}

// ---- NOT REGISTERED: too expensive for CBMC on this crate (see README), kept as the intended
// ---- shape of the bounded equivalence check.

#[cfg(kani)]
fn rle16_symbolic<const N: usize>(literal: bool, only_non_straddling: bool, exempt: bool) {
    let bytes: [u8; N] = kani::any();
    let n: usize = kani::any();
    kani::assume(n <= N);
    let w: usize = kani::any();
    let h: usize = kani::any();
    kani::assume(1 <= w && w <= 3);
    kani::assume(1 <= h && h <= 2);
    rle16_check(w, h, &bytes[..n], literal, only_non_straddling, exempt);
}

/// position-based reading, every stream but the one ambiguous situation
#[cfg(kani)]
#[kani::proof]
#[kani::unwind(8)]
fn unregistered_rle16_vs_ref_5bytes() {
    rle16_symbolic::<5>(false, false, true);
}

/// literal pseudo-code, streams where no order crosses the end of the first scanline
#[cfg(kani)]
#[kani::proof]
#[kani::unwind(8)]
fn unregistered_rle16_vs_literal_spec_5bytes() {
    rle16_symbolic::<5>(true, true, false);
}

/// expected to FAIL: background run after a straddling background run (README, D1)
#[cfg(kani)]
#[kani::proof]
#[kani::unwind(8)]
fn unregistered_witness_rle16_d1() {
    let bytes: [u8; 2] = [0x03, 0x01];
    rle16_check(2, 2, &bytes, false, false, false);
}

/// expected to FAIL: foreground run crossing the end of the first scanline, literal reading (README, D2)
#[cfg(kani)]
#[kani::proof]
#[kani::unwind(8)]
fn unregistered_witness_rle16_d2() {
    let bytes: [u8; 1] = [0x23];
    rle16_check(2, 2, &bytes, true, false, false);
}

#[cfg(kani)]
#[kani::proof]
#[kani::unwind(6)]
fn unregistered_planar_vs_ref_2x2() {
    planar_case::<33>(2, 2);
}

// native sanity tests of the references and of the disagreements (used when the file is
// attached under cfg(test) to a scratch copy of the crate)
#[cfg(test)]
mod native {
    use super::*;

    fn real16(data: &[u8], w: usize, h: usize) -> Option<Vec<u16>> {
        let mut out = vec![0u16; w * h * 2];
        match super::super::rle_16_decompress(data, w, h, &mut out) {
            Ok(()) => { out.truncate(w * h); Some(out) }
            Err(_) => None,
        }
    }
    fn lit16(data: &[u8], w: usize, h: usize) -> Option<Vec<u16>> {
        let mut wire = vec![0u16; w * h];
        let mut out = vec![0u16; w * h];
        ref_rle16_decode_into(data, w, h, true, &mut wire[..], &mut out[..])?;
        Some(out)
    }
    fn real32(data: &[u8], w: usize, h: usize) -> Option<Vec<u8>> {
        let mut out = vec![0u8; w * h * 4];
        match super::super::rle_32_decompress(data, w as u32, h as u32, &mut out) {
            Ok(()) => Some(out),
            Err(_) => None,
        }
    }

    #[test]
    fn disagreements() {
        // D1: BG_RUN(3) BG_RUN(1) on 2x2
        println!("D1 real {:x?} ref {:x?} literal {:x?}", real16(&[0x03, 0x01], 2, 2), ref_rle16_decode(&[0x03, 0x01], 2, 2), lit16(&[0x03, 0x01], 2, 2));
        // D2: FG_RUN(3) on 2x2
        println!("D2 real {:x?} ref {:x?} literal {:x?}", real16(&[0x23], 2, 2), ref_rle16_decode(&[0x23], 2, 2), lit16(&[0x23], 2, 2));
        // A1: 0xF5 with zero length
        println!("A1 real {:x?} ref {:x?}", real16(&[0xF5, 0, 0], 2, 2), ref_rle16_decode(&[0xF5, 0, 0], 2, 2));
        // A2: BG_RUN(1), MEGA_MEGA_BG_RUN(0), BG_RUN(1): the pending insertion survives the empty run
        println!("A2 real {:x?} ref {:x?}", real16(&[0x01, 0xF0, 0, 0, 0x01], 2, 2), ref_rle16_decode(&[0x01, 0xF0, 0, 0, 0x01], 2, 2));
    }

    /// exhaustive/random differential test, far beyond the Kani bounds
    #[test]
    fn differential() {
        let mut seed: u64 = 0x9E3779B97F4A7C15;
        let mut next = move || { seed ^= seed << 13; seed ^= seed >> 7; seed ^= seed << 17; seed };
        let mut agree = 0u64; let mut both_reject = 0u64; let mut only_real = 0u64; let mut exempt = 0u64;
        for _ in 0..3_000_000u32 {
            let w = (next() % 4 + 1) as usize;
            let h = (next() % 3 + 1) as usize;
            let n = (next() % 9) as usize;
            let mut d = vec![0u8; n];
            for b in d.iter_mut() {
                let r = next();
                // bias towards small run lengths and valid orders
                *b = if r & 0x300 == 0 { (r & 0xff) as u8 } else { ((r >> 16) as u8 & 0xE7) | 0x01 & (r >> 24) as u8 | ((r >> 32) as u8 & 0x03) };
            }
            let mut wire = vec![0u16; w * h];
            let mut out = vec![0u16; w * h];
            let r = ref_rle16_decode_into(&d, w, h, false, &mut wire[..], &mut out[..]);
            let real = real16(&d, w, h);
            match (r, real) {
                (Some(info), Some(px)) => {
                    if info.bg_after_straddling_bg { exempt += 1; }
                    else { assert!(px == out, "rle16 mismatch {:x?} {}x{}: real {:x?} ref {:x?}", d, w, h, px, out); agree += 1; }
                }
                (Some(info), None) => { assert!(info.bg_after_straddling_bg, "rle16: real rejects {:x?} {}x{}", d, w, h); exempt += 1; }
                (None, Some(_)) => only_real += 1,
                (None, None) => both_reject += 1,
            }
        }
        println!("rle16: agree {} both_reject {} only_real_accepts {} exempt {}", agree, both_reject, only_real, exempt);

        let mut agree = 0u64; let mut both_reject = 0u64; let mut only_real = 0u64;
        for _ in 0..3_000_000u32 {
            let w = (next() % 4 + 1) as usize;
            let h = (next() % 3 + 1) as usize;
            // build a structurally plausible stream: random segments, sometimes corrupted
            let mut d = vec![0x10u8];
            for _plane in 0..4 { for _row in 0..h {
                let mut filled = 0;
                while filled < w {
                    let left = w - filled;
                    let raw = (next() as usize % (left + 1)).min(15);
                    let mut run = 0usize;
                    if left - raw >= 3 && next() & 1 == 0 { run = 3 + next() as usize % (left - raw - 2); if run > 15 { run = 15; } }
                    if raw == 0 && run == 0 { if next() & 7 == 0 { d.push(0); } continue; }
                    d.push(((raw as u8) << 4) | run as u8);
                    for _ in 0..raw { d.push(next() as u8); }
                    filled += raw + run;
                }
            } }
            if next() & 7 == 0 && d.len() > 1 { let i = next() as usize % d.len(); d[i] = next() as u8; }
            if next() & 15 == 0 { let l = next() as usize % d.len(); d.truncate(l); }
            let r = ref_planar_decode(&d, w, h);
            let real = real32(&d, w, h);
            match (r, real) {
                (Some(a), Some(b)) => { assert!(a == b, "planar mismatch {:x?} {}x{}", d, w, h); agree += 1; }
                (Some(_), None) => panic!("planar: real rejects {:x?} {}x{}", d, w, h),
                (None, Some(_)) => only_real += 1,
                (None, None) => both_reject += 1,
            }
        }
        println!("planar: agree {} both_reject {} only_real_accepts {}", agree, both_reject, only_real);
    }
}
