//! Kani side of property C09 ("decompressed bitmaps are pixel-exact").
//!
//! This file is attached by /verif/vx/kani.py as a CHILD module of a scratch copy of
//! src/codec/rle.rs, so `super::` reaches the real (private) functions of the crate.
//!
//! It contains
//!   * two REFERENCE decoders transcribed from the protocol documents, not from the code:
//!       - `ref_planar_decode`  : RDP 6.0 planar codec, MS-RDPEGDI 2.2.2.5.1 / 3.1.9.2
//!       - `ref_rle16_decode`   : Interleaved RLE at 16 bpp, MS-RDPBCGR 2.2.9.1.1.3.1.2.4 / 3.1.9
//!   * Kani harnesses comparing the real decoders with the references on every input
//!     inside a stated bound, and a complete harness for the 5-6-5 colour widening.
//!
//! The references are deliberately naive: two-phase (decode the coded values, then undo
//! the delta / the bottom-up order), position-based ("pixel above" = the pixel `width`
//! positions earlier in decode order), no shared state machine with the code under test.

#![allow(dead_code)]

use std::vec::Vec;

// =====================================================================================
// Reference 1: RDP 6.0 planar codec (format header 0x10: RLE, alpha plane, no subsampling)
// =====================================================================================

/// MS-RDPEGDI 3.1.9.2.1: a delta is stored with its sign in the least significant bit.
/// Returned as the two's complement byte, to be added modulo 256.
fn ref_planar_delta(d: u8) -> u8 {
    if d & 1 != 0 {
        // -( (d >> 1) + 1 )
        0u8.wrapping_sub((d >> 1) + 1)
    } else {
        d >> 1
    }
}

/// Decode the RDP6_RLE_SEGMENTs of ONE scanline into `line[base .. base + width]`: the
/// coded values (absolute values for the first scanline, coded deltas for the others).
fn ref_planar_scanline(data: &[u8], pos: &mut usize, line: &mut [u8], base: usize, width: usize) -> Option<()> {
    let mut filled = 0usize;
    // "a run at the start of a scanline repeats the value zero"
    let mut last = 0u8;
    while filled < width {
        if *pos >= data.len() {
            return None; // truncated
        }
        let ctrl = data[*pos];
        *pos += 1;
        let mut run = (ctrl & 0x0f) as usize; // nRunLength
        let mut raw = ((ctrl >> 4) & 0x0f) as usize; // cRawBytes
        if run == 1 {
            run = raw + 16;
            raw = 0;
        } else if run == 2 {
            run = raw + 32;
            raw = 0;
        }
        // a segment never crosses the end of the scanline
        if raw + run > width - filled {
            return None;
        }
        while raw > 0 {
            if *pos >= data.len() {
                return None; // truncated
            }
            last = data[*pos];
            *pos += 1;
            line[base + filled] = last;
            filled += 1;
            raw -= 1;
        }
        while run > 0 {
            line[base + filled] = last;
            filled += 1;
            run -= 1;
        }
    }
    Some(())
}

/// Decode one colour plane into `plane[0 .. width*height]`: `height` scanlines in wire order
/// (scanline 0 = bottom row of the image), as absolute values.
fn ref_planar_plane(data: &[u8], pos: &mut usize, plane: &mut [u8], width: usize, height: usize) -> Option<()> {
    // 1. undo the run-length stage
    let mut k = 0usize;
    while k < height {
        ref_planar_scanline(data, pos, plane, k * width, width)?;
        k += 1;
    }
    // 2. undo the delta stage: every scanline after the first holds coded deltas against
    //    the scanline decoded just before it
    let mut k = 1usize;
    while k < height {
        let mut i = 0usize;
        while i < width {
            plane[k * width + i] = plane[(k - 1) * width + i].wrapping_add(ref_planar_delta(plane[k * width + i]));
            i += 1;
        }
        k += 1;
    }
    Some(())
}

/// The reference decoder proper, on caller-provided buffers:
/// `planes.len() >= 4*width*height` (scratch), `out.len() >= 4*width*height`.
fn ref_planar_decode_into(data: &[u8], width: usize, height: usize, planes: &mut [u8], out: &mut [u8]) -> Option<()> {
    if data.len() < 1 || data[0] != 0x10 {
        return None;
    }
    let size = width * height;
    let mut pos = 1usize;
    // wire order of the planes: alpha, red, green, blue
    let mut c = 0usize;
    while c < 4 {
        ref_planar_plane(data, &mut pos, &mut planes[c * size..], width, height)?;
        c += 1;
    }
    let mut row = 0usize;
    while row < height {
        let k = height - 1 - row; // wire scanline holding this top-down row
        let mut i = 0usize;
        while i < width {
            let p = (row * width + i) * 4;
            out[p] = planes[3 * size + k * width + i]; // blue
            out[p + 1] = planes[2 * size + k * width + i]; // green
            out[p + 2] = planes[size + k * width + i]; // red
            out[p + 3] = planes[k * width + i]; // alpha
            i += 1;
        }
        row += 1;
    }
    Some(())
}

/// Reference decoder for the planar codec as used by the crate. Output: width*height*4
/// bytes, rows top-down, pixel layout B, G, R, A. None = malformed.
pub fn ref_planar_decode(data: &[u8], width: usize, height: usize) -> Option<Vec<u8>> {
    let mut planes = vec![0u8; width * height * 4];
    let mut out = vec![0u8; width * height * 4];
    ref_planar_decode_into(data, width, height, &mut planes[..], &mut out[..])?;
    Some(out)
}

// =====================================================================================
// Reference 2: Interleaved RLE, 16 bpp (MS-RDPBCGR 3.1.9 RleDecompress)
// =====================================================================================

#[derive(Clone, Copy, PartialEq, Eq)]
enum RefOrder {
    BgRun,
    FgRun,
    FgBgImage,
    ColorRun,
    ColorImage,
    SetFgFgRun,
    SetFgFgBgImage,
    DitheredRun,
    SpecialFgBg1,
    SpecialFgBg2,
    White,
    Black,
}

fn ref_u8(data: &[u8], pos: &mut usize) -> Option<u8> {
    if *pos >= data.len() {
        return None; // truncated
    }
    let b = data[*pos];
    *pos += 1;
    Some(b)
}

fn ref_u16(data: &[u8], pos: &mut usize) -> Option<u16> {
    let lo = ref_u8(data, pos)? as u16;
    let hi = ref_u8(data, pos)? as u16;
    Some(lo | (hi << 8))
}

/// ExtractCodeId + ExtractRunLength of the specification.
fn ref_rle16_header(data: &[u8], pos: &mut usize) -> Option<(RefOrder, usize)> {
    let hdr = ref_u8(data, pos)?;
    if hdr & 0xC0 != 0xC0 {
        // regular order: 3-bit code, 5-bit length
        let order = match hdr >> 5 {
            0 => RefOrder::BgRun,
            1 => RefOrder::FgRun,
            2 => RefOrder::FgBgImage,
            3 => RefOrder::ColorRun,
            4 => RefOrder::ColorImage,
            _ => return None,
        };
        let n = (hdr & 0x1f) as usize;
        let run = if order == RefOrder::FgBgImage {
            if n == 0 { ref_u8(data, pos)? as usize + 1 } else { n * 8 }
        } else {
            if n == 0 { ref_u8(data, pos)? as usize + 32 } else { n }
        };
        Some((order, run))
    } else if hdr & 0xF0 != 0xF0 {
        // lite order: 4-bit code, 4-bit length
        let order = match hdr >> 4 {
            0xC => RefOrder::SetFgFgRun,
            0xD => RefOrder::SetFgFgBgImage,
            _ => RefOrder::DitheredRun, // 0xE
        };
        let n = (hdr & 0x0f) as usize;
        let run = if order == RefOrder::SetFgFgBgImage {
            if n == 0 { ref_u8(data, pos)? as usize + 1 } else { n * 8 }
        } else {
            if n == 0 { ref_u8(data, pos)? as usize + 16 } else { n }
        };
        Some((order, run))
    } else {
        match hdr {
            0xF9 => Some((RefOrder::SpecialFgBg1, 8)),
            0xFA => Some((RefOrder::SpecialFgBg2, 8)),
            0xFD => Some((RefOrder::White, 1)),
            0xFE => Some((RefOrder::Black, 1)),
            0xF0..=0xF4 | 0xF6..=0xF8 => {
                let order = match hdr {
                    0xF0 => RefOrder::BgRun,
                    0xF1 => RefOrder::FgRun,
                    0xF2 => RefOrder::FgBgImage,
                    0xF3 => RefOrder::ColorRun,
                    0xF4 => RefOrder::ColorImage,
                    0xF6 => RefOrder::SetFgFgRun,
                    0xF7 => RefOrder::SetFgFgBgImage,
                    _ => RefOrder::DitheredRun, // 0xF8
                };
                let run = ref_u16(data, pos)? as usize;
                Some((order, run))
            }
            _ => None, // 0xF5, 0xFB, 0xFC, 0xFF are not orders
        }
    }
}

/// The destination in decode (wire) order: px[0] is the first pixel decoded.
struct RefCanvas<'a> {
    px: &'a mut [u16],
    /// width * height
    total: usize,
    /// pixels written so far
    n: usize,
    width: usize,
    /// literal pseudo-code reading: "first line" is a flag tested once per order
    literal: bool,
    first_line: bool,
}

impl<'a> RefCanvas<'a> {
    /// the pixel on the previous scanline, black when there is none
    fn above(&self) -> u16 {
        if self.literal {
            if self.first_line { 0 } else { self.px[self.n - self.width] }
        } else {
            if self.n < self.width { 0 } else { self.px[self.n - self.width] }
        }
    }
    fn put(&mut self, p: u16) -> Option<()> {
        if self.n >= self.total {
            return None; // more than width*height pixels
        }
        self.px[self.n] = p;
        self.n += 1;
        Some(())
    }
    /// WriteFgBgImage / WriteFirstLineFgBgImage: `bits` pixels, least significant bit first
    fn fgbg(&mut self, mask: u8, fg: u16, bits: usize) -> Option<()> {
        let mut b = 0usize;
        while b < bits {
            let a = self.above();
            if (mask >> b) & 1 != 0 {
                self.put(a ^ fg)?;
            } else {
                self.put(a)?;
            }
            b += 1;
        }
        Some(())
    }
}

#[derive(Clone, Copy)]
pub struct RefRle16Info {
    /// number of pixels written by the stream
    pub decoded: usize,
    /// some order began on the first scanline and wrote past its end
    pub straddled: bool,
    /// a background run directly followed a background run that straddled the end of
    /// the first scanline (the one place where the two readings of the insert rule split)
    pub bg_after_straddling_bg: bool,
}

/// The reference decoder proper, on caller-provided buffers: `wire` (scratch, decode order)
/// and `out` (result, rows top-down) hold at least width*height pixels and are zero-filled.
///
/// `literal == false`: position-based reading (a pixel is "on the first line" iff it is one
/// of the first `width` pixels decoded). `literal == true`: the pseudo-code verbatim, the
/// first-line flag is re-evaluated only between orders.
pub fn ref_rle16_decode_into(data: &[u8], width: usize, height: usize, literal: bool, wire: &mut [u16], out: &mut [u16]) -> Option<RefRle16Info> {
    let total = width * height;
    let mut c = RefCanvas { px: wire, total: total, n: 0, width: width, literal: literal, first_line: true };
    let mut pos = 0usize;
    let mut fg: u16 = 0xFFFF;
    let mut insert_fg = false;
    let mut straddled = false;
    let mut bg_after_straddling_bg = false;

    while pos < data.len() {
        // "Watch out for the end of the first scanline."
        let mut left_first_line_inside_a_bg_run = false;
        if c.first_line && c.n >= width {
            left_first_line_inside_a_bg_run = insert_fg && c.n > width;
            c.first_line = false;
            insert_fg = false;
        }
        let start = c.n;
        let (order, run) = ref_rle16_header(data, &mut pos)?;
        let mut run = run;
        match order {
            RefOrder::BgRun => {
                if left_first_line_inside_a_bg_run {
                    bg_after_straddling_bg = true;
                }
                if insert_fg {
                    if run == 0 {
                        return None; // the inserted pel is counted in the run
                    }
                    let a = c.above();
                    c.put(a ^ fg)?;
                    run -= 1;
                }
                while run > 0 {
                    let a = c.above();
                    c.put(a)?;
                    run -= 1;
                }
            }
            RefOrder::FgRun | RefOrder::SetFgFgRun => {
                if order == RefOrder::SetFgFgRun {
                    fg = ref_u16(data, &mut pos)?;
                }
                while run > 0 {
                    let a = c.above();
                    c.put(a ^ fg)?;
                    run -= 1;
                }
            }
            RefOrder::DitheredRun => {
                let a = ref_u16(data, &mut pos)?;
                let b = ref_u16(data, &mut pos)?;
                while run > 0 {
                    c.put(a)?;
                    c.put(b)?;
                    run -= 1;
                }
            }
            RefOrder::ColorRun => {
                let a = ref_u16(data, &mut pos)?;
                while run > 0 {
                    c.put(a)?;
                    run -= 1;
                }
            }
            RefOrder::FgBgImage | RefOrder::SetFgFgBgImage => {
                if order == RefOrder::SetFgFgBgImage {
                    fg = ref_u16(data, &mut pos)?;
                }
                while run > 8 {
                    let mask = ref_u8(data, &mut pos)?;
                    c.fgbg(mask, fg, 8)?;
                    run -= 8;
                }
                if run > 0 {
                    let mask = ref_u8(data, &mut pos)?;
                    c.fgbg(mask, fg, run)?;
                }
            }
            RefOrder::ColorImage => {
                while run > 0 {
                    let p = ref_u16(data, &mut pos)?;
                    c.put(p)?;
                    run -= 1;
                }
            }
            RefOrder::SpecialFgBg1 => c.fgbg(0x03, fg, 8)?,
            RefOrder::SpecialFgBg2 => c.fgbg(0x05, fg, 8)?,
            RefOrder::White => c.put(0xFFFF)?,
            RefOrder::Black => c.put(0x0000)?,
        }
        insert_fg = order == RefOrder::BgRun;
        if start < width && c.n > width {
            straddled = true;
        }
    }

    // the wire image is bottom-up
    let mut k = 0usize;
    while k < height {
        let mut i = 0usize;
        while i < width {
            out[(height - 1 - k) * width + i] = c.px[k * width + i];
            i += 1;
        }
        k += 1;
    }
    Some(RefRle16Info { decoded: c.n, straddled: straddled, bg_after_straddling_bg: bg_after_straddling_bg })
}

/// Reference decoder for Interleaved RLE at 16 bpp. Rows top-down; pixels the stream does
/// not reach stay 0 (the caller's buffer is zero-initialised). None = malformed (truncated,
/// unknown order, more than width*height pixels).
pub fn ref_rle16_decode(data: &[u8], width: usize, height: usize) -> Option<Vec<u16>> {
    let mut wire = vec![0u16; width * height];
    let mut out = vec![0u16; width * height];
    ref_rle16_decode_into(data, width, height, false, &mut wire[..], &mut out[..])?;
    Some(out)
}

// =====================================================================================
// Harnesses
// =====================================================================================

/// exact rounding of an n-bit channel to 8 bits: round(c * 255 / m), m = 2^n - 1
#[cfg(kani)]
fn widen(c: u32, m: u32) -> u8 {
    ((c * 510 + m) / (2 * m)) as u8
}

/// COMPLETE: all 65536 colours.
#[cfg(kani)]
#[kani::proof]
#[kani::unwind(3)]
fn check_rgb565_all_colours() {
    let v: u16 = kani::any();
    let out = super::rgb565torgb32(&[v], 1, 1);
    assert!(out.len() == 4);
    let r = ((v >> 11) & 0x1f) as u32;
    let g = ((v >> 5) & 0x3f) as u32;
    let b = (v & 0x1f) as u32;
    assert!(out[0] == widen(b, 31));
    assert!(out[1] == widen(g, 63));
    assert!(out[2] == widen(r, 31));
    assert!(out[3] == 0xff);
}

#[cfg(kani)]
const PLANAR_MAX_W: usize = 4;
#[cfg(kani)]
const PLANAR_MAX_H: usize = 2;

/// compare the two decoders on every stream of at most `N` bytes, for one image size
#[cfg(kani)]
fn planar_case<const N: usize>(w: usize, h: usize) {
    let bytes: [u8; N] = kani::any();
    let n: usize = kani::any();
    kani::assume(n <= N);
    let data = &bytes[..n];

    let len = w * h * 4;
    let mut out = [0u8; PLANAR_MAX_W * PLANAR_MAX_H * 4];
    let real = super::rle_32_decompress(data, w as u32, h as u32, &mut out[..len]);
    let real_ok = real.is_ok();
    // the error value owns a String / io::Error: its drop glue is expensive in CBMC and irrelevant
    std::mem::forget(real);

    let mut planes = [0u8; PLANAR_MAX_W * PLANAR_MAX_H * 4];
    let mut expected = [0u8; PLANAR_MAX_W * PLANAR_MAX_H * 4];
    let reference = ref_planar_decode_into(data, w, h, &mut planes, &mut expected);

    if reference.is_some() {
        assert!(real_ok); // every stream the reference decodes is accepted
        let mut p = 0;
        while p < len {
            assert!(out[p] == expected[p]);
            assert!(out[p + 1] == expected[p + 1]);
            assert!(out[p + 2] == expected[p + 2]);
            assert!(out[p + 3] == expected[p + 3]);
            p += 4;
        }
    }
}

#[cfg(kani)]
#[kani::proof]
#[kani::unwind(4)]
fn tune_planar_1x1() {
    planar_case::<9>(1, 1);
}
#[cfg(kani)]
#[kani::proof]
#[kani::unwind(4)]
fn tune_planar_2x1() {
    planar_case::<17>(2, 1);
}
#[cfg(kani)]
#[kani::proof]
#[kani::unwind(5)]
fn tune_planar_2x2() {
    planar_case::<33>(2, 2);
}

#[cfg(kani)]
const RLE16_MAX_DATA: usize = 7;
#[cfg(kani)]
const RLE16_MAX_W: usize = 3;
#[cfg(kani)]
const RLE16_MAX_H: usize = 2;

#[cfg(kani)]
fn rle16_compare(literal: bool, only_non_straddling: bool, exempt_bg_after_straddling_bg: bool) {
    let w: usize = kani::any();
    let h: usize = kani::any();
    kani::assume(1 <= w && w <= RLE16_MAX_W);
    kani::assume(1 <= h && h <= RLE16_MAX_H);
    let n: usize = kani::any();
    kani::assume(n <= RLE16_MAX_DATA);
    rle16_case(w, h, n, literal, only_non_straddling, exempt_bg_after_straddling_bg);
}

#[cfg(kani)]
fn rle16_case(w: usize, h: usize, n: usize, literal: bool, only_non_straddling: bool, exempt_bg_after_straddling_bg: bool) {
    let bytes: [u8; RLE16_MAX_DATA] = kani::any();
    rle16_check(w, h, &bytes[..n], literal, only_non_straddling, exempt_bg_after_straddling_bg);
}

#[cfg(kani)]
fn rle16_check(w: usize, h: usize, data: &[u8], literal: bool, only_non_straddling: bool, exempt_bg_after_straddling_bg: bool) {

    // the caller (BitmapEvent::decompress) passes width*height*2 elements, zeroed
    let mut out = [0u16; RLE16_MAX_W * RLE16_MAX_H * 2];
    let total = w * h;
    let real = super::rle_16_decompress(data, w, h, &mut out[..total * 2]);
    let real_ok = real.is_ok();
    // the error value owns a String / io::Error: its drop glue is expensive in CBMC and irrelevant
    std::mem::forget(real);

    let mut wire = [0u16; RLE16_MAX_W * RLE16_MAX_H];
    let mut expected = [0u16; RLE16_MAX_W * RLE16_MAX_H];
    let reference = ref_rle16_decode_into(data, w, h, literal, &mut wire, &mut expected);

    if let Some(info) = reference {
        if only_non_straddling && info.straddled {
            return;
        }
        if exempt_bg_after_straddling_bg && info.bg_after_straddling_bg {
            return;
        }
        assert!(real_ok);
        let mut i = 0;
        while i < total {
            assert!(out[i] == expected[i]);
            // nothing is written behind the image
            assert!(out[total + i] == 0);
            i += 1;
        }
    }
}

/// BOUNDED: position-based reading of "first line", every stream in the bound except the
/// one ambiguous situation (background run after a background run that crossed the end of
/// the first scanline), see README.
#[cfg(kani)]
#[kani::proof]
#[kani::unwind(8)]
fn check_rle16_vs_ref() {
    rle16_compare(false, false, true);
}

/// BOUNDED: the pseudo-code of MS-RDPBCGR 3.1.9 verbatim, on the streams where no order
/// crosses the end of the first scanline.
#[cfg(kani)]
#[kani::proof]
#[kani::unwind(8)]
fn check_rle16_vs_literal_spec_non_straddling() {
    rle16_compare(true, true, false);
}

/// NOT REGISTERED, expected to FAIL: exhibits the disagreement on the insert-foreground-pel
/// rule after a straddling background run.
#[cfg(kani)]
#[kani::proof]
#[kani::unwind(8)]
fn witness_rle16_bg_after_straddling_bg() {
    rle16_compare(false, false, false);
}

/// NOT REGISTERED, expected to FAIL: exhibits the disagreement between the code and the
/// literal pseudo-code on orders that cross the end of the first scanline.
#[cfg(kani)]
#[kani::proof]
#[kani::unwind(8)]
fn witness_rle16_literal_spec_straddling() {
    rle16_compare(true, false, false);
}

#[cfg(kani)]
#[kani::proof]
fn micro_rdperror() {
    let e = super::RdpError::new(super::RdpErrorKind::InvalidData, "Run out of scanline");
    std::mem::forget(e);
}

#[cfg(kani)]
#[kani::proof]
#[kani::unwind(4)]
fn tune_real_1x1() {
    let bytes: [u8; 9] = kani::any();
    let mut out = [0u8; 4];
    let real = super::rle_32_decompress(&bytes, 1, 1, &mut out);
    let ok = real.is_ok();
    std::mem::forget(real);
    if ok { assert!(out[3] == bytes[2] || bytes[1] != 0x10); }
}
#[cfg(kani)]
#[kani::proof]
#[kani::unwind(4)]
fn tune_plane_1x1() {
    let bytes: [u8; 3] = kani::any();
    let mut out = [0u8; 4];
    let mut c = std::io::Cursor::new(&bytes[..]);
    let real = super::process_plane(&mut c, 1, 1, &mut out);
    let ok = real.is_ok();
    std::mem::forget(real);
    if ok { assert!(out[0] == bytes[1] || bytes[0] != 0x10); }
}

#[cfg(kani)]
#[kani::proof]
#[kani::unwind(8)]
fn tune_rle16_c325() {
    rle16_case(3, 2, 5, false, false, true);
}
#[cfg(kani)]
#[kani::proof]
#[kani::unwind(8)]
fn tune_rle16_concrete_wh() {
    let n: usize = kani::any();
    kani::assume(n <= RLE16_MAX_DATA);
    rle16_case(3, 2, n, false, false, true);
}
#[cfg(kani)]
#[kani::proof]
#[kani::unwind(8)]
fn tune_rle16_concrete_input() {
    let bytes: [u8; 5] = [0x03, 0xFD, 0x61, 0xFE, 0xFE];
    let mut out = [0u16; 12];
    let real = super::rle_16_decompress(&bytes, 3, 2, &mut out);
    let ok = real.is_ok();
    std::mem::forget(real);
    assert!(ok);
}
#[cfg(kani)]
#[kani::proof]
#[kani::unwind(8)]
fn tune_rle16_one_symbolic() {
    let b: u8 = kani::any();
    let bytes: [u8; 1] = [b];
    let mut out = [0u16; 12];
    let real = super::rle_16_decompress(&bytes, 3, 2, &mut out);
    let ok = real.is_ok();
    std::mem::forget(real);
    if b == 0xFD { assert!(ok); }
}
#[cfg(kani)]
#[kani::proof]
#[kani::unwind(8)]
fn tune_rle16_w2h2n7() {
    rle16_case(2, 2, 7, false, false, true);
}

#[cfg(kani)]
#[kani::proof]
#[kani::unwind(8)]
fn tune_rle16_len2() {
    let bytes: [u8; 2] = kani::any();
    rle16_check(3, 2, &bytes, false, false, true);
}
#[cfg(kani)]
#[kani::proof]
#[kani::unwind(8)]
fn tune_rle16_len3() {
    let bytes: [u8; 3] = kani::any();
    rle16_check(3, 2, &bytes, false, false, true);
}
