use vstd::prelude::*;

macro_rules! trame {
    () => { Trame::new() };
    ($( $val: expr ),*) => {{
         let mut vec = Trame::new();
         $( vec.push(Box::new($val)); )*
         vec
    }}
}

verus! {

// ---------------- prelude (assumed) ----------------
#[derive(Copy, Clone, PartialEq, Eq)]
pub enum RdpErrorKind { InvalidSize, InvalidData }
pub struct RdpError { pub kind: RdpErrorKind }
impl RdpError { pub fn new(kind: RdpErrorKind, _message: &str) -> (r: Self) ensures r.kind == kind { RdpError { kind } } }
pub enum Error { RdpError(RdpError), Io }
pub type RdpResult<T> = Result<T, Error>;

pub trait Read {
    spec fn rest(&self) -> Seq<u8>;
}

/// Cursor over an owned buffer
pub struct Cursor { pub data: Vec<u8>, pub pos: usize }
impl Cursor {
    pub fn new(data: Vec<u8>) -> (r: Self) ensures r.data@ == data@, r.pos == 0 { Cursor { data, pos: 0 } }
    pub open spec fn left(&self) -> Seq<u8> { if self.pos <= self.data.len() { self.data@.subrange(self.pos as int, self.data.len() as int) } else { Seq::empty() } }
}

pub trait Message {
    fn read(&mut self, reader: &mut Cursor) -> (r: RdpResult<()>);
}
impl Message for u8 {
    #[verifier::external_body]
    fn read(&mut self, reader: &mut Cursor) -> (r: RdpResult<()>)
        ensures
            old(reader).left().len() >= 1 ==> r.is_ok() && *final(self) == old(reader).left()[0] && final(reader).left() == old(reader).left().subrange(1, old(reader).left().len() as int),
            old(reader).left().len() < 1 ==> r.is_err(),
    { unimplemented!() }
}
#[derive(Copy, Clone)]
pub enum U16 { BE(u16), LE(u16) }
impl U16 {
    pub fn inner(&self) -> (r: u16) ensures r == (match *self { U16::BE(e) => e, U16::LE(e) => e }) { match self { U16::BE(e) | U16::LE(e) => *e } }
}
pub open spec fn be16(s: Seq<u8>) -> u16 { ((s[0] as u16) << 8 | s[1] as u16) }
impl Message for U16 {
    #[verifier::external_body]
    fn read(&mut self, reader: &mut Cursor) -> (r: RdpResult<()>)
        ensures
            old(reader).left().len() >= 2 && (*old(self)) is BE ==> r.is_ok() && *final(self) == U16::BE(be16(old(reader).left())),
            old(reader).left().len() < 2 ==> r.is_err(),
    { unimplemented!() }
}

/// Link layer: abstract byte stream
pub struct Link<S> { pub stream: S, pub rest: Ghost<Seq<u8>> }
impl<S> Link<S> {
    /// assumed contract of Link::read for expected_size > 0 (read_exact): exactly the next n bytes
    #[verifier::external_body]
    pub fn read(&mut self, expected_size: usize) -> (r: RdpResult<Vec<u8>>)
        requires expected_size > 0,   // size 0 means "whatever is available": forbidden for framing
        ensures
            r.is_ok() ==> old(self).rest@.len() >= expected_size
                && r->Ok_0@ == old(self).rest@.subrange(0, expected_size as int)
                && final(self).rest@ == old(self).rest@.subrange(expected_size as int, old(self).rest@.len() as int),
    { unimplemented!() }
}

pub enum Payload {
    Raw(Cursor),
    FastPath(u8, Cursor)
}
#[derive(Copy, Clone)]
pub enum Action {
    FastPathActionFastPath = 0x0,
    FastPathActionX224 = 0x3
}
pub struct Client<S> { pub transport: Link<S> }

// ---------------- extracted verbatim from src/core/tpkt.rs ----------------
impl<S> Client<S> {
    pub fn read(&mut self) -> (result: RdpResult<Payload>)
        ensures
            result.is_ok() && old(self).transport.rest@.len() >= 4 && old(self).transport.rest@[0] == 3 ==> ({
                let b = old(self).transport.rest@;
                let size = be16(b.subrange(2, 4)) as int;
                &&& size >= 4
                &&& result->Ok_0 is Raw
                &&& final(self).transport.rest@ == b.subrange(size, b.len() as int)
            }),
    {
        let mut buffer = Cursor::new(self.transport.read(2)?);
        let mut action: u8 = 0;
        action.read(&mut buffer)?;
        if action == Action::FastPathActionX224 as u8 {

            // read padding
            let mut padding: u8 = 0;
            padding.read(&mut buffer)?;
            // now wait extended header
            buffer = Cursor::new(self.transport.read(2)?);

            let mut size = U16::BE(0);
            size.read(&mut buffer)?;

            // Minimal size must be 7
            // https://docs.microsoft.com/en-us/openspecs/windows_protocols/ms-rdpbcgr/18a27ef9-6f9a-4501-b000-94b1fe3c2c10
            if size.inner() < 4 {
                Err(Error::RdpError(RdpError::new(RdpErrorKind::InvalidSize, "Invalid minimal size for TPKT")))
            }
            else {
                // now wait for body
                Ok(Payload::Raw(Cursor::new(self.transport.read(size.inner() as usize - 4)?)))
            }
        } else {
            // fast path
            let sec_flag = (action >> 6) & 0x3;
            let mut short_length: u8 = 0;
            short_length.read(&mut buffer)?;
            if short_length & 0x80 != 0 {
                let mut hi_length: u8 = 0;
                hi_length.read(&mut Cursor::new(self.transport.read(1)?))?;
                let length: u16 = ((short_length & !0x80) as u16) << 8;
                let length = length | hi_length as u16;
                if length < 3 {
                    Err(Error::RdpError(RdpError::new(RdpErrorKind::InvalidSize, "Invalid minimal size for TPKT")))
                } else {
                    Ok(Payload::FastPath(sec_flag, Cursor::new(self.transport.read(length as usize - 3)?)))
                }
            }
            else {
                if short_length < 2 {
                    Err(Error::RdpError(RdpError::new(RdpErrorKind::InvalidSize, "Invalid minimal size for TPKT")))
                } else {
                    Ok(Payload::FastPath(sec_flag, Cursor::new(self.transport.read(short_length as usize - 2)?)))
                }
            }
         }
    }
}

} // verus!
fn main() {}
