use vstd::prelude::*;
verus! {

pub enum Error { Io, Rdp(u8) }
pub type RdpResult<T> = Result<T, Error>;

pub trait ByteRead {
    spec fn remaining(&self) -> nat;
    fn read_u8(&mut self) -> (r: Result<u8, Error>)
        ensures r.is_ok() ==> final(self).remaining() + 1 == old(self).remaining(),
                r.is_err() ==> final(self).remaining() == old(self).remaining();
}

#[verifier::exec_allows_no_decreases_clause]
fn process_plane(input: &mut dyn ByteRead, width: u32, height: u32, output: &mut [u8]) -> RdpResult<()> {
    let mut indexw;
	let mut indexh= 0;
	let mut code ;
	let mut collen;
	let mut replen;
	let mut color:i8;
	let mut x;
	let mut revcode;

    let mut this_line: u32;
    let mut last_line: u32 = 0;

	while indexh < height {
		let mut out = (width * height * 4) - ((indexh + 1) * width * 4);
		color = 0;
		this_line = out;
		indexw = 0;
		if last_line == 0 {
			while indexw < width {
				code = input.read_u8()?;
				replen = code & 0xf;
				collen = (code >> 4) & 0xf;
				revcode = (replen << 4) | collen;
				if (revcode <= 47) && (revcode >= 16) {
					replen = revcode;
					collen = 0;
				}
				while collen > 0 {
					color = input.read_u8()? as i8;
					output[out as usize] = color as u8;
					out += 4;
					indexw += 1;
					collen -= 1;
				}
				while replen > 0 {
					output[out as usize] = color as u8;
					out += 4;
					indexw += 1;
					replen -= 1;
				}
			}
		}
		else
		{
			while indexw < width {
				code = input.read_u8()?;
				replen = code & 0xf;
				collen = (code >> 4) & 0xf;
				revcode = (replen << 4) | collen;
				if (revcode <= 47) && (revcode >= 16) {
					replen = revcode;
					collen = 0;
				}
				while collen > 0 {
					x = input.read_u8()?;
					if x & 1 != 0{
						x = x >> 1;
						x = x + 1;
						color = -(x as i32) as i8;
					}
					else
					{
						x = x >> 1;
						color = x as i8;
					}
					x = (output[(last_line + (indexw * 4)) as usize] as i32 + color as i32) as u8;
					output[out as usize] = x;
					out += 4;
					indexw += 1;
					collen -= 1;
				}
				while replen > 0 {
					x = (output[(last_line + (indexw * 4)) as usize] as i32 + color as i32) as u8;
					output[out as usize] = x;
					out += 4;
					indexw += 1;
					replen -= 1;
				}
			}
		}
		indexh += 1;
		last_line = this_line;
	}
    Ok(())
}

} // verus!
fn main() {}
