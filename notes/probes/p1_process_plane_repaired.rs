use vstd::prelude::*;
verus! {

pub enum Error { Io, Rdp(u8) }
pub type RdpResult<T> = Result<T, Error>;

pub trait Read {
    spec fn rest(&self) -> Seq<u8>;
    fn read_u8(&mut self) -> (r: Result<u8, Error>)
        ensures r.is_ok() ==> final(self).rest().len() + 1 == old(self).rest().len(),
                r.is_err() ==> final(self).rest() == old(self).rest();
}

// first-scanline half of process_plane, with the candidate repair (run must fit the line)
fn process_plane(input: &mut impl Read, width: u32, height: u32, output: &mut [u8]) -> (r: RdpResult<()>)
    requires width <= 65535, height <= 65535, old(output).len() + 3 >= width * height * 4, old(output).len() <= u32::MAX
    ensures final(output).len() == old(output).len()
{
    let mut indexw: u32;
	let mut indexh: u32 = 0;
	let mut code: u8;
	let mut collen: u8;
	let mut replen: u8;
	let mut color:i8;
	let mut revcode: u8;

    let mut this_line: u32;
    let mut last_line: u32 = 0;

    assert(width * height * 4 <= 65535 * 65535 * 4) by (nonlinear_arith) requires width <= 65535, height <= 65535;

	while indexh < height
        invariant indexh <= height, width <= 65535, height <= 65535, output.len() == old(output).len(),
            old(output).len() + 3 >= width * height * 4,
        decreases height - indexh
    {
        assert((indexh + 1) * width * 4 <= width * height * 4) by (nonlinear_arith) requires indexh < height;
        assert(width * height * 4 <= 65535 * 65535 * 4) by (nonlinear_arith) requires width <= 65535, height <= 65535;
		let mut out = (width * height * 4) - ((indexh + 1) * width * 4);
		color = 0;
		this_line = out;
		indexw = 0;
		{
			while indexw < width
                invariant indexw <= width, out == this_line + indexw * 4, this_line + width * 4 <= width * height * 4,
                    width <= 65535, height <= 65535, output.len() == old(output).len(), old(output).len() + 3 >= width * height * 4,
                    width * height * 4 <= 65535 * 65535 * 4,
                decreases width - indexw
            {
				code = input.read_u8()?;
				replen = code & 0xf;
				collen = (code >> 4) & 0xf;
                assert(replen <= 15 && collen <= 15) by (bit_vector) requires replen == code & 0xf, collen == (code >> 4) & 0xf;
				revcode = (replen << 4) | collen;
				if (revcode <= 47) && (revcode >= 16) {
					replen = revcode;
					collen = 0;
				}
                // candidate repair: refuse runs that leave the scanline
                if indexw + collen as u32 + replen as u32 > width {
                    return Err(Error::Rdp(0));
                }
				while collen > 0
                    invariant indexw + collen + replen <= width, out == this_line + indexw * 4, this_line + width * 4 <= width * height * 4,
                        output.len() == old(output).len(), old(output).len() + 3 >= width * height * 4, width * height * 4 <= 65535 * 65535 * 4,
                    decreases collen
                {
					color = input.read_u8()? as i8;
					output[out as usize] = color as u8;
					out += 4;
					indexw += 1;
					collen -= 1;
				}
				while replen > 0
                    invariant collen == 0, indexw + replen <= width, out == this_line + indexw * 4, this_line + width * 4 <= width * height * 4,
                        output.len() == old(output).len(), old(output).len() + 3 >= width * height * 4, width * height * 4 <= 65535 * 65535 * 4,
                    decreases replen
                {
					output[out as usize] = color as u8;
					out += 4;
					indexw += 1;
					replen -= 1;
				}
			}
		}
		indexh += 1;
		last_line = this_line;
	}
    Ok(())
}

} // verus!
fn main() {}
