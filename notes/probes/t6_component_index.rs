use vstd::prelude::*;

macro_rules! component {
    () => { Component::new() };
    ($( $key: expr => $val: expr ),*) => {{
         let mut map = Component::new();
         $( map.insert($key.to_string(), Box::new($val)) ; )*
         map
    }}
}

verus! {

pub trait Message {
    spec fn bytes(&self) -> Seq<u8>;
    fn length(&self) -> (r: u64) ensures r == self.bytes().len();
}
impl Message for u8 {
    open spec fn bytes(&self) -> Seq<u8> { seq![*self] }
    fn length(&self) -> (r: u64) { 1 }
}

#[verifier::external_body]
pub struct Component { inner: Vec<(String, Box<dyn Message>)> }

impl Component {
    pub uninterp spec fn fields(&self) -> Seq<(Seq<char>, Seq<u8>)>;
    #[verifier::external_body]
    pub fn new() -> (r: Self) ensures r.fields() == Seq::<(Seq<char>, Seq<u8>)>::empty() { unimplemented!() }
    #[verifier::external_body]
    pub fn insert(&mut self, k: String, v: Box<dyn Message>) -> (r: Option<Box<dyn Message>>)
        ensures final(self).fields() == old(self).fields().push((k@, v.bytes()))
    { unimplemented!() }
}

impl vstd::std_specs::core::IndexSpecImpl<&str> for Component {
    open spec fn index_req(&self, index: &&str) -> bool { true }
}
impl core::ops::Index<&str> for Component {
    type Output = Box<dyn Message>;
    #[verifier::external_body]
    fn index(&self, k: &str) -> (r: &Box<dyn Message>) { unimplemented!() }
}

fn x224_crq(len: u8, code: u8) -> (c: Component)
    requires len <= 249
    ensures c.fields().len() == 2, c.fields()[0].1 == seq![(len + 6) as u8]
{
    component! [
        "len" => (len + 6) as u8,
        "code" => code as u8
    ]
}

fn use_index(c: &Component) -> u64 {
    c["len"].length()
}

} // verus!
fn main() {}
