use vstd::prelude::*;

macro_rules! trame {
    () => { Trame::new() };
    ($( $val: expr ),*) => {{
         let mut vec = Trame::new();
         $( vec.push(Box::new($val)); )*
         vec
    }}
}
macro_rules! cast {
    ($ident:path, $expr:expr) => (match $expr.visit() {
        $ident(e) => Ok(e),
        _ => Err(Error::RdpError(RdpError::new(RdpErrorKind::InvalidCast, "Invalid Cast")))
    })
}

verus! {

#[derive(Copy, Clone, PartialEq, Eq)]
pub enum RdpErrorKind { InvalidData, InvalidCast, RejectedByServer }
pub struct RdpError { pub kind: RdpErrorKind }
impl RdpError { pub fn new(kind: RdpErrorKind, _message: &str) -> (r: Self) ensures r.kind == kind { RdpError { kind } } }
pub enum Error { RdpError(RdpError), Io }
pub type RdpResult<T> = Result<T, Error>;

pub enum DataType<'a> { U8(u8), U16(u16), Slice(&'a [u8]), None }

pub trait Read {
    spec fn rest(&self) -> Seq<u8>;
}

pub trait Message {
    spec fn bytes(&self) -> Seq<u8>;
    spec fn sview(&self) -> DataType<'_>;
    fn visit(&self) -> (r: DataType<'_>) ensures r == self.sview();
    fn length(&self) -> (r: u64) ensures r == self.bytes().len();
}

impl Message for u8 {
    open spec fn bytes(&self) -> Seq<u8> { seq![*self] }
    open spec fn sview(&self) -> DataType<'_> { DataType::U8(*self) }
    fn visit(&self) -> (r: DataType<'_>) { DataType::U8(*self) }
    fn length(&self) -> (r: u64) { 1 }
}
pub type Trame = Vec<Box<dyn Message>>;

fn mcs_pdu_header(pdu: Option<u8>, options: Option<u8>) -> u8 {
    (pdu.unwrap_or(11) as u8) << 2 | options.unwrap_or(0)
}

fn probe(x: u8) -> RdpResult<u8> {
    let confirm = trame![x, 7 as u8];
    if cast!(DataType::U8, confirm[0])? >> 2 != mcs_pdu_header(Some(11), None) >> 2 {
        return Err(Error::RdpError(RdpError::new(RdpErrorKind::InvalidData, "MCS: unexpected header on recv_attach_user_confirm")));
    }
    Ok(cast!(DataType::U8, confirm[1])?)
}

} // verus!
fn main() {}
