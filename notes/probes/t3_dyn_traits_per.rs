use vstd::prelude::*;
verus! {

pub enum Error { Io, Rdp(u8) }
pub type RdpResult<T> = Result<T, Error>;

pub trait Read {
    spec fn rest(&self) -> Seq<u8>;
    fn read_u8(&mut self) -> (r: Result<u8, Error>)
        ensures
            old(self).rest().len() > 0 ==> r == Ok::<u8, Error>(old(self).rest()[0]) && final(self).rest() == old(self).rest().subrange(1, old(self).rest().len() as int),
            old(self).rest().len() == 0 ==> r.is_err() && final(self).rest() == old(self).rest();
}

pub struct Cursor { pub data: Vec<u8>, pub pos: usize }
impl Read for Cursor {
    closed spec fn rest(&self) -> Seq<u8> { if self.pos <= self.data.len() { self.data@.subrange(self.pos as int, self.data.len() as int) } else { Seq::empty() } }
    #[verifier::external_body]
    fn read_u8(&mut self) -> (r: Result<u8, Error>) { unimplemented!() }
}

pub trait Message {
    spec fn bytes(&self) -> Seq<u8>;
    fn length(&self) -> (r: u64) ensures r == self.bytes().len();
    fn read(&mut self, reader: &mut dyn Read) -> (r: RdpResult<()>);
}

impl Message for u8 {
    open spec fn bytes(&self) -> Seq<u8> { seq![*self] }
    fn length(&self) -> (r: u64) { 1 }
    fn read(&mut self, reader: &mut dyn Read) -> (r: RdpResult<()>) {
        *self = reader.read_u8()?;
        Ok(())
    }
}

pub type Trame = Vec<Box<dyn Message>>;

pub open spec fn trame_bytes(t: Seq<Box<dyn Message>>) -> Seq<u8> decreases t.len() {
    if t.len() == 0 { Seq::empty() } else { trame_bytes(t.drop_last()) + t.last().bytes() }
}

fn trame_length(t: &Trame) -> (sum: u64)
    requires trame_bytes(t@).len() <= u64::MAX
    ensures sum == trame_bytes(t@).len()
{
    let mut sum : u64 = 0;
    for v in t {
        sum += v.length();
    }
    sum
}

pub fn read_length(s: &mut dyn Read) -> RdpResult<u16> {
    let mut byte: u8 = 0;
    byte.read(s)?;
    if byte & 0x80 != 0 {
        byte = byte & !0x80;
        let mut size = (byte as u16) << 8 ;
        byte.read(s)?;
        size += byte as u16;
        Ok(size)
    }
    else {
        Ok(byte as u16)
    }
}


} // verus!
fn main() {}
