use vstd::prelude::*;
verus! {

pub enum Error { Io, Rdp(RdpErrorKind) }
#[derive(Copy, Clone, PartialEq, Eq)]
pub enum RdpErrorKind { InvalidSize, InvalidAutomata, UnexpectedType }
pub type RdpResult<T> = Result<T, Error>;

#[repr(u16)]
pub enum PointerFlag {
    PtrflagsHwheel = 0x0400,
    PtrflagsMove = 0x0800,
    PtrflagsDown = 0x8000,
    PtrflagsButton1 = 0x1000,
    PtrflagsButton2 = 0x2000,
    PtrflagsButton3 = 0x4000
}
#[derive(PartialEq, Eq, Copy, Clone)]
pub enum PointerButton { None = 0, Left = 1, Right = 2, Middle = 3 }
pub struct PointerEvent { pub x: u16, pub y: u16, pub button: PointerButton, pub down: bool }

pub enum Sent { Pointer(u16,u16,u16), Key(u16,u16) }

pub struct Link { pub trace: Ghost<Seq<Sent>>, pub tls: Ghost<bool> }
impl Link {
    #[verifier::external_body]
    fn send_pointer(&mut self, flags: u16, x: u16, y: u16) -> (r: RdpResult<()>)
        ensures r.is_ok() ==> final(self).trace@ == old(self).trace@.push(Sent::Pointer(flags, x, y)),
                r.is_err() ==> final(self).trace@ == old(self).trace@,
                final(self).tls == old(self).tls,
    { unimplemented!() }
}

pub open spec fn want_flags(b: PointerButton, down: bool) -> u16 {
    (match b { PointerButton::Left => 0x1000u16, PointerButton::Right => 0x2000u16, PointerButton::Middle => 0x4000u16, PointerButton::None => 0x0800u16 }) | (if down { 0x8000u16 } else { 0u16 })
}

fn write_pointer(link: &mut Link, pointer: PointerEvent) -> (r: RdpResult<()>)
    ensures r.is_ok() ==> final(link).trace@ == old(link).trace@.push(Sent::Pointer(want_flags(pointer.button, pointer.down), pointer.x, pointer.y)),
{
                let mut flags: u16 = 0;
                match pointer.button {
                    PointerButton::Left => flags |= PointerFlag::PtrflagsButton1 as u16,
                    PointerButton::Right => flags |= PointerFlag::PtrflagsButton2 as u16,
                    PointerButton::Middle => flags |= PointerFlag::PtrflagsButton3 as u16,
                    _ => flags |= PointerFlag::PtrflagsMove as u16,
                }

                if pointer.down {
                    flags |= PointerFlag::PtrflagsDown as u16;
                }
    link.send_pointer(flags, pointer.x, pointer.y)
}

pub trait Read { fn read_u8(&mut self) -> (r: Result<u8, Error>); }
fn generic_reader(s: &mut impl Read) -> RdpResult<u8> {
    let b = s.read_u8()?;
    Ok(b)
}
pub struct Cur { pub p: usize }
impl Read for Cur { #[verifier::external_body] fn read_u8(&mut self) -> (r: Result<u8, Error>) { unimplemented!() } }
fn caller(c: &mut Cur) -> RdpResult<u8> { generic_reader(c) }
fn caller2() -> RdpResult<u8> { let mut c = Cur { p: 0 }; generic_reader(&mut c) }

// closure-extraction shape
fn closure_total_len(total: u16) -> (r: usize) ensures r <= 65535 { total as usize - 6 }

proof fn rgb5(v: u16) by (bit_vector)
    requires v < 32
    ensures (((v * 527u16 + 23u16) as u16) >> 6u16) <= 255
{}

} // verus!
fn main() {}
