use vstd::prelude::*;
verus! {

pub struct BitmapEvent { pub left: u16, pub data: Vec<u8> }
pub enum RdpEvent { Bitmap(BitmapEvent), Other }
pub enum Error { Io }
pub type RdpResult<T> = Result<T, Error>;

fn read_fast_path<T>(items: &Vec<u16>, mut callback: T) -> RdpResult<()>
    where T: FnMut(RdpEvent)
    requires forall|e: RdpEvent| callback.requires((e,)),
{
    for i in 0..items.len() {
        callback(RdpEvent::Bitmap(BitmapEvent { left: items[i], data: Vec::new() }));
    }
    Ok(())
}

pub trait Read { fn read_u8(&mut self) -> (r: Result<u8, Error>); }
pub trait Write { fn write_u8(&mut self, b: u8) -> (r: Result<(), Error>); }
pub struct Link<S> { pub stream: S }
impl<S: Read + Write> Link<S> {
    pub fn new(stream: S) -> Self { Link { stream } }
    pub fn read1(&mut self) -> RdpResult<u8> {
        let b = self.stream.read_u8()?;
        Ok(b)
    }
}
pub struct Client<S> { transport: Link<S> }
impl<S: Read + Write> Client<S> {
    pub fn read(&mut self) -> RdpResult<u8> {
        let a = self.transport.read1()?;
        Ok(a)
    }
}

} // verus!
fn main() {}
