"""Registry of units and per-property texts (used for MANIFEST.json and the evidence files)."""
UNITS = ["frame"]

ENGINE_ASM = ("engine contract (prelude/model.rs): Component/Trame/Array/DynOption of src/model/data.rs are assumed to "
              "serialize as the in-order concatenation of their non-skipped fields and to read field by field "
              "preserving the layout; IndexMap/boxed closures are outside both installed verifiers")
IO_ASM = "std::io::Read/Write + byteorder contracts (prelude/base.rs): sized reads return exactly the next bytes, read/write may be short, write_all/read_exact complete or fail"
DUPLEX_ASM = "transport duplex axiom (prelude/base.rs axiom_duplex): reading does not change what was written and vice versa (rule R3 adds the marker bound)"

PROPERTIES = {
    "C13": dict(
        scope="tpkt::Client::read / x224::Client::read return exactly the payload of the next frame and consume exactly that frame, for every "
              "declared length, every action byte and every schedule of short reads of the transport; frames shorter than their header are rejected; "
              "Link::read / Stream::read_exact / Stream::read carry the contract down to the std Read contract",
        technique="contract-based deductive verification: Verus (z3) on function bodies extracted from /repo on every run",
        level_note="trusted: " + IO_ASM + "; " + DUPLEX_ASM + "; leaf Message impls for u8/U16 by contract (verified separately in unit engine); x224 header read through the " + ENGINE_ASM,
        assumptions=[IO_ASM, DUPLEX_ASM, ENGINE_ASM],
        design_ref="DESIGN.md §7 C13"),
    "C14": dict(
        scope="Stream::write / Link::write / tpkt::Client::write / x224::Client::write: Ok implies that exactly one frame "
              "[3,0,be16(len+4)] ++ bytes reached the stream under a Write contract that allows any short write; a payload above 65531 bytes is refused "
              "with nothing written; an error of the transport is never turned into Ok",
        technique="contract-based deductive verification: Verus (z3) on function bodies extracted from /repo on every run",
        level_note="trusted: " + IO_ASM + "; " + DUPLEX_ASM + "; serialization of the trame through the " + ENGINE_ASM,
        assumptions=[IO_ASM, DUPLEX_ASM, ENGINE_ASM],
        design_ref="DESIGN.md §7 C14"),
}

NOT_APPLICABLE = {
    "C20": "quantifies over thread schedules, TLS record packings and select(2) readiness: neither Verus nor Kani has a semantics for std::sync / libc::select / native-tls buffering; liveness of the receive thread is not a contract over one call (DESIGN.md §8)",
}

# what a property's statement mentions but no contract reaches
UNVERIFIED = {}
