"""Registry of units and per-property texts (used for MANIFEST.json and the evidence files)."""
UNITS = ["frame", "codec", "codec16", "gui", "per", "rc4", "engine", "session", "nego", "cssp", "mcs", "sec", "ntlm", "connector", "engine2", "text", "csspder"]

ENGINE_ASM = ("engine contract (prelude/model.rs): Component/Trame/Array/DynOption of src/model/data.rs are assumed to "
              "serialize as the in-order concatenation of their non-skipped fields and to read field by field "
              "preserving the layout; IndexMap/boxed closures are outside both installed verifiers")
IO_ASM = "std::io::Read/Write + byteorder contracts (prelude/base.rs): sized reads return exactly the next bytes, read/write may be short, write_all/read_exact complete or fail"
DUPLEX_ASM = "transport duplex axiom (prelude/base.rs axiom_duplex): reading does not change what was written and vice versa (rule R3 adds the marker bound)"

# units under construction: never part of a property check
DEV_UNITS = set()

PROPERTIES = {
    "C13": dict(
        scope="tpkt::Client::read / x224::Client::read return exactly the payload of the next frame and consume exactly that frame, for every "
              "declared length, every action byte and every schedule of short reads of the transport; frames shorter than their header are rejected; "
              "Link::read / Stream::read_exact / Stream::read carry the contract down to the std Read contract",
        technique="contract-based deductive verification: Verus (z3) on function bodies extracted from /repo on every run",
        level_note="trusted: " + IO_ASM + "; " + DUPLEX_ASM + "; leaf Message impls for u8/U16 by contract (verified separately in unit engine); x224 header read through the " + ENGINE_ASM,
        assumptions=[IO_ASM, DUPLEX_ASM, ENGINE_ASM],
        design_ref="DESIGN.md §7 C13"),
    "C14": dict(
        scope="Stream::write / Link::write / tpkt::Client::write / x224::Client::write: Ok implies that exactly one frame "
              "[3,0,be16(len+4)] ++ bytes reached the stream under a Write contract that allows any short write; a payload above 65531 bytes is refused "
              "with nothing written; an error of the transport is never turned into Ok",
        technique="contract-based deductive verification: Verus (z3) on function bodies extracted from /repo on every run",
        level_note="trusted: " + IO_ASM + "; " + DUPLEX_ASM + "; serialization of the trame through the " + ENGINE_ASM,
        assumptions=[IO_ASM, DUPLEX_ASM, ENGINE_ASM],
        design_ref="DESIGN.md §7 C14"),
}

PROPERTIES.update({
    "C08": dict(
        scope="BitmapEvent::decompress returns Err or exactly width*height*4 bytes for every width, height, depth, flag and data; process_plane, "
              "rle_32_decompress, rgb565torgb32 and the raw 16/32 bpp paths are proved free of overflow, out-of-range index and non-termination for all inputs "
              "(every loop carries a decreases clause; the scanline loops decrease the ghost remaining input); rle_16_decompress: see level_note",
        technique="contract-based deductive verification: Verus (z3) loop invariants on function bodies extracted from /repo on every run",
        level_note="trusted: byteorder/std Read contract on Cursor (prelude/base.rs); usize is 64 bit; vstd's slice layout rule (a [u16] holds at most isize::MAX bytes, vstd::layout::layout_for_val_is_valid) is used for `x + 8` in rle_16_decompress; allocation success of vec![0; n] is not modelled (n is proved <= 2*width*height*4)",
        assumptions=[IO_ASM, "64-bit usize (global size_of usize == 8)", "memory allocation does not fail"],
        design_ref="DESIGN.md §7 C08"),
    "C09": dict(
        scope="rgb565torgb32 is proved equal, byte for byte and for all 65536 colours, to exact rounding of the 5/6/5-bit channels to 8 bits (B,G,R,0xff); raw 16 bpp and raw 32 bpp "
              "bitmaps are proved to come out top-down (row h-1-i of the wire image is row i of the result) with the 16 bpp pixels widened; planar 32 bpp (process_plane / rle_32_decompress, unit codec): "
              "functional proof against a transcription of MS-RDPEGDI 3.1.9 (run / raw segments, delta rows with the sign-in-LSB rule, plane order A,R,G,B into byte offsets 3,2,1,0); interleaved 16 bpp "
              "(rle_16_decompress, unit codec16): functional proof against a pixel-granular transcription of MS-RDPBCGR 2.2.9.1.1.3.1.2.4 / 3.1.9 (all 256 order headers, regular / lite / MEGA_MEGA lengths, SET_FG, "
              "first-scanline and insert-fg-pel rules, all 11 repeat! sites): every decoded pixel (rr, c) sits at output[(height-1-rr)*width + c], everything else is unchanged. EXCLUDED from the interleaved proof "
              "(predicate rle16_excluded, stated in the contract): streams with a zero-length MEGA_MEGA order, and FGBG-class orders of >= 8 pixels on bitmaps wider than 8 pixels (the two 8x-unrolled FGBG loops are proved "
              "SAFE only; their single-statement remainder loops are proved functionally)",
        technique="contract-based deductive verification (Verus): spec functions transcribed from the documents, loop invariants relating the ghost decode prefix to the output; thorough tier adds bounded Kani comparisons against an executable reference",
        level_note="the spec functions round5/round6/flip32/raw16/planar/rle16_decode are written from MS-RDPBCGR / MS-RDPEGDI and the definition of rounding, not from the code; thorough tier (kani/harnesses.json): rgb565 over all colours (complete), "
                   "rle_16 vs reference for all 1-byte streams on 3x2 and process_plane vs reference for all 4-byte streams on 1x2 (BOUNDED, labelled so, never counted as proved)",
        assumptions=[IO_ASM, "64-bit usize"],
        design_ref="DESIGN.md §7 C09"),
})

PROPERTIES.update({
    "C19": dict(
        scope="fast_bitmap_transfer (GUI binary): for every window buffer, window width and bitmap geometry it returns Err or Ok; the safety contract of the raw copy "
              "(source and destination ranges inside the two vectors) holds at the call on every path; no arithmetic overflow for any u16 geometry and any usize width; inverted rectangles "
              "are refused with the buffer untouched; for rectangles inside the window the buffer afterwards equals the old buffer with exactly the rectangle's rows replaced by the rows of the decoded image",
        technique="contract-based deductive verification: Verus (z3), function text extracted from src/bin/mstsc-rs.rs on every run",
        level_note="trusted (rule R5): ptr::copy_nonoverlapping is replaced by prelude copy_rows whose precondition is the pointer-safety contract; transmute_vec (real body, generic): length and capacity handed to Vec::from_raw_parts describe no more bytes than the source vector owns and the result has len*size_of::<S>()/size_of::<T>() elements (raw pointer cast, forget and from_raw_parts are prelude stand-ins); "
                   "the layout UB of re-typing the allocation is outside any contract; BitmapEvent::decompress by its contract (proved in unit codec)",
        assumptions=["rule R5: copy_rows, vec_as_mut_ptr, capacity_of, RawBuf::cast, vec_from_raw_parts and the little-endian re-typing axiom stand for the raw-pointer operations of the unsafe code", "transmute_vec's dealloc-layout UB not modelled", "64-bit usize"],
        design_ref="DESIGN.md §7 C19"),
})

PROPERTIES.update({
    "C18": dict(
        scope="PER primitives (src/core/per.rs): every writer emits the reference encoding per_len/per_int/per_u16/per_oid/per_octets (spec functions written from X.691 as profiled by T.124/T.125) "
              "and every reader decodes it; proved round-trip lemmas for ALL values (lengths 0..0x7fff, every u32 integer in its three size classes, every value>=minimum pair, every six-arc identifier, octet strings of every admissible length). "
              "Leaf Message implementations of src/model/data.rs (u8, U16/U32 in both byte orders, Vec<u8>, Check<T>, Option<T>): real bodies proved against the Message contract: length()==|bytes written|, "
              "read consumes exactly the encoding and restores the value, dec(enc(v))==v lemmas",
        technique="contract-based deductive verification: Verus (z3), function bodies extracted from /repo on every run; inverse laws as proved lemmas over the spec functions used in the contracts",
        level_note="not reached: Component/Trame/Array/DynOption inverse laws (the engine of data.rs iterates an IndexMap of boxed closures: assumed as the engine contract) and the yasna-based BER/DER structures (external crate). "
                   "Trusted in unit engine: Clone/PartialEq of Check<T> payloads are structural (axiom_check_payload; proved for u8, Vec<u8>, and the eq part for U16/U32)",
        assumptions=[IO_ASM, "axiom_check_payload (unit engine): clone() preserves the ghost view, == decides it for same-shape values"],
        design_ref="DESIGN.md §7 C18"),
})

TLS_ASM = "native-tls (prelude/tls.rs): TlsStream is an opaque Read + Write; TlsConnectorBuilder / TlsConnector stand-ins state what the crate documents (danger_accept_invalid_certs(true) disables certificate validation, connect returns Err on handshake or validation failure); Link::start_ssl (real body) is verified above them; TLS itself is not verified"
PROPERTIES.update({
    "C02": dict(
        scope="x224::Client::connect: Ok implies TLS is up on the returned client, the selected protocol is SSL or Hybrid AND was offered in the request mask ((selected as u32) & mask != 0), and the certificate-check flag given by the "
              "caller is the one the TLS layer got; read_connection_confirm: only a negotiation RESPONSE (type 2) with a known protocol value selects, proved on the wire bytes (type = byte 7, selected = bytes 11..15 of the X.224 payload) for all 2^32 values; "
              "tpkt::start_nla: cssp_connect's precondition `link.tls()` is discharged at its only call site (no CredSSP traffic on a raw link)",
        technique="contract-based deductive verification: Verus (z3) on function bodies extracted from /repo on every run",
        level_note="trusted: " + TLS_ASM + "; " + IO_ASM + "; " + ENGINE_ASM + " (the negotiation layout is static, so its wire decode is derived, not assumed); the Client-Info precondition (sec::connect requires TLS) is checked in unit connector",
        assumptions=[TLS_ASM, IO_ASM, ENGINE_ASM, DUPLEX_ASM],
        design_ref="DESIGN.md §7 C02"),
})

CRYPTO_ASM = "that no party without the NTLM session keys can produce a token which gss_unwrapex accepts is a cryptographic assumption (64-bit truncated HMAC-MD5 under RC4): outside any contract; the checks prove the acceptance condition, not unforgeability"
DER_ASM = "ASN.1 DER/BER through the yasna crate and src/nla/asn1.rs is external: DER encode/decode are uninterpreted functions (prelude/asn1_cssp.rs parse_der_into / to_der: a parse may fail on any input, on success only the SHAPE of the structure is known and a SEQUENCE OF may be empty); the seven TSRequest builders/readers of cssp.rs are verified above that in unit csspder. KNOWN to be false in one case: yasna 0.3.2 panics with an arithmetic overflow in debug builds on an 8-byte length of usize::MAX (`30 88 ff*8`; known_findings.json observation, defects/c07_yasna_length_overflow.rs)"
PROPERTIES.update({
    "C01": dict(
        scope="cssp_connect (real body): the credentials message is built and written only at a point where the unsealed server reply equals, as little-endian integers, the subject public key of the certificate of THIS link plus one "
              "(claim validated-before-credentials); the reply is what the security interface unsealed from the bytes read off the wire (reply-was-unsealed-from-the-wire); the pubKeyAuth sent seals this link's key; on a failed comparison "
              "nothing is written after the second message (nothing-written-after-failed-validation); Ok implies exactly three messages request / authenticate / authinfo in that order",
        technique="contract-based deductive verification: Verus (z3); ordering and comparison properties as asserted in-body claims over ghost snapshots of the link trace and of the security context",
        level_note="trusted: " + DER_ASM + "; num-bigint / x509-parser / native-tls certificate accessors (prelude/nla.rs); the GenericSecurityService contract (unseal_spec) is discharged for the NTLM implementation in unit ntlm; " + CRYPTO_ASM,
        assumptions=[DER_ASM, TLS_ASM, IO_ASM, CRYPTO_ASM, "num-bigint from_bytes_le/+/!= and x509-parser subject_public_key accessors behave as documented"],
        design_ref="DESIGN.md §7 C01"),
})

MCS_ASM = "mcs::Client::write / read are used through their contracts (specs/common.py MCS_WRITE / MCS_READ); the real functions are proved against the identical text in unit mcs"
SINK_ASM = "rule R9: the application callback `T: FnMut(RdpEvent)` is replaced by the recorder EventSink (its call appends the event to a ghost sequence)"
EQ_ASM = "derived PartialEq of field-less enums (PDUType, PDUType2, ErrorCode, StateTransition) is structural (declared PartialEqSpecImpl)"
PROPERTIES.update({
    "C11": dict(
        scope="RdpClient::write / try_write and global::Client::write_input_event (real bodies): in state Data a Pointer or Key event puts exactly ONE frame on the wire, byte for byte the slow-path input PDU of MS-RDPBCGR "
              "(share control 0x17 / share data 0x1C / numEvents 1 / eventTime 0 / message type 0x8001 or 0x0004) carrying exactly x, y or the scancode and the flag word of the specification's tables (pointer_flags, key_flags written from the "
              "document); Bitmap events are refused with nothing written; outside Data nothing is written; order over any sequence follows by induction on the per-call trace-append postcondition",
        technique="contract-based deductive verification: Verus (z3), byte-exact ensures composed through builder contracts down to the MCS send-data frame",
        level_note="trusted: " + MCS_ASM + "; " + ENGINE_ASM,
        assumptions=[MCS_ASM, ENGINE_ASM, IO_ASM],
        design_ref="DESIGN.md §7 C11"),
    "C12": dict(
        scope="global::Client::read (all six arms, real body): transition relation of the activation automaton (next state only along DemandActive→Synchronize→ControlCooperate→ControlGranted→FontMap→Data, Data→DemandActive on deactivate-all), "
              "exactly one confirm-active + synchronize + cooperate + request-control + font-list sequence (byte-exact frames, in order) iff a demand-active is answered, nothing written in any other state, no transition on error before Data, "
              "callbacks only in Data; write_input_event / RdpClient::write / try_write: bytes iff state Data, InvalidAutomata otherwise and try_write maps exactly that error to Ok with nothing written. Histories of any length follow by induction on these per-call contracts",
        technique="contract-based deductive verification: Verus (z3); the history property is the inductive invariant carried by the per-operation contracts (no length bound)",
        level_note="which server PDU kind was received is defined through the parsers' results (PDU::from_stream etc., proved total, with known-kinds-only clauses); the wire-to-structure step of dynamic layouts is the " + ENGINE_ASM + "; " + MCS_ASM + "; " + EQ_ASM,
        assumptions=[ENGINE_ASM, MCS_ASM, EQ_ASM, SINK_ASM],
        design_ref="DESIGN.md §7 C12"),
    "C06": dict(
        scope="every parser of the active session (PDU::from_stream/from_control, DataPDU::from_pdu, FastPathUpdate::from_fp, Capability::from_capability_set, read_demand_active/synchronize/control/font_map/data_pdu, read_fast_path, "
              "global::Client::read, RdpClient::read, x224::Client::read, tpkt::Client::read) is proved TOTAL for arbitrary stream bytes in every client state: no arithmetic overflow (every `length - header` closure is verified for all 65536 values), "
              "no failing index / unwrap / cast, every loop has a decreases clause, unknown PDU kinds are errors; allocation sizes are bounded by 16-bit length fields",
        technique="contract-based deductive verification: Verus (z3); field-name index obligations discharged from layout shape clauses derived from the code + same_shape after read",
        level_note="trusted: " + ENGINE_ASM + " (a layout's read panics only if one of its closures does: the closures are verified for every value of the same layout); " + IO_ASM + "; " + MCS_ASM,
        assumptions=[ENGINE_ASM, IO_ASM, MCS_ASM, EQ_ASM],
        design_ref="DESIGN.md §7 C06"),
    "C10": dict(
        scope="read_fast_path (real body): loop invariants prove that the sink grows by exactly one Bitmap event per rectangle of every bitmap update that parses, in order, each event built from THAT rectangle with the seven 16-bit fields verbatim, "
              "is_compress == (flags & 1 != 0) and data == bitmapDataStream; other update kinds and parse failures leave the sink untouched and do not end the loop; only Bitmap events are appended; events only in state Data",
        technique="contract-based deductive verification: Verus (z3), loop invariants and in-body claims relative to the parsed structure",
        level_note="the step from wire bytes to the parsed update / rectangle structure goes through the " + ENGINE_ASM + " (closure contracts for the size / skip options of ts_fp_update and ts_bitmap_data are verified); " + SINK_ASM,
        assumptions=[ENGINE_ASM, SINK_ASM, MCS_ASM],
        design_ref="DESIGN.md §7 C10"),
})

COLL_ASM = "std HashMap / Read::take stand-ins (prelude/collections.rs) and the iterator rewrites of rule R6 (values(), iter().find(), take()) behave as documented"
ASN1_ASM = "BER/DER of the MCS Connect-Initial / Connect-Response goes through the yasna crate and src/nla/asn1.rs (prelude/asn1.rs): external, assumed to keep the shape of the decoded structure or fail"
ARR_ASM = "arrays that are read were built by Array::new from a prototype that consumes at least one byte (reading an Array::from_trame array panics, a zero-size prototype never terminates: the trusted Array contract has no such precondition; builders carry prototype clauses instead)"
PROPERTIES.update({
    "C05": dict(
        scope="every reader on the connection-setup path is proved TOTAL on arbitrary server bytes: tpkt::Client::read, x224::Client::read, read_connection_confirm, all PER readers (per.rs), mcs read_attach_user_confirm / read_channel_join_confirm / "
              "read_connect_response / Client::read, gcc::read_conference_create_response (block loop terminates: every iteration consumes the 4-byte header; block length below its header and missing mandatory blocks are errors), "
              "Version::from / MessageType::from, sec::connect, license::client_connect / parse_payload (preamble size closure for all 65536 values). No overflow, no failing index / unwrap, every loop has a measure; buffer sizes are bounded by 16-bit fields",
        technique="contract-based deductive verification: Verus (z3) on function bodies extracted from /repo on every run",
        level_note="trusted: " + ENGINE_ASM + "; " + ARR_ASM + "; " + IO_ASM + "; " + COLL_ASM + "; " + ASN1_ASM,
        assumptions=[ENGINE_ASM, ARR_ASM, IO_ASM, COLL_ASM, ASN1_ASM, EQ_ASM],
        design_ref="DESIGN.md §7 C05"),
    "C04": dict(
        scope="builders proved byte-exact or length-exact against layouts transcribed from the protocol documents: TPKT header (length = payload + 4), X.224 data / connection request (LI 14, RDP_NEG_REQ length 8), T.125 send-data header with PER length, "
              "erect-domain / attach-user / channel-join / disconnect-ultimatum, GCC conference-create-request wrapper (both PER length determinants) and TS_UD_HEADER (length includes the 4 header bytes), client core data (212 bytes, clientName exactly 32 bytes "
              "and null-terminated for EVERY name incl. non-BMP), security / network data, TS_INFO_PACKET (cb* counts exclude the terminators, every string null-terminated, for all names up to 512 chars), share control / share data headers, "
              "confirm-active (lengthCombinedCapabilities, numberCapabilities, twelve capability sets with their documented sizes), synchronize / control / font-list / input PDUs, PER write_length",
        technique="contract-based deductive verification: Verus (z3); serialization is the spec function ser(view) of the engine contract",
        level_note="the 'strict independent parser' of the statement is represented by these equalities with transcribed layouts; trusted: " + ENGINE_ASM + " (serialization = in-order concatenation of the non-skipped fields: being verified for the real engine code in unit engine2); NTLM / CredSSP tokens: DER is external, NTLM field offsets are in unit ntlm",
        assumptions=[ENGINE_ASM, "UTF-16LE of std::str::encode_utf16 (prelude/unicode.rs: only length facts are used)", DER_ASM],
        design_ref="DESIGN.md §7 C04"),
})

HASH_ASM = "MD4 / MD5 / HMAC-MD5 (crates md4, md-5, hmac) are uninterpreted functions md4_spec / md5_spec / hmac_md5_spec with 16-byte results (unit ntlm, trusted Raw ntlm_specs); String::to_uppercase is the uninterpreted `upper`; rand is any byte string of the requested length"
TWIN_ASM = ("three trait-impl methods (Ntlm::read_challenge_message, Ntlm::build_security_interface, NTLMv2SecurityInterface::gss_wrapex) need call-order preconditions (negotiate created first, exported key present, sequence number below 2^32-1) "
            "that a trait impl cannot carry in Verus: their real bodies are verified under those preconditions as inherent `_checked` twins (same extracted text, rule impl_sub); cssp_connect calls them in that order (unit cssp, via the trait contract)")
PROPERTIES.update({
    "C03": dict(
        scope="safety half of the statement, for every server byte stream and configuration: IF Connector::connect / global::Client::read return Ok THEN the wire trace is, in this order, the negotiation request announcing the configured mode and offer "
              "(x224::Client::connect, write_connection_request byte-exact), then (NLA) exactly three CredSSP messages with the credentials last, one MCS connect-initial frame, erect-domain, attach-user, one channel-join per channel carrying the user id "
              "the server assigned (read_attach_user_confirm: id = wire value + 1001; read_channel_join_confirm: confirm must repeat both ids), Client Info on the global channel with that user id, the licence exchange accepting only NewLicense / valid-client error alert, "
              "and per demand-active exactly confirm-active, synchronize, control-cooperate, control-request, font-list (byte-exact, share id and user id from the server's PDUs); identifiers handed to the global channel are the MCS ones; "
              "mcs/x224/tpkt/link shutdown chain writes exactly one disconnect-provider-ultimatum frame. NOT covered: the liveness half ('connecting succeeds against every conforming server'): a contract cannot quantify over conforming servers; accepting replies is covered only as 'these reply bytes are accepted' clauses",
        technique="contract-based deductive verification: Verus (z3); ordering = chained trace-append postconditions (is_prefix / =~= over the ghost written() sequence) composed through every layer's contract",
        level_note="trusted: " + ENGINE_ASM + "; " + MCS_ASM + "; " + TLS_ASM + "; " + DER_ASM + "; " + ASN1_ASM + " (connect-initial payload is an existential `ci`); global::Client and Ntlm are opaque in unit connector (their contracts are proved in units session and ntlm)",
        assumptions=[ENGINE_ASM, MCS_ASM, TLS_ASM, DER_ASM, ASN1_ASM, IO_ASM, DUPLEX_ASM],
        design_ref="DESIGN.md §7 C03"),
    "C17": dict(
        scope="Connector::connect (real body): the request announces restricted-admin (flag byte 1) exactly when configured and offers SSL|Hybrid iff use_nla; the last frame of a successful connect is the Client Info PDU whose domain / user / password are the "
              "configured strings, or all three EMPTY in restricted-admin mode, auto-logon flag bit 0x8 set iff requested; sec::connect requires a TLS link (tls-before-client-info) and writes nothing else; cssp_connect (real body): the credentials structure is built from "
              "empty strings iff restricted admin / blank credentials (claim credentials-by-mode), and is written only sealed by the security interface (claim credentials-only-sealed); NTLM: the password reaches any token only through nt_hash_of(password) -> HMAC keys "
              "(Ntlm::new ensures), negotiate/authenticate tokens are functions of those keys and the names, never of the password text",
        technique="contract-based deductive verification: Verus (z3); information-flow part expressed as functional dependence (token == f(nt_hash, names, challenge ...)) in the postconditions",
        level_note="'never appears on the raw transport' is covered as: every write of a secret-bearing message is behind a `tls()` precondition discharged at each call site; that TLS hides it is the " + TLS_ASM + ". Non-interference proper (absence of any other flow) is not a Verus contract: what is proved is that each emitted byte string equals a spec function whose arguments do not include the password except where stated. " + HASH_ASM,
        assumptions=[TLS_ASM, ENGINE_ASM, MCS_ASM, DER_ASM, HASH_ASM],
        design_ref="DESIGN.md §7 C17"),
    "C07": dict(
        scope="cssp_connect, read_ts_server_challenge / read_ts_validate / read_public_certificate and the four create_ts_* builders (real bodies, unit csspder: after the DER parse no index, cast or unwrap can fail: an empty negoTokens list and an undecodable certificate are errors), Ntlm::read_challenge_message (twin), get_payload_field, read_target_info, gss_unwrapex, authenticate_message, message_signature_ex, mac, Rc4::process (real bodies) are proved TOTAL for arbitrary server bytes: no overflow, "
              "no failing index / unwrap / slice, every loop has a measure (read_target_info decreases the remaining input: every AV pair consumes >= 4 bytes), payload (len, offset) pairs are checked against the message before slicing (r == subrange of the serialized message), "
              "AV values are bounded by the input length, token lists may be empty (error, no index panic), a CHALLENGE without timestamp is accepted",
        technique="contract-based deductive verification: Verus (z3) on function bodies extracted from /repo on every run",
        level_note="trusted: " + DER_ASM + " (yasna parsing of hostile TSRequest bytes is outside: assumed to return or fail); " + ENGINE_ASM + "; " + HASH_ASM + "; " + TWIN_ASM,
        assumptions=[DER_ASM, ENGINE_ASM, HASH_ASM, TWIN_ASM, IO_ASM],
        design_ref="DESIGN.md §7 C07"),
    "C15": dict(
        scope="relative to uninterpreted MD4/MD5/HMAC-MD5: ntowfv2 / ntowfv2_hash / lmowfv2 equal NTOWFv2 of MS-NLMP 3.3.2 (spec written from the document); compute_response_v2 returns NTProofStr ++ temp with nt_response_verifies / lm_response_verifies (the server-side check recomputed from the account key) "
              "and the session base key; kx_key_v2; rc4k == RC4(key) with lemma_rc4k_unwrap (unwrap(wrap(k)) == k for every key); mic == HMAC_MD5(exported key, negotiate ++ challenge ++ authenticate-with-zero-mic); authenticate_message: the six (len, maxlen, offset) descriptors address exactly their fields "
              "(lemma_auth_fields_addressed) whenever each field is <= 0xffff bytes; lemma_new_from_hash_agree: Ntlm::new(d,u,p) and Ntlm::from_hash(d,u,MD4(UTF16(p))) have equal response keys; RC4 (src/nla/rc4.rs real bodies) equals the textbook KSA/PRGA spec for every key length 1..256 and every message",
        technique="contract-based deductive verification: Verus (z3); the 'independent server' is the set of spec functions transcribed from MS-NLMP 3.3.2 / 3.4.4, proved lemmas for the inverse directions",
        level_note=HASH_ASM + "; " + TWIN_ASM + "; the end-to-end token clause quantifies server challenge / time / target info existentially because the " + ENGINE_ASM + " does not tie Dyn-layout values to request bytes; fields above 0xffff bytes truncate their 16-bit length (observation, DESIGN.md §9)",
        assumptions=[HASH_ASM, TWIN_ASM, ENGINE_ASM],
        design_ref="DESIGN.md §7 C15"),
    "C16": dict(
        scope="mac == MS-NLMP 3.4.4.2 MAC with extended session security (version 1, RC4(handle, HMAC_MD5(signkey, seq ++ msg)[0..8]), seq) and advances the cipher handle by 8; sign_key / seal_key == MD5(key ++ magic constant) with the four constants written out from the document; "
              "gss_wrapex (twin) == seal_spec: RC4 ciphertext ++ signature, handle advanced by |m| + 8, seq_num + 1, nothing else changed (state carries over: induction over any message sequence); gss_unwrapex (no precondition): Ok iff token >= 16 bytes, version word 1 and decrypted checksum equals the recomputed HMAC prefix, "
              "then returns the plaintext; Err otherwise with no plaintext returned (claim rejection-only-on-mismatch); proved lemmas lemma_unwrap_wrap (unwrap(wrap(m)) == Some(m) for mirrored contexts) and lemma_mirrored_contexts; Rc4 (real bodies) == KSA/PRGA spec with keystream-split lemma (cipher state carries over)",
        technique="contract-based deductive verification: Verus (z3); round trip and state carry-over as proved lemmas over the spec functions used in the contracts",
        level_note=HASH_ASM + "; " + TWIN_ASM + "; " + CRYPTO_ASM + " (so 'any alteration is rejected' is proved as: a token is accepted only if its checksum field equals the HMAC prefix of the decrypted text; that a flipped bit changes HMAC is the cryptographic assumption); gss_unwrapex does not compare the received sequence number (observation)",
        assumptions=[HASH_ASM, TWIN_ASM, CRYPTO_ASM],
        design_ref="DESIGN.md §7 C16"),
})

NOT_APPLICABLE = {
    "C20": "quantifies over thread schedules, TLS record packings and select(2) readiness: neither Verus nor Kani has a semantics for std::sync / libc::select / native-tls buffering; liveness of the receive thread is not a contract over one call (DESIGN.md §8)",
}

# what a property's statement mentions but no contract reaches
UNVERIFIED = {
    "C18": ["Component / Trame / Array / DynOption read-write inverse laws (src/model/data.rs engine): assumed, not proved",
            "BER/DER wrappers of src/nla/asn1.rs over the yasna crate: not under contract",
            "gcc conference create request/response round trip: only the PER prefix and Version::from are covered (unit mcs)",
            "write_numeric_string is correct only for one-digit strings (its single caller): outside the claimed domain"],
    "C09": ["COMPLETENESS of the RLE decoders (every conformant stream is ACCEPTED) is not proved: the contracts say `Ok ==> the output is the documented decode`; planar: the explicit rejections are justified by claims (reject-only-malformed), interleaved: not (a mechanical mutant `while pos < len` -> `<=` in rle_16_decompress, which rejects every stream at its end, survives: notes/mutscore.json)",
            "interleaved RLE: the two 8x-unrolled FGBG loops of rle_16_decompress (FGBG-class orders of >= 8 pixels on bitmaps wider than 8 px) are proved safe, not functionally (6^8 paths per iteration: no formulation closed within rlimit 400)",
            "interleaved RLE: streams with a zero-length MEGA_MEGA order are outside the contract (the code keeps a stale insert-fg-pel flag there and accepts the non-order 0xF5 00 00: observations, DESIGN.md section 0.7)",
            "a background run that crosses the end of the first scanline followed by another background run: the code inserts the foreground pel, MS-RDPBCGR's pseudo-code clears the flag at the scanline change (found by the bounded Kani comparison; conforming encoders do not emit such runs)"],
}
