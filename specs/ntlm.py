"""unit ntlm: src/nla/ntlm.rs (NTLMv2 token computation, CHALLENGE parsing, session security) over unit rc4.
C15 (AUTHENTICATE accepted by an independent MS-NLMP server), C16 (sealing per MS-NLMP, state continuity, round trip, tamper rejection = acceptance condition),
C07 (hostile CHALLENGE bytes), C04 (NTLM field offsets), C17 (password enters only through MD4), C01 (gss_unwrapex acceptance condition).

Every function of ntlm.rs is extracted and verified, except
  * md4 / md5 / hmac_md5: Stubs (external crates md4, md-5, hmac) against uninterpreted spec functions;
  * unicode: Stub verified_in="text" (its real body is proved against the identical clause in unit text, over the engine contract that has the
    `an in-memory sink never fails` clause E1 which `.unwrap()` needs; prelude/model.rs' Message::write does not have it, so it cannot be a verified Fn here);
  * model::rnd::random: trusted Raw (only the length of the result is specified);
  * the expression `user.to_uppercase() + &domain` in ntowfv2 / ntowfv2_hash: Verus dies on `String + &str` (internal error), so the expression is
    rewritten (declared R6 body_sub) to the trusted helper `upper_concat` (Raw std_string); the rest of both bodies is verified;
  * `[..].concat()` (unstable std trait Concat, cannot be named in an assume_specification): declared R6 body_sub to concat_vecs / concat_slices,
    two helpers with REAL, VERIFIED bodies (Raw concat_helpers: not trusted);
  * the three trait-impl methods that need a caller-order precondition (read_challenge_message, build_security_interface, gss_wrapex): a trait impl cannot
    add `requires`, so the real bodies are verified as inherent twins `<name>_checked` under the precondition (see TWINS) and the trait-impl methods stay stubs.
"""
from vx.spec import *
from vx.layouts import shape_clauses
from specs import rc4 as R

NTLM = "src/nla/ntlm.rs"

items = stubs_of(R.UNIT.items, "rc4")
A = items.append

A(Raw(r"""
/// src/nla/sspi.rs traits with their ghost contracts (identical text to unit cssp, which verifies cssp_connect against them)
pub trait GenericSecurityService {
    spec fn seal_spec(&self, data: Seq<u8>) -> Seq<u8>;
    spec fn unseal_spec(&self, data: Seq<u8>) -> Option<Seq<u8>>;
    fn gss_wrapex(&mut self, data: &[u8]) -> (r: RdpResult<Vec<u8>>)
        ensures r is Ok ==> r->Ok_0@ == old(self).seal_spec(data@);
    fn gss_unwrapex(&mut self, data: &[u8]) -> (r: RdpResult<Vec<u8>>)
        ensures r is Ok ==> old(self).unseal_spec(data@) == Some(r->Ok_0@);
}
pub trait AuthenticationProtocol {
    spec fn domain_spec(&self) -> Seq<u8>;
    spec fn user_spec(&self) -> Seq<u8>;
    spec fn password_spec(&self) -> Seq<u8>;
    fn create_negotiate_message(&mut self) -> (r: RdpResult<Vec<u8>>);
    fn read_challenge_message(&mut self, request: &[u8]) -> (r: RdpResult<Vec<u8>>);
    fn build_security_interface(&self) -> (r: Box<dyn GenericSecurityService>);
    fn get_domain_name(&self) -> (r: Vec<u8>) ensures r@ == self.domain_spec();
    fn get_user_name(&self) -> (r: Vec<u8>) ensures r@ == self.user_spec();
    fn get_password(&self) -> (r: Vec<u8>) ensures r@ == self.password_spec();
}
""", mod="sspi", name="sspi_contracts"))

# Verus 0.2026.09.13 quirk: an enum with explicit discriminants placed AFTER a body-less `uninterp spec fn` of the same module gets all
# discriminants evaluated to 0 (rustc E0081), so the enums come first in mod ntlm
for e in ("Negotiate", "MajorVersion", "MinorVersion", "NTLMRevision"):
    A(Item(NTLM, "enum", e, mod="ntlm"))
A(Item(NTLM, "enum", "AvId", mod="ntlm", strip_derive=["TryFromPrimitive", "Hash", "Debug"], try_from="u16"))
# `av_id == AvId::MsvAvEOL` calls the derived PartialEq of a field-less enum: structural (same declaration as for PDUType / ErrorCode in the other units)
A(Raw(r"""
impl vstd::std_specs::cmp::PartialEqSpecImpl for AvId {
    open spec fn obeys_eq_spec() -> bool { true }
    open spec fn eq_spec(&self, other: &Self) -> bool { *self == *other }
}
""", mod="ntlm", name="avid_eq", trusted="derived PartialEq of a field-less enum is equality of the variants"))
A(Raw(r"""
// ---------------- primitives (external crates md4 / md-5 / hmac: uninterpreted, no collision or one-wayness axiom is assumed)
pub uninterp spec fn md4_spec(data: Seq<u8>) -> Seq<u8>;
pub uninterp spec fn md5_spec(data: Seq<u8>) -> Seq<u8>;
pub uninterp spec fn hmac_md5_spec(key: Seq<u8>, data: Seq<u8>) -> Seq<u8>;
// (three axioms in one group: with the three #[trigger] terms in ONE axiom Verus builds a single multi-pattern that never fires)
pub broadcast axiom fn axiom_md4_len(a: Seq<u8>) ensures #[trigger] md4_spec(a).len() == 16;
pub broadcast axiom fn axiom_md5_len(a: Seq<u8>) ensures #[trigger] md5_spec(a).len() == 16;
pub broadcast axiom fn axiom_hmac_md5_len(a: Seq<u8>, b: Seq<u8>) ensures #[trigger] hmac_md5_spec(a, b).len() == 16;
pub broadcast group axiom_digest_len { axiom_md4_len, axiom_md5_len, axiom_hmac_md5_len }
/// std: str::to_uppercase
pub uninterp spec fn upper(s: Seq<char>) -> Seq<char>;

// ---------------- MS-NLMP 3.3.2 (NTLM v2 authentication), 3.4 (session security): written from the specification
pub open spec fn zeros(n: nat) -> Seq<u8> { Seq::new(n, |i: int| 0u8) }
/// NTOWFv2 from the NT hash: HMAC_MD5(MD4(UNICODE(Passwd)), UNICODE(Uppercase(User) + UserDom))
pub open spec fn ntowfv2_of_hash(nt_hash: Seq<u8>, user: Seq<char>, domain: Seq<char>) -> Seq<u8> { hmac_md5_spec(nt_hash, utf16le(upper(user) + domain)) }
pub open spec fn nt_hash_of(password: Seq<char>) -> Seq<u8> { md4_spec(utf16le(password)) }
/// temp = Responserversion, HiResponserversion, Z(6), Time, ClientChallenge, Z(4), ServerName (the AV pairs sent by the server)
pub open spec fn ntlm_temp(time: Seq<u8>, client_challenge: Seq<u8>, server_name: Seq<u8>) -> Seq<u8> {
    seq![1u8, 1u8] + zeros(6) + time + client_challenge + zeros(4) + server_name
}
pub open spec fn nt_proof_str(key_nt: Seq<u8>, server_challenge: Seq<u8>, temp: Seq<u8>) -> Seq<u8> { hmac_md5_spec(key_nt, server_challenge + temp) }
/// what an MS-NLMP server checks (3.3.2): the first 16 bytes of NtChallengeResponse are HMAC_MD5(ResponseKeyNT, ServerChallenge + rest)
pub open spec fn nt_response_verifies(key_nt: Seq<u8>, server_challenge: Seq<u8>, resp: Seq<u8>) -> bool {
    resp.len() >= 16 && resp.take(16) == hmac_md5_spec(key_nt, server_challenge + resp.skip(16))
}
pub open spec fn lm_response_verifies(key_lm: Seq<u8>, server_challenge: Seq<u8>, resp: Seq<u8>) -> bool {
    resp.len() == 24 && resp.take(16) == hmac_md5_spec(key_lm, server_challenge + resp.skip(16))
}
pub open spec fn session_base_key(key_nt: Seq<u8>, proof: Seq<u8>) -> Seq<u8> { hmac_md5_spec(key_nt, proof) }
/// SIGNKEY / SEALKEY (3.4.5.2, 3.4.5.3) with extended session security and 128-bit keys: MD5(ExportedSessionKey ++ magic constant)
pub open spec fn sign_key_spec(exported: Seq<u8>, magic: Seq<u8>) -> Seq<u8> { md5_spec(exported + magic) }
/// MAC with extended session security and key exchange (3.4.4.2): Version 1, RC4(handle, HMAC_MD5(SigningKey, SeqNum + Message)[0..8]), SeqNum
pub open spec fn mac_spec(st: rc4::RcState, signing_key: Seq<u8>, seq_num: u32, message: Seq<u8>) -> Seq<u8> {
    le32(1) + rc4::rc4_xor(st, hmac_md5_spec(signing_key, le32(seq_num) + message).take(8)) + le32(seq_num)
}
/// SEAL (3.4.3): ciphertext from the handle, then the MAC whose checksum is encrypted by the SAME handle continuing after the message;
/// GSS_WrapEx as CredSSP uses it emits signature first, then ciphertext
pub open spec fn seal_spec_fn(st: rc4::RcState, signing_key: Seq<u8>, seq_num: u32, message: Seq<u8>) -> Seq<u8> {
    mac_spec(rc4::advance(st, message.len()), signing_key, seq_num, message) + rc4::rc4_xor(st, message)
}
""", mod="ntlm", name="ntlm_specs",
      trusted="md4 / md-5 / hmac crates: uninterpreted functions with 16-byte outputs (axiom_digest_len); str::to_uppercase uninterpreted"))

A(Raw(r"""
impl KeyView for AvId { type KV = AvId; open spec fn kv(&self) -> AvId { *self } }
""", mod="ntlm", name="avid_keyview"))
A(Item(NTLM, "struct", "Ntlm", mod="ntlm"))
A(Item(NTLM, "struct", "NTLMv2SecurityInterface", mod="ntlm"))

A(Raw(r"""
/// model::rnd::random (rand crate): `size` bytes from the thread RNG; nothing but the length is known
#[verifier::external_body]
pub fn random(size: usize) -> (r: Vec<u8>)
    ensures r@.len() == size
{ unimplemented!() }
""", mod="ntlm", name="random", trusted="model::rnd::random (rand crate): returns `size` unpredictable bytes; only the length is specified"))

A(Raw(r"""
/// stands for the expression `user.to_uppercase() + &domain` (std: str::to_uppercase, <String as Add<&str>>::add).
/// Verus 0.2026.09.13 dies on `String + &str` (internal error codegen_select_candidate) even when both functions have an
/// assume_specification, so the expression is named (declared rewrite R6 in ntowfv2 / ntowfv2_hash) and its std meaning assumed.
#[verifier::external_body]
pub fn upper_concat(user: &String, domain: &String) -> (r: String)
    ensures r@ == upper(user@) + domain@
{ unimplemented!() }
""", mod="ntlm", name="std_string",
      trusted="std string functions: str::to_uppercase (uninterpreted `upper`) followed by String + &str (concatenation of the character sequences)"))

A(Raw(r"""
// ---------------- `[a, b, ..].concat()` (std: <[V] as Concat<u8>>::concat, an unstable trait Verus cannot name): declared rewrite R6 to the two
// helpers below, whose REAL bodies are verified here (not trusted)
pub open spec fn flat(s: Seq<Seq<u8>>) -> Seq<u8> decreases s.len() { if s.len() == 0 { Seq::empty() } else { flat(s.drop_last()) + s.last() } }
pub fn concat_vecs(parts: &[Vec<u8>]) -> (r: Vec<u8>)
    ensures r@ == flat(parts@.map_values(|v: Vec<u8>| v@))
{
    let mut r: Vec<u8> = Vec::new();
    let ghost views = parts@.map_values(|v: Vec<u8>| v@);
    for i in 0..parts.len()
        invariant r@ == flat(views.take(i as int)), views == parts@.map_values(|v: Vec<u8>| v@),
    {
        r.extend_from_slice(parts[i].as_slice());
        proof { assert(views.take(i + 1).drop_last() =~= views.take(i as int)); }
    }
    proof { assert(views.take(parts.len() as int) =~= views); }
    r
}
pub fn concat_slices(parts: &[&[u8]]) -> (r: Vec<u8>)
    ensures r@ == flat(parts@.map_values(|v: &[u8]| v@))
{
    let mut r: Vec<u8> = Vec::new();
    let ghost views = parts@.map_values(|v: &[u8]| v@);
    for i in 0..parts.len()
        invariant r@ == flat(views.take(i as int)), views == parts@.map_values(|v: &[u8]| v@),
    {
        r.extend_from_slice(parts[i]);
        proof { assert(views.take(i + 1).drop_last() =~= views.take(i as int)); }
    }
    proof { assert(views.take(parts.len() as int) =~= views); }
    r
}
""", mod="ntlm", name="concat_helpers"))

# R6: `[x, y, ..].concat()` -> concat_vecs(&[x, y, ..]) / concat_slices(&[x, y, ..]); the opener is the `[` of an array literal whose matching `]` is followed by `.concat()`
_OPEN = r"(?<![\w\)\]!])\[(?=(?:[^\[\]]|\[[^\[\]]*\])*\]\.concat\(\))"
_CLOSE = r"\]\.concat\(\)"
CONCAT_VECS = [(_OPEN, "concat_vecs(&["), (_CLOSE, "])")]
CONCAT_SLICES = [(_OPEN, "concat_slices(&["), (_CLOSE, "])")]
UPPER = [(r"\(user\.to_uppercase\(\) \+ &domain\)", "upper_concat(user, domain)")]

A(Raw(r"""
/// GSS_UnwrapEx acceptance (3.4.3 / 3.4.4.2 mirrored): token = signature(16) ++ ciphertext; accepted iff the version word is 1 and the
/// checksum, decrypted by the handle continuing after the message, is HMAC_MD5(verify_key, SeqNum ++ plaintext)[0..8] for the SeqNum in the token
pub open spec fn unseal_spec_fn(st: rc4::RcState, verify_key: Seq<u8>, token: Seq<u8>) -> Option<Seq<u8>> {
    if token.len() < 16 || token.take(4) != le32(1) { None } else {
        let payload = token.skip(16);
        let p = rc4::rc4_xor(st, payload);
        let sum = rc4::rc4_xor(rc4::advance(st, payload.len()), token.subrange(4, 12));
        if sum == hmac_md5_spec(verify_key, token.subrange(12, 16) + p).take(8) { Some(p) } else { None }
    }
}
""", mod="ntlm", name="unseal_spec"))

STUBS = {
    "md4": dict(why="md4 crate", ensures=["r@ == md4_spec(data@)"]),
    "md5": dict(why="md-5 crate", ensures=["r@ == md5_spec(data@)"]),
    "hmac_md5": dict(why="hmac + md-5 crates", ensures=["r@ == hmac_md5_spec(key@, data@)"]),
    # proved for the real body in unit text (specs/text.py NTLM_UNICODE; the clause text is compared on every assembly of unit text)
    "unicode": dict(verified_in="text", ensures=["r@ == utf16le(data@)"]),
}

A(Raw(r"""
// ---------------- layouts of the NTLM messages (MS-NLMP 2.2.1, 2.2.2.1, 2.2.2.9.1, 2.2.2.10) as ghost views
pub open spec fn ntlmssp() -> Seq<u8> { seq![0x4eu8, 0x54u8, 0x4cu8, 0x4du8, 0x53u8, 0x53u8, 0x50u8, 0u8] }
pub open spec fn version_view() -> MV {
    MV::Comp(seq![("ProductMajorVersion"@, MV::U8(6)), ("ProductMinorVersion"@, MV::U8(0)), ("ProductBuild"@, MV::U16(6002, true)),
                  ("Reserved"@, MV::Trame(seq![MV::U16(0, true), MV::U8(0)])), ("NTLMRevisionCurrent"@, MV::U8(0x0F))])
}
/// VERSION structure (2.2.2.10): major 6, minor 0, build 6002, 3 reserved bytes, NTLMSSP_REVISION_W2K3
pub open spec fn version_bytes() -> Seq<u8> { seq![6u8, 0u8] + le16(6002) + seq![0u8, 0u8, 0u8, 0x0Fu8] }
/// NTLMSSP_NEGOTIATE_VERSION (0x02000000) decides whether the Version field is on the wire
pub open spec fn flags_ov(v: u32) -> OV { if v & 0x02000000 == 0 { OV::Skip("Version"@) } else { OV::None } }
pub open spec fn challenge_view() -> MV {
    MV::Comp(seq![("Signature"@, MV::Check(Box::new(MV::Bytes(ntlmssp())))), ("MessageType"@, MV::Check(Box::new(MV::U32(2, true)))),
                  ("TargetNameLen"@, MV::U16(0, true)), ("TargetNameLenMax"@, MV::U16(0, true)), ("TargetNameBufferOffset"@, MV::U32(0, true)),
                  ("NegotiateFlags"@, MV::Dyn(Box::new(MV::U32(0, true)), OV::Skip("Version"@))),
                  ("ServerChallenge"@, MV::Bytes(zeros(8))), ("Reserved"@, MV::Bytes(zeros(8))),
                  ("TargetInfoLen"@, MV::U16(0, true)), ("TargetInfoMaxLen"@, MV::U16(0, true)), ("TargetInfoBufferOffset"@, MV::U32(0, true)),
                  ("Version"@, version_view()), ("Payload"@, MV::Bytes(Seq::empty()))])
}
pub open spec fn av_pair_view() -> MV {
    MV::Comp(seq![("AvId"@, MV::U16(0, true)), ("AvLen"@, MV::Dyn(Box::new(MV::U16(0, true)), OV::Size("Value"@, 0))), ("Value"@, MV::Bytes(Seq::empty()))])
}
/// NTLMSSP_MESSAGE_SIGNATURE with extended session security (2.2.2.9.2): Version 1, 8 byte checksum, sequence number
pub open spec fn signature_view(sum: Seq<u8>, seq_num: u32) -> MV {
    MV::Comp(seq![("Version"@, MV::Check(Box::new(MV::U32(1, true)))), ("Checksum"@, MV::Bytes(sum)), ("SeqNum"@, MV::U32(seq_num, true))])
}
""", mod="ntlm", name="ntlm_layouts"))


A(Raw(r"""
/// the state array has 256 entries by its type: every Rc4 value is well formed (PROVED; lets trait methods call process() without a precondition)
pub proof fn lemma_rc4_wf(r: &Rc4) ensures well_formed(r.view()) {}
""", mod="rc4", name="rc4_wf"))

def _magic(text):
    return "seq![" + ", ".join("0x%02xu8" % b for b in text.encode("ascii") + b"\0") + "]"
A(Raw(r"""
// ---------------- MS-NLMP 3.4.5.2 / 3.4.5.3: the four magic constants (ASCII, NUL terminated), spelled from the document
/// "session key to client-to-server signing key magic constant\0"
pub open spec fn c2s_sign_magic() -> Seq<u8> { %s }
/// "session key to server-to-client signing key magic constant\0"
pub open spec fn s2c_sign_magic() -> Seq<u8> { %s }
/// "session key to client-to-server sealing key magic constant\0"
pub open spec fn c2s_seal_magic() -> Seq<u8> { %s }
/// "session key to server-to-client sealing key magic constant\0"
pub open spec fn s2c_seal_magic() -> Seq<u8> { %s }
""" % (_magic("session key to client-to-server signing key magic constant"), _magic("session key to server-to-client signing key magic constant"),
       _magic("session key to client-to-server sealing key magic constant"), _magic("session key to server-to-client sealing key magic constant")),
      mod="ntlm", name="magic_constants"))

A(Raw(r"""
// ---------------- PROVED facts over the specification functions
/// C16 round trip: what a peer seals with (handle state st, signing key k, sequence number n) is accepted by a context whose decrypt handle is in
/// state st and whose verify key is k, and yields the message
pub proof fn lemma_unwrap_wrap(st: rc4::RcState, k: Seq<u8>, n: u32, m: Seq<u8>)
    ensures unseal_spec_fn(st, k, seal_spec_fn(st, k, n, m)) == Some(m)
{
    broadcast use axiom_digest_len;
    let st2 = rc4::advance(st, m.len());
    let h = hmac_md5_spec(k, le32(n) + m);
    let h8 = h.take(8);
    let sig = mac_spec(st2, k, n, m);
    let c = rc4::rc4_xor(st, m);
    let token = sig + c;
    rc4::lemma_keystream_len(st, m.len());
    rc4::lemma_keystream_len(st2, 8);
    assert(le32(1).len() == 4 && le32(n).len() == 4);
    assert(rc4::rc4_xor(st2, h8).len() == 8);
    assert(sig.len() == 16);
    assert(c.len() == m.len());
    assert(token.take(4) =~= le32(1));
    assert(token.skip(16) =~= c);
    assert(token.subrange(4, 12) =~= rc4::rc4_xor(st2, h8));
    assert(token.subrange(12, 16) =~= le32(n));
    rc4::lemma_xor_involution(st, m);
    rc4::lemma_xor_involution(st2, h8);
    assert(rc4::rc4_xor(st, c) =~= m);
    assert(rc4::rc4_xor(st2, rc4::rc4_xor(st2, h8)) =~= h8);
}
/// C15: the RC4-wrapped random session key unwraps under the same key exchange key
pub proof fn lemma_rc4k_unwrap(key: Seq<u8>, m: Seq<u8>)
    ensures rc4::rc4_xor(rc4::ksa(key), rc4::rc4_xor(rc4::ksa(key), m)) =~= m
{ rc4::lemma_xor_involution(rc4::ksa(key), m); }
/// C15 / C17: Ntlm::new(d, u, p) and Ntlm::from_hash(d, u, MD4(UTF16LE(p))) compute the same response keys
pub proof fn lemma_new_from_hash_agree(d: Seq<char>, u: Seq<char>, p: Seq<char>)
    ensures ntowfv2_of_hash(nt_hash_of(p), u, d) == ntowfv2_of_hash(md4_spec(utf16le(p)), u, d)
{}
/// C15: a response built as proof ++ temp with proof = HMAC_MD5(key, challenge ++ temp) passes the server's check
pub proof fn lemma_nt_response_verifies(key_nt: Seq<u8>, sc: Seq<u8>, temp: Seq<u8>)
    ensures nt_response_verifies(key_nt, sc, nt_proof_str(key_nt, sc, temp) + temp)
{
    broadcast use axiom_digest_len;
    let pr = nt_proof_str(key_nt, sc, temp);
    let resp = pr + temp;
    assert(resp.take(16) =~= pr);
    assert(resp.skip(16) =~= temp);
}
pub proof fn lemma_lm_response_verifies(key_lm: Seq<u8>, sc: Seq<u8>, cc: Seq<u8>)
    requires cc.len() == 8
    ensures lm_response_verifies(key_lm, sc, hmac_md5_spec(key_lm, sc + cc) + cc)
{
    broadcast use axiom_digest_len;
    let pr = hmac_md5_spec(key_lm, sc + cc);
    let resp = pr + cc;
    assert(resp.take(16) =~= pr);
    assert(resp.skip(16) =~= cc);
}
/// the variable part of an NTLM message: the last field, named "Payload", raw bytes, and no field's option can leave it out
pub open spec fn payload_last(f: Seq<(Seq<char>, MV)>) -> bool {
    &&& f.len() >= 1 && f.last().0 == "Payload"@ && f.last().1 is Bytes
    &&& forall|i: int| 0 <= i < f.len() - 1 ==> (#[trigger] f[i]).0 != "Payload"@
    &&& forall|i: int| 0 <= i < f.len() ==> opt_of((#[trigger] f[i]).1) != OV::Skip("Payload"@)
}
/// the serialization of such a message ends with the payload bytes
pub proof fn lemma_payload_suffix(f: Seq<(Seq<char>, MV)>, i: int, skip: Set<Seq<char>>)
    requires payload_last(f), 0 <= i < f.len(), !skip.contains("Payload"@)
    ensures ({ let p = f.last().1->Bytes_0; let s = ser_fields_from(f, i, skip); s.len() >= p.len() && s.skip(s.len() - p.len()) =~= p })
    decreases f.len() - i
{
    let p = f.last().1->Bytes_0;
    reveal_with_fuel(ser_fields_from, 2);
    if i == f.len() - 1 {
        reveal_with_fuel(ser, 1);
        assert(ser(f[i].1) == p);
        let skip2 = match opt_of(f[i].1) { OV::Skip(k) => skip.insert(k), _ => skip };
        assert(ser_fields_from(f, i + 1, skip2) =~= Seq::<u8>::empty());
        assert(ser_fields_from(f, i, skip) =~= p);
    } else if skip.contains(f[i].0) {
        lemma_payload_suffix(f, i + 1, skip);
    } else {
        let skip2 = match opt_of(f[i].1) { OV::Skip(k) => skip.insert(k), _ => skip };
        assert(!skip2.contains("Payload"@));
        lemma_payload_suffix(f, i + 1, skip2);
        let t = ser_fields_from(f, i + 1, skip2);
        assert(ser_fields_from(f, i, skip) == ser(f[i].1) + t);
    }
}
/// every value of the AV-pair map is at least 4 bytes shorter than `n`
pub open spec fn values_bounded(m: &HashMap<AvId, Vec<u8>>, n: int) -> bool { forall|k: AvId| #[trigger] m.m().contains_key(k) ==> m.m()[k]@.len() + 4 <= n }
/// C07: a successful read of one AV pair consumes at least its 4 byte header
pub proof fn lemma_av_pair_min()
    ensures min_wire_len(av_pair_view()) >= 4, arrays_empty(av_pair_view())
{
    reveal_with_fuel(arrays_empty, 4);
    reveal_with_fuel(min_wire_len, 4); reveal_with_fuel(min_fields_from, 4);
    let f = av_pair_view()->Comp_0;
    assert(f.len() == 3);
    assert(f[0].1 == MV::U16(0, true)); assert(f[1].1 is Dyn);
    assert(min_wire_len(f[0].1) == 2); assert(min_wire_len(f[1].1) == 2); assert(min_fields_from(f, 1) == 2); assert(min_fields_from(f, 0) == 4);
}
""", mod="ntlm", name="ntlm_lemmas"))

A(Raw(r"""
// ---------------- AUTHENTICATE_MESSAGE (MS-NLMP 2.2.1.3)
/// one (Len, MaxLen, BufferOffset) descriptor of a variable field: both lengths equal, offset counted from the start of the message
pub open spec fn desc_bytes(d: (u16, u32)) -> Seq<u8> { le16(d.0) + le16(d.0) + le32(d.1) }
/// size of the fixed part written by this client: 64 bytes, 72 with the VERSION structure (the 16 byte MIC follows it)
pub open spec fn auth_fixed_len(flags: u32) -> int { if flags & 0x02000000 == 0 { 64 } else { 72 } }
pub open spec fn auth_view(v: Seq<(u16, u32)>, flags: u32) -> MV {
    MV::Comp(seq![("Signature"@, MV::Check(Box::new(MV::Bytes(ntlmssp())))), ("MessageType"@, MV::Check(Box::new(MV::U32(3, true)))), ("LmChallengeResponseLen"@, MV::U16(v[0].0, true)), ("LmChallengeResponseMaxLen"@, MV::U16(v[0].0, true)), ("LmChallengeResponseBufferOffset"@, MV::U32(v[0].1, true)), ("NtChallengeResponseLen"@, MV::U16(v[1].0, true)), ("NtChallengeResponseMaxLen"@, MV::U16(v[1].0, true)), ("NtChallengeResponseBufferOffset"@, MV::U32(v[1].1, true)), ("DomainNameLen"@, MV::U16(v[2].0, true)), ("DomainNameMaxLen"@, MV::U16(v[2].0, true)), ("DomainNameBufferOffset"@, MV::U32(v[2].1, true)), ("UserNameLen"@, MV::U16(v[3].0, true)), ("UserNameMaxLen"@, MV::U16(v[3].0, true)), ("UserNameBufferOffset"@, MV::U32(v[3].1, true)), ("WorkstationLen"@, MV::U16(v[4].0, true)), ("WorkstationMaxLen"@, MV::U16(v[4].0, true)), ("WorkstationBufferOffset"@, MV::U32(v[4].1, true)), ("EncryptedRandomSessionLen"@, MV::U16(v[5].0, true)), ("EncryptedRandomSessionMaxLen"@, MV::U16(v[5].0, true)), ("EncryptedRandomSessionBufferOffset"@, MV::U32(v[5].1, true)), ("NegotiateFlags"@, MV::Dyn(Box::new(MV::U32(flags, true)), flags_ov(flags))), ("Version"@, version_view())])
}
/// descriptor bytes followed by `rest` (right-nested like the serialization itself, so that equalities are syntactic)
pub open spec fn desc_then(d: (u16, u32), rest: Seq<u8>) -> Seq<u8> { le16(d.0) + (le16(d.0) + (le32(d.1) + rest)) }
pub open spec fn auth_bytes_raw(v: Seq<(u16, u32)>, flags: u32) -> Seq<u8> {
    ntlmssp() + (le32(3) + desc_then(v[0], desc_then(v[1], desc_then(v[2], desc_then(v[3], desc_then(v[4], desc_then(v[5],
        le32(flags) + (if flags & 0x02000000 == 0 { Seq::<u8>::empty() } else { version_bytes() }))))))))
}
/// the six descriptors for fields of the given lengths laid out back to back after the MIC
pub open spec fn auth_descs(lm: int, nt: int, d: int, u: int, w: int, k: int, flags: u32) -> Seq<(u16, u32)> {
    let base = auth_fixed_len(flags) + 16;
    seq![(lm as u16, base as u32), (nt as u16, (base + lm) as u32), (d as u16, (base + lm + nt) as u32), (u as u16, (base + lm + nt + d) as u32),
         (w as u16, (base + lm + nt + d + u) as u32), (k as u16, (base + lm + nt + d + u + w) as u32)]
}
/// the (len, offset) pairs found in a message of that layout
pub open spec fn auth_vals(m: MV) -> Seq<(u16, u32)> {
    let f = m->Comp_0;
    seq![(f[2].1->U16_0, f[4].1->U32_0), (f[5].1->U16_0, f[7].1->U32_0), (f[8].1->U16_0, f[10].1->U32_0), (f[11].1->U16_0, f[13].1->U32_0), (f[14].1->U16_0, f[16].1->U32_0), (f[17].1->U16_0, f[19].1->U32_0)]
}
pub proof fn lemma_ser_step(f: Seq<(Seq<char>, MV)>, i: int, skip: Set<Seq<char>>)
    requires 0 <= i < f.len(), !skip.contains(f[i].0)
    ensures ser_fields_from(f, i, skip) == ser(f[i].1) + ser_fields_from(f, i + 1, match opt_of(f[i].1) { OV::Skip(k) => skip.insert(k), _ => skip })
{ reveal_with_fuel(ser_fields_from, 2); }
pub proof fn lemma_auth_view_bytes(v: Seq<(u16, u32)>, flags: u32)
    requires v.len() == 6
    ensures ser(auth_view(v, flags)) == auth_bytes_raw(v, flags), auth_bytes_raw(v, flags).len() == auth_fixed_len(flags)
{
    let f = auth_view(v, flags)->Comp_0; let e = Set::<Seq<char>>::empty();
    reveal_with_fuel(ser, 3);
    assert(f.len() == 22);
    let s2 = match flags_ov(flags) { OV::Skip(k) => e.insert(k), _ => e };
    let ver = if flags & 0x02000000 == 0 { Seq::<u8>::empty() } else { version_bytes() };
    assert(ser_fields_from(f, 21, s2) =~= ver) by {
        if flags & 0x02000000 == 0 {
            assert(s2.contains(f[21].0));
            reveal_with_fuel(ser_fields_from, 3);
        } else {
            lemma_ser_step(f, 21, s2);
            reveal_with_fuel(ser_fields_from, 2);
            assert(ser_fields_from(f, 22, s2) =~= Seq::<u8>::empty());
            lemma_version_bytes();
        }
    }
    lemma_ser_step(f, 20, e);
    assert(ser(f[20].1) == le32(flags));
    assert(ser_fields_from(f, 20, e) == le32(flags) + ver);
    lemma_ser_step(f, 19, e);
    lemma_ser_step(f, 18, e);
    lemma_ser_step(f, 17, e);
    lemma_ser_step(f, 16, e);
    lemma_ser_step(f, 15, e);
    lemma_ser_step(f, 14, e);
    lemma_ser_step(f, 13, e);
    lemma_ser_step(f, 12, e);
    lemma_ser_step(f, 11, e);
    lemma_ser_step(f, 10, e);
    lemma_ser_step(f, 9, e);
    lemma_ser_step(f, 8, e);
    lemma_ser_step(f, 7, e);
    lemma_ser_step(f, 6, e);
    lemma_ser_step(f, 5, e);
    lemma_ser_step(f, 4, e);
    lemma_ser_step(f, 3, e);
    lemma_ser_step(f, 2, e);
    lemma_ser_step(f, 1, e);
    lemma_ser_step(f, 0, e);
    assert(ser(f[19].1) == le32(v[5].1));
    assert(ser(f[18].1) == le16(v[5].0));
    assert(ser(f[17].1) == le16(v[5].0));
    assert(ser(f[16].1) == le32(v[4].1));
    assert(ser(f[15].1) == le16(v[4].0));
    assert(ser(f[14].1) == le16(v[4].0));
    assert(ser(f[13].1) == le32(v[3].1));
    assert(ser(f[12].1) == le16(v[3].0));
    assert(ser(f[11].1) == le16(v[3].0));
    assert(ser(f[10].1) == le32(v[2].1));
    assert(ser(f[9].1) == le16(v[2].0));
    assert(ser(f[8].1) == le16(v[2].0));
    assert(ser(f[7].1) == le32(v[1].1));
    assert(ser(f[6].1) == le16(v[1].0));
    assert(ser(f[5].1) == le16(v[1].0));
    assert(ser(f[4].1) == le32(v[0].1));
    assert(ser(f[3].1) == le16(v[0].0));
    assert(ser(f[2].1) == le16(v[0].0));
    assert(ser(f[1].1) == le32(3));
    assert(ser(f[0].1) == ntlmssp());
    assert(version_bytes().len() == 8);
}

/// C04: in header ++ MIC(16) ++ payload every (Len, BufferOffset) pair written by authenticate_message addresses exactly its field
pub proof fn lemma_auth_fields_addressed(lm: Seq<u8>, nt: Seq<u8>, d: Seq<u8>, u: Seq<u8>, w: Seq<u8>, k: Seq<u8>, flags: u32, mic: Seq<u8>)
    requires mic.len() == 16, lm.len() <= 0xffff, nt.len() <= 0xffff, d.len() <= 0xffff, u.len() <= 0xffff, w.len() <= 0xffff, k.len() <= 0xffff
    ensures ({
        let v = auth_descs(lm.len() as int, nt.len() as int, d.len() as int, u.len() as int, w.len() as int, k.len() as int, flags);
        let msg = auth_bytes_raw(v, flags) + mic + (lm + nt + d + u + w + k);
        &&& msg.subrange(v[0].1 as int, v[0].1 + v[0].0) == lm
        &&& msg.subrange(v[1].1 as int, v[1].1 + v[1].0) == nt
        &&& msg.subrange(v[2].1 as int, v[2].1 + v[2].0) == d
        &&& msg.subrange(v[3].1 as int, v[3].1 + v[3].0) == u
        &&& msg.subrange(v[4].1 as int, v[4].1 + v[4].0) == w
        &&& msg.subrange(v[5].1 as int, v[5].1 + v[5].0) == k
        &&& msg.len() == v[5].1 + v[5].0
    })
{
    let v = auth_descs(lm.len() as int, nt.len() as int, d.len() as int, u.len() as int, w.len() as int, k.len() as int, flags);
    lemma_auth_view_bytes(v, flags);
    let h = auth_bytes_raw(v, flags);
    let msg = h + mic + (lm + nt + d + u + w + k);
    let base = auth_fixed_len(flags) + 16;
    assert(v[0] == (lm.len() as u16, base as u32));
    assert(v[1] == (nt.len() as u16, (base + lm.len()) as u32));
    assert(v[2] == (d.len() as u16, (base + lm.len() + nt.len()) as u32));
    assert(v[3] == (u.len() as u16, (base + lm.len() + nt.len() + d.len()) as u32));
    assert(v[4] == (w.len() as u16, (base + lm.len() + nt.len() + d.len() + u.len()) as u32));
    assert(v[5] == (k.len() as u16, (base + lm.len() + nt.len() + d.len() + u.len() + w.len()) as u32));
    assert(msg.subrange(v[0].1 as int, v[0].1 + v[0].0) =~= lm);
    assert(msg.subrange(v[1].1 as int, v[1].1 + v[1].0) =~= nt);
    assert(msg.subrange(v[2].1 as int, v[2].1 + v[2].0) =~= d);
    assert(msg.subrange(v[3].1 as int, v[3].1 + v[3].0) =~= u);
    assert(msg.subrange(v[4].1 as int, v[4].1 + v[4].0) =~= w);
    assert(msg.subrange(v[5].1 as int, v[5].1 + v[5].0) =~= k);
}
pub proof fn lemma_version_bytes() ensures ser(version_view()) =~= version_bytes(), version_bytes().len() == 8
{
    reveal_with_fuel(ser, 8); reveal_with_fuel(ser_fields_from, 8); reveal_with_fuel(ser_seq_from, 8);
    let f = version_view()->Comp_0;
    assert(f.len() == 5);
    assert(le16(0) =~= seq![0u8, 0u8]) by { assert((0u16 & 0xff) as u8 == 0u8 && ((0u16 >> 8) & 0xff) as u8 == 0u8) by(bit_vector); }
    assert(ser(f[3].1) =~= seq![0u8, 0u8, 0u8]);
    assert(ser(f[0].1) =~= seq![6u8]);
    assert(ser(f[1].1) =~= seq![0u8]);
    assert(ser(f[2].1) =~= le16(6002));
    assert(ser(f[4].1) =~= seq![0x0Fu8]);
}
""", mod="ntlm", name="auth_message_specs"))

A(Raw(r"""
/// the AUTHENTICATE token as a function of what went into it (MS-NLMP 3.1.5.1.2): header ++ MIC ++ payload, the MIC being HMAC_MD5(ExportedSessionKey,
/// NEGOTIATE ++ CHALLENGE ++ AUTHENTICATE with a zero MIC), the payload LmResponse ++ NtResponse ++ Domain ++ User ++ RC4K(KeyExchangeKey, ExportedSessionKey)
pub open spec fn is_auth_token(tok: Seq<u8>, key_nt: Seq<u8>, key_lm: Seq<u8>, dom: Seq<u8>, usr: Seq<u8>, k: Seq<u8>, neg: Seq<u8>, chal: Seq<u8>,
                               sc: Seq<u8>, cc: Seq<u8>, time: Seq<u8>, info: Seq<u8>, hdr: Seq<u8>) -> bool {
    let temp = ntlm_temp(time, cc, info);
    let pr = nt_proof_str(key_nt, sc, temp);
    let lm = hmac_md5_spec(key_lm, sc + cc) + cc;
    let enc = rc4::rc4_xor(rc4::ksa(session_base_key(key_nt, pr)), k);
    let payload = lm + (pr + temp) + dom + usr + enc;
    &&& cc.len() == 8 && (hdr.len() == 64 || hdr.len() == 72)
    &&& tok == hdr + hmac_md5_spec(k, neg + chal + (hdr + zeros(16) + payload)) + payload
}
""", mod="ntlm", name="auth_token_spec"))

A(Raw(r"""
// ---------------- NEGOTIATE_MESSAGE (MS-NLMP 2.2.1.1) as this client sends it: no domain, no workstation, empty payload
pub open spec fn negotiate_view(flags: u32) -> MV {
    MV::Comp(seq![("Signature"@, MV::Bytes(ntlmssp())), ("MessageType"@, MV::U32(1, true)), ("NegotiateFlags"@, MV::Dyn(Box::new(MV::U32(flags, true)), flags_ov(flags))),
                  ("DomainNameLen"@, MV::U16(0, true)), ("DomainNameMaxLen"@, MV::U16(0, true)), ("DomainNameBufferOffset"@, MV::U32(0, true)),
                  ("WorkstationLen"@, MV::U16(0, true)), ("WorkstationMaxLen"@, MV::U16(0, true)), ("WorkstationBufferOffset"@, MV::U32(0, true)),
                  ("Version"@, version_view()), ("Payload"@, MV::Bytes(Seq::empty()))])
}
pub open spec fn negotiate_bytes(flags: u32) -> Seq<u8> {
    ntlmssp() + (le32(1) + (le32(flags) + desc_then((0u16, 0u32), desc_then((0u16, 0u32), if flags & 0x02000000 == 0 { Seq::<u8>::empty() } else { version_bytes() }))))
}
/// the flags create_negotiate_message announces: KEY_EXCH | 128 | EXTENDED_SESSIONSECURITY | ALWAYS_SIGN | NTLM | SEAL | SIGN | REQUEST_TARGET | UNICODE
pub open spec fn client_negotiate_flags() -> u32 { 0x60088235 }
pub proof fn lemma_negotiate_view_bytes(flags: u32)
    ensures ser(negotiate_view(flags)) == negotiate_bytes(flags), negotiate_bytes(flags).len() == (if flags & 0x02000000 == 0 { 32int } else { 40int })
{
    lemma_keys();
    let f = negotiate_view(flags)->Comp_0; let e = Set::<Seq<char>>::empty();
    reveal_with_fuel(ser, 3);
    assert(f.len() == 11);
    let s2 = match flags_ov(flags) { OV::Skip(k) => e.insert(k), _ => e };
    let ver = if flags & 0x02000000 == 0 { Seq::<u8>::empty() } else { version_bytes() };
    assert(ser_fields_from(f, 11, s2) =~= Seq::<u8>::empty()) by { reveal_with_fuel(ser_fields_from, 2); }
    lemma_ser_step(f, 10, s2);
    assert(ser(f[10].1) =~= Seq::<u8>::empty());
    assert(ser_fields_from(f, 10, s2) =~= Seq::<u8>::empty());
    assert(ser_fields_from(f, 9, s2) =~= ver) by {
        if flags & 0x02000000 == 0 {
            assert(s2.contains(f[9].0));
            reveal_with_fuel(ser_fields_from, 2);
        } else {
            lemma_ser_step(f, 9, s2);
            lemma_version_bytes();
        }
    }
    lemma_ser_step(f, 8, s2); lemma_ser_step(f, 7, s2); lemma_ser_step(f, 6, s2); lemma_ser_step(f, 5, s2); lemma_ser_step(f, 4, s2); lemma_ser_step(f, 3, s2);
    lemma_ser_step(f, 2, e); lemma_ser_step(f, 1, e); lemma_ser_step(f, 0, e);
    assert(ser(f[8].1) == le32(0)); assert(ser(f[7].1) == le16(0)); assert(ser(f[6].1) == le16(0));
    assert(ser(f[5].1) == le32(0)); assert(ser(f[4].1) == le16(0)); assert(ser(f[3].1) == le16(0));
    assert(ser(f[2].1) == le32(flags)); assert(ser(f[1].1) == le32(1)); assert(ser(f[0].1) == ntlmssp());
    assert(version_bytes().len() == 8);
}

/// C16: mirrored contexts (the peer's encrypt handle is in the state of my decrypt handle, its signing key is my verify key): what the peer seals I accept
/// and get the message back; the token is 16 bytes longer than the message, so both handles move by |m| + 8 and the contexts stay mirrored
pub proof fn lemma_mirrored_contexts(peer: &NTLMv2SecurityInterface, me: &NTLMv2SecurityInterface, m: Seq<u8>)
    requires peer.encrypt.view() == me.decrypt.view(), peer.signing_key@ == me.verify_key@
    ensures me.unseal_spec(peer.seal_spec(m)) == Some(m), peer.seal_spec(m).len() == m.len() + 16
{
    broadcast use axiom_digest_len;
    let st = peer.encrypt.view();
    lemma_unwrap_wrap(st, peer.signing_key@, peer.seq_num, m);
    rc4::lemma_keystream_len(st, m.len());
    rc4::lemma_keystream_len(rc4::advance(st, m.len()), 8);
    assert(le32(1).len() == 4 && le32(peer.seq_num).len() == 4);
}
""", mod="ntlm", name="negotiate_specs"))

MO = "-> (r: MessageOption)"
FLAGS_CLOSURE = dict(params="node: &U32", ret=MO, spec="ensures r.ov() == flags_ov(node.val())")
VERSION_FLAG_HINT = (r"if node\.inner\(\) & \(Negotiate::NtlmsspNegociateVersion as u32\) == 0", 1,
                     "proof { assert(Negotiate::NtlmsspNegociateVersion as u32 == 0x02000000u32); }", "before")

FNS = {}
def F(name, hdr=None, **kw):
    FNS[(name, hdr)] = kw

IMPL_NTLM = "impl Ntlm"
IMPL_AUTH = "impl AuthenticationProtocol for Ntlm"
IMPL_SEC = "impl NTLMv2SecurityInterface"
IMPL_GSS = "impl GenericSecurityService for NTLMv2SecurityInterface"

# ---------------- builders
F("version", ret="c", props=["C04"], fuel=8,
  ensures=shape_clauses(NTLM, "version", res="c") + [("C04", "view", "c.mv() == version_view()"), ("C04,C15", "bytes", "ser(c.mv()) =~= version_bytes()"),
                                                    (None, "static", "is_static(c.mv()) && ser(c.mv()).len() == 8")],
  post="""proof {
        let f = c.fields();
        assert(f[3].1 is Trame);
        let t = f[3].1->Trame_0;
        assert(t =~= seq![MV::U16(0, true), MV::U8(0)]);
        assert(f =~= version_view()->Comp_0);
        reveal_with_fuel(is_static, 4);
        assert(le16(0) =~= seq![0u8, 0u8]) by { assert((0u16 & 0xff) as u8 == 0u8 && ((0u16 >> 8) & 0xff) as u8 == 0u8) by(bit_vector); }
        assert(ser(f[3].1) =~= seq![0u8, 0u8, 0u8]);
        assert(ser(f[0].1) =~= seq![6u8]);
        assert(ser(f[1].1) =~= seq![0u8]);
        assert(ser(f[2].1) =~= le16(6002));
        assert(ser(f[4].1) =~= seq![0x0Fu8]);
        assert(is_static(f[3].1));
  }""")
F("negotiate_message", ret="c", props=["C04", "C03"], closures={1: FLAGS_CLOSURE},
  ensures=shape_clauses(NTLM, "negotiate_message", res="c") + [("C04", "view", "c.mv() == negotiate_view(flags)"), ("C04,C15", "bytes", "ser(c.mv()) == negotiate_bytes(flags)")],
  post="proof { let f = c.fields(); assert(f[0].1->Bytes_0 =~= ntlmssp()); assert(f =~= negotiate_view(flags)->Comp_0); lemma_negotiate_view_bytes(flags); }")
F("challenge_message", ret="c", props=["C07"], closures={1: FLAGS_CLOSURE},
  ensures=shape_clauses(NTLM, "challenge_message", res="c") + [("C07", "view", "c.mv() == challenge_view()"),
      ("C07", "options", "c.ranges().len() == 13 && forall|i: int, o: OV| 0 <= i < 13 && #[trigger] c.ranges()[i].contains(o) ==> o == OV::None || o == OV::Skip(\"Version\"@)")],
  post="proof { assert(0u32 & 0x02000000 == 0) by(bit_vector); let f = c.fields(); assert(f[6].1->Bytes_0 =~= zeros(8)); assert(f[7].1->Bytes_0 =~= zeros(8)); assert(f =~= challenge_view()->Comp_0); }")
_AN = ["lm_challenge_response", "nt_challenge_response", "domain", "user", "workstation", "encrypted_random_session_key"]
_AL = [n + "@.len()" for n in _AN]
AUTH_SMALL = " && ".join(l + " <= 0xffff" for l in _AL)
AUTH_DESCS = "auth_descs(%s, flags)" % ", ".join("%s as int" % l for l in _AL)
F("authenticate_message", props=["C04", "C15", "C07"], body_sub=CONCAT_VECS, closures={1: FLAGS_CLOSURE},
  requires=[" + ".join(_AL) + " <= 0x7fffffff"],
  ensures=shape_clauses(NTLM, "authenticate_message", res="r.0") + [
      ("C04,C15", "payload", "r.1@ =~= " + " + ".join(n + "@" for n in _AN)),
      ("C04,C15", "layout", "r.0.mv() == auth_view(auth_vals(r.0.mv()), flags)"),
      ("C04,C15", "bytes", "ser(r.0.mv()) == auth_bytes_raw(auth_vals(r.0.mv()), flags) && ser(r.0.mv()).len() == auth_fixed_len(flags)"),
      ("C04,C15", "descriptors", "%s ==> auth_vals(r.0.mv()) == %s" % (AUTH_SMALL, AUTH_DESCS))],
  pre="proof { reveal_with_fuel(flat, 8); }",
  post="""proof { let f = r.0.fields(); let v = auth_vals(r.0.mv()); assert(f.len() == 22); assert(v.len() == 6);
   assert(f[0].1->Check_0->Bytes_0 =~= ntlmssp());
   assert(f =~= auth_view(v, flags)->Comp_0);
   lemma_auth_view_bytes(v, flags);
   if %s { assert(v =~= %s); }
 }""" % (AUTH_SMALL, AUTH_DESCS))
F("get_payload_field", props=["C07", "C04", "C15"],
  requires=["payload_last(message.fields())"],
  # C15 "every target-information block": a (length, offset) pair is REFUSED only when it really leaves the payload (a field that starts exactly at the
  # first payload byte, e.g. TargetInfo after an empty TargetName, is inside)
  claims=[(r"return Err\(.*field offset inside the header", 1, "proof { assert((buffer_offset as int) < ser(message.mv()).len() - payload@.len()); }", "before", "C15,C04", "offset-refused-only-inside-the-header"),
          (r"return Err\(.*field outside the payload", 1, "proof { assert(buffer_offset as int + length as int > ser(message.mv()).len()); }", "before", "C15,C04", "field-refused-only-outside-the-payload")],
  ensures=[("C07,C04", "field-inside-the-message", "r is Ok ==> buffer_offset + length <= ser(message.mv()).len() && r->Ok_0@ == ser(message.mv()).subrange(buffer_offset as int, buffer_offset + length)"),
           (None, "length", "r is Ok ==> r->Ok_0@.len() == length")],
  pre="""proof { lemma_payload_suffix(message.fields(), 0, Set::empty()); reveal_with_fuel(ser, 1);
        let f = message.fields(); assert(has_key(f, "Payload"@)); assert(first_key(f, "Payload"@) == f.len() - 1); }""")
F("av_pair", ret="c", props=["C07"],
  closures={1: dict(params="node: &U16", ret=MO, spec='ensures r.ov() == OV::Size("Value"@, node.val() as usize)')},
  ensures=shape_clauses(NTLM, "av_pair", res="c") + [("C07", "view", "c.mv() == av_pair_view()"),
      ("C07", "options", "c.ranges().len() == 3 && forall|i: int, o: OV| 0 <= i < 3 && #[trigger] c.ranges()[i].contains(o) ==> o == OV::None || (o is Size && o->Size_0 == \"Value\"@)")],
  post="proof { assert(c.fields() =~= av_pair_view()->Comp_0); }")
SUM8 = "(if check_sum is Some { check_sum->Some_0@.take(8) } else { zeros(8) })"
SEQ = "(if seq_num is Some { seq_num->Some_0 } else { 0u32 })"
F("message_signature_ex", ret="c", props=["C16", "C04", "C07", "C01"], fuel=5,
  requires=["check_sum is Some ==> check_sum->Some_0@.len() >= 8"],
  ensures=shape_clauses(NTLM, "message_signature_ex", res="c") + [
      ("C16,C04,C01", "view", "c.mv() == signature_view(%s, %s)" % (SUM8, SEQ)),
      ("C16,C04,C01", "bytes", "ser(c.mv()) =~= le32(1) + %s + le32(%s)" % (SUM8, SEQ))],
  post="proof { let f = c.fields(); assert(f[1].1->Bytes_0 =~= %s); assert(f =~= signature_view(%s, %s)->Comp_0); }" % (SUM8, SUM8, SEQ))
F("read_target_info", props=["C07", "C15"], nloops=1,
  # MS-NLMP 2.2.2.1: the AV_PAIR list ends at MsvAvEOL: the walk stops only there (every exit of the loop), and a pair that is not EOL is recorded
  claims=[(r"break;", 0, "proof { assert(av_id is MsvAvEOL); }", "before", "C15,C07", "walk-stops-only-at-MsvAvEOL"),
          (r"result\.insert\(av_id,", 1, "proof { assert(!(av_id is MsvAvEOL)); }", "before", "C15,C07", "eol-is-not-recorded")],
  loops={1: "invariant stream.rest().len() <= data@.len(), values_bounded(&result, data@.len() as int)\n decreases stream.rest().len()"},
  ensures=[("C07", "values-inside-the-input", "r is Ok ==> values_bounded(&r->Ok_0, data@.len() as int)")],
  hints=[(r"element\.read\(&mut stream\)\?;", 1, """proof { lemma_av_pair_min(); lemma_keys();
            element.axiom_ranges();
            reveal_with_fuel(same_shape, 3);
            let f = av_pair_view()->Comp_0; let e = element.fields();
            assert(f.len() == 3 && e.len() == 3);
            assert(f[0].0 == e[0].0 && same_shape(f[0].1, e[0].1));
            assert(f[1].0 == e[1].0 && same_shape(f[1].1, e[1].1));
            assert(f[2].0 == e[2].0 && same_shape(f[2].1, e[2].1));
            assert(element.ranges()[0].contains(opt_of(e[0].1)));
            assert(element.ranges()[1].contains(opt_of(e[1].1)));
            reveal_with_fuel(ser, 5); reveal_with_fuel(ser_fields_from, 5);
            assert(e[2].1 is Bytes);
            assert(ser(element.mv()).len() == 4 + e[2].1->Bytes_0.len());
            assert(first_key(e, "Value"@) == 2);
            assert(rest0.len() <= data@.len());
            assert(ser(element.mv()).len() + stream.rest().len() <= rest0.len());
            assert(e[2].1->Bytes_0.len() + 4 <= data@.len());
        }"""),
         (r"element\.read\(&mut stream\)\?;", 1, "let ghost rest0 = stream.rest();", "before"),
         (r"result\.insert\(av_id, ", 1, "let ghost m0 = result.m();", "before"),
         (r"result\.insert\(av_id, ", 1, "proof { assert forall|k: AvId| #[trigger] result.m().contains_key(k) implies result.m()[k]@.len() + 4 <= data@.len() by { if k != av_id.kv() { assert(m0.contains_key(k)); } } }")])
F("z", props=["C15"], ensures=["r@ =~= zeros(m as nat)"])
F("ntowfv2", props=["C15", "C17"], body_sub=UPPER,
  ensures=[("C15,C17", "ntowfv2", "r@ == ntowfv2_of_hash(nt_hash_of(password@), user@, domain@)")])
F("ntowfv2_hash", props=["C15"], body_sub=UPPER,
  ensures=[("C15", "ntowfv2-from-hash", "r@ == ntowfv2_of_hash(hash@, user@, domain@)")])
F("lmowfv2", props=["C15"], ensures=[("C15", "lmowfv2", "r@ == ntowfv2_of_hash(nt_hash_of(password@), user@, domain@)")])
TEMP = "ntlm_temp(time@, client_challenge@, server_name@)"
PROOF = "nt_proof_str(response_key_nt@, server_challenge@, %s)" % TEMP
F("compute_response_v2", props=["C15", "C07"], body_sub=CONCAT_VECS,
  pre="broadcast use axiom_digest_len; proof { reveal_with_fuel(flat, 9); }",
  ensures=[("C15", "nt-response", "r.0@ =~= %s + %s" % (PROOF, TEMP)),
           ("C15", "nt-response-verifies", "nt_response_verifies(response_key_nt@, server_challenge@, r.0@)"),
           ("C15", "lm-response", "r.1@ =~= hmac_md5_spec(response_key_lm@, server_challenge@ + client_challenge@) + client_challenge@"),
           ("C15", "lm-response-verifies", "client_challenge@.len() == 8 ==> lm_response_verifies(response_key_lm@, server_challenge@, r.1@)"),
           ("C15", "session-base-key", "r.2@ == session_base_key(response_key_nt@, %s)" % PROOF)],
  hints=[(r"let nt_proof_str = ", 1, "proof { assert(temp@ =~= %s); }" % TEMP, "before"),
         (r"let nt_proof_str = ", 1, "proof { assert(nt_proof_str@ == hmac_md5_spec(response_key_nt@, server_challenge@ + temp@)); }"),
         (r"let session_base_key = ", 1, "proof { lemma_nt_response_verifies(response_key_nt@, server_challenge@, %s); if client_challenge@.len() == 8 { lemma_lm_response_verifies(response_key_lm@, server_challenge@, client_challenge@); } }" % TEMP)])
F("kx_key_v2", props=["C15"], body_sub=CONCAT_SLICES, ensures=[("C15", "key-exchange-key", "r@ == session_base_key@")])
F("rc4k", props=["C15", "C07"], body_sub=CONCAT_SLICES, requires=["1 <= key@.len() <= 256"], ensures=[("C15", "rc4k", "r@ =~= rc4::rc4_xor(rc4::ksa(key@), plaintext@)")])
F("mic", props=["C15", "C07"], body_sub=CONCAT_VECS, pre="proof { reveal_with_fuel(flat, 5); }",
  ensures=[("C15", "mic", "r@ == hmac_md5_spec(exported_session_key@, negotiate_message@ + challenge_message@ + authenticate_message@)")])
F("sign_key", props=["C16"], body_sub=CONCAT_SLICES, pre="proof { reveal_with_fuel(flat, 4); }",
  ensures=[("C16", "signkey", "r@ == sign_key_spec(exported_session_key@, if is_client { c2s_sign_magic() } else { s2c_sign_magic() })")])
F("seal_key", props=["C16"], body_sub=CONCAT_SLICES, pre="proof { reveal_with_fuel(flat, 4); }",
  ensures=[("C16", "sealkey", "r@ == sign_key_spec(exported_session_key@, if is_client { c2s_seal_magic() } else { s2c_seal_magic() })")])
F("mac", props=["C16", "C07"], body_sub=CONCAT_SLICES, fuel=3,
  pre="broadcast use axiom_digest_len; proof { reveal_with_fuel(flat, 4); lemma_rc4_wf(rc4_handle); }",
  ensures=[("C16", "mac", "r@ =~= mac_spec(old(rc4_handle).view(), signing_key@, seq_num, data@)"),
           ("C16", "handle-advanced-by-8", "final(rc4_handle).view() == rc4::advance(old(rc4_handle).view(), 8)")])
F("new", IMPL_NTLM, props=["C15", "C17"],
  ensures=[("C15,C17", "response-keys", "r.response_key_nt@ == ntowfv2_of_hash(nt_hash_of(password@), user@, domain@) && r.response_key_lm@ == r.response_key_nt@"),
           (None, "fields", "r.domain@ == domain@ && r.user@ == user@ && r.password@ == password@ && r.negotiate_message is None && r.exported_session_key is None && !r.is_unicode")])
F("from_hash", IMPL_NTLM, props=["C15"], pre='proof { reveal_strlit(""); }',
  ensures=[("C15", "response-keys", "r.response_key_nt@ == ntowfv2_of_hash(password_hash@, user@, domain@) && r.response_key_lm@ == r.response_key_nt@"),
           (None, "fields", "r.domain@ == domain@ && r.user@ == user@ && r.password@.len() == 0 && r.negotiate_message is None && r.exported_session_key is None && !r.is_unicode")])
F("create_negotiate_message", IMPL_AUTH, props=["C03", "C04"],
  ensures=[("C04,C03", "negotiate-bytes", "r is Ok && r->Ok_0@ == negotiate_bytes(client_negotiate_flags()) && r->Ok_0@.len() == 32"),
           ("C03", "remembered-for-the-mic", "final(self).negotiate_message is Some && final(self).negotiate_message->Some_0@ == r->Ok_0@"),
           (None, "frame", "final(self).exported_session_key == old(self).exported_session_key && final(self).response_key_nt == old(self).response_key_nt && final(self).response_key_lm == old(self).response_key_lm"
                           " && final(self).domain == old(self).domain && final(self).user == old(self).user && final(self).password == old(self).password && final(self).is_unicode == old(self).is_unicode")],
  pre="""proof { lemma_negotiate_view_bytes(client_negotiate_flags());
        assert(0x40000000u32 | 0x20000000u32 | 0x00080000u32 | 0x00008000u32 | 0x00000200u32 | 0x00000020u32 | 0x00000010u32 | 0x00000004u32 | 0x00000001u32 == 0x60088235u32) by(bit_vector);
        assert(0x60088235u32 & 0x02000000u32 == 0) by(bit_vector); }""")
# ---------------- trait-impl methods that need a caller-order precondition.  A trait impl cannot add `requires`, so the REAL body is verified as an
# inherent twin `<name>_checked` (impl header rewritten by impl_sub, function renamed) under the stated precondition, and the trait-impl method itself
# is left as a stub WITHOUT any contract of its own (nothing about it is assumed beyond what the trait declares).  Each is reported as a finding.
TWINS = {}
def T(name, hdr, why, **kw):
    TWINS[(name, hdr)] = (why, kw)
NAME_BOUND = 0x07ffffff
T("read_challenge_message", IMPL_AUTH,
  why="verified as Ntlm::read_challenge_message_checked under `negotiate_message is Some` (create_negotiate_message was called before: cssp_connect does) and domain/user names below 2^27 characters",
  props=["C07", "C15", "C04"], keys=True, fuel=5,
  requires=["old(self).negotiate_message is Some", "old(self).domain@.len() <= %d && old(self).user@.len() <= %d" % (NAME_BOUND, NAME_BOUND)],
  ensures=[("C15", "session-key-set", "r is Ok ==> final(self).exported_session_key is Some && final(self).exported_session_key->Some_0@.len() == 16"),
           (None, "frame", "final(self).negotiate_message == old(self).negotiate_message && final(self).response_key_nt == old(self).response_key_nt && final(self).response_key_lm == old(self).response_key_lm"
                           " && final(self).domain == old(self).domain && final(self).user == old(self).user && final(self).password == old(self).password"),
           ("C15,C04", "token", """r is Ok ==> exists|sc: Seq<u8>, cc: Seq<u8>, time: Seq<u8>, info: Seq<u8>, hdr: Seq<u8>| #[trigger] is_auth_token(r->Ok_0@, old(self).response_key_nt@, old(self).response_key_lm@,
            final(self).domain_spec(), final(self).user_spec(), final(self).exported_session_key->Some_0@, old(self).negotiate_message->Some_0@, request@, sc, cc, time, info, hdr)""")],
  pre="broadcast use axiom_digest_len, axiom_utf8_len, axiom_utf16le_len;",
  # C04/C15: what is fed to the NT response as the server's target information is the block that the CHALLENGE addresses with
  # TargetInfoLen / TargetInfoBufferOffset (fields 8 and 10 of the parsed layout), not some other field of the message
  claims=[(r"let target_info = read_target_info\(", 1, """proof { let f = result.fields();
            assert(f[8].0 == "TargetInfoLen"@ && f[10].0 == "TargetInfoBufferOffset"@ && f[8].1 is U16 && f[10].1 is U32);
            assert(first_key(f, "TargetInfoLen"@) == 8 && first_key(f, "TargetInfoBufferOffset"@) == 10);
            assert(target_name@ == ser(result.mv()).subrange(f[10].1->U32_0 as int, f[10].1->U32_0 + f[8].1->U16_0)); }""", "before", "C04,C15", "target-info-is-the-addressed-block")],
  hints=[(r"result\.read\(&mut stream\)\?;", 1, """proof {
            result.axiom_ranges();
            reveal_with_fuel(same_shape, 2);
            let g = challenge_view()->Comp_0; let f = result.fields();
            assert(g.len() == 13 && f.len() == 13);
            assert forall|i: int| 0 <= i < 13 implies (#[trigger] f[i]).0 == g[i].0 by { assert(g[i].0 == f[i].0 && same_shape(g[i].1, f[i].1)); }
            assert(g[12].0 == f[12].0 && same_shape(g[12].1, f[12].1));
            assert forall|i: int| 0 <= i < 13 implies opt_of((#[trigger] f[i]).1) != OV::Skip("Payload"@) by { assert(result.ranges()[i].contains(opt_of(f[i].1))); }
            assert(payload_last(f));
        }"""),
         (r"let tmp_final_auth_message = ", 1, "let ghost hdr = ser(auth_message_compute.0.mv()); let ghost pl = auth_message_compute.1@;", "before")],
  post="""proof {
            let k = self.exported_session_key->Some_0@;
            assert(tmp_final_auth_message@ =~= hdr + zeros(16) + pl);
            assert(r->Ok_0@ =~= hdr + signature@ + pl);
            assert(pl =~= lm_challenge_response@ + nt_challenge_response@ + domain@ + user@ + encrypted_random_session_key@);
            assert(is_auth_token(r->Ok_0@, old(self).response_key_nt@, old(self).response_key_lm@, self.domain_spec(), self.user_spec(), k, old(self).negotiate_message->Some_0@, request@,
                server_challenge@, client_challenge@, timestamp@, target_name@, hdr));
        }""")
T("build_security_interface", IMPL_AUTH,
  why="verified as Ntlm::build_security_interface_checked under `exported_session_key is Some` (read_challenge_message returned Ok before: cssp_connect calls it after)",
  props=["C16"], requires=["self.exported_session_key is Some"], pre="broadcast use axiom_digest_len;",
  ensures=[("C16", "client-seals-with-c2s-keys-from-seq-0", "forall|d: Seq<u8>| #[trigger] r.seal_spec(d) == seal_spec_fn(rc4::ksa(sign_key_spec(self.exported_session_key->Some_0@, c2s_seal_magic())), sign_key_spec(self.exported_session_key->Some_0@, c2s_sign_magic()), 0, d)"),
           ("C16", "client-unseals-with-s2c-keys", "forall|d: Seq<u8>| #[trigger] r.unseal_spec(d) == unseal_spec_fn(rc4::ksa(sign_key_spec(self.exported_session_key->Some_0@, s2c_seal_magic())), sign_key_spec(self.exported_session_key->Some_0@, s2c_sign_magic()), d)")])
F("get_domain_name", IMPL_AUTH, props=["C17"])
F("get_user_name", IMPL_AUTH, props=["C17"])
F("get_password", IMPL_AUTH, props=["C17"])
F("new", IMPL_SEC, props=["C16"],
  ensures=[("C16", "fields", "r.encrypt == encrypt && r.decrypt == decrypt && r.signing_key == signing_key && r.verify_key == verify_key && r.seq_num == 0")])
T("gss_wrapex", IMPL_GSS,
  why="verified as NTLMv2SecurityInterface::gss_wrapex_checked under `seq_num < u32::MAX` (fewer than 2^32 - 1 messages sealed so far)",
  props=["C16"], requires=["old(self).seq_num < u32::MAX"], fuel=4,
  pre="proof { lemma_rc4_wf(&self.encrypt); rc4::lemma_keystream_split(self.encrypt.view(), data@.len(), 8); }",
  ensures=[("C16", "seal", "r is Ok && r->Ok_0@ == old(self).seal_spec(data@)"),
           ("C16", "state-continuity", "final(self).encrypt.view() == rc4::advance(old(self).encrypt.view(), data@.len() + 8)"),
           ("C16", "sequence-number", "final(self).seq_num == old(self).seq_num + 1"),
           ("C16", "frame", "final(self).signing_key == old(self).signing_key && final(self).verify_key == old(self).verify_key && final(self).decrypt == old(self).decrypt")])
UNWRAP_HINTS = [
    (r"signature\.read\(&mut stream\)\?;", 1, "let ghost sig0 = signature.mv();", "before"),
    (r"signature\.read\(&mut stream\)\?;", 1, """proof {
            reveal_with_fuel(is_static, 3); reveal_with_fuel(same_shape, 3);
            reveal_with_fuel(ser, 5); reveal_with_fuel(ser_fields_from, 5);
            let g = sig0->Comp_0; let f = signature.fields();
            assert(g.len() == 3 && f.len() == 3);
            assert(g[0].0 == f[0].0 && same_shape(g[0].1, f[0].1));
            assert(g[1].0 == f[1].0 && same_shape(g[1].1, f[1].1));
            assert(g[2].0 == f[2].0 && same_shape(g[2].1, f[2].1));
            assert(is_static(sig0));
            assert(ser(sig0).len() == 16);
            assert(data@.len() >= 16);
            assert(f[0].1 == MV::Check(Box::new(MV::U32(1, true))));
            assert(f[1].1 is Bytes && f[1].1->Bytes_0.len() == 8);
            assert(f[2].1 is U32 && f[2].1->U32_1);
            assert(ser(signature.mv()) =~= le32(1) + f[1].1->Bytes_0 + le32(f[2].1->U32_0));
            assert(ser(signature.mv()) == data@.take(16));
            assert(data@.take(4) =~= le32(1));
            let t = data@.take(16); let cs = f[1].1->Bytes_0; let sn = le32(f[2].1->U32_0);
            assert(le32(1).len() == 4 && sn.len() == 4);
            assert(t == le32(1) + cs + sn);
            assert(t.subrange(4, 12) =~= cs);
            assert(t.subrange(12, 16) =~= sn);
            assert(data@.subrange(4, 12) =~= t.subrange(4, 12));
            assert(data@.subrange(12, 16) =~= t.subrange(12, 16));
            assert(stream.rest() =~= data@.skip(16));
            assert(first_key(f, "Checksum"@) == 1);
            assert(first_key(f, "SeqNum"@) == 2);
        }"""),
    # the function's tail expression (not an early `return Ok(..)`)
    (r"(?<!return )Ok\(plaintext_payload\)\s*\}\s*$", 1, """proof {
            assert(payload@ == data@.skip(16));
            assert(plaintext_payload@ == rc4::rc4_xor(st, payload@));
            assert(checksum@ == data@.subrange(4, 12));
            assert(plaintext_checksum@ == rc4::rc4_xor(rc4::advance(st, payload@.len()), checksum@));
            assert(seq_num@ == data@.subrange(12, 16));
            assert(computed_checksum@ == hmac_md5_spec(vk, seq_num@ + plaintext_payload@));
            assert(computed_checksum@.subrange(0, 8) =~= computed_checksum@.take(8));
            assert(plaintext_checksum@ == computed_checksum@.take(8));
            rc4::lemma_keystream_split(st, payload@.len(), 8);
        }""", "before"),
]
F("gss_unwrapex", IMPL_GSS, props=["C16", "C01", "C07"], body_sub=CONCAT_VECS, keys=True,
  pre="broadcast use axiom_digest_len; proof { lemma_rc4_wf(&self.decrypt); reveal_with_fuel(flat, 4); } let ghost st = self.decrypt.view(); let ghost vk = self.verify_key@;",
  hints=UNWRAP_HINTS,
  # once both reads succeeded the only rejection is a checksum mismatch (kills the "always reject" mutant, e.g. comparing against [0..7])
  claims=[(r"return Err\(.*InvalidChecksum", 1, """proof {
            assert(payload@ == data@.skip(16));
            assert(checksum@ == data@.subrange(4, 12));
            assert(seq_num@ == data@.subrange(12, 16));
            assert(computed_checksum@.subrange(0, 8) =~= computed_checksum@.take(8));
            assert(plaintext_checksum@ != computed_checksum@.take(8));
            assert(unseal_spec_fn(st, vk, data@) is None); }""", "before", "C16,C01", "rejected-only-on-checksum-mismatch")],
  ensures=[("C16", "state-continuity", "r is Ok ==> final(self).decrypt.view() == rc4::advance(old(self).decrypt.view(), (data@.len() - 8) as nat)"),
           ("C16", "frame", "final(self).seq_num == old(self).seq_num && final(self).verify_key == old(self).verify_key && final(self).signing_key == old(self).signing_key && final(self).encrypt == old(self).encrypt")])

IMPL_RAW = {
    IMPL_AUTH: r"""
    /// what get_domain_name / get_user_name / get_password return: UTF-16LE when the server negotiated unicode, the UTF-8 bytes otherwise
    open spec fn domain_spec(&self) -> Seq<u8> { if self.is_unicode { utf16le(self.domain@) } else { utf8_bytes(self.domain@) } }
    open spec fn user_spec(&self) -> Seq<u8> { if self.is_unicode { utf16le(self.user@) } else { utf8_bytes(self.user@) } }
    open spec fn password_spec(&self) -> Seq<u8> { if self.is_unicode { utf16le(self.password@) } else { utf8_bytes(self.password@) } }
""",
    IMPL_GSS: r"""
    open spec fn seal_spec(&self, data: Seq<u8>) -> Seq<u8> { seal_spec_fn(self.encrypt.view(), self.signing_key@, self.seq_num, data) }
    open spec fn unseal_spec(&self, data: Seq<u8>) -> Option<Seq<u8>> { unseal_spec_fn(self.decrypt.view(), self.verify_key@, data) }
""",
}

from vx.layouts import list_fns
import re as _re
_seen = set()
for name, hdr in list_fns(NTLM):
    impl = None
    if hdr:
        impl = _re.escape(hdr[5:]) if hdr.startswith("impl ") else _re.escape(hdr)
    if name in STUBS and impl is None:
        A(Stub(NTLM, name, mod="ntlm", **STUBS[name]))
        continue
    if hdr in IMPL_RAW and hdr not in _seen:
        _seen.add(hdr)
        A(Raw(IMPL_RAW[hdr], mod="ntlm", name="specs of " + hdr, file=NTLM, impl=impl))
    if (name, hdr) in TWINS:
        A(Stub(NTLM, name, impl=impl, mod="ntlm", why=TWINS[(name, hdr)][0]))
        continue
    kw = dict(FNS[(name, hdr)])
    A(Fn(NTLM, name, impl=impl, mod="ntlm", **kw))
# the twins: same source function, found through a (textually different) regex on the same impl header, placed in an inherent impl block
for (name, hdr), (why, kw) in TWINS.items():
    ty = hdr.split(" for ")[1]
    _t = Fn(NTLM, name, impl=_re.escape(hdr[5:]).replace("\\ ", r"\s+"), impl_sub=[(r"^impl .* for (\w+)$", r"impl \1")], rename=name + "_checked", mod="ntlm", **kw)
    _t.impl_label = ty
    A(_t)

UNIT = Unit("ntlm", ["base.rs", "model.rs", "leaf.rs", "lemmas.rs", "unicode.rs", "collections.rs"], items,
            uses={"ntlm": ["use super::rc4::*;", "use super::sspi::*;", "use super::rc4;"]}, mods=["rc4", "sspi", "ntlm"])
