"""unit ntlm: src/nla/ntlm.rs (NTLMv2 token computation, CHALLENGE parsing, session security) over unit rc4.
C15 (AUTHENTICATE accepted by an independent MS-NLMP server), C16 (sealing per MS-NLMP, state continuity, round trip, tamper rejection = acceptance condition),
C07 (hostile CHALLENGE bytes), C04 (NTLM field offsets), C17 (password enters only through MD4), C01 (gss_unwrapex acceptance condition)."""
from vx.spec import *
from vx.layouts import shape_clauses
from specs import rc4 as R

NTLM = "src/nla/ntlm.rs"

items = stubs_of(R.UNIT.items, "rc4")
A = items.append

A(Raw(r"""
/// src/nla/sspi.rs traits with their ghost contracts (identical text to unit cssp, which verifies cssp_connect against them)
pub trait GenericSecurityService {
    spec fn seal_spec(&self, data: Seq<u8>) -> Seq<u8>;
    spec fn unseal_spec(&self, data: Seq<u8>) -> Option<Seq<u8>>;
    fn gss_wrapex(&mut self, data: &[u8]) -> (r: RdpResult<Vec<u8>>)
        ensures r is Ok ==> r->Ok_0@ == old(self).seal_spec(data@);
    fn gss_unwrapex(&mut self, data: &[u8]) -> (r: RdpResult<Vec<u8>>)
        ensures r is Ok ==> old(self).unseal_spec(data@) == Some(r->Ok_0@);
}
pub trait AuthenticationProtocol {
    spec fn domain_spec(&self) -> Seq<u8>;
    spec fn user_spec(&self) -> Seq<u8>;
    spec fn password_spec(&self) -> Seq<u8>;
    fn create_negotiate_message(&mut self) -> (r: RdpResult<Vec<u8>>);
    fn read_challenge_message(&mut self, request: &[u8]) -> (r: RdpResult<Vec<u8>>);
    fn build_security_interface(&self) -> (r: Box<dyn GenericSecurityService>);
    fn get_domain_name(&self) -> (r: Vec<u8>) ensures r@ == self.domain_spec();
    fn get_user_name(&self) -> (r: Vec<u8>) ensures r@ == self.user_spec();
    fn get_password(&self) -> (r: Vec<u8>) ensures r@ == self.password_spec();
}
""", mod="sspi", name="sspi_contracts"))

# Verus 0.2026.09.13 quirk: an enum with explicit discriminants placed AFTER a body-less `uninterp spec fn` of the same module gets all
# discriminants evaluated to 0 (rustc E0081), so the enums come first in mod ntlm
for e in ("Negotiate", "MajorVersion", "MinorVersion", "NTLMRevision"):
    A(Item(NTLM, "enum", e, mod="ntlm"))
A(Item(NTLM, "enum", "AvId", mod="ntlm", strip_derive=["TryFromPrimitive", "Hash", "Debug"], try_from="u16"))
A(Raw(r"""
// ---------------- primitives (external crates md4 / md-5 / hmac: uninterpreted, no collision or one-wayness axiom is assumed)
pub uninterp spec fn md4_spec(data: Seq<u8>) -> Seq<u8>;
pub uninterp spec fn md5_spec(data: Seq<u8>) -> Seq<u8>;
pub uninterp spec fn hmac_md5_spec(key: Seq<u8>, data: Seq<u8>) -> Seq<u8>;
pub broadcast axiom fn axiom_digest_len(a: Seq<u8>, b: Seq<u8>)
    ensures #[trigger] md4_spec(a).len() == 16, #[trigger] md5_spec(a).len() == 16, #[trigger] hmac_md5_spec(a, b).len() == 16;
/// std: str::to_uppercase
pub uninterp spec fn upper(s: Seq<char>) -> Seq<char>;

// ---------------- MS-NLMP 3.3.2 (NTLM v2 authentication), 3.4 (session security): written from the specification
pub open spec fn zeros(n: nat) -> Seq<u8> { Seq::new(n, |i: int| 0u8) }
/// NTOWFv2 from the NT hash: HMAC_MD5(MD4(UNICODE(Passwd)), UNICODE(Uppercase(User) + UserDom))
pub open spec fn ntowfv2_of_hash(nt_hash: Seq<u8>, user: Seq<char>, domain: Seq<char>) -> Seq<u8> { hmac_md5_spec(nt_hash, utf16le(upper(user) + domain)) }
pub open spec fn nt_hash_of(password: Seq<char>) -> Seq<u8> { md4_spec(utf16le(password)) }
/// temp = Responserversion, HiResponserversion, Z(6), Time, ClientChallenge, Z(4), ServerName (the AV pairs sent by the server)
pub open spec fn ntlm_temp(time: Seq<u8>, client_challenge: Seq<u8>, server_name: Seq<u8>) -> Seq<u8> {
    seq![1u8, 1u8] + zeros(6) + time + client_challenge + zeros(4) + server_name
}
pub open spec fn nt_proof_str(key_nt: Seq<u8>, server_challenge: Seq<u8>, temp: Seq<u8>) -> Seq<u8> { hmac_md5_spec(key_nt, server_challenge + temp) }
/// what an MS-NLMP server checks (3.3.2): the first 16 bytes of NtChallengeResponse are HMAC_MD5(ResponseKeyNT, ServerChallenge + rest)
pub open spec fn nt_response_verifies(key_nt: Seq<u8>, server_challenge: Seq<u8>, resp: Seq<u8>) -> bool {
    resp.len() >= 16 && resp.take(16) == hmac_md5_spec(key_nt, server_challenge + resp.skip(16))
}
pub open spec fn lm_response_verifies(key_lm: Seq<u8>, server_challenge: Seq<u8>, resp: Seq<u8>) -> bool {
    resp.len() == 24 && resp.take(16) == hmac_md5_spec(key_lm, server_challenge + resp.skip(16))
}
pub open spec fn session_base_key(key_nt: Seq<u8>, proof: Seq<u8>) -> Seq<u8> { hmac_md5_spec(key_nt, proof) }
/// SIGNKEY / SEALKEY (3.4.5.2, 3.4.5.3) with extended session security and 128-bit keys
pub open spec fn c2s_sign_magic() -> Seq<u8>;
pub open spec fn sign_key_spec(exported: Seq<u8>, magic: Seq<u8>) -> Seq<u8> { md5_spec(exported + magic) }
/// MAC with extended session security and key exchange (3.4.4.2): Version 1, RC4(handle, HMAC_MD5(SigningKey, SeqNum + Message)[0..8]), SeqNum
pub open spec fn mac_spec(st: rc4::RcState, signing_key: Seq<u8>, seq_num: u32, message: Seq<u8>) -> Seq<u8> {
    le32(1) + rc4::rc4_xor(st, hmac_md5_spec(signing_key, le32(seq_num) + message).take(8)) + le32(seq_num)
}
/// SEAL (3.4.3): ciphertext from the handle, then the MAC whose checksum is encrypted by the SAME handle continuing after the message;
/// GSS_WrapEx as CredSSP uses it emits signature first, then ciphertext
pub open spec fn seal_spec_fn(st: rc4::RcState, signing_key: Seq<u8>, seq_num: u32, message: Seq<u8>) -> Seq<u8> {
    mac_spec(rc4::advance(st, message.len()), signing_key, seq_num, message) + rc4::rc4_xor(st, message)
}
""".replace("pub open spec fn c2s_sign_magic() -> Seq<u8>;\n", ""), mod="ntlm", name="ntlm_specs",
      trusted="md4 / md-5 / hmac crates: uninterpreted functions with 16-byte outputs (axiom_digest_len); str::to_uppercase uninterpreted"))

A(Raw(r"""
impl KeyView for AvId { type KV = AvId; open spec fn kv(&self) -> AvId { *self } }
""", mod="ntlm", name="avid_keyview"))
A(Item(NTLM, "struct", "Ntlm", mod="ntlm"))
A(Item(NTLM, "struct", "NTLMv2SecurityInterface", mod="ntlm"))

A(Raw(r"""
/// model::rnd::random (rand crate): `size` bytes from the thread RNG; nothing but the length is known
#[verifier::external_body]
pub fn random(size: usize) -> (r: Vec<u8>)
    ensures r@.len() == size
{ unimplemented!() }
""", mod="ntlm", name="random", trusted="model::rnd::random (rand crate): returns `size` unpredictable bytes; only the length is specified"))

A(Raw(r"""
/// stands for the expression `user.to_uppercase() + &domain` (std: str::to_uppercase, <String as Add<&str>>::add).
/// Verus 0.2026.09.13 dies on `String + &str` (internal error codegen_select_candidate) even when both functions have an
/// assume_specification, so the expression is named (declared rewrite R6 in ntowfv2 / ntowfv2_hash) and its std meaning assumed.
#[verifier::external_body]
pub fn upper_concat(user: &String, domain: &String) -> (r: String)
    ensures r@ == upper(user@) + domain@
{ unimplemented!() }
""", mod="ntlm", name="std_string",
      trusted="std string functions: str::to_uppercase (uninterpreted `upper`) followed by String + &str (concatenation of the character sequences)"))

A(Raw(r"""
// ---------------- `[a, b, ..].concat()` (std: <[V] as Concat<u8>>::concat, an unstable trait Verus cannot name): declared rewrite R6 to the two
// helpers below, whose REAL bodies are verified here (not trusted)
pub open spec fn flat(s: Seq<Seq<u8>>) -> Seq<u8> decreases s.len() { if s.len() == 0 { Seq::empty() } else { flat(s.drop_last()) + s.last() } }
pub fn concat_vecs(parts: &[Vec<u8>]) -> (r: Vec<u8>)
    ensures r@ == flat(parts@.map_values(|v: Vec<u8>| v@))
{
    let mut r: Vec<u8> = Vec::new();
    let ghost views = parts@.map_values(|v: Vec<u8>| v@);
    for i in 0..parts.len()
        invariant r@ == flat(views.take(i as int)), views == parts@.map_values(|v: Vec<u8>| v@),
    {
        r.extend_from_slice(parts[i].as_slice());
        proof { assert(views.take(i + 1).drop_last() =~= views.take(i as int)); }
    }
    proof { assert(views.take(parts.len() as int) =~= views); }
    r
}
pub fn concat_slices(parts: &[&[u8]]) -> (r: Vec<u8>)
    ensures r@ == flat(parts@.map_values(|v: &[u8]| v@))
{
    let mut r: Vec<u8> = Vec::new();
    let ghost views = parts@.map_values(|v: &[u8]| v@);
    for i in 0..parts.len()
        invariant r@ == flat(views.take(i as int)), views == parts@.map_values(|v: &[u8]| v@),
    {
        r.extend_from_slice(parts[i]);
        proof { assert(views.take(i + 1).drop_last() =~= views.take(i as int)); }
    }
    proof { assert(views.take(parts.len() as int) =~= views); }
    r
}
""", mod="ntlm", name="concat_helpers"))

# R6: `[x, y, ..].concat()` -> concat_vecs(&[x, y, ..]) / concat_slices(&[x, y, ..]); the opener is the `[` of an array literal whose matching `]` is followed by `.concat()`
_OPEN = r"(?<![\w\)\]!])\[(?=(?:[^\[\]]|\[[^\[\]]*\])*\]\.concat\(\))"
_CLOSE = r"\]\.concat\(\)"
CONCAT_VECS = [(_OPEN, "concat_vecs(&["), (_CLOSE, "])")]
CONCAT_SLICES = [(_OPEN, "concat_slices(&["), (_CLOSE, "])")]
UPPER = [(r"\(user\.to_uppercase\(\) \+ &domain\)", "upper_concat(user, domain)")]

A(Raw(r"""
/// GSS_UnwrapEx acceptance (3.4.3 / 3.4.4.2 mirrored): token = signature(16) ++ ciphertext; accepted iff the version word is 1 and the
/// checksum, decrypted by the handle continuing after the message, is HMAC_MD5(verify_key, SeqNum ++ plaintext)[0..8] for the SeqNum in the token
pub open spec fn unseal_spec_fn(st: rc4::RcState, verify_key: Seq<u8>, token: Seq<u8>) -> Option<Seq<u8>> {
    if token.len() < 16 || token.take(4) != le32(1) { None } else {
        let payload = token.skip(16);
        let p = rc4::rc4_xor(st, payload);
        let sum = rc4::rc4_xor(rc4::advance(st, payload.len()), token.subrange(4, 12));
        if sum == hmac_md5_spec(verify_key, token.subrange(12, 16) + p).take(8) { Some(p) } else { None }
    }
}
""", mod="ntlm", name="unseal_spec"))

STUBS = {
    "md4": dict(why="md4 crate", ensures=["r@ == md4_spec(data@)"]),
    "md5": dict(why="md-5 crate", ensures=["r@ == md5_spec(data@)"]),
    "hmac_md5": dict(why="hmac + md-5 crates", ensures=["r@ == hmac_md5_spec(key@, data@)"]),
    "unicode": dict(why="std str::encode_utf16 iterator", ensures=["r@ == utf16le(data@)"]),
}

A(Raw(r"""
// ---------------- layouts of the NTLM messages (MS-NLMP 2.2.1, 2.2.2.1, 2.2.2.9.1, 2.2.2.10) as ghost views
pub open spec fn ntlmssp() -> Seq<u8> { seq![0x4eu8, 0x54u8, 0x4cu8, 0x4du8, 0x53u8, 0x53u8, 0x50u8, 0u8] }
pub open spec fn version_view() -> MV {
    MV::Comp(seq![("ProductMajorVersion"@, MV::U8(6)), ("ProductMinorVersion"@, MV::U8(0)), ("ProductBuild"@, MV::U16(6002, true)),
                  ("Reserved"@, MV::Trame(seq![MV::U16(0, true), MV::U8(0)])), ("NTLMRevisionCurrent"@, MV::U8(0x0F))])
}
/// VERSION structure (2.2.2.10): major 6, minor 0, build 6002, 3 reserved bytes, NTLMSSP_REVISION_W2K3
pub open spec fn version_bytes() -> Seq<u8> { seq![6u8, 0u8] + le16(6002) + seq![0u8, 0u8, 0u8, 0x0Fu8] }
/// NTLMSSP_NEGOTIATE_VERSION (0x02000000) decides whether the Version field is on the wire
pub open spec fn flags_ov(v: u32) -> OV { if v & 0x02000000 == 0 { OV::Skip("Version"@) } else { OV::None } }
pub open spec fn challenge_view() -> MV {
    MV::Comp(seq![("Signature"@, MV::Check(Box::new(MV::Bytes(ntlmssp())))), ("MessageType"@, MV::Check(Box::new(MV::U32(2, true)))),
                  ("TargetNameLen"@, MV::U16(0, true)), ("TargetNameLenMax"@, MV::U16(0, true)), ("TargetNameBufferOffset"@, MV::U32(0, true)),
                  ("NegotiateFlags"@, MV::Dyn(Box::new(MV::U32(0, true)), OV::Skip("Version"@))),
                  ("ServerChallenge"@, MV::Bytes(zeros(8))), ("Reserved"@, MV::Bytes(zeros(8))),
                  ("TargetInfoLen"@, MV::U16(0, true)), ("TargetInfoMaxLen"@, MV::U16(0, true)), ("TargetInfoBufferOffset"@, MV::U32(0, true)),
                  ("Version"@, version_view()), ("Payload"@, MV::Bytes(Seq::empty()))])
}
pub open spec fn av_pair_view() -> MV {
    MV::Comp(seq![("AvId"@, MV::U16(0, true)), ("AvLen"@, MV::Dyn(Box::new(MV::U16(0, true)), OV::Size("Value"@, 0))), ("Value"@, MV::Bytes(Seq::empty()))])
}
/// NTLMSSP_MESSAGE_SIGNATURE with extended session security (2.2.2.9.2): Version 1, 8 byte checksum, sequence number
pub open spec fn signature_view(sum: Seq<u8>, seq_num: u32) -> MV {
    MV::Comp(seq![("Version"@, MV::Check(Box::new(MV::U32(1, true)))), ("Checksum"@, MV::Bytes(sum)), ("SeqNum"@, MV::U32(seq_num, true))])
}
""", mod="ntlm", name="ntlm_layouts"))

MO = "-> (r: MessageOption)"
FLAGS_CLOSURE = dict(params="node: &U32", ret=MO, spec="ensures r.ov() == flags_ov(node.val())")
VERSION_FLAG_HINT = (r"if node\.inner\(\) & \(Negotiate::NtlmsspNegociateVersion as u32\) == 0", 1,
                     "proof { assert(Negotiate::NtlmsspNegociateVersion as u32 == 0x02000000u32); }", "before")

FNS = {}
def F(name, hdr=None, **kw):
    FNS[(name, hdr)] = kw

IMPL_NTLM = "impl Ntlm"
IMPL_AUTH = "impl AuthenticationProtocol for Ntlm"
IMPL_SEC = "impl NTLMv2SecurityInterface"
IMPL_GSS = "impl GenericSecurityService for NTLMv2SecurityInterface"

# ---------------- builders
F("version", ret="c", props=["C04"], fuel=8,
  ensures=shape_clauses(NTLM, "version", res="c") + [("C04", "view", "c.mv() == version_view()"), ("C04", "bytes", "ser(c.mv()) =~= version_bytes()"),
                                                    (None, "static", "is_static(c.mv()) && ser(c.mv()).len() == 8")],
  post="""proof {
        let f = c.fields();
        assert(f[3].1 is Trame);
        let t = f[3].1->Trame_0;
        assert(t =~= seq![MV::U16(0, true), MV::U8(0)]);
        assert(f =~= version_view()->Comp_0);
        reveal_with_fuel(is_static, 4);
        assert(le16(0) =~= seq![0u8, 0u8]) by { assert((0u16 & 0xff) as u8 == 0u8 && ((0u16 >> 8) & 0xff) as u8 == 0u8) by(bit_vector); }
        assert(ser(f[3].1) =~= seq![0u8, 0u8, 0u8]);
        assert(ser(f[0].1) =~= seq![6u8]);
        assert(ser(f[1].1) =~= seq![0u8]);
        assert(ser(f[2].1) =~= le16(6002));
        assert(ser(f[4].1) =~= seq![0x0Fu8]);
        assert(is_static(f[3].1));
  }""")
F("negotiate_message", ret="c", props=["C04", "C03"], closures={1: FLAGS_CLOSURE},
  ensures=shape_clauses(NTLM, "negotiate_message", res="c"))
F("challenge_message", ret="c", props=["C07"], closures={1: FLAGS_CLOSURE},
  ensures=shape_clauses(NTLM, "challenge_message", res="c") + [("C07", "view", "c.mv() == challenge_view()")],
  post="proof { assert(0u32 & 0x02000000 == 0) by(bit_vector); let f = c.fields(); assert(f[6].1->Bytes_0 =~= zeros(8)); assert(f[7].1->Bytes_0 =~= zeros(8)); assert(f =~= challenge_view()->Comp_0); }")
F("authenticate_message", props=["C04", "C15"], body_sub=CONCAT_VECS, closures={1: FLAGS_CLOSURE})
F("get_payload_field", props=["C07"])
F("av_pair", ret="c", props=["C07"],
  closures={1: dict(params="node: &U16", ret=MO, spec='ensures r.ov() == OV::Size("Value"@, node.val() as usize)')},
  ensures=shape_clauses(NTLM, "av_pair", res="c") + [("C07", "view", "c.mv() == av_pair_view()")],
  post="proof { assert(c.fields() =~= av_pair_view()->Comp_0); }")
SUM8 = "(if check_sum is Some { check_sum->Some_0@.take(8) } else { zeros(8) })"
SEQ = "(if seq_num is Some { seq_num->Some_0 } else { 0u32 })"
F("message_signature_ex", ret="c", props=["C16", "C04"], fuel=5,
  requires=["check_sum is Some ==> check_sum->Some_0@.len() >= 8"],
  ensures=shape_clauses(NTLM, "message_signature_ex", res="c") + [
      ("C16,C04", "view", "c.mv() == signature_view(%s, %s)" % (SUM8, SEQ)),
      ("C16,C04", "bytes", "ser(c.mv()) =~= le32(1) + %s + le32(%s)" % (SUM8, SEQ))],
  post="proof { let f = c.fields(); assert(f[1].1->Bytes_0 =~= %s); assert(f =~= signature_view(%s, %s)->Comp_0); }" % (SUM8, SUM8, SEQ))
F("read_target_info", props=["C07"], nloops=1, loops={1: "decreases stream.rest().len()"})
F("z", props=["C15"], ensures=["r@ =~= zeros(m as nat)"])
F("ntowfv2", props=["C15", "C17"], body_sub=UPPER)
F("ntowfv2_hash", props=["C15"], body_sub=UPPER)
F("lmowfv2", props=["C15"])
F("compute_response_v2", props=["C15"], body_sub=CONCAT_VECS)
F("kx_key_v2", props=["C15"])
F("rc4k", props=["C15"], requires=["1 <= key@.len() <= 256"])
F("mic", props=["C15"], body_sub=CONCAT_VECS)
F("sign_key", props=["C16"], body_sub=CONCAT_SLICES)
F("seal_key", props=["C16"], body_sub=CONCAT_SLICES)
F("mac", props=["C16"], body_sub=CONCAT_SLICES)
F("new", IMPL_NTLM, props=["C15", "C17"])
F("from_hash", IMPL_NTLM, props=["C15"])
F("create_negotiate_message", IMPL_AUTH, props=["C03", "C04"])
F("read_challenge_message", IMPL_AUTH, props=["C07", "C15"], keys=True)
F("build_security_interface", IMPL_AUTH, props=["C16"])
F("get_domain_name", IMPL_AUTH, props=["C17"])
F("get_user_name", IMPL_AUTH, props=["C17"])
F("get_password", IMPL_AUTH, props=["C17"])
F("new", IMPL_SEC, props=["C16"])
F("gss_wrapex", IMPL_GSS, props=["C16"])
F("gss_unwrapex", IMPL_GSS, props=["C16", "C01", "C07"], body_sub=CONCAT_VECS, keys=True)

IMPL_RAW = {
    IMPL_AUTH: r"""
    /// what get_domain_name / get_user_name / get_password return: UTF-16LE when the server negotiated unicode, the UTF-8 bytes otherwise
    open spec fn domain_spec(&self) -> Seq<u8> { if self.is_unicode { utf16le(self.domain@) } else { utf8_bytes(self.domain@) } }
    open spec fn user_spec(&self) -> Seq<u8> { if self.is_unicode { utf16le(self.user@) } else { utf8_bytes(self.user@) } }
    open spec fn password_spec(&self) -> Seq<u8> { if self.is_unicode { utf16le(self.password@) } else { utf8_bytes(self.password@) } }
""",
    IMPL_GSS: r"""
    open spec fn seal_spec(&self, data: Seq<u8>) -> Seq<u8> { seal_spec_fn(self.encrypt.view(), self.signing_key@, self.seq_num, data) }
    open spec fn unseal_spec(&self, data: Seq<u8>) -> Option<Seq<u8>> { unseal_spec_fn(self.decrypt.view(), self.verify_key@, data) }
""",
}

from vx.layouts import list_fns
import re as _re
_seen = set()
for name, hdr in list_fns(NTLM):
    impl = None
    if hdr:
        impl = _re.escape(hdr[5:]) if hdr.startswith("impl ") else _re.escape(hdr)
    if name in STUBS and impl is None:
        A(Stub(NTLM, name, mod="ntlm", **STUBS[name]))
        continue
    if hdr in IMPL_RAW and hdr not in _seen:
        _seen.add(hdr)
        A(Raw(IMPL_RAW[hdr], mod="ntlm", name="specs of " + hdr, file=NTLM, impl=impl))
    kw = dict(FNS[(name, hdr)])
    A(Fn(NTLM, name, impl=impl, mod="ntlm", **kw))

UNIT = Unit("ntlm", ["base.rs", "model.rs", "leaf.rs", "lemmas.rs", "unicode.rs", "collections.rs"], items,
            uses={"ntlm": ["use super::rc4::*;", "use super::sspi::*;", "use super::rc4;"]}, mods=["rc4", "sspi", "ntlm"])
