"""Contract + loop invariants for codec::rle::rle_16_decompress (interleaved RLE, 16 bpp), used by units codec and codec16.
The 11 `repeat!` call sites are expanded textually (rule R4), giving 2 loops each."""
from vx.spec import *

RLE = "src/codec/rle.rs"

RLE16_CONTRACT = dict(
    requires=["width * height <= old(output)@.len()"],
    ensures=[("C08", "len", "final(output)@.len() == old(output)@.len()")],
)

# ---------------------------------------------------------------------------------------------------------------
# Loop numbering (after expansion of repeat!): 1 = per-order loop over the input, 2 = `while count > 0`,
# 3..24 = the 11 repeat! sites, each an unrolled-by-8 loop (odd ordinal) followed by the remainder loop (even).
# Sites in source order: op0/Some(e), op0/None, op1/Some(e), op1/None, op2/Some(e), op2/None, op3, op4, op8, 0xd, 0xe.
# ---------------------------------------------------------------------------------------------------------------
N_SITES = 11
N_LOOPS = 2 + 2 * N_SITES

# the sites whose statement reads the previous line through the binding `e` of `if let Some(e) = prevline`
_E_SITES = {0, 2, 4}

# all row bookkeeping is kept in LINEAR form: a row start `l` is usable iff l + width <= len
# MAXLEN: a [u16] spans at most isize::MAX bytes (see PRE), so that `x + 8` with x <= width <= len cannot overflow
MAXLEN = "0x3fff_ffff_ffff_ffff"  # isize::MAX / 2 on the declared 64-bit target
_COMMON = """
        output@.len() == old(output)@.len(),
        output@.len() <= """ + MAXLEN + """,
        x <= width,
        count <= 0xffff,
        input_cursor.pos() > p0,
"""

_OUTER = """
    invariant
        output@.len() == old(output)@.len(),
        output@.len() <= """ + MAXLEN + """,
        width * h0 <= output@.len(),
        height <= h0,
        x <= width,
        x < width ==> line is Some,
        line matches Some(l) ==> l + width <= output@.len(),
        prevline matches Some(p) ==> p + width <= output@.len() && line is Some,
        insertmix ==> width > 0,
        width == 0 ==> line is None,
    decreases
        (if input_cursor.pos() <= input@.len() { input@.len() - input_cursor.pos() } else { 0 }),
"""

_COUNT = """
    invariant
""" + _COMMON + """
        width * h0 <= output@.len(),
        height <= h0,
        x < width ==> line is Some,
        line matches Some(l) ==> l + width <= output@.len(),
        prevline matches Some(p) ==> p + width <= output@.len() && line is Some,
        insertmix ==> width > 0,
        (width == 0 && line is Some) ==> count > 0,
    decreases
        height, (if x < width { 1int } else { 0int }), count,
"""


def _repeat_inv(with_e):
    s = """
    invariant
""" + _COMMON + """
        line matches Some(l) && l + width <= output@.len(),
        width == 0 ==> count > 0,
"""
    if with_e:
        s += "        e + width <= output@.len(),\n"
    s += """    decreases
        width - x,
"""
    return s


LOOPS = {1: _OUTER, 2: _COUNT}
for _s in range(N_SITES):
    for _k in (0, 1):
        LOOPS[3 + 2 * _s + _k] = _repeat_inv(_s in _E_SITES)

_UNROLLED = r"while \(\(count & !0x7\) != 0\) && \(x \+ 8\) < width \{"

HINTS = [
    # the position at the start of the order: every order consumes at least its first byte
    (r"fom_mask = 0;", 1, "let ghost p0 = input_cursor.pos();", "after"),
    (r"opcode = code >> 4;", 1,
     "proof { assert(code & 0xfu8 <= 15) by(bit_vector); assert(code & 0x1fu8 <= 31) by(bit_vector); "
     "assert(code >> 4u8 <= 15) by(bit_vector); }", "after"),
    (r"count <<= 3;", 1, "proof { assert(count <= 31 ==> (count << 3u32) <= 0xffff) by(bit_vector); }", "before"),
    (r"line = Some\(height \* width\);", 1,
     "proof { assert(height * width + width <= width * h0) by(nonlinear_arith) requires height < h0; }", "before"),
]
for _s in range(N_SITES):
    HINTS.append((_UNROLLED, _s + 1,
                  "proof { assert((count & !0x7u32) != 0 ==> count >= 8) by(bit_vector); }", "after"))

# block statements (op 2 masks, op 8 bicolour) inside the unrolled loops: restate the frame after every step
_STEP = r"\}; count -= 1; x \+= 1;"
for _i in range(24):
    HINTS.append((_STEP, _i + 1, "proof { assert(output@.len() == old(output)@.len() && input_cursor.pos() > p0); }", "after"))

# A [u16] never spans more than isize::MAX bytes (Rust layout rule).  vstd states this as the ensures of the
# erased, empty-bodied exec function `layout_for_val_is_valid` (its argument is Tracked, i.e. ghost): calling it is
# the only way to obtain the fact, there is no proof-mode variant for unsized values.  Needed because `x + 8` in the
# unrolled loop condition is evaluated with x up to width, and width <= output.len() is all the contract gives.
PRE = """
let ghost h0 = height;
vstd::layout::layout_for_val_is_valid::<[u16]>(Tracked(&*output));
proof {
    broadcast use vstd::layout::layout_of_primitives;
    vstd::layout::layout_of_slices::<u16>(&*output);
    assert(output@.len() * 2 <= isize::MAX);
}
"""

RLE16 = Fn(RLE, "rle_16_decompress", mod="rle", props=["C08"], expand=["repeat"],
           pre=PRE,
           loops=LOOPS, nloops=N_LOOPS, hints=HINTS, **RLE16_CONTRACT)
