"""unit frame: model/link.rs (Stream, Link), core/tpkt.rs (header, read, write), core/x224.rs data path.
Properties: C13 (inbound deframing exact under any fragmentation), C14 (outbound frames exact, complete or refused)."""
from vx.spec import *

LINK = "src/model/link.rs"
TPKT = "src/core/tpkt.rs"
X224 = "src/core/x224.rs"

link_specs = Raw(r'''
impl<S: Read + Write> Stream<S> {
    pub open spec fn rest(&self) -> Seq<u8> { match *self { Stream::Raw(e) => e.rest(), Stream::Ssl(e) => e.rest() } }
    pub open spec fn written(&self) -> Seq<u8> { match *self { Stream::Raw(e) => e.written(), Stream::Ssl(e) => e.written() } }
    pub open spec fn is_ssl(&self) -> bool { *self is Ssl }
    pub open spec fn cert_checked(&self) -> bool { match *self { Stream::Ssl(e) => e.cert_checked(), _ => false } }
    pub open spec fn peer_key(&self) -> Seq<u8> { match *self { Stream::Ssl(e) => e.peer_key(), _ => Seq::empty() } }
}
impl<S: Read + Write> Link<S> {
    pub closed spec fn rest(&self) -> Seq<u8> { self.stream.rest() }
    pub closed spec fn written(&self) -> Seq<u8> { self.stream.written() }
    pub closed spec fn tls(&self) -> bool { self.stream.is_ssl() }
    /// certificate validation was requested when TLS was started on this link (false on a raw link)
    pub closed spec fn cert_checked(&self) -> bool { self.stream.cert_checked() }
    /// subject public key of the certificate the peer presented on THIS link
    pub closed spec fn peer_key(&self) -> Seq<u8> { self.stream.peer_key() }
}
''', mod="link", name="link_specs")

# --- contracts shared by verified function and (elsewhere) stubs
LINK_WRITE = dict(
    ensures=[
        ("C14", "delivered", "r is Ok ==> final(self).written() == old(self).written() + ser(message.mv())"),
        ("C14", "frame1", "final(self).rest() == old(self).rest()"), ("C14", "frame2", "final(self).tls() == old(self).tls()"), (None, "frame4", "final(self).cert_checked() == old(self).cert_checked() && final(self).peer_key() == old(self).peer_key()"),
        ("C14", "err-prefix", "r is Err ==> is_prefix(old(self).written(), final(self).written())"),
        (None, "error-kind", "!automata_err(r)"),
    ])
LINK_READ = dict(
    ensures=[
        ("C13", "exact", "r is Ok && expected_size > 0 ==> old(self).rest().len() >= expected_size && r->Ok_0@ == old(self).rest().take(expected_size as int) && final(self).rest() == old(self).rest().skip(expected_size as int)"),
        ("C13", "avail", "r is Ok && expected_size == 0 ==> r->Ok_0@.len() <= old(self).rest().len() && r->Ok_0@ == old(self).rest().take(r->Ok_0@.len() as int) && final(self).rest() == old(self).rest().skip(r->Ok_0@.len() as int)"),
        ("C13", "frame1", "final(self).written() == old(self).written()"), ("C13", "frame2", "final(self).tls() == old(self).tls()"), ("C13", "frame3", "is_suffix(final(self).rest(), old(self).rest())"),
        (None, "frame4", "final(self).cert_checked() == old(self).cert_checked() && final(self).peer_key() == old(self).peer_key()"),
    ])

tpkt_specs = Raw(r'''
impl<S: Read + Write> Client<S> {
    pub closed spec fn rest(&self) -> Seq<u8> { self.transport.rest() }
    pub closed spec fn written(&self) -> Seq<u8> { self.transport.written() }
    pub closed spec fn tls(&self) -> bool { self.transport.tls() }
}
impl Payload {
    pub open spec fn bytes(&self) -> Seq<u8> { match *self { Payload::Raw(c) => c.rest(), Payload::FastPath(_, c) => c.rest() } }
}
/// RFC 1006 / MS-RDPBCGR 2.2.9.1.2 framing of the next frame in `b`: (is_slow_path, header length, total length, security flags)
pub open spec fn frame_hdr(b: Seq<u8>) -> int { if b[0] == 3 { 4 } else if b[1] & 0x80 != 0 { 3 } else { 2 } }
pub open spec fn frame_len(b: Seq<u8>) -> int {
    if b[0] == 3 { u16_be(b[2], b[3]) as int }
    else if b[1] & 0x80 != 0 { u16_be(b[1] & 0x7f, b[2]) as int }
    else { b[1] as int }
}
pub open spec fn tpkt_frame(payload: Seq<u8>) -> Seq<u8> { seq![3u8, 0u8] + be16((payload.len() + 4) as u16) + payload }
''', mod="tpkt", name="tpkt_specs")

TPKT_READ = dict(
    ret="result",
    ensures=[
        ("C13,C05", "header-complete", "result is Ok ==> old(self).rest().len() >= 2 && old(self).rest().len() >= frame_hdr(old(self).rest())"),
        ("C13,C05", "short-frame-rejected", "result is Ok ==> frame_len(old(self).rest()) >= frame_hdr(old(self).rest())"),
        ("C13", "frame-complete", "result is Ok ==> old(self).rest().len() >= frame_len(old(self).rest())"),
        ("C13", "payload-exact", "result is Ok ==> result->Ok_0.bytes() =~= old(self).rest().subrange(frame_hdr(old(self).rest()), frame_len(old(self).rest()))"),
        ("C13", "consumes-exactly-the-frame", "result is Ok ==> final(self).rest() =~= old(self).rest().skip(frame_len(old(self).rest()))"),
        ("C13", "kind", "result is Ok ==> (old(self).rest()[0] == 3 <==> result->Ok_0 is Raw)"),
        ("C13", "security-flags", "result is Ok && result->Ok_0 is FastPath ==> result->Ok_0->FastPath_0 == (old(self).rest()[0] >> 6) & 0x3"),
        ("C13", "frame1", "final(self).written() == old(self).written()"), ("C13", "frame2", "final(self).tls() == old(self).tls()"), ("C13", "frame3", "is_suffix(final(self).rest(), old(self).rest())"),
    ],
    pre="let ghost b = self.rest();",
    # refusal justification: a frame is refused as too small only when its declared total length is below the size of its own header
    # (4 slow path, 3 fast path long form, 2 fast path short form); the header itself was read completely at each of the three sites
    claims=[(r"Err\(Error::RdpError\(RdpError::new\(RdpErrorKind::InvalidSize, \"Invalid minimal size for TPKT\"", 0,
             "proof { assert(old(self).rest().len() >= frame_hdr(old(self).rest()) && frame_len(old(self).rest()) < frame_hdr(old(self).rest())); }",
             "before", "C13,C03,C10", "refused-only-when-shorter-than-its-header")],
    hints=[
        (r"let mut action: u8 = 0;", 1, "proof { assert(buffer.rest() =~= b.take(2)); }"),
        (r"let mut size = U16::BE\(0\);", 1, "proof { assert(buffer.rest() =~= b.subrange(2, 4)); }"),
        (r"if size\.inner\(\) < 4", 1, "proof { assert(action == b[0] && b[0] == 3); assert(size.val() == u16_be(b[2], b[3])); assert(self.rest() =~= b.skip(4)); assert(frame_hdr(b) == 4 && frame_len(b) == size.val()); }", "before"),
        (r"let length = length \| hi_length as u16;", 1, "proof { assert(short_length & !0x80u8 == short_length & 0x7f) by(bit_vector); assert(short_length == b[1] && hi_length == b[2] && action == b[0]); assert(self.rest() =~= b.skip(3)); assert(frame_hdr(b) == 3 && frame_len(b) == length); }"),
        (r"if short_length < 2", 1, "proof { assert(short_length == b[1] && action == b[0]); assert(self.rest() =~= b.skip(2)); assert(frame_hdr(b) == 2 && frame_len(b) == short_length); }", "before"),
    ])
TPKT_WRITE = dict(
    ensures=[
        ("C14", "one-frame", "r is Ok ==> ser(message.mv()).len() <= 65531 && final(self).written() =~= old(self).written() + tpkt_frame(ser(message.mv()))"),
        ("C14", "refuse-oversize", "ser(message.mv()).len() > 65531 ==> r is Err && final(self).written() == old(self).written()"),
        (None, "error-kind", "!automata_err(r)"),
        ("C14", "frame1", "final(self).rest() == old(self).rest()"), ("C14", "frame2", "final(self).tls() == old(self).tls()"), ("C14", "frame3", "is_prefix(old(self).written(), final(self).written())"),
    ])

x224_specs = Raw(r'''
impl<S: Read + Write> Client<S> {
    pub closed spec fn rest(&self) -> Seq<u8> { self.transport.rest() }
    pub closed spec fn written(&self) -> Seq<u8> { self.transport.written() }
    pub closed spec fn tls(&self) -> bool { self.transport.tls() }
}
pub open spec fn x224_data(payload: Seq<u8>) -> Seq<u8> { seq![2u8, 0xF0u8, 0x80u8] + payload }
''', mod="x224", name="x224_specs")

X224_HEADER_FIELDS = """c.fields().len() == 3 && c.fields()[0] == ("header"@, MV::U8(2)) && c.fields()[1] == ("messageType"@, MV::U8(0xF0)) && c.fields()[2] == ("separator"@, MV::Check(Box::new(MV::U8(0x80))))"""

UNIT = Unit("frame", ["base.rs", "tls.rs", "model.rs", "leaf.rs", "lemmas.rs"], [
    # ---------------- model/link.rs
    Item(LINK, "enum", "Stream", mod="link"),
    Item(LINK, "struct", "Link", mod="link"),
    link_specs,
    Fn(LINK, "read_exact", impl=r"Stream<S>", mod="link", props=["C13"],
       ensures=[("C13", "exact", "r is Ok ==> old(self).rest().len() >= old(buf)@.len() && final(buf)@ == old(self).rest().take(old(buf)@.len() as int) && final(self).rest() == old(self).rest().skip(old(buf)@.len() as int)"),
                ("C13", "frame1", "final(buf)@.len() == old(buf)@.len()"), ("C13", "frame2", "final(self).written() == old(self).written()"), ("C13", "frame3", "final(self).is_ssl() == old(self).is_ssl()"), ("C13", "frame4", "is_suffix(final(self).rest(), old(self).rest())"),
                (None, "frame4", "final(self).cert_checked() == old(self).cert_checked() && final(self).peer_key() == old(self).peer_key()")]),
    Fn(LINK, "read", impl=r"Stream<S>", mod="link", props=["C13"],
       ensures=[("C13", "prefix", "r is Ok ==> r->Ok_0 <= old(buf)@.len() && r->Ok_0 <= old(self).rest().len() && final(buf)@.take(r->Ok_0 as int) == old(self).rest().take(r->Ok_0 as int) && final(self).rest() == old(self).rest().skip(r->Ok_0 as int)"),
                ("C13", "frame1", "final(buf)@.len() == old(buf)@.len()"), ("C13", "frame2", "final(self).written() == old(self).written()"), ("C13", "frame3", "final(self).is_ssl() == old(self).is_ssl()"), ("C13", "frame4", "is_suffix(final(self).rest(), old(self).rest())"),
                (None, "frame4", "final(self).cert_checked() == old(self).cert_checked() && final(self).peer_key() == old(self).peer_key()")]),
    Fn(LINK, "write", impl=r"Stream<S>", mod="link", props=["C14"],
       ensures=[("C14", "all-delivered", "r is Ok ==> final(self).written() == old(self).written() + buffer@"), (None, "error-kind", "!automata_err(r)"),
                ("C14", "frame1", "final(self).rest() == old(self).rest()"), ("C14", "frame2", "final(self).is_ssl() == old(self).is_ssl()"), ("C14", "frame3", "is_prefix(old(self).written(), final(self).written())"),
                (None, "frame4", "final(self).cert_checked() == old(self).cert_checked() && final(self).peer_key() == old(self).peer_key()")]),
    Fn(LINK, "new", impl=r"Link<S>", mod="link", props=["C13", "C14"],
       ensures=["r.rest() == stream.rest() && r.written() == stream.written() && r.tls() == stream.is_ssl() && r.cert_checked() == stream.cert_checked() && r.peer_key() == stream.peer_key()"]),
    Fn(LINK, "write", impl=r"Link<S>", mod="link", props=["C14"], **LINK_WRITE),
    Fn(LINK, "read", impl=r"Link<S>", mod="link", props=["C13"], **LINK_READ),
    # ---------------- core/tpkt.rs
    Item(TPKT, "enum", "Payload", mod="tpkt"),
    Item(TPKT, "enum", "Action", mod="tpkt"),
    Item(TPKT, "struct", "Client", mod="tpkt"),
    tpkt_specs,
    Fn(TPKT, "tpkt_header", mod="tpkt", ret="c", props=["C14", "C04"],
       requires=["size <= 65531"],
       ensures=[("C14,C04", "fields", """c.fields().len() == 3 && c.fields()[0] == ("action"@, MV::U8(3)) && c.fields()[1] == ("flag"@, MV::U8(0)) && c.fields()[2] == ("size"@, MV::U16((size + 4) as u16, false))"""),
                ("C14,C04", "bytes", "ser(c.mv()) =~= seq![3u8, 0u8] + be16((size + 4) as u16)")], fuel=6),
    Fn(TPKT, "new", impl=r"Client<S>", mod="tpkt", props=["C13", "C14"],
       ensures=["r.rest() == transport.rest() && r.written() == transport.written() && r.tls() == transport.tls()"]),
    # refusal-justification: a message is refused for its size only above 65531 bytes (65531 itself still fits the 16-bit length)
    Fn(TPKT, "write", impl=r"Client<S>", mod="tpkt", props=["C14"], fuel=4,
       claims=[(r'return Err\(Error::RdpError\(RdpError::new\(RdpErrorKind::InvalidSize, "[^"]*"\)\)\)', 0, "proof { assert(ser(message.mv()).len() > 65531); }", "before", "C14,C03", "refused-only-above-65531")],
       **TPKT_WRITE),
    Fn(TPKT, "read_body", impl=r"Client<S>", mod="tpkt", props=["C13"],
       ensures=[("C13", "exact", "r is Ok ==> old(self).rest().len() >= size && r->Ok_0@ == old(self).rest().take(size as int) && final(self).rest() == old(self).rest().skip(size as int)"),
                ("C13", "frame1", "final(self).written() == old(self).written()"), ("C13", "frame2", "final(self).tls() == old(self).tls()"), ("C13", "frame3", "is_suffix(final(self).rest(), old(self).rest())")]),
    Fn(TPKT, "read", impl=r"Client<S>", mod="tpkt", props=["C13", "C05", "C03", "C10"], **TPKT_READ),
    # ---------------- core/x224.rs (data path)
    Item(X224, "enum", "MessageType", mod="x224"),
    Item(X224, "enum", "Protocols", mod="x224", strip_derive=["TryFromPrimitive", "Debug"], try_from="u32"),
    Item(X224, "struct", "Client", mod="x224"),
    x224_specs,
    Fn(X224, "x224_header", mod="x224", ret="c", props=["C13", "C14", "C04"],
       ensures=[(None, "fields", X224_HEADER_FIELDS), (None, "bytes", "ser(c.mv()) =~= seq![2u8, 0xF0u8, 0x80u8]")], fuel=6),
    Fn(X224, "write", impl=r"Client<S>", mod="x224", props=["C14"], fuel=4,
       ensures=[("C14", "one-frame", "r is Ok ==> ser(message.mv()).len() <= 65528 && final(self).written() =~= old(self).written() + tpkt::tpkt_frame(x224_data(ser(message.mv())))"),
                ("C14", "refuse-oversize", "ser(message.mv()).len() > 65528 ==> r is Err && final(self).written() == old(self).written()"),
                (None, "error-kind", "!automata_err(r)"),
                ("C14", "frame1", "final(self).rest() == old(self).rest()"), ("C14", "frame2", "final(self).tls() == old(self).tls()"), ("C14", "frame3", "is_prefix(old(self).written(), final(self).written())")]),
    Fn(X224, "read", impl=r"Client<S>", mod="x224", props=["C13", "C05", "C06"], fuel=6,
       ensures=[("C13,C05", "header-complete", "r is Ok ==> old(self).rest().len() >= 2 && old(self).rest().len() >= tpkt::frame_hdr(old(self).rest()) && tpkt::frame_len(old(self).rest()) >= tpkt::frame_hdr(old(self).rest())"),
                ("C13", "frame-complete", "r is Ok ==> old(self).rest().len() >= tpkt::frame_len(old(self).rest())"),
                ("C13", "consumes-exactly-the-frame", "r is Ok ==> final(self).rest() =~= old(self).rest().skip(tpkt::frame_len(old(self).rest()))"),
                ("C13", "kind", "r is Ok ==> (old(self).rest()[0] == 3 <==> r->Ok_0 is Raw)"),
                ("C13", "slow-path-payload", "r is Ok && r->Ok_0 is Raw ==> tpkt::frame_len(old(self).rest()) >= 7 && old(self).rest()[6] == 0x80 && r->Ok_0.bytes() =~= old(self).rest().subrange(7, tpkt::frame_len(old(self).rest()))"),
                ("C13", "fast-path-payload", "r is Ok && r->Ok_0 is FastPath ==> r->Ok_0.bytes() =~= old(self).rest().subrange(tpkt::frame_hdr(old(self).rest()), tpkt::frame_len(old(self).rest())) && r->Ok_0->FastPath_0 == (old(self).rest()[0] >> 6) & 0x3"),
                ("C13", "frame1", "final(self).written() == old(self).written()"), ("C13", "frame2", "final(self).tls() == old(self).tls()"), ("C13", "frame3", "is_suffix(final(self).rest(), old(self).rest())")],
       pre="let ghost b = self.rest();",
       hints=[(r"x224_header\.read\(&mut payload\)\?;", 1, "proof { reveal_with_fuel(is_static, 3); reveal_with_fuel(same_shape, 3); assert(is_static(x224_header.mv())); }", "before"),
              (r"x224_header\.read\(&mut payload\)\?;", 1, "proof { assert(tpkt::frame_hdr(b) == 4); assert(ser(x224_header.mv()).len() == 3); let f = x224_header.fields(); assert(f[0].1 is U8 && f[1].1 is U8 && f[2].1 == MV::Check(Box::new(MV::U8(0x80)))); assert(ser(x224_header.mv())[2] == 0x80); }")]),
    # ---------------- orderly shutdown (TLS close_notify): nothing else changes
    Fn(LINK, "shutdown", impl=r"Stream<S>", mod="link", props=["C03"],
       ensures=[(None, "frame", "final(self).written() == old(self).written() && final(self).rest() == old(self).rest() && final(self).is_ssl() == old(self).is_ssl()")]),
    Fn(LINK, "shutdown", impl=r"Link<S>", mod="link", props=["C03"],
       ensures=[(None, "frame", "final(self).written() == old(self).written() && final(self).rest() == old(self).rest() && final(self).tls() == old(self).tls()")]),
    Fn(TPKT, "shutdown", impl=r"Client<S>", mod="tpkt", props=["C03"],
       ensures=[(None, "frame", "final(self).written() == old(self).written() && final(self).rest() == old(self).rest() && final(self).tls() == old(self).tls()")]),
    Fn(X224, "shutdown", impl=r"Client<S>", mod="x224", props=["C03"],
       ensures=[(None, "frame", "final(self).written() == old(self).written() && final(self).rest() == old(self).rest() && final(self).tls() == old(self).tls()")]),
], uses={"tpkt": ["use super::link::*;"], "x224": ["use super::tpkt;"]})
