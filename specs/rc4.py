"""unit rc4: src/nla/rc4.rs against the RC4 definition (KSA + PRGA).  C16 (sealing is RC4 under the derived key, the cipher state carries over
from one message to the next), C15 (RC4-wrapped session key unwraps: involution)."""
from vx.spec import *

RC4 = "src/nla/rc4.rs"

rc4_specs = Raw(r'''
// ---------------- RC4 as defined (Rivest 1987 / "alleged RC4"): written from the definition, not from the code
pub struct RcState { pub i: u8, pub j: u8, pub s: Seq<u8> }

pub open spec fn swap_seq(s: Seq<u8>, a: int, b: int) -> Seq<u8> { s.update(a, s[b]).update(b, s[a]) }
pub open spec fn identity_perm() -> Seq<u8> { Seq::new(256, |k: int| k as u8) }
/// key scheduling: for i in 0..256 { j = (j + S[i] + key[i mod keylen]) mod 256; swap(S[i], S[j]) }
pub open spec fn ksa_from(s: Seq<u8>, key: Seq<u8>, i: int, j: u8) -> Seq<u8>
    decreases 256 - i
{
    if i < 0 || i >= 256 { s } else {
        let j2 = ((j as int + s[i] as int + key[i % (key.len() as int)] as int) % 256) as u8;
        ksa_from(swap_seq(s, i, j2 as int), key, i + 1, j2)
    }
}
pub open spec fn ksa(key: Seq<u8>) -> RcState { RcState { i: 0, j: 0, s: ksa_from(identity_perm(), key, 0, 0) } }
/// one PRGA step: i += 1; j += S[i]; swap(S[i], S[j]); output S[(S[i] + S[j]) mod 256]
pub open spec fn prga_step(st: RcState) -> (RcState, u8) {
    let i2 = ((st.i as int + 1) % 256) as u8;
    let j2 = ((st.j as int + st.s[i2 as int] as int) % 256) as u8;
    let s2 = swap_seq(st.s, i2 as int, j2 as int);
    (RcState { i: i2, j: j2, s: s2 }, s2[(s2[i2 as int] as int + s2[j2 as int] as int) % 256])
}
pub open spec fn advance(st: RcState, n: nat) -> RcState decreases n { if n == 0 { st } else { advance(prga_step(st).0, (n - 1) as nat) } }
pub open spec fn keystream(st: RcState, n: nat) -> Seq<u8> decreases n { if n == 0 { Seq::empty() } else { seq![prga_step(st).1] + keystream(prga_step(st).0, (n - 1) as nat) } }
pub open spec fn xor_seq(a: Seq<u8>, b: Seq<u8>) -> Seq<u8> { Seq::new(a.len(), |k: int| a[k] ^ b[k]) }
/// encryption of `m` from state `st`
pub open spec fn rc4_xor(st: RcState, m: Seq<u8>) -> Seq<u8> { xor_seq(m, keystream(st, m.len())) }
pub open spec fn well_formed(st: RcState) -> bool { st.s.len() == 256 }
''', mod="rc4", name="rc4_specs")

rc4_view = Raw(r'''
impl Rc4 {
    pub closed spec fn view(&self) -> RcState { RcState { i: self.i, j: self.j, s: self.state@ } }
}
''', mod="rc4", name="rc4_view")

rc4_swap = Raw(r'''
/// stands for `<[u8]>::swap` on the 256-byte state (declared rewrite R6); REAL body, verified, not trusted
pub fn swap256(s: &mut [u8; 256], a: usize, b: usize)
    requires a < 256, b < 256,
    ensures final(s)@ == swap_seq(old(s)@, a as int, b as int),
{
    let t = s[a];
    s[a] = s[b];
    s[b] = t;
    proof { assert(s@ =~= swap_seq(old(s)@, a as int, b as int)); }
}
''', mod="rc4", name="swap256")

rc4_lemmas = Raw(r'''
// ---------------- proved facts about the definition (used by other units for C15 / C16)
pub proof fn lemma_keystream_len(st: RcState, n: nat)
    ensures keystream(st, n).len() == n,
            well_formed(st) ==> well_formed(advance(st, n)),
    decreases n
{
    if n > 0 {
        lemma_keystream_len(prga_step(st).0, (n - 1) as nat);
    }
}
pub proof fn lemma_keystream_split(st: RcState, a: nat, b: nat)
    ensures keystream(st, a + b) =~= keystream(st, a) + keystream(advance(st, a), b),
            advance(st, a + b) == advance(advance(st, a), b),
    decreases a
{
    if a > 0 {
        let st1 = prga_step(st).0;
        lemma_keystream_split(st1, (a - 1) as nat, b);
        assert((a + b - 1) as nat == (a - 1) as nat + b);
        assert(keystream(st, a + b) == seq![prga_step(st).1] + keystream(st1, (a + b - 1) as nat));
        assert(keystream(st, a) == seq![prga_step(st).1] + keystream(st1, (a - 1) as nat));
    } else {
        assert(keystream(st, 0) =~= Seq::<u8>::empty());
    }
}
pub proof fn lemma_keystream_snoc(st: RcState, n: nat)
    ensures keystream(st, n + 1) =~= keystream(st, n).push(prga_step(advance(st, n)).1),
            advance(st, n + 1) == prga_step(advance(st, n)).0,
{
    lemma_keystream_split(st, n, 1);
    let st2 = advance(st, n);
    reveal_with_fuel(keystream, 2);
    reveal_with_fuel(advance, 2);
    assert(keystream(st2, 1) =~= seq![prga_step(st2).1]);
    assert(advance(st2, 1) == prga_step(st2).0);
}
pub proof fn lemma_xor_involution(st: RcState, m: Seq<u8>)
    ensures rc4_xor(st, rc4_xor(st, m)) =~= m,
{
    let ks = keystream(st, m.len());
    let c = rc4_xor(st, m);
    assert(c.len() == m.len());
    assert forall|k: int| 0 <= k < m.len() implies #[trigger] rc4_xor(st, c)[k] == m[k] by {
        let a = m[k]; let b = ks[k];
        assert((a ^ b) ^ b == a) by(bit_vector);
    }
}
pub proof fn lemma_rc4_xor_concat(st: RcState, m1: Seq<u8>, m2: Seq<u8>)
    ensures rc4_xor(st, m1 + m2) =~= rc4_xor(st, m1) + rc4_xor(advance(st, m1.len()), m2),
{
    lemma_keystream_split(st, m1.len(), m2.len());
    lemma_keystream_len(st, m1.len());
    lemma_keystream_len(advance(st, m1.len()), m2.len());
    assert((m1 + m2).len() == m1.len() + m2.len());
}
''', mod="rc4", name="rc4_lemmas")

# Declared rewrites (R6, body_sub): the two iterator-adaptor loops become index loops with the same meaning, `<[u8]>::swap` becomes the
# verified helper `swap256`.  Each regex matches the exact source text, so a source change is reported as a lost anchor.
UNIT = Unit("rc4", ["base.rs"], [
    rc4_specs,
    rc4_swap,
    rc4_lemmas,
    Item(RC4, "struct", "Rc4", mod="rc4"),
    rc4_view,
    Fn(RC4, "new", impl=r"Rc4", mod="rc4", props=["C16", "C15", "C07"], nloops=2,
       body_sub=[(r"for \(i, x\) in rc4\.state\.iter_mut\(\)\.enumerate\(\) \{\s*\*x = i as u8;\s*\}", "for i in 0..256 { rc4.state[i] = i as u8; }"),
                 (r"rc4\.state\.swap\(i, j as usize\)", "swap256(&mut rc4.state, i, j as usize)")],
       requires=["1 <= key@.len() <= 256"],
       loops={1: """invariant rc4.i == 0, rc4.j == 0,
                        forall|k: int| 0 <= k < i ==> rc4.state@[k] == k as u8,""",
              2: """invariant rc4.i == 0, rc4.j == 0, 1 <= key@.len() <= 256,
                        ksa_from(rc4.state@, key@, i as int, j) == ksa_from(identity_perm(), key@, 0, 0),"""},
       hints=[(r"let mut j: u8 = 0;", 1, "proof { assert(rc4.state@ =~= identity_perm()); }", "before")],
       ensures=[("C16,C15", "ksa", "r.view() == ksa(key@)"), (None, "wf", "well_formed(r.view())")]),
    Fn(RC4, "next", impl=r"Rc4", mod="rc4", props=["C16", "C15", "C01", "C07"],
       body_sub=[(r"self\.state\.swap\(self\.i as usize, self\.j as usize\)", "swap256(&mut self.state, self.i as usize, self.j as usize)")],
       requires=["well_formed(old(self).view())"],
       ensures=[("C16,C15,C01", "prga", "final(self).view() == prga_step(old(self).view()).0 && r == prga_step(old(self).view()).1"), (None, "wf", "well_formed(final(self).view())")]),
    Fn(RC4, "process", impl=r"Rc4", mod="rc4", props=["C16", "C15", "C07"], nloops=1,
       # (the two pattern variables may have any names; `a ^ b` / `b ^ a` both denote the same byte: the rewrite keeps the source's operand order)
       body_sub=[(r"for \((\w+), (\w+)\) in input\.iter\(\)\.zip\(output\.iter_mut\(\)\) \{\s*\*\2 = \*\1 \^ self\.next\(\);\s*\}", "for k in 0..input.len() { output[k] = input[k] ^ self.next(); }")],
       requires=["well_formed(old(self).view())", "input@.len() == old(output)@.len()"],
       loops={1: """invariant output@.len() == input@.len(), well_formed(self.view()),
                        self.view() == advance(old(self).view(), k as nat),
                        forall|q: int| 0 <= q < k ==> output@[q] == input@[q] ^ keystream(old(self).view(), k as nat)[q],"""},
       hints=[(r"output\[k\] = input\[k\]", 1, "proof { lemma_keystream_snoc(old(self).view(), k as nat); lemma_keystream_len(old(self).view(), k as nat); }", "at"),
              (r"output\[k\] = input\[k\] \^ self\.next\(\); \}", 1, "proof { lemma_keystream_len(old(self).view(), input@.len()); }", "after")],
       ensures=[("C16,C15", "xor-keystream", "final(output)@ =~= rc4_xor(old(self).view(), input@)"),
                ("C16", "state-carries-over", "final(self).view() == advance(old(self).view(), input@.len())"),
                (None, "wf", "well_formed(final(self).view())")]),
])
