"""Contract + loop invariants for codec::rle::rle_16_decompress (interleaved RLE, 16 bpp), used by unit codec16 (and by unit codec once it imports
RLE16_SPECS + RLE16 from here).  The 11 `repeat!` call sites are expanded textually (rule R4), giving 2 loops each: 24 loops.

Two layers:
  * SAFETY (C08): bounds / termination / length preservation (invariants _COMMON, _OUTER, _COUNT, _repeat_inv), unchanged from the safety proof;
  * FUNCTIONAL CORRECTNESS (C09): RLE16_SPECS holds a pixel-granular transcription of MS-RDPBCGR 2.2.9.1.1.3.1.2.4 / 3.1.9 (rle16_decode = fold of
    rle16_parse / rle16_apply over the orders, rle16_pixel = one pixel) and the PROVED lemmas.  The body carries a ghost decoded-pixel sequence `img`:
      - per order: the decoder's header / length / parameter extraction equals the model rle16_code_decode (claim) which lemma_rle16_decode proves equal to
        the specification's order table for all 256 header bytes; the insert-fg-pel flag equals the specification's rule (claims);
      - per executed pixel statement (100 of them after expansion): one call of lemma_rle16_pixel / lemma_rle16_fgbg_pixel: `img` grows by the
        specification's pixel, the output row holds it (rle16_order_inv / rle16_row_inv, opaque bundles);
      - per scanline: lemma_rle16_next_row; at the end lemma_rle16_final gives the closed form out[(height-1-rr)*width + c] == dec[rr*width + c].
    Everything the solver does not need to see is OPAQUE in the body (spec functions, bundles, even the result clauses): the 24 loop queries only match atoms.
    Ghost snapshots g_x, g_count, ... exist because atom arguments must match SYNTACTICALLY (an argument `x - 1` costs a theory-combination search per path).

PROVED DOMAIN: every stream that is not rle16_excluded:
  (a) zero-length MEGA_MEGA orders are excluded because the code DISAGREES with the specification there (findings: stale insert-fg-pel flag; 0xF5 00 00 accepted);
  (b) FGBG-class orders of >= 8 pixels on bitmaps wider than 8 pixels are excluded because they may run through the 8-times unrolled FGBG loops (loops 11, 13):
      6 continuing paths per statement with a conditional `read_u8()?`, 8 statements deep; Z3 enumerates the paths (no result after 10 min at rlimit 400 for any
      formulation tried: generic step lemma, branch-local lemmas, guarded implications, assert-only).  These two loops are proved SAFE and proved to be
      reachable only by excluded streams (invariant `dz || count < 8 || width <= 8`); the single-statement FGBG loops (12, 14) ARE proved functionally, so the
      FGBG pixel statement, the mask reload and both SPECIAL_FGBG orders are covered for short orders / narrow bitmaps."""
from vx.spec import *

RLE = "src/codec/rle.rs"

RLE16_SPECS = Raw(r"""
// ===== MS-RDPBCGR 2.2.9.1.1.3.1.2.4 (RLE_BITMAP_STREAM) / 3.1.9 (RleDecompress): Interleaved RLE at 16 bpp =====
// Written from the specification text, at the granularity of single pixels.
pub enum RleForm { Regular, Lite, MegaMega, Special }
pub enum RleCode { BgRun, FgRun, FgBgImage, ColorRun, ColorImage, SetFgFgRun, SetFgFgBgImage, DitheredRun, SpecialFgBg1, SpecialFgBg2, White, Black }
/// what an order paints (the SET_FG variants and the SPECIAL_FGBG orders are folded into `set_fg` / `mask` of RleOrder)
pub enum RleKind { BgRun, FgRun, FgBgImage, ColorRun, ColorImage, DitheredRun, White, Black }

/// the order code carried by the 3-bit field of a REGULAR header or by the low nibble of a MEGA_MEGA header
pub open spec fn rle16_basic_code(c: u8) -> Option<RleCode> {
    if c == 0 { Some(RleCode::BgRun) } else if c == 1 { Some(RleCode::FgRun) } else if c == 2 { Some(RleCode::FgBgImage) }
    else if c == 3 { Some(RleCode::ColorRun) } else if c == 4 { Some(RleCode::ColorImage) } else { None }
}
/// order header byte -> (form, code); None: not an order (0xA0..=0xBF, 0xF5, 0xFB, 0xFC, 0xFF)
pub open spec fn rle16_header(h: u8) -> Option<(RleForm, RleCode)> {
    if h >> 5 <= 4 { Some((RleForm::Regular, rle16_basic_code(h >> 5)->Some_0)) }
    else if h >> 4 == 0xC { Some((RleForm::Lite, RleCode::SetFgFgRun)) }
    else if h >> 4 == 0xD { Some((RleForm::Lite, RleCode::SetFgFgBgImage)) }
    else if h >> 4 == 0xE { Some((RleForm::Lite, RleCode::DitheredRun)) }
    else if h >> 4 == 0xF {
        let c = h & 0x0f;
        if c <= 4 { Some((RleForm::MegaMega, rle16_basic_code(c)->Some_0)) }
        else if c == 6 { Some((RleForm::MegaMega, RleCode::SetFgFgRun)) }
        else if c == 7 { Some((RleForm::MegaMega, RleCode::SetFgFgBgImage)) }
        else if c == 8 { Some((RleForm::MegaMega, RleCode::DitheredRun)) }
        else if c == 9 { Some((RleForm::Special, RleCode::SpecialFgBg1)) }
        else if c == 0xA { Some((RleForm::Special, RleCode::SpecialFgBg2)) }
        else if c == 0xD { Some((RleForm::Special, RleCode::White)) }
        else if c == 0xE { Some((RleForm::Special, RleCode::Black)) }
        else { None }
    } else { None }
}
pub open spec fn rle16_is_fgbg(c: RleCode) -> bool { c is FgBgImage || c is SetFgFgBgImage }
/// run length of a REGULAR / LITE order whose in-header length field is `field`: (length, offset after header and length extension).
/// field == 0 is the MEGA form (one more byte): + 1 for the FGBG images, + `mega_base` (32 / 16) for the others;
/// a non-zero field of an FGBG image counts groups of 8 pixels
pub open spec fn rle16_short_length(s: Seq<u8>, i: int, field: nat, mega_base: nat, fgbg: bool) -> Option<(nat, int)> {
    if field != 0 { Some((if fgbg { field * 8 } else { field }, i + 1)) }
    else if i + 1 < s.len() { Some((s[i + 1] as nat + (if fgbg { 1nat } else { mega_base }), i + 2)) }
    else { None }
}
pub open spec fn rle16_length(s: Seq<u8>, i: int, form: RleForm, code: RleCode) -> Option<(nat, int)> {
    match form {
        RleForm::Regular => rle16_short_length(s, i, (s[i] & 0x1f) as nat, 32, rle16_is_fgbg(code)),
        RleForm::Lite => rle16_short_length(s, i, (s[i] & 0x0f) as nat, 16, rle16_is_fgbg(code)),
        RleForm::MegaMega => if i + 2 < s.len() { Some((u16_le(s[i + 1], s[i + 2]) as nat, i + 3)) } else { None },
        RleForm::Special => Some((if code is White || code is Black { 1nat } else { 8nat }, i + 1)),
    }
}
pub open spec fn rle16_kind(c: RleCode) -> RleKind {
    match c {
        RleCode::BgRun => RleKind::BgRun,
        RleCode::FgRun | RleCode::SetFgFgRun => RleKind::FgRun,
        RleCode::FgBgImage | RleCode::SetFgFgBgImage | RleCode::SpecialFgBg1 | RleCode::SpecialFgBg2 => RleKind::FgBgImage,
        RleCode::ColorRun => RleKind::ColorRun,
        RleCode::ColorImage => RleKind::ColorImage,
        RleCode::DitheredRun => RleKind::DitheredRun,
        RleCode::White => RleKind::White,
        RleCode::Black => RleKind::Black,
    }
}
pub struct RleOrder {
    pub kind: RleKind,
    /// SET_FG_* orders: the new foreground pel
    pub set_fg: Option<u16>,
    /// run length (DITHERED_RUN: number of pixel PAIRS)
    pub len: nat,
    /// SPECIAL_FGBG_1 / _2: the fixed bitmask
    pub mask: Option<u8>,
    /// COLOR_RUN: the colour `a`; DITHERED_RUN: the colours `a`, `b`
    pub a: u16,
    pub b: u16,
    /// offset of the per-pixel data (FGBG_IMAGE: bitmask bytes, COLOR_IMAGE: pixels)
    pub data: int,
    /// offset of the next order
    pub next: int,
}
/// number of bytes of per-pixel data
pub open spec fn rle16_data_len(kind: RleKind, mask: Option<u8>, len: nat) -> int {
    if kind is ColorImage { 2 * (len as int) } else if kind is FgBgImage && mask is None { (len as int + 7) / 8 } else { 0 }
}
/// the order starting at offset i (0 <= i < s.len()); None: not an order, or header / parameters truncated
#[verifier::opaque]
pub open spec fn rle16_parse(s: Seq<u8>, i: int) -> Option<RleOrder> {
    match rle16_header(s[i]) {
        None => None,
        Some((form, code)) => match rle16_length(s, i, form, code) {
            None => None,
            Some((len, j)) => {
                let sets = code is SetFgFgRun || code is SetFgFgBgImage;
                let jf = if sets { j + 2 } else { j };
                let ncol: int = if code is ColorRun { 1 } else if code is DitheredRun { 2 } else { 0 };
                let d = jf + 2 * ncol;
                let kind = rle16_kind(code);
                let mask = if code is SpecialFgBg1 { Some(0x03u8) } else if code is SpecialFgBg2 { Some(0x05u8) } else { None };
                if d > s.len() { None } else {
                    Some(RleOrder {
                        kind, len, mask,
                        set_fg: if sets { Some(u16_le(s[j], s[j + 1])) } else { None },
                        a: if ncol >= 1 { u16_le(s[jf], s[jf + 1]) } else { 0 },
                        b: if ncol == 2 { u16_le(s[jf + 2], s[jf + 3]) } else { 0 },
                        data: d,
                        next: d + rle16_data_len(kind, mask, len),
                    })
                }
            },
        },
    }
}
/// the pixel at the same column of the previously decoded scanline (black on the first decoded scanline); img = pixels decoded so far
#[verifier::opaque]
pub open spec fn rle16_above(img: Seq<u16>, width: nat) -> u16 { if img.len() < width { 0 } else { img[img.len() - width] } }
pub open spec fn rle16_bit(j: int) -> u8 {
    if j == 0 { 1 } else if j == 1 { 2 } else if j == 2 { 4 } else if j == 3 { 8 } else if j == 4 { 16 } else if j == 5 { 32 } else if j == 6 { 64 } else { 128 }
}
/// FGBG_IMAGE: the bitmask byte that covers pixel k (one byte per 8 pixels, least significant bit first)
pub open spec fn rle16_maskbyte(s: Seq<u8>, o: RleOrder, k: int) -> u8 { match o.mask { Some(m) => m, None => s[o.data + k / 8] } }
pub open spec fn rle16_npix(o: RleOrder) -> nat { if o.kind is DitheredRun { 2 * o.len } else { o.len } }
/// pixel number k (from 0) of order `o`; img = everything decoded before it (k pixels of this order included), fg = foreground pel in force,
/// insert = the insert-fg-pel rule applies to this order
pub open spec fn rle16_pixel(s: Seq<u8>, width: nat, o: RleOrder, fg: u16, insert: bool, img: Seq<u16>, k: int) -> u16 {
    let above = rle16_above(img, width);
    match o.kind {
        RleKind::BgRun => if k == 0 && insert { above ^ fg } else { above },
        RleKind::FgRun => above ^ fg,
        RleKind::FgBgImage => {
            if rle16_maskbyte(s, o, k) & rle16_bit(k % 8) != 0 { above ^ fg } else { above }
        },
        RleKind::ColorRun => o.a,
        RleKind::ColorImage => u16_le(s[o.data + 2 * k], s[o.data + 2 * k + 1]),
        RleKind::DitheredRun => if k % 2 == 0 { o.a } else { o.b },
        RleKind::White => 0xffff,
        RleKind::Black => 0,
    }
}
/// img extended by the first k pixels of order o
pub open spec fn rle16_write(s: Seq<u8>, width: nat, o: RleOrder, fg: u16, insert: bool, img: Seq<u16>, k: nat) -> Seq<u16>
    decreases k
{
    if k == 0 { img } else {
        let prev = rle16_write(s, width, o, fg, insert, img, (k - 1) as nat);
        prev.push(rle16_pixel(s, width, o, fg, insert, prev, k - 1))
    }
}
pub struct RleState { pub img: Seq<u16>, pub fg: u16, pub last_bg: bool }
/// INSERT-FG-PEL: a BG_RUN that immediately follows a BG_RUN starts with one foreground pixel, unless the position is the end of the
/// first decoded scanline (or nothing has been decoded)
pub open spec fn rle16_insert(st: RleState, width: nat, o: RleOrder) -> bool {
    o.kind is BgRun && st.last_bg && !(st.img.len() == 0 || st.img.len() == width)
}
pub open spec fn rle16_fg(st: RleState, o: RleOrder) -> u16 { match o.set_fg { Some(f) => f, None => st.fg } }
pub open spec fn rle16_apply(s: Seq<u8>, width: nat, st: RleState, o: RleOrder) -> RleState {
    RleState {
        img: rle16_write(s, width, o, rle16_fg(st, o), rle16_insert(st, width, o), st.img, rle16_npix(o)),
        fg: rle16_fg(st, o),
        last_bg: o.kind is BgRun,
    }
}
#[verifier::opaque]
pub open spec fn rle16_run(s: Seq<u8>, width: nat, i: int, st: RleState) -> Option<Seq<u16>>
    decreases s.len() - i
{
    if i < 0 { None }
    else if i >= s.len() { Some(st.img) }
    else {
        match rle16_parse(s, i) {
            None => None,
            Some(o) => if i < o.next <= s.len() { rle16_run(s, width, o.next, rle16_apply(s, width, st, o)) } else { None },
        }
    }
}
/// the decoded pixels in DECODE order (first = leftmost pixel of the bottom row); None: malformed stream
#[verifier::opaque]
pub open spec fn rle16_decode(s: Seq<u8>, width: nat) -> Option<Seq<u16>> {
    rle16_run(s, width, 0, RleState { img: Seq::empty(), fg: 0xffff, last_bg: false })
}
/// OUT OF THE PROVED DOMAIN (from offset i):
///  (a) a MEGA_MEGA-form header 0xF0..=0xF8 with a ZERO 16-bit run length (the decoder leaks its insert-fg-pel flag / accepts 0xF5: see the findings), or
///  (b) on a bitmap wider than 8 pixels, an FGBG-class order (FGBG_IMAGE, SET_FG_FGBG_IMAGE, SPECIAL_FGBG_1/2) of 8 pixels or more: such an order may run
///      through the 8-times unrolled copy of the FGBG pixel statement, whose 6^8 paths are beyond the solver (the single-statement loop IS proved)
#[verifier::opaque]
pub open spec fn rle16_excluded(s: Seq<u8>, width: nat, i: int) -> bool
    decreases s.len() - i
{
    if i < 0 || i >= s.len() { false }
    else if 0xF0 <= s[i] <= 0xF8 && i + 2 < s.len() && s[i + 1] == 0 && s[i + 2] == 0 { true }
    else {
        match rle16_parse(s, i) {
            None => false,
            Some(o) => (o.kind is FgBgImage && rle16_npix(o) >= 8 && width > 8) || (i < o.next <= s.len() && rle16_excluded(s, width, o.next)),
        }
    }
}
/// an order always consumes its header byte (the guard `i < o.next` of rle16_run never fires)
pub proof fn lemma_rle16_parse_next(s: Seq<u8>, i: int)
    requires 0 <= i < s.len()
    ensures rle16_parse(s, i) matches Some(o) ==> i < o.data <= s.len() && o.data <= o.next
{
    reveal(rle16_parse);
}

// ----- bit-level facts about header bytes
pub proof fn lemma_rle16_bits(h: u8)
    ensures (h >> 4) == h / 16, (h >> 5) == h / 32, (h & 0x1f) == h % 32, (h & 0x0f) == h % 16, ((h >> 4) >> 1) == h / 32,
        (h >> 4) <= 15, (h & 0x0f) <= 15, (h & 0x1f) <= 31,
{
    assert((h >> 4) == h / 16 && (h >> 5) == h / 32 && (h & 0x1f) == h % 32 && (h & 0x0f) == h % 16 && ((h >> 4) >> 1) == h / 32
        && (h >> 4) <= 15 && (h & 0x0f) <= 15 && (h & 0x1f) <= 31) by(bit_vector);
}
// ----- relation between the output buffer (rows stored top-down, decoded bottom-up) and the decoded pixel sequence, in LINEAR form
/// n completed rows: the most recent one at out[l .. l+width) == img[b .. b+width), the one before at out[l+width ..) == img[b-width ..), ...
#[verifier::opaque]
pub open spec fn rle16_rows_ok(out: Seq<u16>, img: Seq<u16>, width: int, l: int, b: int, n: nat) -> bool
    decreases n
{
    n == 0 || (0 <= b && b + width <= img.len() && 0 <= l && l + width <= out.len()
        && (forall|c: int| 0 <= c < width ==> #[trigger] out[l + c] == img[b + c])
        && rle16_rows_ok(out, img, width, l + width, b - width, (n - 1) as nat))
}
/// state of the row being decoded: row start l in out, x pixels of it written, img index of the row start = base;
/// o0 = the buffer on entry, orow / imgrow = out / img when the row was started, top = width * height
#[verifier::opaque]
pub open spec fn rle16_row_inv(out: Seq<u16>, o0: Seq<u16>, orow: Seq<u16>, img: Seq<u16>, imgrow: Seq<u16>, width: int, top: int, l: int, x: int, base: int, prev: Option<usize>) -> bool {
    &&& out.len() == o0.len() && orow.len() == o0.len()
    &&& 0 <= width && 0 <= l && l + width <= top <= out.len() && 0 <= x <= width && 0 <= base
    &&& img.len() == base + x && imgrow.len() == base
    &&& (prev matches Some(e) ==> e == l + width && e + width <= top && base >= width)
    &&& (prev is None ==> base == 0)
    &&& (forall|c: int| 0 <= c < x ==> #[trigger] out[l + c] == img[base + c])
    &&& (forall|c: int| 0 <= c < width && base >= width ==> #[trigger] out[l + width + c] == img[base - width + c])
    &&& (forall|i: int| 0 <= i < l + width && !(l <= i < l + x) ==> #[trigger] out[i] == o0[i])
    &&& (forall|i: int| l + width <= i < out.len() ==> #[trigger] out[i] == orow[i])
    &&& (forall|i: int| top <= i < out.len() ==> #[trigger] orow[i] == o0[i])
    &&& (forall|p: int| 0 <= p < base ==> #[trigger] img[p] == imgrow[p])
}
pub proof fn lemma_rle16_row_facts(out: Seq<u16>, o0: Seq<u16>, orow: Seq<u16>, img: Seq<u16>, imgrow: Seq<u16>, width: int, top: int, l: int, x: int, base: int, prev: Option<usize>)
    requires rle16_row_inv(out, o0, orow, img, imgrow, width, top, l, x, base, prev)
    ensures img.len() == base + x, 0 <= x <= width, 0 <= l, l + width <= out.len(), out.len() == o0.len(),
        prev matches Some(e) ==> e == l + width && e + width <= out.len() && base >= width,
        prev is None ==> base == 0,
        x < width ==> rle16_above(img, width as nat) == (match prev { Some(e) => out[e + x], None => 0u16 }),
{
    reveal(rle16_row_inv); reveal(rle16_above);
    if x < width {
        match prev {
            Some(e) => { assert(out[l + width + x] == img[base - width + x]); },
            None => {},
        }
    }
}
/// one pixel written
pub proof fn lemma_rle16_put(out: Seq<u16>, out2: Seq<u16>, o0: Seq<u16>, orow: Seq<u16>, img: Seq<u16>, imgrow: Seq<u16>, width: int, top: int, l: int, x: int, base: int, prev: Option<usize>, v: u16)
    requires rle16_row_inv(out, o0, orow, img, imgrow, width, top, l, x, base, prev), x < width, out2 == out.update(l + x, v)
    ensures rle16_row_inv(out2, o0, orow, img.push(v), imgrow, width, top, l, x + 1, base, prev)
{
    reveal(rle16_row_inv);
    let img2 = img.push(v);
    assert forall|c: int| 0 <= c < x + 1 implies #[trigger] out2[l + c] == img2[base + c] by {
        if c < x { assert(out[l + c] == img[base + c]); }
    }
    assert forall|c: int| 0 <= c < width && base >= width implies #[trigger] out2[l + width + c] == img2[base - width + c] by {
        assert(out[l + width + c] == img[base - width + c]);
    }
}
pub proof fn lemma_rle16_rows_frame(out: Seq<u16>, out2: Seq<u16>, img: Seq<u16>, img2: Seq<u16>, width: int, l: int, b: int, n: nat)
    requires rle16_rows_ok(out, img, width, l, b, n), out2.len() == out.len(), img2.len() >= img.len(), 0 <= width,
        forall|i: int| l <= i < out.len() ==> #[trigger] out2[i] == out[i],
        forall|p: int| 0 <= p < b + width && p < img.len() ==> #[trigger] img2[p] == img[p],
    ensures rle16_rows_ok(out2, img2, width, l, b, n)
    decreases n
{
    reveal(rle16_rows_ok);
    if n > 0 {
        lemma_rle16_rows_frame(out, out2, img, img2, width, l + width, b - width, (n - 1) as nat);
        assert forall|c: int| 0 <= c < width implies #[trigger] out2[l + c] == img2[b + c] by {
            assert(out[l + c] == img[b + c]);
        }
    }
}
/// the first row is started
pub proof fn lemma_rle16_first_row(o0: Seq<u16>, width: int, top: int, l: int)
    requires 0 <= width, 0 <= l, l + width <= top <= o0.len()
    ensures rle16_row_inv(o0, o0, o0, Seq::<u16>::empty(), Seq::<u16>::empty(), width, top, l, 0, 0, None),
        rle16_rows_ok(o0, Seq::<u16>::empty(), width, l + width, -width, 0)
{
    reveal(rle16_row_inv); reveal(rle16_rows_ok);
}
/// the current row is complete and the next one (below it in the buffer) is started
pub proof fn lemma_rle16_next_row(out: Seq<u16>, o0: Seq<u16>, orow: Seq<u16>, img: Seq<u16>, imgrow: Seq<u16>, width: int, top: int, l: int, base: int, prev: Option<usize>, n: nat)
    requires rle16_row_inv(out, o0, orow, img, imgrow, width, top, l, width, base, prev), l >= width, l <= usize::MAX,
        rle16_rows_ok(orow, imgrow, width, l + width, base - width, n),
    ensures rle16_row_inv(out, o0, out, img, img, width, top, l - width, 0, base + width, Some(l as usize)),
        rle16_rows_ok(out, img, width, l, base, n + 1)
{
    reveal(rle16_row_inv); reveal(rle16_rows_ok);
    lemma_rle16_rows_frame(orow, out, imgrow, img, width, l + width, base - width, n);
    assert forall|c: int| 0 <= c < width && base + width >= width implies #[trigger] out[(l - width) + width + c] == img[(base + width) - width + c] by {
        assert(out[l + c] == img[base + c]);
    }
}
/// completed row j (0 = most recent)
pub proof fn lemma_rle16_rows_at(out: Seq<u16>, img: Seq<u16>, width: int, l: int, b: int, n: nat, j: int, c: int)
    requires rle16_rows_ok(out, img, width, l, b, n), 0 <= j < n, 0 <= c < width
    ensures 0 <= b - j * width + c < img.len(), 0 <= l + j * width + c < out.len(), out[l + j * width + c] == img[b - j * width + c]
    decreases j
{
    reveal(rle16_rows_ok);
    if j > 0 {
        lemma_rle16_rows_at(out, img, width, l + width, b - width, (n - 1) as nat, j - 1, c);
        assert((j - 1) * width == j * width - width) by(nonlinear_arith);
        assert(l + width + (j - 1) * width + c == l + j * width + c);
        assert(b - width - (j - 1) * width + c == b - j * width + c);
    } else {
        assert(j * width == 0) by(nonlinear_arith) requires j == 0;
        assert(out[l + c] == img[b + c]);
    }
}
pub open spec fn rle16_idx(width: int, h0: int, r: int, c: int) -> int { (h0 - 1 - r) * width + c }
pub proof fn lemma_rle16_idx_bound(width: int, h0: int, r: int, c: int)
    requires 0 <= r < h0, 0 <= c < width
    ensures 0 <= rle16_idx(width, h0, r, c) < width * h0
{
    assert(0 <= (h0 - 1 - r) * width) by(nonlinear_arith) requires 0 <= h0 - 1 - r, 0 <= width;
    assert((h0 - 1 - r) * width + width <= width * h0) by(nonlinear_arith) requires h0 - 1 - r + 1 <= h0, 0 <= width;
}
/// the result in closed form: decoded pixel (row r, column c) is at out[(h0 - 1 - r) * width + c]
pub proof fn lemma_rle16_final(out: Seq<u16>, o0: Seq<u16>, orow: Seq<u16>, img: Seq<u16>, imgrow: Seq<u16>, width: int, h0: int, height: int, x: int, prev: Option<usize>)
    requires 0 <= height < h0,
        rle16_row_inv(out, o0, orow, img, imgrow, width, width * h0, height * width, x, (h0 - height - 1) * width, prev),
        rle16_rows_ok(orow, imgrow, width, height * width + width, (h0 - height - 1) * width - width, (h0 - height - 1) as nat),
    ensures img.len() == (h0 - height - 1) * width + x, img.len() <= width * h0,
        forall|r: int, c: int| 0 <= r && 0 <= c < width && r * width + c < img.len() ==> 0 <= #[trigger] rle16_idx(width, h0, r, c) < out.len() && out[rle16_idx(width, h0, r, c)] == img[r * width + c],
        forall|r: int, c: int| 0 <= r < h0 && 0 <= c < width && r * width + c >= img.len() ==> 0 <= #[trigger] rle16_idx(width, h0, r, c) < out.len() && out[rle16_idx(width, h0, r, c)] == o0[rle16_idx(width, h0, r, c)],
        forall|i: int| width * h0 <= i < out.len() ==> #[trigger] out[i] == o0[i],
{
    reveal(rle16_row_inv);
    let n = h0 - height - 1;
    let l = height * width;
    let base = n * width;
    lemma_rle16_rows_frame(orow, out, imgrow, img, width, l + width, base - width, n as nat);
    assert(n * width + width <= h0 * width) by(nonlinear_arith) requires n + 1 <= h0, 0 <= width;
    assert(width * h0 == h0 * width) by(nonlinear_arith);
    assert forall|r: int, c: int| 0 <= r && 0 <= c < width && r * width + c < img.len() implies 0 <= #[trigger] rle16_idx(width, h0, r, c) < out.len() && out[rle16_idx(width, h0, r, c)] == img[r * width + c] by {
        if r < n {
            let j = n - 1 - r;
            lemma_rle16_rows_at(out, img, width, l + width, base - width, n as nat, j, c);
            assert(l + width + j * width == (h0 - 1 - r) * width) by(nonlinear_arith) requires l == height * width, j == h0 - height - 2 - r;
            assert(base - width - j * width == r * width) by(nonlinear_arith) requires base == (h0 - height - 1) * width, j == h0 - height - 2 - r;
        } else {
            assert(r * width >= (n + 1) * width || r == n) by(nonlinear_arith) requires r >= n, 0 <= width;
            assert((n + 1) * width == n * width + width) by(nonlinear_arith);
            assert(r == n);
            assert(c < x);
            assert((h0 - 1 - r) * width == l);
            assert(out[l + c] == img[base + c]);
        }
    }
    assert forall|r: int, c: int| 0 <= r < h0 && 0 <= c < width && r * width + c >= img.len() implies 0 <= #[trigger] rle16_idx(width, h0, r, c) < out.len() && out[rle16_idx(width, h0, r, c)] == o0[rle16_idx(width, h0, r, c)] by {
        if r < n {
            assert((r + 1) * width <= n * width) by(nonlinear_arith) requires r + 1 <= n, 0 <= width;
            assert((r + 1) * width == r * width + width) by(nonlinear_arith);
            assert(false);
        }
        let i = rle16_idx(width, h0, r, c);
        if r == n {
            assert(i == l + c);
        } else {
            assert((h0 - 1 - r) * width + width <= height * width) by(nonlinear_arith) requires h0 - 1 - r + 1 <= height, 0 <= width;
            assert(0 <= (h0 - 1 - r) * width) by(nonlinear_arith) requires 0 <= h0 - 1 - r, 0 <= width;
        }
        assert(out[i] == o0[i]);
    }
}

// ----- the decoder's variables against the specification
pub proof fn lemma_rle16_le_zero(a: u8, b: u8) ensures u16_le(a, b) == 0 ==> a == 0 && b == 0 {
    assert(((a as u16) | ((b as u16) << 8)) == 0 ==> a == 0 && b == 0) by(bit_vector);
}
/// the decoder's internal (rdesktop) opcode of an order kind
pub open spec fn rle16_opcode(k: RleKind) -> u8 {
    match k {
        RleKind::BgRun => 0, RleKind::FgRun => 1, RleKind::FgBgImage => 2, RleKind::ColorRun => 3, RleKind::ColorImage => 4,
        RleKind::DitheredRun => 8, RleKind::White => 0xd, RleKind::Black => 0xe,
    }
}
/// input offset after k pixels of order o (per-pixel data is consumed lazily)
pub open spec fn rle16_pos(o: RleOrder, k: int) -> int {
    if o.kind is ColorImage { o.data + 2 * k } else if o.kind is FgBgImage && o.mask is None { o.data + (k + 7) / 8 } else { o.data }
}
/// decoder state after k pixels of order o, which started in state st0
#[verifier::opaque]
pub open spec fn rle16_order_inv(s: Seq<u8>, width: nat, st0: RleState, o: RleOrder, k: int, opcode: u8, count: u32, bicolour: bool, pos: nat,
    img: Seq<u16>, mix: u16, insertmix: bool, colour1: u16, colour2: u16, fom_mask: u8, mask: u8, mixmask: u8) -> bool
{
    let ins = rle16_insert(st0, width, o);
    let npix = rle16_npix(o);
    &&& opcode == rle16_opcode(o.kind)
    &&& o.len > 0
    &&& 0 <= k <= npix
    &&& (o.kind is DitheredRun ==> 2 * count - (if bicolour { 1int } else { 0int }) == npix - k && bicolour == (k % 2 == 1))
    &&& (!(o.kind is DitheredRun) ==> count == npix - k && !bicolour)
    &&& pos == rle16_pos(o, k)
    &&& pos <= s.len()
    &&& mix == rle16_fg(st0, o)
    &&& img == rle16_write(s, width, o, mix, ins, st0.img, k as nat)
    &&& insertmix == (ins && k == 0)
    &&& (o.kind is ColorRun ==> colour2 == o.a)
    &&& (o.kind is DitheredRun ==> colour1 == o.a && colour2 == o.b)
    &&& (o.kind is FgBgImage ==> {
        &&& fom_mask == (match o.mask { Some(m) => m, None => 0u8 })
        &&& (o.mask matches Some(m) ==> m != 0)
        &&& (k == 0 ==> mixmask == 0)
        &&& (k > 0 ==> mixmask == rle16_bit((k - 1) % 8) && mask == rle16_maskbyte(s, o, k - 1))
    })
}
pub open spec fn rle16_shl1(m: u8) -> u8 { m << 1u8 }
/// (FGBG_IMAGE: the byte read is stated as the Cursor contract states it, cursor_rest(s, pos)[0], so that the obligation is a direct match)
/// what one executed pixel statement of the decoder does to its variables (old -> new) and the value v it stores, per order kind;
/// bg = the value the code uses for "background" (the pixel above, 0 on the first decoded scanline), fgv = its value for "above XOR mix"
pub open spec fn rle16_code_step(s: Seq<u8>, kind: RleKind, bg: u16, fgv: u16, colour1: u16, colour2: u16, fom_mask: u8,
    count: u32, bicolour: bool, pos: nat, insertmix: bool, mask: u8, mixmask: u8,
    count2: u32, bicolour2: bool, pos2: nat, insertmix2: bool, mask2: u8, mixmask2: u8, v: u16) -> bool
{
    let m1 = rle16_shl1(mixmask);
    &&& !insertmix2
    &&& (!(kind is BgRun) ==> !insertmix)
    &&& (!(kind is FgBgImage) ==> mask2 == mask && mixmask2 == mixmask)
    &&& (!(kind is DitheredRun) ==> count2 == count - 1 && bicolour2 == bicolour)
    &&& (!(kind is ColorImage) && !(kind is FgBgImage) ==> pos2 == pos)
    &&& match kind {
        RleKind::BgRun => v == (if insertmix { fgv } else { bg }),
        RleKind::FgRun => v == fgv,
        RleKind::FgBgImage => {
            &&& mask2 == (if m1 == 0 { if fom_mask != 0 { fom_mask } else { cursor_rest(s, pos)[0] } } else { mask })
            &&& mixmask2 == (if m1 == 0 { 1u8 } else { m1 })
            &&& pos2 == (if m1 == 0 && fom_mask == 0 { pos + 1 } else { pos })
            &&& (m1 == 0 && fom_mask == 0 ==> cursor_rest(s, pos).len() >= 1)
            &&& v == (if mask2 & mixmask2 != 0 { fgv } else { bg })
        },
        RleKind::ColorRun => v == colour2,
        RleKind::ColorImage => pos + 2 <= s.len() && v == u16_le(s[pos as int], s[pos as int + 1]) && pos2 == pos + 2,
        RleKind::DitheredRun => if bicolour { v == colour2 && !bicolour2 && count2 == count - 1 } else { v == colour1 && bicolour2 && count2 == count },
        RleKind::White => v == 0xffff,
        RleKind::Black => v == 0,
    }
}
/// the code's "background" and "above XOR mix" values at column x of the row starting at l (prev = start of the previous row, if any)
pub open spec fn rle16_code_bg(out: Seq<u16>, prev: Option<usize>, x: int) -> u16 { match prev { Some(e) => out[e + x], None => 0u16 } }
pub open spec fn rle16_code_fg(out: Seq<u16>, prev: Option<usize>, x: int, mix: u16) -> u16 { match prev { Some(e) => out[e + x] ^ mix, None => mix } }
pub proof fn lemma_rle16_step(s: Seq<u8>, width: nat, st0: RleState, o: RleOrder, k: int, opcode: u8, img: Seq<u16>, mix: u16, colour1: u16, colour2: u16, fom_mask: u8,
    count: u32, bicolour: bool, pos: nat, insertmix: bool, mask: u8, mixmask: u8,
    count2: u32, bicolour2: bool, pos2: nat, insertmix2: bool, mask2: u8, mixmask2: u8, v: u16)
    requires
        rle16_order_inv(s, width, st0, o, k, opcode, count, bicolour, pos, img, mix, insertmix, colour1, colour2, fom_mask, mask, mixmask),
        count > 0,
        rle16_code_step(s, o.kind, rle16_above(img, width), rle16_above(img, width) ^ mix, colour1, colour2, fom_mask, count, bicolour, pos, insertmix, mask, mixmask,
            count2, bicolour2, pos2, insertmix2, mask2, mixmask2, v),
    ensures
        rle16_order_inv(s, width, st0, o, k + 1, opcode, count2, bicolour2, pos2, img.push(v), mix, insertmix2, colour1, colour2, fom_mask, mask2, mixmask2),
{
    reveal(rle16_order_inv); reveal(rle16_above);
    let m = mixmask;
    assert((m == 0u8 ==> m << 1u8 == 0u8) && (m == 1u8 ==> m << 1u8 == 2u8) && (m == 2u8 ==> m << 1u8 == 4u8) && (m == 4u8 ==> m << 1u8 == 8u8)
      && (m == 8u8 ==> m << 1u8 == 16u8) && (m == 16u8 ==> m << 1u8 == 32u8) && (m == 32u8 ==> m << 1u8 == 64u8) && (m == 64u8 ==> m << 1u8 == 128u8) && (m == 128u8 ==> m << 1u8 == 0u8)) by(bit_vector);
    let ins = rle16_insert(st0, width, o);
    assert(rle16_write(s, width, o, mix, ins, st0.img, (k + 1) as nat) == img.push(rle16_pixel(s, width, o, mix, ins, img, k)));
}
/// ONE EXECUTED PIXEL STATEMENT (the single proof step of the 100 pixel statements of the expanded body): the decoder's variables go from the
/// un-subscripted to the `2` values, out -> out2 = out with v stored at column x of the current row; if that is what the code of order kind `kind`
/// does (rle16_code_step over the code's own background / foreground values), the decoded sequence grows by the specification's pixel.
pub proof fn lemma_rle16_pixel(dz: bool, s: Seq<u8>, width: nat, st0: RleState, po: Option<RleOrder>, kind: RleKind, k: int, opcode: u8, img: Seq<u16>, mix: u16,
    colour1: u16, colour2: u16, fom_mask: u8,
    count: u32, bicolour: bool, pos: nat, insertmix: bool, mask: u8, mixmask: u8,
    count2: u32, bicolour2: bool, pos2: nat, insertmix2: bool, mask2: u8, mixmask2: u8,
    out: Seq<u16>, out2: Seq<u16>, o0: Seq<u16>, orow: Seq<u16>, imgrow: Seq<u16>, top: int, l: int, x: int, base: int, prev: Option<usize>, v: u16)
    requires
        dz || (po is Some && po->Some_0.kind == kind
            && rle16_order_inv(s, width, st0, po->Some_0, k, opcode, count, bicolour, pos, img, mix, insertmix, colour1, colour2, fom_mask, mask, mixmask)
            && rle16_row_inv(out, o0, orow, img, imgrow, width as int, top, l, x, base, prev)),
        x < width, count > 0,
        out2 == out.update(l + x, v),
        dz || rle16_code_step(s, kind, rle16_code_bg(out, prev, x), rle16_code_fg(out, prev, x, mix), colour1, colour2, fom_mask, count, bicolour, pos, insertmix, mask, mixmask,
            count2, bicolour2, pos2, insertmix2, mask2, mixmask2, v),
    ensures
        dz || (rle16_order_inv(s, width, st0, po->Some_0, k + 1, opcode, count2, bicolour2, pos2, img.push(v), mix, insertmix2, colour1, colour2, fom_mask, mask2, mixmask2)
            && rle16_row_inv(out2, o0, orow, img.push(v), imgrow, width as int, top, l, x + 1, base, prev)),
{
    if !dz {
        lemma_rle16_row_facts(out, o0, orow, img, imgrow, width as int, top, l, x, base, prev);
        assert(0u16 ^ mix == mix) by(bit_vector);
        lemma_rle16_step(s, width, st0, po->Some_0, k, opcode, img, mix, colour1, colour2, fom_mask, count, bicolour, pos, insertmix, mask, mixmask,
            count2, bicolour2, pos2, insertmix2, mask2, mixmask2, v);
        lemma_rle16_put(out, out2, o0, orow, img, imgrow, width as int, top, l, x, base, prev, v);
    }
}
// ----- the decoder's header / parameter decoding against the order table of the specification
pub struct RleDec { pub opcode: u8, pub count: u32, pub pos: int, pub mix: u16, pub colour1: u16, pub colour2: u16, pub fom_mask: u8, pub mask: u8 }
/// MODEL of the code between `code = read_u8()` and `lastopcode = opcode` (three stages: opcode form, count, parameters) as a function of the
/// input and of the variables that survive from the previous order; None = a read fails.  The body asserts that the real variables equal this
/// model (so a transcription error here is a verification failure, not an assumption).
pub open spec fn rle16_code_decode(s: Seq<u8>, p0: int, mix: u16, colour1: u16, colour2: u16, mask: u8) -> Option<RleDec> {
    let code = s[p0];
    let op4 = code >> 4;
    let a: Option<(u8, u32, u32, int)> =
        if op4 == 0xC || op4 == 0xD || op4 == 0xE { Some(((op4 - 6) as u8, (code & 0xf) as u32, 16u32, p0 + 1)) }
        else if op4 == 0xF {
            let opc = code & 0xf;
            if opc < 9 { if p0 + 3 <= s.len() { Some((opc, u16_le(s[p0 + 1], s[p0 + 2]) as u32, 0u32, p0 + 3)) } else { None } }
            else if opc < 0xb { Some((opc, 8u32, 0u32, p0 + 1)) }
            else { Some((opc, 1u32, 0u32, p0 + 1)) }
        } else { Some((op4 >> 1, (code & 0x1f) as u32, 32u32, p0 + 1)) };
    match a {
        None => None,
        Some((op_a, cnt_a, offset, pos_a)) => {
            let fill = op_a == 2 || op_a == 7;
            let b: Option<(u32, int)> =
                if offset != 0 {
                    if cnt_a == 0 {
                        if pos_a < s.len() { Some(((s[pos_a] as u32 + (if fill { 1u32 } else { offset })) as u32, pos_a + 1)) } else { None }
                    } else if fill { Some((cnt_a << 3, pos_a)) } else { Some((cnt_a, pos_a)) }
                } else { Some((cnt_a, pos_a)) };
            match b {
                None => None,
                Some((cnt, pos_b)) => {
                    if op_a == 8 {
                        if pos_b + 4 <= s.len() { Some(RleDec { opcode: 8, count: cnt, pos: pos_b + 4, mix, colour1: u16_le(s[pos_b], s[pos_b + 1]), colour2: u16_le(s[pos_b + 2], s[pos_b + 3]), fom_mask: 0, mask }) } else { None }
                    } else if op_a == 3 {
                        if pos_b + 2 <= s.len() { Some(RleDec { opcode: 3, count: cnt, pos: pos_b + 2, mix, colour1, colour2: u16_le(s[pos_b], s[pos_b + 1]), fom_mask: 0, mask }) } else { None }
                    } else if op_a == 6 || op_a == 7 {
                        if pos_b + 2 <= s.len() { Some(RleDec { opcode: (op_a - 5) as u8, count: cnt, pos: pos_b + 2, mix: u16_le(s[pos_b], s[pos_b + 1]), colour1, colour2, fom_mask: 0, mask }) } else { None }
                    } else if op_a == 9 { Some(RleDec { opcode: 2, count: cnt, pos: pos_b, mix, colour1, colour2, fom_mask: 3, mask: 3 }) }
                    else if op_a == 0xa { Some(RleDec { opcode: 2, count: cnt, pos: pos_b, mix, colour1, colour2, fom_mask: 5, mask: 5 }) }
                    else { Some(RleDec { opcode: op_a, count: cnt, pos: pos_b, mix, colour1, colour2, fom_mask: 0, mask }) }
                },
            }
        },
    }
}
/// HEADER / LENGTH DECODING LEMMA (all 256 header bytes): the decoder's opcode / count / offset extraction is the order table of the specification.
/// Outside zero-length MEGA_MEGA orders: an order of the specification is decoded to its kind, run length, parameters and data offset; what is
/// not an order ends up in an opcode that the pixel loop rejects, with a non-zero count.
pub proof fn lemma_rle16_decode(s: Seq<u8>, width: nat, st0: RleState, p0: int, colour1: u16, colour2: u16, mask: u8, insertmix: bool)
    requires 0 <= p0 < s.len(), !rle16_excluded(s, width, p0),
        rle16_code_decode(s, p0, st0.fg, colour1, colour2, mask) matches Some(d) ==> insertmix == (d.opcode == 0 && st0.last_bg && !(st0.img.len() == 0 || st0.img.len() == width)),
    ensures rle16_code_decode(s, p0, st0.fg, colour1, colour2, mask) matches Some(d) ==> (match rle16_parse(s, p0) {
            None => d.count > 0 && (d.opcode == 5 || d.opcode == 0xb || d.opcode == 0xc || d.opcode == 0xf),
            Some(o) => insertmix == rle16_insert(st0, width, o) && d.pos <= s.len() && (o.kind is FgBgImage ==> rle16_npix(o) < 8 || width <= 8)
                && rle16_order_inv(s, width, st0, o, 0, d.opcode, d.count, false, d.pos as nat, st0.img, d.mix, insertmix, d.colour1, d.colour2, d.fom_mask, d.mask, 0),
        }),
{
    reveal(rle16_parse); reveal(rle16_excluded); reveal(rle16_order_inv);
    let code = s[p0];
    lemma_rle16_bits(code);
    if p0 + 2 < s.len() { lemma_rle16_le_zero(s[p0 + 1], s[p0 + 2]); }
    let c = (code & 0x1f) as u32;
    assert(c <= 31 ==> (c << 3u32) == c * 8) by(bit_vector);
    let c4 = (code & 0x0f) as u32;
    assert(c4 <= 15 ==> (c4 << 3u32) == c4 * 8) by(bit_vector);
}
/// the specification's fold over orders advances past order o
pub proof fn lemma_rle16_order_end(s: Seq<u8>, width: nat, st0: RleState, o: RleOrder, p0: int, k: int, opcode: u8, count: u32, bicolour: bool, pos: nat,
    img: Seq<u16>, mix: u16, insertmix: bool, colour1: u16, colour2: u16, fom_mask: u8, mask: u8, mixmask: u8)
    requires 0 <= p0 < s.len(), rle16_parse(s, p0) == Some(o), count == 0, !rle16_excluded(s, width, p0),
        rle16_order_inv(s, width, st0, o, k, opcode, count, bicolour, pos, img, mix, insertmix, colour1, colour2, fom_mask, mask, mixmask),
    ensures rle16_run(s, width, pos as int, RleState { img, fg: mix, last_bg: opcode == 0 }) == rle16_run(s, width, p0, st0),
        !rle16_excluded(s, width, pos as int), !insertmix, !bicolour, p0 < pos <= s.len(), st0.img.len() <= img.len(),
{
    reveal(rle16_order_inv); reveal(rle16_run); reveal(rle16_excluded);
    lemma_rle16_parse_next(s, p0);
    assert(k == rle16_npix(o));
    assert(pos == o.next) by { reveal(rle16_parse); }
    assert(rle16_apply(s, width, st0, o) == RleState { img, fg: mix, last_bg: opcode == 0 });
    lemma_rle16_write_len(s, width, o, mix, rle16_insert(st0, width, o), st0.img, k as nat);
}
pub proof fn lemma_rle16_write_len(s: Seq<u8>, width: nat, o: RleOrder, fg: u16, insert: bool, img: Seq<u16>, k: nat)
    ensures rle16_write(s, width, o, fg, insert, img, k).len() == img.len() + k
    decreases k
{
    if k > 0 { lemma_rle16_write_len(s, width, o, fg, insert, img, (k - 1) as nat); }
}
pub proof fn lemma_rle16_run_end(s: Seq<u8>, width: nat, i: int, st: RleState)
    requires i >= s.len()
    ensures rle16_run(s, width, i, st) == Some(st.img)
{
    reveal(rle16_run);
}
pub proof fn lemma_rle16_decode_start(s: Seq<u8>, width: nat)
    ensures rle16_decode(s, width) == rle16_run(s, width, 0, RleState { img: Seq::empty(), fg: 0xffff, last_bg: false })
{
    reveal(rle16_decode);
}

// ----- the result clauses of rle_16_decompress (opaque in the body: they are also checked at the 20 error exits, where only `r is Ok` matters)
/// decoded pixel (rr, c) is stored at row height-1-rr, column c
#[verifier::opaque]
pub open spec fn rle16_exact(dec: Seq<u16>, width: int, height: int, out: Seq<u16>) -> bool {
    forall|rr: int, c: int| 0 <= rr && 0 <= c < width && rr * width + c < dec.len() ==>
        0 <= #[trigger] rle16_idx(width, height, rr, c) < out.len() && out[rle16_idx(width, height, rr, c)] == dec[rr * width + c]
}
/// the pixels of the width x height area that were not decoded are unchanged
#[verifier::opaque]
pub open spec fn rle16_frame_rows(n: int, width: int, height: int, old_out: Seq<u16>, out: Seq<u16>) -> bool {
    forall|rr: int, c: int| 0 <= rr < height && 0 <= c < width && rr * width + c >= n ==>
        0 <= #[trigger] rle16_idx(width, height, rr, c) < out.len() && out[rle16_idx(width, height, rr, c)] == old_out[rle16_idx(width, height, rr, c)]
}
/// nothing is written beyond the width x height area
#[verifier::opaque]
pub open spec fn rle16_frame_tail(width: int, height: int, old_out: Seq<u16>, out: Seq<u16>) -> bool {
    forall|i: int| width * height <= i < out.len() ==> #[trigger] out[i] == old_out[i]
}
/// rle16_exact in the p / width, p % width form: decoded pixel number p is at out[(height - 1 - p / width) * width + p % width]
pub proof fn lemma_rle16_exact_at(dec: Seq<u16>, width: int, height: int, out: Seq<u16>, p: int)
    requires rle16_exact(dec, width, height, out), 0 <= p < dec.len(), width > 0
    ensures 0 <= (height - 1 - p / width) * width + p % width < out.len(), out[(height - 1 - p / width) * width + p % width] == dec[p]
{
    reveal(rle16_exact);
    let rr = p / width; let c = p % width;
    vstd::arithmetic::div_mod::lemma_fundamental_div_mod(p, width);
    assert(width * rr == rr * width) by(nonlinear_arith);
    assert(0 <= rr) by(nonlinear_arith) requires 0 <= p, width > 0, rr == p / width;
    assert(rle16_idx(width, height, rr, c) == (height - 1 - p / width) * width + p % width);
    assert(rr * width + c < dec.len());
}
// ----- FGBG_IMAGE pixel statement: same step as lemma_rle16_pixel, with the code facts stated as GUARDED implications (one per path through
// `mixmask <<= 1; if mixmask == 0 { mask = if fom_mask != 0 { fom_mask } else { read_u8()? }; mixmask = 1; }`).  The if-then-else form of
// rle16_code_step makes the solver enumerate the 6^8 paths of the unrolled loops; the guarded form is discharged path-locally.
pub proof fn lemma_rle16_fgbg_pixel(dz: bool, s: Seq<u8>, width: nat, st0: RleState, po: Option<RleOrder>, k: int, opcode: u8, img: Seq<u16>, mix: u16,
    colour1: u16, colour2: u16, fom_mask: u8,
    count: u32, bicolour: bool, pos: nat, insertmix: bool, mask: u8, mixmask: u8,
    count2: u32, pos2: nat, mask2: u8, mixmask2: u8,
    out: Seq<u16>, out2: Seq<u16>, o0: Seq<u16>, orow: Seq<u16>, imgrow: Seq<u16>, top: int, l: int, x: int, base: int, prev: Option<usize>, v: u16)
    requires
        dz || (po is Some && po->Some_0.kind is FgBgImage
            && rle16_order_inv(s, width, st0, po->Some_0, k, opcode, count, bicolour, pos, img, mix, insertmix, colour1, colour2, fom_mask, mask, mixmask)
            && rle16_row_inv(out, o0, orow, img, imgrow, width as int, top, l, x, base, prev)),
        x < width, count > 0, count2 == count - 1,
        out2 == out.update(l + x, v),
        dz || !insertmix,
        rle16_shl1(mixmask) != 0 ==> mixmask2 == rle16_shl1(mixmask) && mask2 == mask && pos2 == pos,
        rle16_shl1(mixmask) == 0 ==> mixmask2 == 1,
        rle16_shl1(mixmask) == 0 && fom_mask != 0 ==> mask2 == fom_mask && pos2 == pos,
        rle16_shl1(mixmask) == 0 && fom_mask == 0 ==> mask2 == cursor_rest(s, pos)[0] && cursor_rest(s, pos).len() >= 1 && pos2 == pos + 1,
        (mask2 & mixmask2) != 0 ==> v == rle16_code_fg(out, prev, x, mix),
        (mask2 & mixmask2) == 0 ==> v == rle16_code_bg(out, prev, x),
    ensures
        dz || (rle16_order_inv(s, width, st0, po->Some_0, k + 1, opcode, count2, bicolour, pos2, img.push(v), mix, insertmix, colour1, colour2, fom_mask, mask2, mixmask2)
            && rle16_row_inv(out2, o0, orow, img.push(v), imgrow, width as int, top, l, x + 1, base, prev)),
{
    lemma_rle16_pixel(dz, s, width, st0, po, RleKind::FgBgImage, k, opcode, img, mix, colour1, colour2, fom_mask,
        count, bicolour, pos, insertmix, mask, mixmask, count2, bicolour, pos2, insertmix, mask2, mixmask2,
        out, out2, o0, orow, imgrow, top, l, x, base, prev, v);
}
""", mod="rle", name="rle16_specs")

ZR = "rle16_excluded(input@, width as nat, 0)"
DEC = "rle16_decode(input@, width as nat)"
_OK = "r is Ok && !" + ZR + " ==> "
_IDX = "rle16_idx(width as int, height as int, rr, c)"

RLE16_CONTRACT = dict(
    requires=["width * height <= old(output)@.len()"],
    ensures=[("C08", "len", "final(output)@.len() == old(output)@.len()"),
             # --- functional correctness against RLE16_SPECS (decode order: pixel (rr, c) = column c of the rr-th decoded scanline = row height-1-rr of the bitmap).
             # Domain: streams that are not rle16_excluded (zero-length MEGA_MEGA orders; FGBG-class orders of >= 8 pixels on bitmaps wider than 8), see the report.
             ("C09", "rle16-conformant", _OK + DEC + " is Some"),
             ("C09", "rle16-size", _OK + DEC + "->Some_0.len() <= width * height"),
             ("C09", "rle16-exact", _OK + "rle16_exact(" + DEC + "->Some_0, width as int, height as int, final(output)@)"),
             ("C09", "rle16-frame-rows", _OK + "rle16_frame_rows(" + DEC + "->Some_0.len() as int, width as int, height as int, old(output)@, final(output)@)"),
             ("C09", "rle16-frame-tail", _OK + "rle16_frame_tail(width as int, height as int, old(output)@, final(output)@)"),
             ],
)

# ---------------------------------------------------------------------------------------------------------------
# Loop numbering (after expansion of repeat!): 1 = per-order loop over the input, 2 = `while count > 0`,
# 3..24 = the 11 repeat! sites, each an unrolled-by-8 loop (odd ordinal) followed by the remainder loop (even).
# Sites in source order: op0/Some(e), op0/None, op1/Some(e), op1/None, op2/Some(e), op2/None, op3, op4, op8, 0xd, 0xe.
# ---------------------------------------------------------------------------------------------------------------
N_SITES = 11
N_LOOPS = 2 + 2 * N_SITES

# the sites whose statement reads the previous line through the binding `e` of `if let Some(e) = prevline`
_E_SITES = {0, 2, 4}
_NONE_SITES = {1, 3, 5}
_SITE_KIND = ["BgRun", "BgRun", "FgRun", "FgRun", "FgBgImage", "FgBgImage", "ColorRun", "ColorImage", "DitheredRun", "White", "Black"]
# the value stored by the pixel statement of each site, over the state BEFORE the statement (ocur = output@ before, g_* = variables before)
_ABOVE_E = "ocur[e + g_x]"
_SITE_VALUE = [
    _ABOVE_E, "0u16",
    "(" + _ABOVE_E + " ^ mix)", "mix",
    "(if (mask & mixmask) != 0 { " + _ABOVE_E + " ^ mix } else { " + _ABOVE_E + " })", "(if (mask & mixmask) != 0 { mix } else { 0u16 })",
    "colour2",
    "u16_le(input@[g_pos as int], input@[g_pos as int + 1])",
    "(if g_bic { colour2 } else { colour1 })",
    "0xffffu16", "0u16",
]
_INSERT_VALUE = "(if prevline is Some { ocur[prevline->Some_0 + g_x] ^ mix } else { mix })"

# all row bookkeeping is kept in LINEAR form: a row start `l` is usable iff l + width <= len
# MAXLEN: a [u16] spans at most isize::MAX bytes (see PRE), so that `x + 8` with x <= width <= len cannot overflow
MAXLEN = "0x3fff_ffff_ffff_ffff"  # isize::MAX / 2 on the declared 64-bit target
_COMMON = """
        output@.len() == old(output)@.len(),
        output@.len() <= """ + MAXLEN + """,
        x <= width,
        count <= 0xffff,
        input_cursor.pos() > p0,
"""

# ---- functional layer.  Every clause is guarded by `dz ||` (dz = rle16_excluded(input@, width, 0): nothing is claimed then).
# All specification functions are OPAQUE in the body (nothing unfolds in the 24 loop queries); the proof steps are lemma calls.
# current row: `line` None = nothing decoded yet; Some(l) = rle16_row_inv + the completed rows (snapshot orow / imgrow taken when the row was started)
_F_CURSOR = """
        input_cursor.data() == input@,
"""
_SNAP_INV = "ocur == output@, g_x == x, g_count == count, g_bic == bicolour, g_pos == input_cursor.pos(), g_ins == insertmix, g_mask == mask, g_mm == mixmask,"
_F_ROWS = """
        o0 == old(output)@,
        top == width * h0,
        dz || (line is None ==> output@ == o0 && img.len() == 0 && height == h0 && x == width),
        dz || (line is Some ==> line->Some_0 == height * width && height < h0 && base == (h0 - height - 1) * width
            && rle16_row_inv(output@, o0, orow, img, imgrow, width as int, top, line->Some_0 as int, x as int, base, prevline)
            && rle16_rows_ok(orow, imgrow, width as int, line->Some_0 + width, base - width, (h0 - height - 1) as nat)),
"""
_ORDER_INV = ("rle16_order_inv(input@, width as nat, st0, po->Some_0, k, opcode, count, bicolour, input_cursor.pos(), img, mix, insertmix, "
              "colour1, colour2, fom_mask, mask, mixmask)")

_OUTER = """
    invariant
        output@.len() == old(output)@.len(),
        output@.len() <= """ + MAXLEN + """,
        width * h0 <= output@.len(),
        height <= h0,
        x <= width,
        x < width ==> line is Some,
        line matches Some(l) ==> l + width <= output@.len(),
        prevline matches Some(p) ==> p + width <= output@.len() && line is Some,
        insertmix ==> width > 0,
        width == 0 ==> line is None,
""" + _F_CURSOR + _F_ROWS + """
        dz || input_cursor.pos() <= input@.len(),
        dz || (rle16_run(input@, width as nat, input_cursor.pos() as int, RleState { img, fg: mix, last_bg: lastopcode == 0 }) == dec
            && !rle16_excluded(input@, width as nat, input_cursor.pos() as int) && !insertmix && !bicolour && (line is Some && width > 0 ==> x >= 1)),
    decreases
        (if input_cursor.pos() <= input@.len() { input@.len() - input_cursor.pos() } else { 0 }),
"""

_COUNT = """
    invariant
""" + _COMMON + """
        width * h0 <= output@.len(),
        height <= h0,
        x < width ==> line is Some,
        line matches Some(l) ==> l + width <= output@.len(),
        prevline matches Some(p) ==> p + width <= output@.len() && line is Some,
        insertmix ==> width > 0,
        (width == 0 && line is Some) ==> count > 0,
""" + _F_CURSOR + _F_ROWS + """
        """ + _SNAP_INV + """
        dz || (p0 < input@.len() && po == rle16_parse(input@, p0 as int)
            && rle16_run(input@, width as nat, p0 as int, st0) == dec && !rle16_excluded(input@, width as nat, p0 as int)
            && (line is Some && width > 0 ==> x >= 1)),
        dz || (po is Some && po->Some_0.kind is FgBgImage ==> rle16_npix(po->Some_0) < 8 || width <= 8),
        dz || (po is None ==> count > 0 && (opcode == 5 || opcode == 0xb || opcode == 0xc || opcode == 0xf)),
        dz || (po is Some ==> opcode == rle16_opcode(po->Some_0.kind) && insertmix == (rle16_insert(st0, width as nat, po->Some_0) && k == 0)
            && """ + _ORDER_INV + """),
    decreases
        height, (if x < width { 1int } else { 0int }), count,
"""


def _repeat_inv(site):
    with_e = site in _E_SITES
    s = """
    invariant
""" + _COMMON + """
        line matches Some(l) && l + width <= output@.len(),
        width == 0 ==> count > 0,
"""
    if with_e:
        s += "        e + width <= output@.len(),\n        dz || e == line->Some_0 + width,\n"
    if with_e:
        s += "        prevline == Some(e),\n"
    elif site in _NONE_SITES:
        s += "        prevline is None,\n"
    s += _F_CURSOR + """
        """ + _SNAP_INV + """
        x >= 1 || count > 0,
        """ + ("dz || count < 8 || width <= 8," if _SITE_KIND[site] == "FgBgImage" else "true,") + """
        dz || !insertmix,
        dz || (po is Some && po->Some_0.kind is """ + _SITE_KIND[site] + """ && """ + _ORDER_INV + """
            && rle16_row_inv(output@, o0, orow, img, imgrow, width as int, top, line->Some_0 as int, x as int, base, prevline)),
    decreases
        width - x,
"""
    return s


LOOPS = {1: _OUTER, 2: _COUNT}
for _s in range(N_SITES):
    for _k in (0, 1):
        LOOPS[3 + 2 * _s + _k] = _repeat_inv(_s)

_UNROLLED = r"while \(\(count & !0x7\) != 0\) && \(x \+ 8\) < width \{"

# ghost step after every executed pixel statement (`x += 1;` closes each of them: the insert-fg-pel pixel, then 8 unrolled + 1 remainder per site)
_SNAP = "g_x = x as int; g_count = count; g_bic = bicolour; g_pos = input_cursor.pos(); g_ins = insertmix; g_mask = mask; g_mm = mixmask; ocur = output@;"


def _pixel(value, kind):
    return """proof {
    let v = """ + value + """;
    lemma_rle16_pixel(dz, input@, width as nat, st0, po, RleKind::""" + kind + """, k, opcode, img, mix, colour1, colour2, fom_mask,
        g_count, g_bic, g_pos, g_ins, g_mask, g_mm, count, bicolour, input_cursor.pos(), insertmix, mask, mixmask,
        ocur, output@, o0, orow, imgrow, top, line->Some_0 as int, g_x, base, prevline, v);
    img = img.push(v); k = k + 1;
    """ + _SNAP + """
}"""


_ORDER_START = """let ghost st0 = RleState { img, fg: mix, last_bg: lastopcode == 0 };
let ghost po = rle16_parse(input@, p0 as int);
let ghost c10 = colour1; let ghost c20 = colour2; let ghost mask0 = mask;"""

# header / parameters decoded: the variables equal the model rle16_code_decode (claim), the lemma relates the model to the specification's order table
_PRE_DECODED = """proof {
    if !dz && line is Some { lemma_rle16_row_facts(output@, o0, orow, img, imgrow, width as int, top, line->Some_0 as int, x as int, base, prevline); }
}"""
_DECODED = """proof {
    if !dz {
        lemma_rle16_decode(input@, width as nat, st0, p0 as int, c10, c20, mask0, insertmix);
        k = 0;
    }
    """ + _SNAP + """
}"""
# C09 claims (asserted BEFORE the lemma that turns them into the specification's terms, so that a defect fails the claim itself):
#  - the decoder's opcode / count / offset / parameter extraction computes the model (which lemma_rle16_decode proves equal to the order table)
_CLAIM_MODEL = ("proof { assert(rle16_code_decode(input@, p0 as int, st0.fg, c10, c20, mask0) "
                "== Some(RleDec { opcode, count, pos: input_cursor.pos() as int, mix, colour1, colour2, fom_mask, mask })); }")
#  - insert-fg-pel guard: the flag is set iff this order is a BG_RUN, the previous order was a BG_RUN, and the position is neither 0 nor the end of the
#    first decoded scanline (img.len() = number of pixels decoded so far)
_CLAIM_GUARD = ("proof { assert(dz || insertmix == (opcode == 0 && st0.last_bg && !(st0.img.len() == 0 || st0.img.len() == width))); }")
#  - the same two facts in the specification's terms
_CLAIM_INSERT = "proof { assert(dz || (po is Some ==> insertmix == rle16_insert(st0, width as nat, po->Some_0))); }"
_CLAIM_HEADER = ("proof { assert(dz || (po is Some ==> opcode == rle16_opcode(po->Some_0.kind) && count == po->Some_0.len "
                 "&& input_cursor.pos() == po->Some_0.data)) by { reveal(rle16_order_inv); } }")

_ROW = """proof {
    if !dz {
        let ln = (height * width) as int;
        assert((height + 1) * width == height * width + width) by(nonlinear_arith);
        assert((h0 - height - 1) * width == (h0 - height - 2) * width + width) by(nonlinear_arith);
        assert(0 <= height * width) by(nonlinear_arith) requires 0 <= height, 0 <= width;
        match prevline {
            None => {
                assert(img =~= Seq::<u16>::empty());
                lemma_rle16_first_row(o0, width as int, top, ln);
                base = 0;
                assert((h0 - height - 1) * width == 0) by(nonlinear_arith) requires h0 - height - 1 == 0;
            },
            Some(lo) => {
                lemma_rle16_next_row(output@, o0, orow, img, imgrow, width as int, top, lo as int, base, pl_old, (h0 - height - 2) as nat);
                base = base + width;
            },
        }
        orow = output@; imgrow = img;
    }
}"""

_ORDER_END = """proof {
    if !dz {
        lemma_rle16_order_end(input@, width as nat, st0, po->Some_0, p0 as int, k, opcode, count, bicolour, input_cursor.pos(), img, mix, insertmix,
            colour1, colour2, fom_mask, mask, mixmask);
    }
}"""

_POST = """proof {
    if !dz {
        lemma_rle16_run_end(input@, width as nat, input_cursor.pos() as int, RleState { img, fg: mix, last_bg: lastopcode == 0 });
        assert(dec == Some(img));
        reveal(rle16_exact); reveal(rle16_frame_rows); reveal(rle16_frame_tail);
        match line {
            None => {
                assert(img =~= Seq::<u16>::empty());
                assert forall|rr: int, c: int| 0 <= rr < h0 && 0 <= c < width implies 0 <= #[trigger] rle16_idx(width as int, h0 as int, rr, c) < output@.len() by {
                    lemma_rle16_idx_bound(width as int, h0 as int, rr, c);
                }
            },
            Some(l) => {
                lemma_rle16_final(output@, o0, orow, img, imgrow, width as int, h0 as int, height as int, x as int, prevline);
            },
        }
    }
}"""

HINTS = [
    # the position at the start of the order: every order consumes at least its first byte
    (r"fom_mask = 0;", 1, "let ghost p0 = input_cursor.pos();\n" + _ORDER_START, "after"),
    (r"opcode = code >> 4;", 1,
     "proof { assert(code & 0xfu8 <= 15) by(bit_vector); assert(code & 0x1fu8 <= 31) by(bit_vector); "
     "assert(code >> 4u8 <= 15) by(bit_vector); }", "after"),
    (r"count <<= 3;", 1, "proof { assert(count <= 31 ==> (count << 3u32) <= 0xffff) by(bit_vector); }", "before"),
    (r"line = Some\(height \* width\);", 1,
     "proof { assert(height * width + width <= width * h0) by(nonlinear_arith) requires height < h0; }", "before"),
    (r"lastopcode = opcode;", 1, _PRE_DECODED, "after"),
    (r"mixmask = 0;", 1, _DECODED, "after"),
    (r"prevline = line;", 1, "let ghost pl_old = prevline;", "before"),
    (r"line = Some\(height \* width\);", 1, _ROW, "after"),
    (r"match opcode \{", 3, "proof { g_x = x as int; if !dz && line is Some { lemma_rle16_row_facts(output@, o0, orow, img, imgrow, width as int, top, line->Some_0 as int, x as int, base, prevline); } }", "before"),
    (r'"Unknown opcode"\)\)\)\s*\}', 1, "proof { assert(dz || (po is Some ==> insertmix == (rle16_insert(st0, width as nat, po->Some_0) && k == 0))) by { reveal(rle16_order_inv); } }", "after"),
    (r'"Unknown opcode"\)\)\)\s*\}\s*\}', 1, _ORDER_END, "after"),
    (r"\n\tOk\(\(\)\)", 1, _POST, "before"),
]
for _s in range(N_SITES):
    HINTS.append((_UNROLLED, _s + 1,
                  "proof { assert((count & !0x7u32) != 0 ==> count >= 8) by(bit_vector); }", "after"))

# block statements (op 2 masks, op 8 bicolour) inside the unrolled loops: restate the frame after every step
_STEP = r"\}; count -= 1; x \+= 1;"
for _i in range(24):
    HINTS.append((_STEP, _i + 1, "proof { assert(output@.len() == old(output)@.len() && input_cursor.pos() > p0 && input_cursor.data() == input@); }", "after"))
HINTS.append((r"x \+= 1;", 1, _pixel(_INSERT_VALUE, "BgRun"), "after"))


# FGBG_IMAGE sites (4: previous line e, 5: first line): same step, code facts as guarded implications (lemma_rle16_fgbg_pixel)
def _fg_pixel(value):
    return """proof {
    let v = """ + value + """;
    lemma_rle16_fgbg_pixel(dz, input@, width as nat, st0, po, k, opcode, img, mix, colour1, colour2, fom_mask,
        g_count, g_bic, g_pos, g_ins, g_mask, g_mm, count, input_cursor.pos(), mask, mixmask,
        ocur, output@, o0, orow, imgrow, top, line->Some_0 as int, g_x, base, prevline, v);
    img = img.push(v); k = k + 1;
    """ + _SNAP + """
}"""


# the 8-times unrolled FGBG loops are entered only by streams outside the proved domain (rle16_excluded (b)): count >= 8 and x + 8 < width there
_FG_SCOPE = "proof { assert(dz || count < 8 || width <= 8) by { reveal(rle16_order_inv); } }"
for _s in range(N_SITES):
    if _SITE_KIND[_s] == "FgBgImage":
        HINTS.append((_UNROLLED, _s + 1, _FG_SCOPE, "before"))
    for _j in range(9):
        if _SITE_KIND[_s] == "FgBgImage":
            HINTS.append((r"x \+= 1;", 2 + 9 * _s + _j, _fg_pixel(_SITE_VALUE[_s]) if _j == 8 else "proof { " + _SNAP + " }", "after"))
        else:
            HINTS.append((r"x \+= 1;", 2 + 9 * _s + _j, _pixel(_SITE_VALUE[_s], _SITE_KIND[_s]), "after"))

CLAIMS = [
    (r"lastopcode = opcode;", 1, _CLAIM_MODEL, "after", "C09", "order-header-length-decoding-model"),
    (r"lastopcode = opcode;", 1, _CLAIM_GUARD, "after", "C09", "insert-fg-pel-guard"),
    (r"mixmask = 0;", 1, _CLAIM_INSERT, "after", "C09", "insert-fg-pel-rule"),
    (r"mixmask = 0;", 1, _CLAIM_HEADER, "after", "C09", "order-header-length-decoding"),
]

# A [u16] never spans more than isize::MAX bytes (Rust layout rule).  vstd states this as the ensures of the
# erased, empty-bodied exec function `layout_for_val_is_valid` (its argument is Tracked, i.e. ghost): calling it is
# the only way to obtain the fact, there is no proof-mode variant for unsized values.  Needed because `x + 8` in the
# unrolled loop condition is evaluated with x up to width, and width <= output.len() is all the contract gives.
PRE = """
let ghost h0 = height;
vstd::layout::layout_for_val_is_valid::<[u16]>(Tracked(&*output));
proof {
    broadcast use vstd::layout::layout_of_primitives;
    vstd::layout::layout_of_slices::<u16>(&*output);
    assert(output@.len() * 2 <= isize::MAX);
}
let ghost o0 = output@;
let ghost top: int = width * h0;
let ghost dz = rle16_excluded(input@, width as nat, 0);
let ghost dec = rle16_decode(input@, width as nat);
let ghost mut img: Seq<u16> = Seq::empty();
let ghost mut orow: Seq<u16> = output@;
let ghost mut imgrow: Seq<u16> = Seq::empty();
let ghost mut base: int = 0;
let ghost mut ocur: Seq<u16> = output@;
let ghost mut k: int = 0; let ghost mut g_x: int = 0;
let ghost mut g_count: u32 = 0; let ghost mut g_bic: bool = false; let ghost mut g_pos: nat = 0; let ghost mut g_ins: bool = false;
let ghost mut g_mask: u8 = 0; let ghost mut g_mm: u8 = 0;
proof { lemma_rle16_decode_start(input@, width as nat); }
"""

RLE16 = Fn(RLE, "rle_16_decompress", mod="rle", props=["C08", "C09"], expand=["repeat"],
           pre=PRE,
           loops=LOOPS, nloops=N_LOOPS, hints=HINTS, claims=CLAIMS, **RLE16_CONTRACT)
