"""unit engine: the leaf Message implementations of src/model/data.rs verified against the Message trait contract of prelude/model.rs
(the same contracts that every other unit ASSUMES through prelude/leaf.rs).  C18: length() == |bytes written|, read(write(v)) == v, exact consumption.
C14: a byte block is written completely."""
from vx.spec import *

DATA = "src/model/data.rs"

def leaf(ty_regex, mvspec, label, extra_read=None, props=("C18",), more=None):
    """the five trait methods of one `impl Message for <ty>` block + the ghost view;
    `more` = {method: extra Fn keyword arguments (hints, pre, ...)}"""
    items = [Raw("    open spec fn mv(&self) -> MV { %s }\n" % mvspec, mod="data", name="mv_" + label, file=DATA, impl=ty_regex)]
    for name in ("write", "read", "length", "visit", "options"):
        kw = {}
        # Verus (0.2026.09.13) generates ill-typed AIR for argument-position `impl Trait` in verified trait-impl methods:
        # the trait declares explicit generics, so the R1 rewrite of `&mut dyn Write` is spelled with a named parameter here
        if name == "write":
            kw["dyn"] = False
            kw["sig_sub"] = [(r"fn write\(&self, writer: &mut dyn Write\)", "fn write<W: Write>(&self, writer: &mut W)")]
        if name == "read":
            kw["dyn"] = False
            kw["sig_sub"] = [(r"fn read\(&mut self, reader: &mut dyn Read\)", "fn read<R: Read>(&mut self, reader: &mut R)")]
        if name == "read" and extra_read:
            kw["ensures"] = extra_read
        kw.update((more or {}).get(name, {}))
        items.append(Fn(DATA, name, impl=ty_regex, mod="data", props=list(props), **kw))
    return items

# extra (stronger) clauses: MUST stay textually identical to the ones in /verif/prelude/leaf.rs
U8_READ = [("C18", "decodes", "r is Ok ==> old(reader).rest().len() >= 1 && *final(self) == old(reader).rest()[0] && final(reader).rest() == old(reader).rest().skip(1)"),
           ("C18", "frame", "final(reader).wr() == old(reader).wr()")]
U16_READ = [("C18", "decodes", "r is Ok ==> old(reader).rest().len() >= 2 && ((*old(self)) is LE <==> (*final(self)) is LE) && final(self).val() == dec16(old(reader).rest(), (*old(self)) is LE) && final(reader).rest() == old(reader).rest().skip(2)"),
            ("C18", "frame", "final(reader).wr() == old(reader).wr()")]
U32_READ = [("C18", "decodes", "r is Ok ==> old(reader).rest().len() >= 4 && ((*old(self)) is LE <==> (*final(self)) is LE) && final(self).val() == dec32(old(reader).rest(), (*old(self)) is LE) && final(reader).rest() == old(reader).rest().skip(4)"),
            ("C18", "frame", "final(reader).wr() == old(reader).wr()")]
VEC_READ = [("C18", "read-to-end", "r is Ok && old(self)@.len() == 0 ==> final(self)@ == old(reader).rest() && final(reader).rest().len() == 0")]
OPT_READ = [("C18", "never-fails", "r is Ok")]

# ---- proved facts about the wire encodings (also the facts other units rely on)
CODEC_LEMMAS = Raw(r"""
/// C18 core: read(write(v)) == v for both byte orders
pub proof fn lemma_u16_roundtrip(v: u16, le: bool)
    ensures dec16(enc16(v, le), le) == v, enc16(v, le).len() == 2
{
    assert(((((v >> 8) & 0xff) as u8) as u16) << 8 | (((v & 0xff) as u8) as u16) == v) by(bit_vector);
    assert((((v & 0xff) as u8) as u16) | ((((v >> 8) & 0xff) as u8) as u16) << 8 == v) by(bit_vector);
}
pub proof fn lemma_u32_roundtrip(v: u32, le: bool)
    ensures dec32(enc32(v, le), le) == v, enc32(v, le).len() == 4
{
    assert(((((v >> 24) & 0xff) as u8) as u32) << 24 | ((((v >> 16) & 0xff) as u8) as u32) << 16 | ((((v >> 8) & 0xff) as u8) as u32) << 8 | (((v & 0xff) as u8) as u32) == v) by(bit_vector);
    assert((((v & 0xff) as u8) as u32) | ((((v >> 8) & 0xff) as u8) as u32) << 8 | ((((v >> 16) & 0xff) as u8) as u32) << 16 | ((((v >> 24) & 0xff) as u8) as u32) << 24 == v) by(bit_vector);
}
/// the other direction: write(read(bytes)) == the bytes consumed (what the trait's `ser(final) == rest.take(n)` clause needs)
pub proof fn lemma_u16_bytes(s: Seq<u8>, le: bool)
    requires s.len() >= 2
    ensures enc16(dec16(s, le), le) == s.take(2)
{
    let (b0, b1) = (s[0], s[1]);
    assert(((((b0 as u16) << 8 | (b1 as u16)) >> 8) & 0xff) as u8 == b0) by(bit_vector);
    assert((((b0 as u16) << 8 | (b1 as u16)) & 0xff) as u8 == b1) by(bit_vector);
    assert(((((b0 as u16) | (b1 as u16) << 8) >> 8) & 0xff) as u8 == b1) by(bit_vector);
    assert((((b0 as u16) | (b1 as u16) << 8) & 0xff) as u8 == b0) by(bit_vector);
    assert(enc16(dec16(s, le), le) =~= s.take(2));
}
pub proof fn lemma_u32_bytes(s: Seq<u8>, le: bool)
    requires s.len() >= 4
    ensures enc32(dec32(s, le), le) == s.take(4)
{
    let (b0, b1, b2, b3) = (s[0], s[1], s[2], s[3]);
    assert({ let v = (b0 as u32) << 24 | (b1 as u32) << 16 | (b2 as u32) << 8 | (b3 as u32);
        ((v >> 24) & 0xff) as u8 == b0 && ((v >> 16) & 0xff) as u8 == b1 && ((v >> 8) & 0xff) as u8 == b2 && (v & 0xff) as u8 == b3 }) by(bit_vector);
    assert({ let v = (b0 as u32) | (b1 as u32) << 8 | (b2 as u32) << 16 | (b3 as u32) << 24;
        ((v >> 24) & 0xff) as u8 == b3 && ((v >> 16) & 0xff) as u8 == b2 && ((v >> 8) & 0xff) as u8 == b1 && (v & 0xff) as u8 == b0 }) by(bit_vector);
    assert(enc32(dec32(s, le), le) =~= s.take(4));
}
""", mod="data", name="codec_lemmas")

# ---- Check<T>: what the generic body needs to know about `T::clone` and `T::ne`
# The real `impl PartialEq for Value<Type>` (compares inner() only, i.e. IGNORES the byte order) is extracted and verified
# against this vstd-style specification:
VALUE_EQ_SPEC = Raw(r"""
impl<Type: Copy + PartialEq> vstd::std_specs::cmp::PartialEqSpecImpl for Value<Type> {
    open spec fn obeys_eq_spec() -> bool { Type::obeys_eq_spec() }
    open spec fn eq_spec(&self, other: &Self) -> bool { self.val().eq_spec(&other.val()) }
}
""", mod="data", name="value_eq_spec")

PAYLOAD_SPEC = Raw(r"""
/// T::clone returns a value with the same ghost view
pub open spec fn clone_keeps_mv<T: Message + Clone + PartialEq>() -> bool {
    forall|a: T, b: T| #[trigger] cloned(a, b) ==> b.mv() == a.mv()
}
/// `a == b` (hence `a != b`) has a specification, and on two values of the SAME SHAPE it holds only for equal ghost views
/// (the same-shape premise is what makes this true for U16/U32, whose `==` ignores the byte order)
pub open spec fn eq_decides_mv<T: Message + Clone + PartialEq>() -> bool {
    &&& T::obeys_eq_spec()
    &&& forall|a: T, b: T| #[trigger] a.eq_spec(&b) && (same_shape(a.mv(), b.mv()) || same_shape(b.mv(), a.mv())) ==> a.mv() == b.mv()
}
// PROVED for the payload types that occur in /repo (`grep 'Check::new(' /repo/src`: u8, U16, U32, Vec<u8>):
pub proof fn lemma_payload_u8() ensures clone_keeps_mv::<u8>(), eq_decides_mv::<u8>() {}
pub proof fn lemma_payload_vec() ensures clone_keeps_mv::<Vec<u8>>(), eq_decides_mv::<Vec<u8>>() {
    assert forall|a: Vec<u8>, b: Vec<u8>| #[trigger] a.eq_spec(&b) implies a@ == b@ by { }
}
pub proof fn lemma_payload_u16() ensures eq_decides_mv::<U16>() {}
pub proof fn lemma_payload_u32() ensures eq_decides_mv::<U32>() {}
""", mod="data", name="payload_spec")

PAYLOAD_TRUST = "Clone/PartialEq of the payload type T of Check<T> are structural: T::clone preserves mv(); T::eq has a spec (obeys_eq_spec) " \
    "and, on two values of the same shape, a == b only if a.mv() == b.mv(). Stated for generic T because the body of Check<T>::read is generic; " \
    "PROVED in this unit for every instantiation occurring in /repo (u8, Vec<u8>: both parts; U16, U32: the eq part, against the real " \
    "`impl PartialEq for Value`), so what remains assumed for /repo is only: the derived `Clone` of the Copy enum Value<u16>/Value<u32> returns *self " \
    "(prelude/model.rs derives it with allow(autoderive_clone_without_spec), so Verus gives it no specification and none can be added from here)"
PAYLOAD_AXIOM = Raw(r"""
#[verifier::external_body]
pub proof fn axiom_check_payload<T: Message + Clone + PartialEq>()
    ensures clone_keeps_mv::<T>(), eq_decides_mv::<T>()
{}
""", mod="data", name="payload_axiom", trusted=PAYLOAD_TRUST)

U16_MORE = {"read": dict(hints=[(r"Ok\(\(\)\)", 1, "proof { lemma_u16_bytes(old(reader).rest(), (*old(self)) is LE); }", "before")])}
U32_MORE = {"read": dict(hints=[(r"Ok\(\(\)\)", 1, "proof { lemma_u32_bytes(old(reader).rest(), (*old(self)) is LE); }", "before")])}
# the body binds a local named `old`, which shadows Verus' old(..): the pre-state is captured in a ghost first
CHECK_MORE = {"read": dict(
    pre="let ghost v0 = self.value;",
    hints=[(r"let old = self\.value\.clone\(\);", 1, "proof { axiom_check_payload::<T>(); assert(cloned(v0, old)); }")])}

UNIT = Unit("engine", ["base.rs", "model.rs"],
    [CODEC_LEMMAS, VALUE_EQ_SPEC,
     Fn(DATA, "eq", impl=r"PartialEq for Value<Type>$", mod="data", props=["C18"]),
     PAYLOAD_SPEC, PAYLOAD_AXIOM]
    + leaf(r"Message for u8$", "MV::U8(*self)", "u8", U8_READ)
    + leaf(r"Message for U16$", "match *self { Value::BE(v) => MV::U16(v, false), Value::LE(v) => MV::U16(v, true) }", "U16", U16_READ, more=U16_MORE)
    + leaf(r"Message for U32$", "match *self { Value::BE(v) => MV::U32(v, false), Value::LE(v) => MV::U32(v, true) }", "U32", U32_READ, more=U32_MORE)
    + leaf(r"Message for Vec<u8>$", "MV::Bytes(self@)", "Vec", VEC_READ, props=("C18", "C14"))
    + leaf(r"Message for Check<T>$", "MV::Check(Box::new(self.value.mv()))", "Check", more=CHECK_MORE)
    + leaf(r"Message for Option<T>$", "MV::Opt(match *self { Some(v) => Some(Box::new(v.mv())), None => None })", "Option", OPT_READ),
    uses={"data": ["use vstd::std_specs::cmp::PartialEqSpec;"]}
)
