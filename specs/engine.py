"""unit engine: the leaf Message implementations of src/model/data.rs verified against the Message trait contract of prelude/model.rs
(the same contracts that every other unit ASSUMES through prelude/leaf.rs).  C18: length() == |bytes written|, read(write(v)) == v, exact consumption.
C14: a byte block is written completely."""
from vx.spec import *

DATA = "src/model/data.rs"

def leaf(ty_regex, mvspec, label, extra_read=None, props=("C18",)):
    """the five trait methods of one `impl Message for <ty>` block + the ghost view"""
    items = [Raw("    open spec fn mv(&self) -> MV { %s }\n" % mvspec, mod="data", name="mv_" + label, file=DATA, impl=ty_regex)]
    for name in ("write", "read", "length", "visit", "options"):
        kw = {}
        # Verus (0.2026.09.13) generates ill-typed AIR for argument-position `impl Trait` in verified trait-impl methods:
        # the trait declares explicit generics, so the R1 rewrite of `&mut dyn Write` is spelled with a named parameter here
        if name == "write":
            kw["dyn"] = False
            kw["sig_sub"] = [(r"fn write\(&self, writer: &mut dyn Write\)", "fn write<W: Write>(&self, writer: &mut W)")]
        if name == "read":
            kw["dyn"] = False
            kw["sig_sub"] = [(r"fn read\(&mut self, reader: &mut dyn Read\)", "fn read<R: Read>(&mut self, reader: &mut R)")]
        if name == "read" and extra_read:
            kw["ensures"] = extra_read
        items.append(Fn(DATA, name, impl=ty_regex, mod="data", props=list(props), **kw))
    return items

# extra (stronger) clauses: MUST stay textually identical to the ones in /verif/prelude/leaf.rs
U8_READ = [("C18", "decodes", "r is Ok ==> old(reader).rest().len() >= 1 && *final(self) == old(reader).rest()[0] && final(reader).rest() == old(reader).rest().skip(1)"),
           ("C18", "frame", "final(reader).wr() == old(reader).wr()")]
U16_READ = [("C18", "decodes", "r is Ok ==> old(reader).rest().len() >= 2 && ((*old(self)) is LE <==> (*final(self)) is LE) && final(self).val() == dec16(old(reader).rest(), (*old(self)) is LE) && final(reader).rest() == old(reader).rest().skip(2)"),
            ("C18", "frame", "final(reader).wr() == old(reader).wr()")]
U32_READ = [("C18", "decodes", "r is Ok ==> old(reader).rest().len() >= 4 && ((*old(self)) is LE <==> (*final(self)) is LE) && final(self).val() == dec32(old(reader).rest(), (*old(self)) is LE) && final(reader).rest() == old(reader).rest().skip(4)"),
            ("C18", "frame", "final(reader).wr() == old(reader).wr()")]
VEC_READ = [("C18", "read-to-end", "r is Ok && old(self)@.len() == 0 ==> final(self)@ == old(reader).rest() && final(reader).rest().len() == 0")]
OPT_READ = [("C18", "never-fails", "r is Ok")]

UNIT = Unit("engine", ["base.rs", "model.rs"],
    leaf(r"Message for u8$", "MV::U8(*self)", "u8", U8_READ)
    + leaf(r"Message for U16$", "match *self { Value::BE(v) => MV::U16(v, false), Value::LE(v) => MV::U16(v, true) }", "U16", U16_READ)
    + leaf(r"Message for U32$", "match *self { Value::BE(v) => MV::U32(v, false), Value::LE(v) => MV::U32(v, true) }", "U32", U32_READ)
    + leaf(r"Message for Vec<u8>$", "MV::Bytes(self@)", "Vec", VEC_READ, props=("C18", "C14"))
    + leaf(r"Message for Check<T>$", "MV::Check(Box::new(self.value.mv()))", "Check")
    + leaf(r"Message for Option<T>$", "MV::Opt(match *self { Some(v) => Some(Box::new(v.mv())), None => None })", "Option", OPT_READ)
)
