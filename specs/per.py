"""unit per: src/core/per.rs — PER primitives as profiled by T.124/T.125 (X.691).
C05: every reader is total on arbitrary bytes (no overflow / panic / unbounded allocation, loops terminate).
C18: write_X emits enc_X(v), read_X decodes it: read(enc(v) ++ tail) == v and leaves tail, for every value of the domain.
C04: length determinants produced by the writers equal the size of what they describe."""
from vx.spec import *

PER = "src/core/per.rs"

per_specs = Raw(r'''
// ---------------- reference encodings (written from X.691 / T.125, not from the code)
/// length determinant: one byte below 0x80, else two bytes with the top bit set (n <= 0x7fff)
pub open spec fn per_len(n: u16) -> Seq<u8> { if n > 0x7f { be16(n | 0x8000) } else { seq![n as u8] } }
/// decode: (value, bytes consumed) — needs b.len() >= 1 (>= 2 when the top bit is set)
pub open spec fn per_len_dec(b: Seq<u8>) -> (u16, int) {
    if b[0] & 0x80 != 0 { (((((b[0] & 0x7f) as u16) << 8) + (b[1] as u16)) as u16, 2) } else { (b[0] as u16, 1) }
}
/// INTEGER as written by this profile: length octet 1, 2 or 4 followed by the big-endian value
pub open spec fn per_int(v: u32) -> Seq<u8> {
    if v < 0xff { seq![1u8, v as u8] } else if v < 0xffff { seq![2u8] + be16(v as u16) } else { seq![4u8] + be32(v) }
}
/// constrained 16-bit integer with lower bound `min`
pub open spec fn per_u16(v: u16, min: u16) -> Seq<u8> { be16((v - min) as u16) }
/// OBJECT IDENTIFIER of exactly six arcs, the first two packed in one byte
pub open spec fn per_oid(o: Seq<u8>) -> Seq<u8> { seq![5u8, (o[0] << 4) | (o[1] & 0xf), o[2], o[3], o[4], o[5]] }
/// OCTET STRING with lower bound `min` on its length
pub open spec fn per_octets(s: Seq<u8>, min: int) -> Seq<u8> { per_len((s.len() - min) as u16) + s }
''', mod="per", name="per_specs")

# TODO(agent): contracts below are the TOP-LEVEL obligations; add loops/hints/lemmas so that they verify.
UNIT = Unit("per", ["base.rs", "model.rs", "leaf.rs", "lemmas.rs"], [
    per_specs,
    Fn(PER, "read_length", mod="per", props=["C05", "C18"],
       ensures=[("C05,C18", "decodes", "r is Ok ==> old(s).rest().len() >= 1 && (old(s).rest()[0] & 0x80 != 0 ==> old(s).rest().len() >= 2) && r->Ok_0 == per_len_dec(old(s).rest()).0 && final(s).rest() =~= old(s).rest().skip(per_len_dec(old(s).rest()).1)"),
                ("C05", "monotone", "is_suffix(final(s).rest(), old(s).rest())")]),
    Fn(PER, "write_length", mod="per", props=["C18", "C04"],
       ensures=[("C18,C04", "encodes", "r is Ok && length <= 0x7fff ==> ser(r->Ok_0.mv()) =~= per_len(length)"), (None, "total", "r is Ok")]),
    Fn(PER, "read_choice", mod="per", props=["C05"]),
    Fn(PER, "write_choice", mod="per", props=["C18"],
       ensures=[("C18", "encodes", "r is Ok ==> final(s).written() =~= old(s).written() + seq![choice]")]),
    Fn(PER, "read_selection", mod="per", props=["C05"]),
    Fn(PER, "write_selection", mod="per", props=["C18"],
       ensures=[("C18", "encodes", "r is Ok ==> final(s).written() =~= old(s).written() + seq![selection]")]),
    Fn(PER, "read_number_of_set", mod="per", props=["C05"]),
    Fn(PER, "write_number_of_set", mod="per", props=["C18"],
       ensures=[("C18", "encodes", "r is Ok ==> final(s).written() =~= old(s).written() + seq![number_of_set]")]),
    Fn(PER, "read_enumerates", mod="per", props=["C05"],
       ensures=[("C05,C18", "decodes", "r is Ok ==> old(s).rest().len() >= 1 && r->Ok_0 == old(s).rest()[0] && final(s).rest() =~= old(s).rest().skip(1)")]),
    Fn(PER, "write_enumerates", mod="per", props=["C18"], ensures=["r is Ok && r->Ok_0 == enumerate"]),
    Fn(PER, "read_integer", mod="per", props=["C05", "C18"],
       ensures=[("C05", "monotone", "is_suffix(final(s).rest(), old(s).rest())")]),
    Fn(PER, "write_integer", mod="per", props=["C18"],
       ensures=[("C18", "encodes", "r is Ok ==> final(s).written() =~= old(s).written() + per_int(integer)")]),
    Fn(PER, "read_integer_16", mod="per", props=["C05", "C18"],
       ensures=[("C05,C18", "decodes", "r is Ok ==> old(s).rest().len() >= 2 && r->Ok_0 as int == u16_be(old(s).rest()[0], old(s).rest()[1]) as int + minimum as int && final(s).rest() =~= old(s).rest().skip(2)"),
                ("C05", "monotone", "is_suffix(final(s).rest(), old(s).rest())")]),
    Fn(PER, "write_integer_16", mod="per", props=["C18"],
       requires=["integer >= minimum"],
       ensures=[("C18", "encodes", "r is Ok ==> final(s).written() =~= old(s).written() + per_u16(integer, minimum)")]),
    Fn(PER, "read_object_identifier", mod="per", props=["C05", "C18"],
       ensures=[("C18", "compares-all-six-arcs", "r is Ok ==> oid@.len() == 6 && old(s).rest().len() >= 6 && old(s).rest()[0] == 5 && (r->Ok_0 <==> (forall|k: int| 0 <= k < 6 ==> #[trigger] oid@[k] == (if k == 0 { old(s).rest()[1] >> 4 } else if k == 1 { old(s).rest()[1] & 0xf } else { old(s).rest()[k] }))) && final(s).rest() =~= old(s).rest().skip(6)"),
                ("C05", "monotone", "is_suffix(final(s).rest(), old(s).rest())")]),
    Fn(PER, "write_object_identifier", mod="per", props=["C18"],
       ensures=[("C18", "encodes", "r is Ok ==> oid@.len() == 6 && final(s).written() =~= old(s).written() + per_oid(oid@)")]),
    Fn(PER, "read_numeric_string", mod="per", props=["C05"],
       ensures=[("C05", "bounded-allocation", "r is Ok ==> r->Ok_0@.len() <= 0x7fff + 0xff + minimum + 1")]),
    Fn(PER, "write_numeric_string", mod="per", props=[],
       requires=["forall|k: int| 0 <= k < string@.len() ==> 0x30 <= #[trigger] string@[k] <= 0x39"]),
    Fn(PER, "read_padding", mod="per", props=["C05"]),
    Fn(PER, "write_padding", mod="per", props=["C18"],
       ensures=[("C18", "encodes", "r is Ok ==> final(s).written().len() == old(s).written().len() + length")]),
    Fn(PER, "read_octet_stream", mod="per", props=["C05", "C18"],
       ensures=[("C18", "compares", "r is Ok ==> ({ let b = old(s).rest(); let d = per_len_dec(b); b.len() >= d.1 + octet_stream@.len() && d.0 as int + minimum == octet_stream@.len() && b.subrange(d.1, d.1 + octet_stream@.len()) =~= octet_stream@ && final(s).rest() =~= b.skip(d.1 + octet_stream@.len()) })"),
                ("C05", "monotone", "is_suffix(final(s).rest(), old(s).rest())")]),
    Fn(PER, "write_octet_stream", mod="per", props=["C18", "C04"],
       ensures=[("C18,C04", "encodes", "r is Ok && octet_string@.len() >= minimum && octet_string@.len() - minimum <= 0x7fff ==> final(s).written() =~= old(s).written() + per_octets(octet_string@, minimum as int)")]),
])
