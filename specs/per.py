"""unit per: src/core/per.rs — PER primitives as profiled by T.124/T.125 (X.691).
C05: every reader is total on arbitrary bytes (no overflow / panic / unbounded allocation, loops terminate).
C18: write_X emits enc_X(v), read_X decodes it: read(enc(v) ++ tail) == v and leaves tail, for every value of the domain.
C04: length determinants produced by the writers equal the size of what they describe."""
from vx.spec import *

PER = "src/core/per.rs"

per_specs = Raw(r'''
// ---------------- reference encodings (written from X.691 / T.125, not from the code)
/// length determinant: one byte below 0x80, else two bytes with the top bit set (n <= 0x7fff)
pub open spec fn per_len(n: u16) -> Seq<u8> { if n > 0x7f { be16(n | 0x8000) } else { seq![n as u8] } }
/// decode: (value, bytes consumed) — needs b.len() >= 1 (>= 2 when the top bit is set)
pub open spec fn per_len_dec(b: Seq<u8>) -> (u16, int) {
    if b[0] & 0x80 != 0 { (((((b[0] & 0x7f) as u16) << 8) + (b[1] as u16)) as u16, 2) } else { (b[0] as u16, 1) }
}
/// INTEGER as written by this profile: length octet 1, 2 or 4 followed by the big-endian value
pub open spec fn per_int(v: u32) -> Seq<u8> {
    if v < 0xff { seq![1u8, v as u8] } else if v < 0xffff { seq![2u8] + be16(v as u16) } else { seq![4u8] + be32(v) }
}
/// constrained 16-bit integer with lower bound `min`
pub open spec fn per_u16(v: u16, min: u16) -> Seq<u8> { be16((v - min) as u16) }
/// OBJECT IDENTIFIER of exactly six arcs, the first two packed in one byte
pub open spec fn per_oid(o: Seq<u8>) -> Seq<u8> { seq![5u8, (o[0] << 4) | (o[1] & 0xf), o[2], o[3], o[4], o[5]] }
/// OCTET STRING with lower bound `min` on its length
pub open spec fn per_octets(s: Seq<u8>, min: int) -> Seq<u8> { per_len((s.len() - min) as u16) + s }
/// decode of per_int: the length determinant must say 1, 2 or 4 ...
pub open spec fn per_int_len_ok(b: Seq<u8>) -> bool { let l = per_len_dec(b).0; l == 1 || l == 2 || l == 4 }
/// ... then (value, bytes consumed) = big-endian integer of that many bytes after the determinant
pub open spec fn per_int_dec(b: Seq<u8>) -> (u32, int) {
    let l = per_len_dec(b);
    let h = l.1;
    if l.0 == 1 { (b[h] as u32, h + 1) }
    else if l.0 == 2 { (u16_be(b[h], b[h + 1]) as u32, h + 2) }
    else { (u32_be(b[h], b[h + 1], b[h + 2], b[h + 3]), h + 4) }
}
''', mod="per", name="per_specs")

per_lemmas = Raw(r'''
// ---------------- C18 round-trip lemmas: decode(encode(v) ++ tail) == (v, |encode(v)|), for EVERY value of the domain
pub proof fn lemma_len_roundtrip(n: u16, tail: Seq<u8>)
    requires n <= 0x7fff
    ensures per_len_dec(per_len(n) + tail) == (n, per_len(n).len() as int),
        per_len(n).len() == (if n > 0x7f { 2int } else { 1int }),
{
    let b = per_len(n) + tail;
    if n > 0x7f {
        let hi = (((n | 0x8000) >> 8) & 0xff) as u8;
        let lo = ((n | 0x8000) & 0xff) as u8;
        assert(per_len(n) =~= seq![hi, lo]);
        assert(b[0] == hi && b[1] == lo);
        assert(hi & 0x80 != 0) by(bit_vector) requires hi == (((n | 0x8000) >> 8) & 0xff) as u8;
        assert((((hi & 0x7f) as u16) << 8) == n & 0x7f00) by(bit_vector) requires hi == (((n | 0x8000) >> 8) & 0xff) as u8, n <= 0x7fff;
        assert(lo as u16 == n & 0xff) by(bit_vector) requires lo == ((n | 0x8000) & 0xff) as u8;
        assert((n & 0x7f00) + (n & 0xff) == n) by(bit_vector) requires n <= 0x7fff;
    } else {
        let b0 = n as u8;
        assert(b[0] == b0);
        assert(b0 & 0x80 == 0) by(bit_vector) requires b0 <= 0x7f;
    }
}

pub proof fn lemma_be32_roundtrip(v: u32)
    ensures u32_be(be32(v)[0], be32(v)[1], be32(v)[2], be32(v)[3]) == v, be32(v).len() == 4
{
    assert((((((v >> 24) & 0xff) as u8) as u32) << 24) | (((((v >> 16) & 0xff) as u8) as u32) << 16) | (((((v >> 8) & 0xff) as u8) as u32) << 8) | (((v & 0xff) as u8) as u32) == v) by(bit_vector);
}

pub proof fn lemma_int_roundtrip(v: u32, tail: Seq<u8>)
    ensures per_int_len_ok(per_int(v) + tail), per_int_dec(per_int(v) + tail) == (v, per_int(v).len() as int),
        (per_int(v) + tail).skip(per_int(v).len() as int) =~= tail,
{
    let b = per_int(v) + tail;
    assert(1u8 & 0x80 == 0 && 2u8 & 0x80 == 0 && 4u8 & 0x80 == 0) by(bit_vector);
    if v < 0xff {
        assert(b[0] == 1u8 && b[1] == v as u8);
    } else if v < 0xffff {
        lemma_be16_roundtrip(v as u16);
        let e = be16(v as u16);
        assert(per_int(v).len() == 3);
        assert(b[0] == 2u8 && b[1] == e[0] && b[2] == e[1]);
    } else {
        lemma_be32_roundtrip(v);
        let e = be32(v);
        assert(per_int(v).len() == 5);
        assert(b[0] == 4u8 && b[1] == e[0] && b[2] == e[1] && b[3] == e[2] && b[4] == e[3]);
    }
}

pub proof fn lemma_u16_roundtrip(v: u16, min: u16)
    requires v >= min
    ensures per_u16(v, min).len() == 2, u16_be(per_u16(v, min)[0], per_u16(v, min)[1]) + min == v
{
    lemma_be16_roundtrip((v - min) as u16);
}

// lemma_oid_roundtrip*: the decoding formula is the one of read_object_identifier's `compares-all-six-arcs` clause (d = per_len_dec(b); arcs at b[d.1 .. d.1 + 5])
pub proof fn lemma_oid_roundtrip_tail(o: Seq<u8>, tail: Seq<u8>)
    requires o.len() == 6, o[0] < 16, o[1] < 16
    ensures ({ let b = per_oid(o) + tail; let d = per_len_dec(b);
        d == (5u16, 1int) && b.len() >= d.1 + 5 && b.skip(d.1 + 5) =~= tail
        && forall|k: int| 0 <= k < 6 ==> #[trigger] o[k] == (if k == 0 { b[d.1] >> 4 } else if k == 1 { b[d.1] & 0xf } else { b[d.1 - 1 + k] }) }),
{
    let a = o[0]; let c = o[1];
    assert((((a << 4) | (c & 0xf)) >> 4) == a && (((a << 4) | (c & 0xf)) & 0xf) == c) by(bit_vector) requires a < 16, c < 16;
    assert(5u8 & 0x80 == 0) by(bit_vector);
    let b = per_oid(o) + tail;
    assert(b[0] == 5u8 && b[1] == (a << 4) | (c & 0xf) && b[2] == o[2] && b[3] == o[3] && b[4] == o[4] && b[5] == o[5]);
}
pub proof fn lemma_oid_roundtrip(o: Seq<u8>)
    requires o.len() == 6, o[0] < 16, o[1] < 16
    ensures ({ let b = per_oid(o); let d = per_len_dec(b);
        b.len() == 6 && d == (5u16, 1int)
        && forall|k: int| 0 <= k < 6 ==> #[trigger] o[k] == (if k == 0 { b[d.1] >> 4 } else if k == 1 { b[d.1] & 0xf } else { b[d.1 - 1 + k] }) }),
{
    lemma_oid_roundtrip_tail(o, Seq::empty());
    assert(per_oid(o) + Seq::<u8>::empty() =~= per_oid(o));
}

pub proof fn lemma_octets_roundtrip(s: Seq<u8>, min: int, tail: Seq<u8>)
    requires 0 <= min <= s.len(), s.len() - min <= 0x7fff
    ensures ({ let b = per_octets(s, min) + tail; let d = per_len_dec(b);
        b.len() >= d.1 + s.len() && d.0 as int + min == s.len() && b.subrange(d.1, d.1 + s.len()) =~= s && b.skip(d.1 + s.len()) =~= tail }),
{
    let n = (s.len() - min) as u16;
    lemma_len_roundtrip(n, s + tail);
    assert(per_octets(s, min) + tail =~= per_len(n) + (s + tail));
}
pub proof fn lemma_len_dec_bound(b: Seq<u8>)
    ensures per_len_dec(b).0 <= 0x7fff, b[0] & 0x80 == 0 ==> per_len_dec(b).0 <= 0x7f
{
    let b0 = b[0]; let b1 = b[1];
    assert((((b0 & 0x7f) as u16) << 8) <= 0x7f00) by(bit_vector);
    assert(b0 & 0x80 == 0 ==> b0 <= 0x7f) by(bit_vector);
}
''', mod="per", name="per_lemmas")

MONO = ("C05", "monotone", "is_suffix(final(s).rest(), old(s).rest())")
BYTE = ("C05,C18", "decodes", "r is Ok ==> old(s).rest().len() >= 1 && r->Ok_0 == old(s).rest()[0] && final(s).rest() =~= old(s).rest().skip(1)")
WFRAME = (None, "err-prefix", "is_prefix(old(s).written(), final(s).written())")
B = "let ghost b = s.rest();"
PER_INT_ERR = r'Err\(Error::RdpError\(RdpError::new\(RdpErrorKind::InvalidSize, "[^"]*"\)\)\)'

UNIT = Unit("per", ["base.rs", "model.rs", "leaf.rs", "lemmas.rs"], [
    per_specs,
    per_lemmas,
    Fn(PER, "read_length", mod="per", props=["C05", "C18"],
       ensures=[("C05,C18", "decodes", "r is Ok ==> old(s).rest().len() >= 1 && (old(s).rest()[0] & 0x80 != 0 ==> old(s).rest().len() >= 2) && r->Ok_0 == per_len_dec(old(s).rest()).0 && final(s).rest() =~= old(s).rest().skip(per_len_dec(old(s).rest()).1)"),
                MONO,
                ("C05", "bounded", "r is Ok ==> r->Ok_0 <= 0x7fff")],
       pre=B,
       hints=[(r"byte = byte & !0x80;", 1, "proof { let b0 = b[0]; assert(b0 & !0x80u8 == b0 & 0x7f && (b0 & 0x7f) <= 0x7f) by(bit_vector); }"),
              (r"let mut size = ", 1, "proof { assert(((byte as u16) << 8) <= 0x7f00) by(bit_vector) requires byte <= 0x7f; }"),
              (r"byte\.read\(s\)\?;", 2, "proof { assert(s.rest() =~= b.skip(2)); }")]),
    Fn(PER, "write_length", mod="per", props=["C18", "C04"], fuel=3,
       ensures=[("C18,C04", "encodes", "r is Ok && length <= 0x7fff ==> ser(r->Ok_0.mv()) =~= per_len(length)"), (None, "total", "r is Ok"),
                (None, "encodes-any", "r is Ok ==> ser(r->Ok_0.mv()) =~= per_len(length)")]),
    Fn(PER, "read_choice", mod="per", props=["C05", "C18"], ensures=[BYTE, MONO]),
    Fn(PER, "write_choice", mod="per", props=["C18"],
       ensures=[("C18", "encodes", "r is Ok ==> final(s).written() =~= old(s).written() + seq![choice]"), WFRAME]),
    Fn(PER, "read_selection", mod="per", props=["C05", "C18"], ensures=[BYTE, MONO]),
    Fn(PER, "write_selection", mod="per", props=["C18"],
       ensures=[("C18", "encodes", "r is Ok ==> final(s).written() =~= old(s).written() + seq![selection]"), WFRAME]),
    Fn(PER, "read_number_of_set", mod="per", props=["C05", "C18"], ensures=[BYTE, MONO]),
    Fn(PER, "write_number_of_set", mod="per", props=["C18"],
       ensures=[("C18", "encodes", "r is Ok ==> final(s).written() =~= old(s).written() + seq![number_of_set]"), WFRAME]),
    Fn(PER, "read_enumerates", mod="per", props=["C05"], ensures=[BYTE, MONO]),
    Fn(PER, "write_enumerates", mod="per", props=["C18"], ensures=["r is Ok && r->Ok_0 == enumerate"]),
    Fn(PER, "read_integer", mod="per", props=["C05", "C18", "C03"],
       # refusal justification (the site is a match arm `_ => Err(..)`: the claim opens a block around the arm expression, on a line of its own so that a failure is attributed to it, hint #0 closes the block):
       # an INTEGER is refused for its size only when the length determinant is none of 1, 2, 4
       claims=[(PER_INT_ERR, 1, "{\nproof { assert(old(s).rest().len() >= per_len_dec(old(s).rest()).1 && !per_int_len_ok(old(s).rest())); }", "at", "C18,C03", "refused-only-for-a-length-other-than-1-2-4")],
       hints=[(PER_INT_ERR, 1, "}", "atend")],
       ensures=[("C05,C18", "decodes", "r is Ok ==> per_int_len_ok(old(s).rest()) && old(s).rest().len() >= per_int_dec(old(s).rest()).1 && r->Ok_0 == per_int_dec(old(s).rest()).0 && final(s).rest() =~= old(s).rest().skip(per_int_dec(old(s).rest()).1)"),
                MONO]),
    Fn(PER, "write_integer", mod="per", props=["C18"],
       ensures=[("C18", "encodes", "r is Ok ==> final(s).written() =~= old(s).written() + per_int(integer)")]),
    Fn(PER, "read_integer_16", mod="per", props=["C05", "C18", "C03"],
       # C03 "any assigned user id / channel ids": a value is refused as out of range only when wire + minimum really exceeds 16 bits (65535 is valid)
       claims=[(r"return Err\(.*out of range", 1, "proof { assert(u16_be(old(s).rest()[0], old(s).rest()[1]) as int + minimum as int > 0xFFFF); }", "before", "C03,C18", "refused-only-above-65535")],
       ensures=[("C05,C18", "decodes", "r is Ok ==> old(s).rest().len() >= 2 && r->Ok_0 as int == u16_be(old(s).rest()[0], old(s).rest()[1]) as int + minimum as int && final(s).rest() =~= old(s).rest().skip(2)"),
                MONO]),
    Fn(PER, "write_integer_16", mod="per", props=["C18"],
       requires=["integer >= minimum"],
       ensures=[("C18", "encodes", "r is Ok ==> final(s).written() =~= old(s).written() + per_u16(integer, minimum)"), WFRAME]),
    # the length determinant may be the (non canonical) two byte form 0x80 0x05: positions are relative to d.1 = per_len_dec(b).1
    Fn(PER, "read_object_identifier", mod="per", props=["C05", "C18", "C03"],
       # refusal justification: the caller's reference oid is not six arcs / the length determinant on the wire is not 5
       claims=[(r"return Err\(.*Oid to check have an invalid size", 1, "proof { assert(oid@.len() != 6 && s.rest() == old(s).rest()); }", "before", "C18,C03", "reference-refused-only-when-not-six-arcs"),
               (r"return Err\(.*Oid source have an invalid size", 1, "proof { assert(per_len_dec(old(s).rest()).0 != 5); }", "before", "C18,C03", "refused-only-when-the-length-is-not-5")],
       ensures=[("C18", "compares-all-six-arcs", "r is Ok ==> ({ let b = old(s).rest(); let d = per_len_dec(b); oid@.len() == 6 && d.0 == 5 && b.len() >= d.1 + 5 && (r->Ok_0 <==> (forall|k: int| 0 <= k < 6 ==> #[trigger] oid@[k] == (if k == 0 { b[d.1] >> 4 } else if k == 1 { b[d.1] & 0xf } else { b[d.1 - 1 + k] }))) && final(s).rest() =~= b.skip(d.1 + 5) })"),
                ("C18", "canonical-length", "r is Ok && old(s).rest()[0] & 0x80 == 0 ==> old(s).rest()[0] == 5 && old(s).rest().len() >= 6 && final(s).rest() =~= old(s).rest().skip(6)"),
                MONO],
       pre=B,
       hints=[(r"oid_parsed\[5\] = tmp;", 1, "proof { let d = per_len_dec(b); assert(s.rest() =~= b.skip(d.1 + 5)); assert(oid_parsed@[0] == b[d.1] >> 4 && oid_parsed@[1] == b[d.1] & 0xf && oid_parsed@[2] == b[d.1 + 1] && oid_parsed@[3] == b[d.1 + 2] && oid_parsed@[4] == b[d.1 + 3] && oid_parsed@[5] == b[d.1 + 4]); }")]),
    Fn(PER, "write_object_identifier", mod="per", props=["C18"], fuel=8,
       ensures=[("C18", "encodes", "r is Ok ==> oid@.len() == 6 && final(s).written() =~= old(s).written() + per_oid(oid@)"), WFRAME]),
    # `length as usize + minimum + 1`: overflow unless the caller's constant is bounded (no caller in /repo/src)
    Fn(PER, "read_numeric_string", mod="per", props=["C05"],
       requires=["minimum <= 0xffff"],
       ensures=[("C05", "bounded-allocation", "r is Ok ==> r->Ok_0@.len() <= 0x7fff + 0xff + minimum + 1"), MONO],
       hints=[(r"let length = read_length\(s\)\?;", 1, "proof { assert(length <= 0x7fff); }")]),
    # `len as i64 - minimum as i64`: caller-side preconditions (slices never exceed isize::MAX; minimum is a constant)
    Fn(PER, "write_numeric_string", mod="per", props=[],
       requires=["forall|k: int| 0 <= k < string@.len() ==> 0x30 <= #[trigger] string@[k] <= 0x39",
                 "string@.len() <= i64::MAX", "minimum <= i64::MAX"],
       nloops=1,
       loops={1: "invariant forall|k: int| 0 <= k < string@.len() ==> 0x30 <= #[trigger] string@[k] <= 0x39,"}),
    Fn(PER, "read_padding", mod="per", props=["C05"], ensures=[MONO]),
    Fn(PER, "write_padding", mod="per", props=["C18"],
       ensures=[("C18", "encodes", "r is Ok ==> final(s).written().len() == old(s).written().len() + length"), WFRAME]),
    # `read_length(s)? as usize + minimum`: overflow unless the caller's constant is bounded (the caller passes 4)
    Fn(PER, "read_octet_stream", mod="per", props=["C05", "C18", "C03"],
       requires=["minimum <= 0xffff"],
       # refusal justification: the announced length (+ lower bound) differs from the expected string's / some announced byte differs from the expected one
       claims=[(r"return Err\(.*source octet string have an invalid size", 1, "proof { assert(per_len_dec(old(s).rest()).0 as int + minimum as int != octet_stream@.len()); }", "before", "C18,C03", "refused-only-when-the-announced-length-differs"),
               (r"return Err\(.*source octet string have an invalid char", 1, """proof { let b0 = old(s).rest(); let d0 = per_len_dec(b0);
                   assert(octet_stream@[i as int] != b0[d0.1 + i]);
                   assert(exists|k: int| 0 <= k < octet_stream@.len() && d0.1 + k < b0.len() && #[trigger] octet_stream@[k] != b0[d0.1 + k]); }""", "before", "C18,C03", "refused-only-when-a-byte-differs")],
       ensures=[("C18", "compares", "r is Ok ==> ({ let b = old(s).rest(); let d = per_len_dec(b); b.len() >= d.1 + octet_stream@.len() && d.0 as int + minimum == octet_stream@.len() && b.subrange(d.1, d.1 + octet_stream@.len()) =~= octet_stream@ && final(s).rest() =~= b.skip(d.1 + octet_stream@.len()) })"),
                MONO],
       pre=B + " let ghost d = per_len_dec(b);",
       nloops=1,
       loops={1: """invariant b == old(s).rest(), d == per_len_dec(b), length == octet_stream@.len(), d.0 as int + minimum == length, 1 <= d.1 <= 2, b.len() >= d.1 + i,
            s.rest() =~= b.skip(d.1 + i),
            forall|k: int| 0 <= k < i ==> b[d.1 + k] == #[trigger] octet_stream@[k],"""}),
    Fn(PER, "write_octet_stream", mod="per", props=["C18", "C04"],
       requires=["octet_string@.len() <= i64::MAX", "minimum <= i64::MAX"],
       ensures=[("C18,C04", "encodes", "r is Ok && octet_string@.len() >= minimum && octet_string@.len() - minimum <= 0x7fff ==> final(s).written() =~= old(s).written() + per_octets(octet_string@, minimum as int)")]),
])
