"""unit session: core/global.rs (+ capability.rs builders) and core/client.rs RdpClient.
C11 input exactly once / exact values, C12 activation state machine, C06 hostile bytes in an active session, C10 bitmap dispatch, C04 PDU builders."""
from vx.spec import *
from vx.layouts import shape_clauses
from specs.common import MCS_OPAQUE, MCS_WRITE, MCS_READ

GLB = "src/core/global.rs"
CAP = "src/core/capability.rs"
CLI = "src/core/client.rs"
EVT = "src/core/event.rs"
GCC = "src/core/gcc.rs"
TPKT = "src/core/tpkt.rs"
MCS = "src/core/mcs.rs"

items = []
A = items.append

# ---------------- small dependencies
A(Item(TPKT, "enum", "Payload", mod="tpkt"))
A(Item(GCC, "enum", "KeyboardLayout", mod="gcc"))
A(Item(GCC, "enum", "KeyboardType", mod="gcc"))
A(Item(EVT, "struct", "BitmapEvent", mod="event"))
A(Item(EVT, "enum", "PointerButton", mod="event", strip_derive=["TryFromPrimitive"]))
A(Item(EVT, "struct", "PointerEvent", mod="event"))
A(Item(EVT, "struct", "KeyboardEvent", mod="event"))
A(Item(EVT, "enum", "RdpEvent", mod="event"))
A(MCS_OPAQUE)
A(Stub(MCS, "write", impl=r"Client<S>", mod="mcs", verified_in="mcs", **MCS_WRITE))
A(Stub(MCS, "read", impl=r"Client<S>", mod="mcs", verified_in="mcs", **MCS_READ))
A(Stub(MCS, "shutdown", impl=r"Client<S>", mod="mcs", verified_in="mcs"))

# ---------------- global.rs
for e, st, tf in (("PDUType", ["TryFromPrimitive"], "u16"), ("PDUType2", ["TryFromPrimitive"], "u8"), ("FastPathUpdateType", ["TryFromPrimitive"], "u8")):
    A(Item(GLB, "enum", e, mod="global", strip_derive=st, try_from=tf))
for e in ("Action", "InputEventType", "PointerFlag", "KeyboardFlag", "BitmapFlag", "ClientState"):
    # derive(Copy, Clone) is added so that contracts can write `x as u16` on these field-less enums (no executable effect)
    A(Item(GLB, "enum", e, mod="global", add_derive="Copy, Clone"))
for t in ("PDU", "DataPDU", "TSInputEvent", "FastPathUpdate", "Client"):
    A(Item(GLB, "struct", t, mod="global"))

A(Raw(r"""
// ---------------- MS-RDPBCGR byte layouts (written from the specification)
pub open spec fn o16(o: Option<u16>, d: u16) -> u16 { if o is Some { o->Some_0 } else { d } }
pub open spec fn o32(o: Option<u32>, d: u32) -> u32 { if o is Some { o->Some_0 } else { d } }
/// TS_SHARECONTROLHEADER (2.2.8.1.1.1.1): totalLength counts the 6 header bytes
pub open spec fn share_control_bytes(pdu_type: u16, source: u16, body: Seq<u8>) -> Seq<u8> { le16((body.len() + 6) as u16) + le16(pdu_type) + le16(source) + body }
/// TS_SHAREDATAHEADER (2.2.8.1.1.1.2) after the share control header: uncompressedLength counts both headers (18 bytes)
pub open spec fn share_data_bytes(share_id: u32, type2: u8, body: Seq<u8>) -> Seq<u8> { le32(share_id) + seq![0u8, 1u8] + le16((body.len() + 18) as u16) + seq![type2, 0u8] + le16(0) + body }
/// TS_INPUT_EVENT (2.2.8.1.1.3.1.1): eventTime is ignored by servers and sent as 0
pub open spec fn input_event_bytes(msg_type: u16, data: Seq<u8>) -> Seq<u8> { le32(0) + le16(msg_type) + data }
/// TS_INPUT_PDU_DATA with exactly one event, inside share data (pduType2 0x1C) and share control (pduType 0x17) headers
pub open spec fn slow_path_input(share_id: u32, user_id: u16, msg_type: u16, data: Seq<u8>) -> Seq<u8> {
    share_control_bytes(0x17, user_id, share_data_bytes(share_id, 0x1C, le16(1) + le16(0) + input_event_bytes(msg_type, data)))
}
pub open spec fn data_pdu_frame(share_id: u32, user_id: u16, type2: u8, body: Seq<u8>) -> Seq<u8> { share_control_bytes(0x17, user_id, share_data_bytes(share_id, type2, body)) }
/// client finalization (1.3.1.1): Synchronize(targetUser), Control(Cooperate), Control(RequestControl), FontList
pub open spec fn sync_body(target: u16) -> Seq<u8> { le16(1) + le16(target) }
pub open spec fn control_body(action: u16) -> Seq<u8> { le16(action) + le16(0) + le32(0) }
pub open spec fn fontlist_body() -> Seq<u8> { le16(0) + le16(0) + le16(3) + le16(0x32) }

impl Client {
    pub closed spec fn st(&self) -> ClientState { self.state }
    pub closed spec fn uid(&self) -> u16 { self.user_id }
    pub closed spec fn chan(&self) -> u16 { self.channel_id }
    pub closed spec fn share(&self) -> Option<u32> { self.share_id }
    /// everything but the activation state and what the server announced
    pub closed spec fn same_config(&self, o: &Self) -> bool { self.user_id == o.user_id && self.channel_id == o.channel_id && self.width == o.width && self.height == o.height && self.name == o.name }
}
""", mod="global", name="global_specs"))


from specs.session_builders import BUILDER_ITEMS
from specs.session_readers import READER_ITEMS
# the capability / global type definitions must precede nothing in particular (Rust items are order independent)
items.extend(BUILDER_ITEMS)
items.extend(READER_ITEMS)

UNIT = Unit("session", ["base.rs", "model.rs", "leaf.rs", "lemmas.rs"], items,
            uses={"capability": ["use super::gcc::*;"], "global": ["use super::mcs;", "use super::tpkt;", "use super::capability;", "use super::capability::*;", "use super::event::*;", "use super::gcc::*;"],
                  "client": ["use super::mcs;", "use super::tpkt;", "use super::global;", "use super::global::*;", "use super::event::*;", "use super::gcc::*;"]})
