"""unit csspder: the DER readers (and writers) of src/nla/cssp.rs that unit cssp uses through Stub contracts, REAL bodies.
C07 (totality on hostile server bytes): read_ts_server_challenge, read_ts_validate, read_public_certificate return Ok or Err for EVERY input:
no index out of range (a SEQUENCE OF may be EMPTY after a successful parse), no failing unwrap (the x509 parser returns a Result), no missing key,
no arithmetic overflow.  No `requires` on the byte input.

Each function is also proved against the SAME ensures text its Stub declares in specs/cssp.py (the text is imported from there: one copy;
_CheckedUnit re-checks on every assembly that the Stub is still there, still assumed, and that nothing was added to / removed from its clauses).

Trusted (prelude/asn1_cssp.rs): Sequence (IndexMap) new/insert/index, ANode (Box<dyn ASN1>) of/visit, parse_der_into, to_der, parse_x509_der.
parse_der_into promises only: Ok ==> the structure kept its SHAPE (a_same_shape) and holds der_decode(prototype, bytes) (uninterpreted).
The abstract functions of the Stub clauses (ts_first_nego_token, ts_pub_key_auth, der_ts_*: uninterpreted in unit cssp) are DEFINED here in terms of
der_decode / der_encode and the prototype each function builds (Raw `cssp_der_link`, trusted, definitional axioms): that link is an assumption, not a proof.

Declared rewrites (R6, logged):
  Rpd  `yasna::parse_der(S, |reader| { if let Err(Error::ASN1Error(e)) = M.read_asn1(reader) { return Err(e) } Ok(()) })` -> `parse_der_into(&mut M, S)`
       (FnMut closure over the structure + yasna reader: outside the verifier); the trailing `?` and EVERY statement after the parse are verbatim
  Rcd  `yasna::construct_der(|writer| { M.write_asn1(writer).unwrap(); })` -> `to_der(&M)` (this IS the body of asn1.rs to_der)
  Ras  `V as OctetString` -> `V` (a cast of Vec<u8> to its own alias; Verus has no non-primitive `as`)
Closure annotations (closures=): the factory closure handed to SequenceOf::reader states the layout it builds (checked against its verbatim body);
`|_|` of map_err in read_public_certificate gets a named typed parameter `|_e: X509Error| -> (r: Error)` (Verus accepts only variables there), body verbatim.
Proof aids of the readers all sit AT the parse statement and quantify over any Sequence / SequenceOf reached from the parsed structure, so the
statements after the parse (where the index / unwrap obligations live) carry no annotation and may be re-written freely by a change under check.
"""
import re
from vx.spec import *
from vx.extract import LostAnchor
from specs import cssp as C

CSSP = "src/nla/cssp.rs"
ASN1 = "src/nla/asn1.rs"

NAMES = ["create_ts_request", "read_ts_server_challenge", "create_ts_authenticate", "read_public_certificate", "read_ts_validate",
         "create_ts_credentials", "create_ts_authinfo"]


def _cssp_stub(name):
    xs = [x for x in C.UNIT.items if x.kind == "stub" and x.name == name and x.file == CSSP]
    if len(xs) != 1:
        raise LostAnchor("csspder: unit cssp no longer holds exactly one Stub for %s (found %d)" % (name, len(xs)))
    return xs[0]


def stub_clauses(name):
    """the ensures text unit cssp ASSUMES for `name` (the one copy)"""
    return [c.text for c in _cssp_stub(name).ensures]


# snapshot at import: what this unit proves
PROVED = {n: stub_clauses(n) for n in NAMES}


def check_cssp_stubs():
    """drift check: every function proved here is still a Stub of unit cssp, without `requires`, with exactly the clauses proved here"""
    for n in NAMES:
        s = _cssp_stub(n)
        if s.requires:
            raise LostAnchor("csspder: unit cssp assumes a precondition for %s that is not proved here" % n)
        now = [" ".join(c.text.split()) for c in s.ensures]
        fn = [x for x in items if x.kind == "fn" and x.name == n and x.file == CSSP]
        if len(fn) != 1:
            raise LostAnchor("csspder: %s is not under contract in this unit" % n)
        mine = [" ".join(c.text.split()) for c in fn[0].ensures]
        if fn[0].requires or any(t not in mine for t in now):
            raise LostAnchor("csspder: unit cssp assumes %r for %s, unit csspder proves %r" % (now, n, mine))


class _CheckedUnit(Unit):
    """compares the clauses assumed by unit cssp with the ones proved here whenever the unit is assembled"""

    @property
    def preludes(self):
        check_cssp_stubs()
        return self._preludes

    @preludes.setter
    def preludes(self, v):
        self._preludes = v


items = []
A = items.append

# ---- extracted verbatim from src/nla/asn1.rs
A(Item(ASN1, "enum", "ASN1Type", mod=None))      # top level: the trusted `ANode::visit` of prelude/asn1_cssp.rs returns it
A(Item(ASN1, "struct", "ExplicitTag", mod="asn1"))
ET_NEW = Fn(ASN1, "new", impl=r"^impl<T> ExplicitTag<T>$", mod="asn1", props=["C07"], ensures=["r.tag == tag && r.inner == inner"])
ET_NEW.impl_label = "ExplicitTag"
A(ET_NEW)
A(Raw(r"""
/// ExplicitTag is transparent in the ghost view: its read_asn1 / visit delegate to the inner node (src/nla/asn1.rs)
impl<T: ASN1> ASN1 for ExplicitTag<T> { open spec fn av(&self) -> AV { self.inner.av() } }
""", mod="asn1", name="explicit_tag_view", trusted="ExplicitTag<T> is transparent in the ghost view (its read_asn1 and visit delegate to the inner node)"))

# ---- the abstract DER functions of unit cssp (same text, imported) and their link to the tree model
DER_SPECS = [x for x in C.UNIT.items if x.kind == "raw" and x.name == "cssp_der_specs"]
assert len(DER_SPECS) == 1
A(DER_SPECS[0])

A(Raw(r"""
/// the prototypes the two readers build (view of the structure before the parse)
pub open spec fn ts_request_proto() -> AV {
    AV::Seq(seq![("version"@, AV::U32(2)),
                 ("negoTokens"@, AV::SeqOf(Seq::empty(), Some(Box::new(AV::Seq(seq![("negoToken"@, AV::Octets(Seq::empty()))])))))])
}
pub open spec fn ts_validate_proto() -> AV {
    AV::Seq(seq![("version"@, AV::U32(2)), ("pubKeyAuth"@, AV::Octets(Seq::empty()))])
}
/// TSRequest.negoTokens[0].negoToken / TSRequest.pubKeyAuth of a decoded value (positions, not key lookups)
pub open spec fn first_nego_token_of(v: AV) -> Option<Seq<u8>> {
    match v {
        AV::Seq(f) => if f.len() == 2 { match f[1].1 {
            AV::SeqOf(s, _) => if s.len() > 0 { match s[0] {
                AV::Seq(g) => if g.len() == 1 { match g[0].1 { AV::Octets(b) => Some(b), _ => None } } else { None },
                _ => None } } else { None },
            _ => None } } else { None },
        _ => None,
    }
}
pub open spec fn pub_key_auth_of(v: AV) -> Option<Seq<u8>> {
    match v {
        AV::Seq(f) => if f.len() == 2 { match f[1].1 { AV::Octets(b) => Some(b), _ => None } } else { None },
        _ => None,
    }
}
pub open spec fn nego_tokens_av(nego: Seq<u8>) -> AV { AV::SeqOf(seq![AV::Seq(seq![("negoToken"@, AV::Octets(nego))])], None) }
/// DEFINITIONS of the abstract functions of unit cssp in terms of the generic decoder / encoder of prelude/asn1_cssp.rs
pub broadcast axiom fn axiom_ts_first_nego_token(der: Seq<u8>)
    ensures #[trigger] ts_first_nego_token(der) == (match der_decode(ts_request_proto(), der) { Some(v) => first_nego_token_of(v), None => None });
pub broadcast axiom fn axiom_ts_pub_key_auth(der: Seq<u8>)
    ensures #[trigger] ts_pub_key_auth(der) == (match der_decode(ts_validate_proto(), der) { Some(v) => pub_key_auth_of(v), None => None });
pub broadcast axiom fn axiom_der_ts_request(nego: Seq<u8>)
    ensures #[trigger] der_ts_request(nego) == der_encode(AV::Seq(seq![("version"@, AV::U32(2)), ("negoTokens"@, nego_tokens_av(nego))]));
pub broadcast axiom fn axiom_der_ts_authenticate(nego: Seq<u8>, pub_key_auth: Seq<u8>)
    ensures #[trigger] der_ts_authenticate(nego, pub_key_auth)
        == der_encode(AV::Seq(seq![("version"@, AV::U32(2)), ("negoTokens"@, nego_tokens_av(nego)), ("pubKeyAuth"@, AV::Octets(pub_key_auth))]));
pub broadcast axiom fn axiom_der_ts_authinfo(auth_info: Seq<u8>)
    ensures #[trigger] der_ts_authinfo(auth_info) == der_encode(AV::Seq(seq![("version"@, AV::U32(2)), ("authInfo"@, AV::Octets(auth_info))]));
pub broadcast axiom fn axiom_der_ts_credentials(domain: Seq<u8>, user: Seq<u8>, password: Seq<u8>)
    ensures #[trigger] der_ts_credentials(domain, user, password)
        == der_encode(AV::Seq(seq![("credType"@, AV::U32(1)), ("credentials"@, AV::Octets(
               der_encode(AV::Seq(seq![("domainName"@, AV::Octets(domain)), ("userName"@, AV::Octets(user)), ("password"@, AV::Octets(password))]))))]));
""", mod="cssp", name="cssp_der_link",
      trusted="definitional axioms: ts_first_nego_token / ts_pub_key_auth / der_ts_* of unit cssp ARE der_decode / der_encode (uninterpreted yasna + asn1.rs codec) "
              "applied to the structures cssp.rs builds; conservative (each gives one uninterpreted function a definition), but not proved against the DER standard"))

A(Raw(r"""
/// the literal keys of one sequence![..] are pairwise distinct (proved: reveal_strlit)
pub proof fn lemma_cssp_keys()
    ensures "version"@ != "negoTokens"@, "version"@ != "pubKeyAuth"@, "negoTokens"@ != "pubKeyAuth"@, "version"@ != "authInfo"@,
        "credType"@ != "credentials"@, "domainName"@ != "userName"@, "domainName"@ != "password"@, "userName"@ != "password"@,
{
    reveal_strlit("version"); reveal_strlit("negoTokens"); reveal_strlit("pubKeyAuth"); reveal_strlit("authInfo");
    reveal_strlit("credType"); reveal_strlit("credentials"); reveal_strlit("domainName"); reveal_strlit("userName"); reveal_strlit("password");
    assert("version"@.len() == 7 && "negoTokens"@.len() == 10 && "pubKeyAuth"@.len() == 10 && "authInfo"@.len() == 8);
    assert("negoTokens"@[0] == 'n' && "pubKeyAuth"@[0] == 'p');
    assert("credType"@.len() == 8 && "credentials"@.len() == 11 && "domainName"@.len() == 10 && "userName"@.len() == 8 && "password"@.len() == 8);
    assert("userName"@[0] == 'u' && "password"@[0] == 'p');
}
""", mod="cssp", name="lemma_cssp_keys"))

RPD = [(r"yasna::parse_der\(\s*(\w+)\s*,\s*\|reader\|\s*\{\s*if let Err\(Error::ASN1Error\(e\)\) = (\w+)\.read_asn1\(reader\)\s*\{\s*return Err\(e\);?\s*\}\s*Ok\(\(\)\)\s*\}\s*\)",
        r"parse_der_into(&mut \2, \1)")]
RCD = [(r"yasna::construct_der\(\s*\|writer\|\s*\{\s*(\w+)\.write_asn1\(writer\)\.unwrap\(\);\s*\}\s*\)", r"to_der(&\1)")]
RAS = [(r"\b(\w+) as OctetString\b", r"\1")]


# which properties rely on each of the seven DER functions (C07 totality for all; C01: what cssp_connect compares / unseals comes from the
# readers; C17: the credentials structure; C03: the three CredSSP messages)
RELY = {"read_ts_server_challenge": "C07,C01,C03", "read_ts_validate": "C07,C01", "read_public_certificate": "C07,C01",
        "create_ts_request": "C07,C03", "create_ts_authenticate": "C07,C01,C03", "create_ts_credentials": "C07,C17,C01", "create_ts_authinfo": "C07,C17,C01"}
def cl(name, cid):
    return [(RELY[name], "%s-%d" % (cid, i + 1), t) for i, t in enumerate(PROVED[name])]


# ---------------- readers (hostile bytes)
TOKEN_LAYOUT = 'seq![("negoToken"@, AV::Octets(Seq::<u8>::empty()))]'
A(Fn(CSSP, "read_ts_server_challenge", mod="cssp", props=RELY["read_ts_server_challenge"].split(","), body_sub=RPD,
     closures={1: dict(params="", ret="-> (r: Box<Sequence>)", spec="ensures r.fields() =~= %s" % TOKEN_LAYOUT)},
     ensures=cl("read_ts_server_challenge", "first-nego-token"),
     # refusal justification (MS-CSSP 2.2.1 TSRequest.negoTokens): the challenge is refused for a missing token only when the TSRequest DECODED and its
     # negoTokens list is empty (so there is no first token: ts_first_nego_token is None)
     claims=[(r"return Err\(.*no nego token in server challenge", 1, """proof { broadcast use axiom_ts_first_nego_token;
        let v = der_decode(ts_request_proto(), stream@);
        assert(v is Some && v->Some_0 is Seq && v->Some_0->Seq_0.len() == 2 && v->Some_0->Seq_0[1].1 is SeqOf && v->Some_0->Seq_0[1].1->SeqOf_0.len() == 0);
        assert(ts_first_nego_token(stream@) is None); }""", "before", "C03,C01", "refused-only-when-the-decoded-negoTokens-list-is-empty")],
     pre="proof { reveal_with_fuel(a_same_shape, 3); }",
     hints=[
         (r"parse_der_into\(", 1, "let ghost f0 = ts_request.fields();", "before"),
         (r"parse_der_into\(", 1, """proof {
        lemma_cssp_keys(); broadcast use axiom_ts_first_nego_token;
        assert(f0.len() == 2 && f0[0].0 == "version"@ && f0[1].0 == "negoTokens"@);
        assert(f0[1].1 matches AV::SeqOf(s, p) && s.len() == 0 && p is Some && *p->Some_0 =~= AV::Seq(%s));
        let p0 = ts_request_proto()->Seq_0;
        assert(p0[0] == f0[0]);
        assert(f0[1].1->SeqOf_0 =~= Seq::<AV>::empty() && p0[1].1->SeqOf_0 =~= Seq::<AV>::empty());
        assert(p0[1] == f0[1]);
        assert(f0 =~= p0);
    }""" % TOKEN_LAYOUT, "before"),
         (r"parse_der_into\(", 1, "let ghost f1 = ts_request.fields();"),
         # every proof aid sits at the parse statement and speaks about the parsed structure only (not about the local names of the statements
         # that follow): what is known after a successful parse about ANY SequenceOf / Sequence reached from it
         (r"parse_der_into\(", 1, """proof {
        assert(f1[0].0 == "version"@ && f1[1].0 == "negoTokens"@ && a_same_shape(f0[1].1, f1[1].1));
        assert(a_first_key(f1, "negoTokens"@) == 1);
        let layout = AV::Seq(%s);
        assert forall|so: &SequenceOf, i: int| so.av() == f1[1].1 && 0 <= i < so.inner@.len()
            implies a_same_shape(layout, #[trigger] so.inner@[i].aview()) && so.inner@[i].aview() == f1[1].1->SeqOf_0[i] by {
            assert(nodes_view(so.inner@)[i] == so.inner@[i].aview());
        }
        assert forall|sq: &Sequence| a_same_shape(layout, AV::Seq(#[trigger] sq.fields()))
            implies a_has_key(sq.fields(), "negoToken"@) && a_first_key(sq.fields(), "negoToken"@) == 0 && sq.fields().len() == 1 && sq.fields()[0].1 is Octets by {
            assert(sq.fields()[0].0 == "negoToken"@);
        }
    }""" % TOKEN_LAYOUT),
     ]))

A(Fn(CSSP, "read_ts_validate", mod="cssp", props=RELY["read_ts_validate"].split(","), body_sub=RPD,
     ensures=cl("read_ts_validate", "pub-key-auth"),
     hints=[
         (r"parse_der_into\(", 1, "let ghost f0 = ts_challenge.fields();", "before"),
         (r"parse_der_into\(", 1, """proof {
        lemma_cssp_keys(); broadcast use axiom_ts_pub_key_auth;
        assert(f0.len() == 2 && f0[0].0 == "version"@ && f0[1].0 == "pubKeyAuth"@);
        let p0 = ts_validate_proto()->Seq_0;
        assert(p0[0] == f0[0]);
        assert(p0[1].1->Octets_0 =~= f0[1].1->Octets_0);
        assert(p0[1] == f0[1]);
        assert(f0 =~= p0);
    }""", "before"),
         (r"parse_der_into\(", 1, "let ghost f1 = ts_challenge.fields();"),
         (r"parse_der_into\(", 1, """proof {
        assert(f1[0].0 == "version"@ && f1[1].0 == "pubKeyAuth"@ && a_same_shape(f0[1].1, f1[1].1));
        assert(a_first_key(f1, "pubKeyAuth"@) == 1);
    }"""),
     ]))

# closure #1 is `|_| Error::RdpError(..)` handed to map_err: Verus wants a named, typed parameter (the closure body is verbatim)
A(Fn(CSSP, "read_public_certificate", mod="cssp", props=RELY["read_public_certificate"].split(","),
     closures={1: dict(params="_e: X509Error", ret="-> (r: Error)", spec="")},
     ensures=cl("read_public_certificate", "subject-key")))

# ---------------- writers (client data; to_der is trusted): totality + the Stub clause, through the definitional axioms of cssp_der_link
def _nego_tokens_hint(seqname):
    """the negoTokens child of `seqname` is sequence_of![sequence!["negoToken" => nego]]"""
    return """let f = %s.fields();
        assert(f[1].1 matches AV::SeqOf(s, p) && p is None && s.len() == 1 && s[0] == AV::Seq(seq![("negoToken"@, AV::Octets(nego@))]));
        assert(f[1].1->SeqOf_0 =~= seq![AV::Seq(seq![("negoToken"@, AV::Octets(nego@))])]);
        assert(f[1].1 == nego_tokens_av(nego@));""" % seqname

A(Fn(CSSP, "create_ts_request", mod="cssp", props=RELY["create_ts_request"].split(","), ensures=cl("create_ts_request", "der"),
     hints=[(r"to_der\(&ts_request\)", 1, """proof {
        lemma_cssp_keys(); broadcast use axiom_der_ts_request;
        %s
        assert(f =~= seq![("version"@, AV::U32(2)), ("negoTokens"@, nego_tokens_av(nego@))]);
    }""" % _nego_tokens_hint("ts_request"), "before")]))
A(Fn(CSSP, "create_ts_authenticate", mod="cssp", props=RELY["create_ts_authenticate"].split(","), body_sub=RAS, ensures=cl("create_ts_authenticate", "der"),
     hints=[(r"to_der\(&ts_challenge\)", 1, """proof {
        lemma_cssp_keys(); broadcast use axiom_der_ts_authenticate;
        %s
        assert(f =~= seq![("version"@, AV::U32(2)), ("negoTokens"@, nego_tokens_av(nego@)), ("pubKeyAuth"@, AV::Octets(pub_key_auth@))]);
    }""" % _nego_tokens_hint("ts_challenge"), "before")]))
A(Fn(CSSP, "create_ts_credentials", mod="cssp", props=RELY["create_ts_credentials"].split(","), body_sub=RCD + RAS, ensures=cl("create_ts_credentials", "der"),
     hints=[(r"let ts_password_cred_encoded = ", 1, """proof {
        lemma_cssp_keys(); broadcast use axiom_der_ts_credentials;
        assert(ts_password_creds.fields() =~= seq![("domainName"@, AV::Octets(domain@)), ("userName"@, AV::Octets(user@)), ("password"@, AV::Octets(password@))]);
    }""", "before"),
            (r"let ts_password_cred_encoded = ", 1, "let ghost inner_der = ts_password_cred_encoded@;"),
            (r"to_der\(&ts_credentials\)", 1, """proof {
        assert(ts_credentials.fields() =~= seq![("credType"@, AV::U32(1)), ("credentials"@, AV::Octets(inner_der))]);
    }""", "before")]))
A(Fn(CSSP, "create_ts_authinfo", mod="cssp", props=RELY["create_ts_authinfo"].split(","), ensures=cl("create_ts_authinfo", "der"),
     hints=[(r"to_der\(&ts_authinfo\)", 1, """proof {
        lemma_cssp_keys(); broadcast use axiom_der_ts_authinfo;
        assert(ts_authinfo.fields() =~= seq![("version"@, AV::U32(2)), ("authInfo"@, AV::Octets(auth_info@))]);
    }""", "before")]))

UNIT = _CheckedUnit("csspder", ["base.rs", "nla.rs", "asn1_cssp.rs"], items, mods=[None, "asn1", "cssp"], uses={"cssp": ["use super::asn1::*;"]},
                    doc="DER readers / writers of src/nla/cssp.rs (real bodies) over a trusted model of src/nla/asn1.rs + yasna: totality on hostile bytes, and the Stub clauses unit cssp assumes")
