"""unit mcs: src/core/mcs.rs + src/core/gcc.rs above the x224 layer.
C03 (connect-initial, erect-domain, attach-user, one join per channel, in that order, with the server-assigned ids), C05 (hostile bytes during setup),
C04 (GCC blocks / MCS headers well formed), C18 (Version::from, PER prefix of the conference request), C11/C12 (mcs::Client::write contract used above)."""
from vx.spec import *
from vx.layouts import shape_clauses
from specs import nego as N
from specs import per as P
from specs.common import PER_SPECS_TEXT, FRAME_SPECS_TEXT, MCS_SPECS_TEXT, MCS_WRITE, MCS_READ

MCS = "src/core/mcs.rs"
GCC = "src/core/gcc.rs"

items = stubs_of(N.UNIT.items, "nego")
items += [x for x in stubs_of(P.UNIT.items, "per")]
A = items.append

# ---------------- gcc.rs
for e in ("Version", "ColorDepth", "Sequence", "KeyboardLayout", "KeyboardType", "HighColor", "Support", "CapabilityFlag", "EncryptionMethod", "EncryptionLevel", "MessageType"):
    A(Item(GCC, "enum", e, mod="gcc", strip_derive=["Hash"], add_derive=("Copy, Clone" if e in ("ColorDepth", "Sequence", "KeyboardType", "HighColor", "Support", "CapabilityFlag", "EncryptionMethod", "EncryptionLevel", "MessageType") else None)))
for c in ("T124_02_98_OID", "H221_CS_KEY", "H221_SC_KEY"):
    A(Item(GCC, "const", c, mod="gcc"))
A(Item(GCC, "struct", "ClientData", mod="gcc"))
A(Item(GCC, "struct", "ServerData", mod="gcc"))
A(Raw(r"""
impl KeyView for MessageType { type KV = MessageType; open spec fn kv(&self) -> MessageType { *self } }
/// TS_UD_HEADER (MS-RDPBCGR 2.2.1.3.1): type, length INCLUDING the 4 header bytes
pub open spec fn ud_header(ty: u16, body_len: int) -> Seq<u8> { le16(ty) + le16((body_len + 4) as u16) }
/// T.124 ConferenceCreateRequest wrapper of the client data blocks (MS-RDPBCGR 2.2.1.3): key OID 0.0.20.124.0.1, connect-data length,
/// conference name "1", one user-data set keyed by the H.221 non-standard key "Duca", then the blocks
pub open spec fn gcc_ccr(user_data: Seq<u8>) -> Seq<u8> {
    seq![0u8, 5u8, 0u8, 20u8, 124u8, 0u8, 1u8] + per::per_len((user_data.len() + 14) as u16)
        + seq![0u8, 8u8, 0u8, 0x10u8, 0u8, 1u8, 0xc0u8, 0u8, 0x44u8, 0x75u8, 0x63u8, 0x61u8] + per::per_len(user_data.len() as u16) + user_data
}
""", mod="gcc", name="gcc_specs"))
def GF(name, impl=None, **kw):
    A(Fn(GCC, name, impl=impl, mod="gcc", **kw))
GF("from", impl=r"From<u32> for Version", props=["C18", "C05"],
   ensures=[("C18", "named-versions", "(e == 0x00080001 ==> r == Version::RdpVersion) && (e == 0x00080004 ==> r == Version::RdpVersion5plus) && (e != 0x00080001 && e != 0x00080004 ==> r == Version::Unknown)")])
GF("from", impl=r"From<u16> for MessageType", props=["C05"])
GF("client_core_data", ret="c", props=["C04"],
   ensures=shape_clauses(GCC, "client_core_data", res="c") + [("C04", "fixed-size-212", "ser(c.mv()).len() == 212"), ("C04", "client-name-32-bytes", "c.fields()[7].1 is Bytes && c.fields()[7].1->Bytes_0.len() == 32")])
GF("server_core_data", ret="c", props=["C05"], ensures=shape_clauses(GCC, "server_core_data", res="c"))
GF("client_security_data", ret="c", props=["C04"], ensures=shape_clauses(GCC, "client_security_data", res="c") + [("C04", "size", "ser(c.mv()).len() == 8")])
GF("server_security_data", ret="c", props=["C05"], ensures=shape_clauses(GCC, "server_security_data", res="c"))
GF("channel_def", ret="c", props=["C04"], ensures=shape_clauses(GCC, "channel_def", res="c"))
GF("client_network_data", ret="c", props=["C04"], ensures=shape_clauses(GCC, "client_network_data", res="c") + [("C04", "count", "ser(c.mv()) =~= le32(channel_def_array@.len() as u32) + ser(channel_def_array.mv())")])
GF("server_network_data", ret="c", props=["C05"], ensures=shape_clauses(GCC, "server_network_data", res="c"))
GF("block_header", ret="c", props=["C04", "C05"], requires=["(if length is Some { length->Some_0 } else { 0 }) <= 0xfffb"],
   ensures=shape_clauses(GCC, "block_header", res="c") + [("C04", "bytes", "ser(c.mv()) =~= ud_header((if data_type is Some { data_type->Some_0 as u16 } else { 0xC001u16 }), (if length is Some { length->Some_0 as int } else { 0 }))"), (None, "static", "is_static(c.mv())")])
GF("write_conference_create_request", props=["C04", "C18", "C03"], requires=["user_data@.len() + 14 <= 0x7fff"],
   ensures=[("C04,C18", "t124-wrapper", "r is Ok ==> r->Ok_0@ =~= gcc_ccr(user_data@)")])
GF("read_conference_create_response", props=["C05"],
   body_sub=[(r"cc_response\.take\(length as u64\)", "take_reader(cc_response, length as u64)")],
   ensures=[("C05", "monotone", "true")])

# ---------------- mcs.rs
A(Item(MCS, "enum", "DomainMCSPDU", mod="mcs", add_derive="Copy, Clone"))
A(Item(MCS, "struct", "Client", mod="mcs"))
A(Raw(PER_SPECS_TEXT.replace("pub open spec fn per_len", "pub open spec fn per_len_unused") + FRAME_SPECS_TEXT + r"""
pub open spec fn per_len(n: u16) -> Seq<u8> { per::per_len(n) }
""" + MCS_SPECS_TEXT + r"""
impl<S: Read + Write + Duplex> Client<S> {
    pub closed spec fn written(&self) -> Seq<u8> { self.x224.written() }
    pub closed spec fn rest(&self) -> Seq<u8> { self.x224.rest() }
    pub closed spec fn tls(&self) -> bool { self.x224.tls() }
    pub closed spec fn uid(&self) -> Option<u16> { self.user_id }
    pub closed spec fn chans(&self) -> Map<Seq<char>, u16> { self.channel_ids.m() }
    pub open spec fn connected(&self) -> bool {
        self.uid() is Some && self.uid()->Some_0 >= 1001 && self.chans().contains_key("global"@)
    }
    pub open spec fn same_session(&self, o: &Self) -> bool { self.uid() == o.uid() && self.chans() == o.chans() && self.tls() == o.tls() }
}
/// T.125 PDUs of the connection sequence (MS-RDPBCGR 2.2.1.5 - 2.2.1.9)
pub open spec fn erect_domain_bytes() -> Seq<u8> { seq![0x04u8, 1u8, 0u8, 1u8, 0u8] }
pub open spec fn attach_user_bytes() -> Seq<u8> { seq![0x28u8] }
pub open spec fn channel_join_bytes(uid: u16, cid: u16) -> Seq<u8> { seq![0x38u8] + be16((uid - 1001) as u16) + be16(cid) }
pub open spec fn disconnect_ultimatum_bytes() -> Seq<u8> { seq![0x21u8, 0x80u8, 0u8, 0u8, 0u8, 0u8, 0u8, 0u8] }
pub open spec fn frame(payload: Seq<u8>) -> Seq<u8> { tpkt_frame(x224_data(payload)) }
""", mod="mcs", name="mcs_specs"))
def MF(name, impl=None, **kw):
    A(Fn(MCS, name, impl=impl, mod="mcs", **kw))
DER_WHY = "BER/DER through the yasna crate and src/nla/asn1.rs (external)"
A(Stub(MCS, "connect_initial", mod="mcs", why=DER_WHY))
A(Stub(MCS, "connect_response", mod="mcs", why=DER_WHY, ensures=["r.inner.skeys().contains(\"userData\"@) && r.inner.octet_keys().contains(\"userData\"@)"]))
MF("mcs_pdu_header", props=["C04", "C03"], ensures=[("C04", "choice-and-options", "r == (((if pdu is Some { pdu->Some_0 as u8 } else { 11u8 }) << 2) | (if options is Some { options->Some_0 } else { 0u8 }))")],
   requires=["true"])
MF("read_attach_user_confirm", props=["C05", "C03"],
   ensures=[("C03", "assigned-user-id", "r is Ok ==> old(buffer).rest().len() >= 4 && old(buffer).rest()[0] >> 2 == 11 && old(buffer).rest()[1] == 0 && r->Ok_0 as int == u16_be(old(buffer).rest()[2], old(buffer).rest()[3]) as int + 1001"),
            ("C03", "at-least-1001", "r is Ok ==> r->Ok_0 >= 1001")])
MF("attach_user_request", props=["C03", "C04"], ensures=[("C03", "byte", "r == 0x28")])
MF("erect_domain_request", props=["C03", "C04"], fuel=6, ensures=[("C03,C04", "bytes", "r is Ok && ser(r->Ok_0.mv()) =~= erect_domain_bytes()")])
MF("channel_join_request", props=["C03", "C04"], fuel=6, requires=["user_id is Some ==> user_id->Some_0 >= 1001"],
   ensures=[("C03,C04", "bytes", "r is Ok && ser(r->Ok_0.mv()) =~= channel_join_bytes((if user_id is Some { user_id->Some_0 } else { 1001u16 }), (if channel_id is Some { channel_id->Some_0 } else { 0u16 }))")])
MF("read_channel_join_confirm", props=["C05", "C03"],
   ensures=[("C03", "confirms-the-requested-ids", "r is Ok ==> old(buffer).rest().len() >= 6 && old(buffer).rest()[0] >> 2 == 15 && user_id as int == u16_be(old(buffer).rest()[2], old(buffer).rest()[3]) as int + 1001 && channel_id == u16_be(old(buffer).rest()[4], old(buffer).rest()[5]) && r->Ok_0 == (old(buffer).rest()[1] == 0)")])
MF("new", impl=r"Client<S>", props=["C03"], ensures=["r.uid() is None && r.chans() == Map::<Seq<char>, u16>::empty() && r.written() == x224.written() && r.rest() == x224.rest() && r.tls() == x224.tls()"])
FRAME_CL = [(None, "frame", "final(self).tls() == old(self).tls() && is_prefix(old(self).written(), final(self).written()) && is_suffix(final(self).rest(), old(self).rest())")]
MF("write_connect_initial", impl=r"Client<S>", props=["C03", "C04"], requires=["client_name@.len() <= 1024"],
   ensures=FRAME_CL + [("C03", "one-connect-initial", "r is Ok ==> exists|ci: Seq<u8>| #[trigger] frame(ci).len() > 0 && final(self).written() =~= old(self).written() + frame(ci)"),
                       (None, "ids", "final(self).uid() == old(self).uid() && final(self).chans() == old(self).chans()")])
MF("read_connect_response", impl=r"Client<S>", props=["C05", "C03"],
   ensures=FRAME_CL + [(None, "nothing-written", "final(self).written() == old(self).written() && final(self).uid() == old(self).uid() && final(self).chans() == old(self).chans()"),
                       ("C03", "server-data-recorded", "r is Ok ==> final(self).server_data is Some")])
MF("connect", impl=r"Client<S>", props=["C03", "C05"], requires=["client_name@.len() <= 1024", "old(self).uid() is None", "old(self).chans() == Map::<Seq<char>, u16>::empty()"],
   body_sub=[(r"for channel_id in self\.channel_ids\.values\(\) \{", "let __channel_ids = hashmap_values(&self.channel_ids); for channel_id in __channel_ids.iter() {")],
   ensures=FRAME_CL + [("C03", "connected", "r is Ok ==> final(self).connected() && final(self).chans().contains_key(\"user\"@) && final(self).chans()[\"global\"@] == 1003 && final(self).chans()[\"user\"@] == final(self).uid()->Some_0 && final(self).server_data is Some"),
                       ("C03", "sequence-in-order", """r is Ok ==> exists|ci: Seq<u8>, c1: u16, c2: u16| #[trigger] (frame(ci) + frame(channel_join_bytes(final(self).uid()->Some_0, c1)) + frame(channel_join_bytes(final(self).uid()->Some_0, c2))).len() > 0
                            && ((c1 == 1003 && c2 == final(self).uid()->Some_0) || (c2 == 1003 && c1 == final(self).uid()->Some_0))
                            && final(self).written() =~= old(self).written() + frame(ci) + frame(erect_domain_bytes()) + frame(attach_user_bytes())
                                + frame(channel_join_bytes(final(self).uid()->Some_0, c1)) + frame(channel_join_bytes(final(self).uid()->Some_0, c2))""")])
MF("write", impl=r"Client<S>", props=["C11", "C12", "C03", "C04"], fuel=8, **MCS_WRITE)
MF("read", impl=r"Client<S>", props=["C05", "C06", "C10"],
   body_sub=[(r"self\.channel_ids\.iter\(\)\.find\(\|x\| \*x\.1 == channel_id\)", "hashmap_find_by_value(&self.channel_ids, channel_id)")], **MCS_READ)
MF("shutdown", impl=r"Client<S>", props=["C03"], fuel=8,
   ensures=[("C03", "disconnect-provider-ultimatum", "r is Ok ==> final(self).written() =~= old(self).written() + frame(disconnect_ultimatum_bytes())"),
            (None, "frame", "final(self).rest() == old(self).rest() && final(self).same_session(old(self)) && is_prefix(old(self).written(), final(self).written())")])
MF("is_rdp_version_5_plus", impl=r"Client<S>", props=["C03"], requires=["self.server_data is Some"])
MF("get_user_id", impl=r"Client<S>", props=["C03"], requires=["self.uid() is Some"], ensures=["r == self.uid()->Some_0"])
MF("get_global_channel_id", impl=r"Client<S>", props=["C03"], requires=["self.chans().contains_key(\"global\"@)"], ensures=["r == self.chans()[\"global\"@]"])

UNIT = Unit("mcs", N.UNIT.preludes + ["collections.rs", "asn1.rs", "unicode.rs"], items,
            uses=dict(N.UNIT.uses, gcc=["use super::per;"], mcs=["use super::x224;", "use super::tpkt;", "use super::gcc::{KeyboardLayout, client_core_data, ClientData, ServerData, client_security_data, client_network_data, block_header, write_conference_create_request, MessageType, read_conference_create_response, Version};", "use super::per;"]),
            mods=["link", "sspi", "cssp", "tpkt", "x224", "per", "gcc", "mcs"])
