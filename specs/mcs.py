"""unit mcs: src/core/mcs.rs + src/core/gcc.rs above the x224 layer.
C03 (connect-initial, erect-domain, attach-user, one join per channel, in that order, with the server-assigned ids), C05 (hostile bytes during setup),
C04 (GCC blocks / MCS headers well formed), C18 (Version::from, PER prefix of the conference request), C11/C12 (mcs::Client::write contract used above).
Everything below (link/tpkt/x224, nego, per) is assumed through the contracts proved in those units, except per::write_numeric_string and
per::write_padding, whose real bodies are re-verified here with one byte-level clause each (needed by the byte-exact T.124 wrapper).
Declared rewrites (R6): `reader.take(n)` -> take_reader, `for x in map.values()` -> hashmap_values snapshot (+ the ghost iterator is named `__it:`),
`map.iter().find(|x| *x.1 == v)` -> hashmap_find_by_value.  Not provable and therefore not claimed: totality (`r is Ok`) of erect_domain_request, because
per::write_integer's contract (generic over `impl Write`) does not say that writing into an in-memory Cursor succeeds."""
from vx.spec import *
from vx.layouts import shape_clauses
from specs import nego as N
from specs import per as P
from specs.common import PER_SPECS_TEXT, FRAME_SPECS_TEXT, MCS_SPECS_TEXT, MCS_WRITE, MCS_READ, MCS_V5

import os
# VERIF_DOC_STRICT=1 replaces every "as-implemented" layout clause below by the clause transcribed from the document (these FAIL on the
# current code: each one is a reported discrepancy between the code and MS-RDPBCGR, see the comment at the clause)
DOC_STRICT = os.environ.get("VERIF_DOC_STRICT") == "1"
MCS = "src/core/mcs.rs"
GCC = "src/core/gcc.rs"

items = stubs_of(N.UNIT.items, "nego")
items += [x for x in stubs_of(P.UNIT.items, "per")]
A = items.append

# per::write_numeric_string / per::write_padding: unit per proves them total but says nothing about the bytes they emit; the byte-exact
# T.124 wrapper (C04/C18 `t124-wrapper`) needs them, so the two REAL bodies are RE-VERIFIED here against per's clauses plus one byte
# clause each (nothing assumed; same pattern as tpkt::Client::new in unit nego)
def _reverify(name, **kw):
    ix = [i for i, x in enumerate(items) if x.kind == "stub" and x.name == name and x.mod == "per"]
    assert len(ix) == 1
    old = items[ix[0]]
    items[ix[0]] = Fn(P.PER, name, mod="per", requires=list(old.requires), ensures=list(old.ensures) + kw.pop("ensures"), **kw)
_reverify("write_numeric_string", props=["C18"], nloops=1,
          ensures=[("C18", "one-digit", "r is Ok && string@ =~= seq![0x31u8] && minimum == 1 ==> final(s).written() =~= old(s).written() + seq![0u8, 0x10u8]")],
          pre="proof { reveal_with_fuel(ser, 3); reveal_with_fuel(ser_seq_from, 3); }",
          hints=[(r"\(\(c1 << 4\) \| c2\)\.write\(s\)\?;", 1, "proof { if string@ =~= seq![0x31u8] { assert(c1 == 1 && c2 == 0); assert((1u8 << 4u8) | 0u8 == 0x10u8) by(bit_vector); } }", "before")],
          loops={1: """invariant forall|k: int| 0 <= k < string@.len() ==> 0x30 <= #[trigger] string@[k] <= 0x39,
            string@ =~= seq![0x31u8] && minimum == 1 ==> s.written() =~= old(s).written() + seq![0u8] + (if i == 0 { Seq::<u8>::empty() } else { seq![0x10u8] }),"""})
_reverify("write_padding", props=["C18"],
          ensures=[("C18", "zeros", "r is Ok ==> final(s).written() =~= old(s).written() + Seq::new(length as nat, |i: int| 0u8)")])

# ---------------- gcc.rs
for e in ("Version", "ColorDepth", "Sequence", "KeyboardLayout", "KeyboardType", "HighColor", "Support", "CapabilityFlag", "EncryptionMethod", "EncryptionLevel", "MessageType"):
    A(Item(GCC, "enum", e, mod="gcc", strip_derive=["Hash"], add_derive=("Copy, Clone" if e in ("ColorDepth", "Sequence", "KeyboardType", "HighColor", "Support", "CapabilityFlag", "EncryptionMethod", "EncryptionLevel", "MessageType") else None)))
for c in ("T124_02_98_OID", "H221_CS_KEY", "H221_SC_KEY"):
    A(Item(GCC, "const", c, mod="gcc"))
A(Item(GCC, "struct", "ClientData", mod="gcc"))
A(Item(GCC, "struct", "ServerData", mod="gcc"))
A(Raw(r"""
impl KeyView for MessageType { type KV = MessageType; open spec fn kv(&self) -> MessageType { *self } }
/// vstd's specification of core::convert::From: the conversion tables as spec functions (the real bodies are PROVED equal to them)
impl vstd::std_specs::convert::FromSpecImpl<u32> for Version {
    open spec fn obeys_from_spec() -> bool { true }
    open spec fn from_spec(e: u32) -> Version { if e == 0x00080001 { Version::RdpVersion } else if e == 0x00080004 { Version::RdpVersion5plus } else { Version::Unknown } }
}
impl vstd::std_specs::convert::FromSpecImpl<u16> for MessageType {
    open spec fn obeys_from_spec() -> bool { true }
    open spec fn from_spec(e: u16) -> MessageType {
        if e == 0x0C01 { MessageType::ScCore } else if e == 0x0C02 { MessageType::ScSecurity } else if e == 0x0C03 { MessageType::ScNet }
        else if e == 0xC001 { MessageType::CsCore } else if e == 0xC002 { MessageType::CsSecurity } else if e == 0xC003 { MessageType::CsNet }
        else if e == 0xC004 { MessageType::CsCluster } else if e == 0xC005 { MessageType::CsMonitor } else { MessageType::Unknown }
    }
}
/// loop invariant of read_conference_create_response: a recorded server block still has the layout it was read into (Message::read keeps field names)
pub open spec fn blocks_ok(m: Map<MessageType, Component>) -> bool {
    (m.contains_key(MessageType::ScNet) ==> has_key(m[MessageType::ScNet].fields(), "channelIdArray"@))
    && (m.contains_key(MessageType::ScCore) ==> has_key(m[MessageType::ScCore].fields(), "rdpVersion"@))
}
/// clientName of TS_UD_CS_CORE (MS-RDPBCGR 2.2.1.3.2): at most 15 UTF-16 code units and a null terminator, zero padded to 32 bytes.
/// `u` = UTF-16LE bytes of the name. A high surrogate (code unit 0xD800..0xDBFF: high byte & 0xFC == 0xD8) at unit 14 would be split
/// from its low surrogate by the cut at 30 bytes, so it is dropped as well.
pub open spec fn client_name_cut(u: Seq<u8>) -> int { if u.len() <= 30 { u.len() as int } else if u[29] & 0xFC == 0xD8 { 28 } else { 30 } }
pub open spec fn client_name_bytes(u: Seq<u8>) -> Seq<u8> { u.take(client_name_cut(u)) + Seq::new((32 - client_name_cut(u)) as nat, |i: int| 0u8) }
/// TS_UD_HEADER (MS-RDPBCGR 2.2.1.3.1): type, length INCLUDING the 4 header bytes
pub open spec fn ud_header(ty: u16, body_len: int) -> Seq<u8> { le16(ty) + le16((body_len + 4) as u16) }
/// T.124 ConferenceCreateRequest wrapper of the client data blocks (MS-RDPBCGR 2.2.1.3): key OID 0.0.20.124.0.1, connect-data length,
/// conference name "1", one user-data set keyed by the H.221 non-standard key "Duca", then the blocks
pub open spec fn gcc_ccr(user_data: Seq<u8>) -> Seq<u8> {
    seq![0u8, 5u8, 0u8, 20u8, 124u8, 0u8, 1u8] + per::per_len((user_data.len() + 14) as u16)
        + seq![0u8, 8u8, 0u8, 0x10u8, 0u8, 1u8, 0xc0u8, 0u8, 0x44u8, 0x75u8, 0x63u8, 0x61u8] + per::per_len(user_data.len() as u16) + user_data
}
""", mod="gcc", name="gcc_specs"))
A(Raw(r"""
// ---------------- server -> client GCC user data blocks, transcribed from MS-RDPBCGR 2.2.1.4 (NOT derived from the code; the field NAMES are the
// keys the client looks its values up with, they do not reach the wire).  Default values: what the builders put before a read (0).
/// TS_UD_HEADER (2.2.1.3.1): type (u16 LE), length (u16 LE, counts the 4 header bytes); both plain values (any block type must be readable)
pub open spec fn ud_header_view(ty: u16, body_len: int) -> MV {
    MV::Comp(seq![("type"@, MV::U16(ty, true)), ("length"@, MV::U16((body_len + 4) as u16, true))])
}
/// TS_UD_SC_CORE (2.2.1.4.2): version (u32 LE) mandatory; clientRequestedProtocols (u32 LE) and earlyCapabilityFlags (u32 LE) OPTIONAL
/// (a conforming server sends the 4, 8 or 12 byte form)
pub open spec fn server_core_view() -> MV {
    MV::Comp(seq![("rdpVersion"@, MV::U32(0, true)),
                  ("clientRequestedProtocol"@, MV::Opt(Some(Box::new(MV::U32(0, true))))),
                  ("earlyCapabilityFlags"@, MV::Opt(Some(Box::new(MV::U32(0, true)))))])
}
/// TS_UD_SC_SEC1 (2.2.1.4.3): encryptionMethod (u32 LE), encryptionLevel (u32 LE); serverRandomLen / serverCertLen / serverRandom /
/// serverCertificate follow only when both are non zero (never under Enhanced RDP Security) and are not interpreted by this client
pub open spec fn server_security_view() -> MV {
    MV::Comp(seq![("encryptionMethod"@, MV::U32(0, true)), ("encryptionLevel"@, MV::U32(0, true))])
}
/// TS_UD_SC_NET (2.2.1.4.4): MCSChannelId (u16 LE, "the MCS channel identifier of the I/O channel": a value chosen by the server, 1003 = 0x03EB in
/// the examples of the document), channelCount (u16 LE), channelIdArray = channelCount u16 LE entries (channelCount * 2 bytes), then optional Pad
/// (not interpreted).  `chan` = view of the MCSChannelId field (the document makes it a plain u16 LE; see server_network_data below)
pub open spec fn server_network_view(chan: MV) -> MV {
    MV::Comp(seq![("MCSChannelId"@, chan),
                  ("channelCount"@, MV::Dyn(Box::new(MV::U16(0, true)), OV::Size("channelIdArray"@, 0))),
                  ("channelIdArray"@, MV::Arr(Seq::empty(), Box::new(MV::U16(0, true))))])
}
/// GCC Conference Create Response (T.124 ConnectGCCPDU in aligned PER, MS-RDPBCGR 2.2.1.4 and the annotated PDU of section 4.1.4):
///   00                  choice (ConnectData::Key = object)
///   05 00 14 7c 00 01   OBJECT IDENTIFIER 0.0.20.124.0.1 (length determinant, then 5 bytes)
///   LL [LL]             length of the connect PDU
///   14 nn nn            choice (ConferenceCreateResponse), nodeID - 1001 (2 bytes)
///   0L tt..             INTEGER tag (length determinant 1, 2 or 4, then the value)
///   00 01 c0            ENUMERATED result, number of user data sets, choice (h221NonStandard)
///   00 4d 63 44 6e      H.221 key: length determinant = length - 4 (the lower bound of the type), then "McDn"
///   LL [LL] ...         length of the server data blocks, then the blocks
/// ccr_at_key(b) = what is left of `b` in front of the H.221 key, field by field as listed above
pub open spec fn ccr_at_key(b: Seq<u8>) -> Seq<u8> {
    let r1 = b.skip(1);
    let r2 = r1.skip(per::per_len_dec(r1).1 + 5);
    let r3 = r2.skip(per::per_len_dec(r2).1);
    let r4 = r3.skip(1).skip(2);
    let r5 = r4.skip(per::per_int_dec(r4).1);
    r5.skip(1).skip(1).skip(1)
}
/// necessary for acceptance: the OID has 5 content bytes and the H.221 key found at that place is "McDn" with length determinant 0
#[verifier::opaque]
pub open spec fn ccr_key_ok(b: Seq<u8>) -> bool {
    let t = ccr_at_key(b); let d = per::per_len_dec(t);
    per::per_len_dec(b.skip(1)).0 == 5 && d.0 == 0 && t.len() >= d.1 + 4 && t.subrange(d.1, d.1 + 4) =~= seq![0x4du8, 0x63u8, 0x44u8, 0x6eu8]
}
// ---- documented POSITIONS inside the Conference Create Response (T.124 ConnectGCCPDU, MS-RDPBCGR 2.2.1.4 / annotated bytes of 4.1.4): ccr_off_X(b) = number
// of octets of the response `b` that lie in front of the field FOLLOWING X, computed from the input bytes only (widths and order from the document, not
// from the reader): the position claims of read_conference_create_response compare what the reader has consumed after each field with these.
/// 00                    choice ConnectData::Key = object: 1 octet
#[verifier::opaque]
pub open spec fn ccr_off_key_choice(b: Seq<u8>) -> int { 1 }
/// 05 00 14 7c 00 01     OBJECT IDENTIFIER: length determinant (1 octet, value 5) + 5 content octets = 6 (a two octet determinant `80 05` moves everything by one)
#[verifier::opaque]
pub open spec fn ccr_off_oid(b: Seq<u8>) -> int { let o = ccr_off_key_choice(b); o + per::per_len_dec(b.skip(o)).1 + 5 }
/// LL [LL]               length of the connect PDU: PER length determinant, 1 octet (< 0x80) or 2 octets (top bit set)
#[verifier::opaque]
pub open spec fn ccr_off_connect_len(b: Seq<u8>) -> int { let o = ccr_off_oid(b); o + per::per_len_dec(b.skip(o)).1 }
/// 14                    choice ConnectGCCPDU = conferenceCreateResponse: 1 octet
#[verifier::opaque]
pub open spec fn ccr_off_pdu_choice(b: Seq<u8>) -> int { ccr_off_connect_len(b) + 1 }
/// nn nn                 nodeID (UserID, INTEGER 1001..65536): 16 bit offset from 1001, 2 octets
#[verifier::opaque]
pub open spec fn ccr_off_node_id(b: Seq<u8>) -> int { ccr_off_pdu_choice(b) + 2 }
/// 0L tt..               tag (unconstrained INTEGER): length octet L (1, 2 or 4 in this profile), then L value octets
#[verifier::opaque]
pub open spec fn ccr_off_tag(b: Seq<u8>) -> int { let o = ccr_off_node_id(b); let d = per::per_len_dec(b.skip(o)); o + d.1 + d.0 as int }
/// 00                    result (ENUMERATED, success = 0): 1 octet
#[verifier::opaque]
pub open spec fn ccr_off_result(b: Seq<u8>) -> int { ccr_off_tag(b) + 1 }
/// 01                    number of UserData sets: 1 octet
#[verifier::opaque]
pub open spec fn ccr_off_set_count(b: Seq<u8>) -> int { ccr_off_result(b) + 1 }
/// c0                    choice Key = h221NonStandard: 1 octet
#[verifier::opaque]
pub open spec fn ccr_off_h221_choice(b: Seq<u8>) -> int { ccr_off_set_count(b) + 1 }
/// 00 4d 63 44 6e        H.221 key (OCTET STRING SIZE (4..255)) "McDn": length determinant (length - 4), then the 4 octets
#[verifier::opaque]
pub open spec fn ccr_off_h221_key(b: Seq<u8>) -> int { let o = ccr_off_h221_choice(b); o + per::per_len_dec(b.skip(o)).1 + 4 }
/// LL [LL]               length of the user data (the server data blocks): PER length determinant, 1 or 2 octets; the blocks start here
#[verifier::opaque]
pub open spec fn ccr_off_user_data_len(b: Seq<u8>) -> int { let o = ccr_off_h221_key(b); o + per::per_len_dec(b.skip(o)).1 }
""", mod="gcc", name="gcc_server_layouts"))
# position lemmas of the Conference Create Response header (PROVED; the ccr_off_* definitions are opaque outside them): one step per field.  For field X
# that follows field P: IF P's offset lies inside `b` and X fits behind it (facts about the INPUT only: the bounds a successful read of X implies), THEN
# skipping X's width behind P's offset lands on ccr_off_X(b), which lies inside `b`.  The condition is part of the conclusion (no precondition).
# (name of X, name of P, width of X as a function of r0 = the bytes from P's offset on, what a successful read of X implies about r0)
_CCR_BYTE = ("1", "r0.len() >= 1")
_CCR_LEN = ("per::per_len_dec(r0).1", "r0.len() >= 1 && (r0[0] & 0x80 != 0 ==> r0.len() >= 2)")
CCR_STEPS = [("key_choice", None) + _CCR_BYTE,
             ("oid", "key_choice", "per::per_len_dec(r0).1 + 5", "r0.len() >= per::per_len_dec(r0).1 + 5"),
             ("connect_len", "oid") + _CCR_LEN,
             ("pdu_choice", "connect_len") + _CCR_BYTE,
             ("node_id", "pdu_choice", "2", "r0.len() >= 2"),
             ("tag", "node_id", "per::per_int_dec(r0).1", "per::per_int_len_ok(r0) && r0.len() >= per::per_int_dec(r0).1"),
             ("result", "tag") + _CCR_BYTE,
             ("set_count", "result") + _CCR_BYTE,
             ("h221_choice", "set_count") + _CCR_BYTE,
             ("h221_key", "h221_choice", "per::per_len_dec(r0).1 + 4", "r0.len() >= per::per_len_dec(r0).1 + 4"),
             ("user_data_len", "h221_key") + _CCR_LEN]
def _ccr_prev(prev):
    """(offset of the previous field, bytes from there on)"""
    return ("0int", "b") if prev is None else ("ccr_off_%s(b)" % prev, "b.skip(ccr_off_%s(b))" % prev)
def _ccr_cond(prev, pre):
    o, r0 = _ccr_prev(prev)
    return "0 <= %s <= b.len() && ({ let r0 = %s; %s })" % (o, r0, pre)
A(Raw("".join("""
pub proof fn lemma_ccr_off_%(x)s(b: Seq<u8>)
    ensures (%(cond)s) ==> ({ let r0 = %(r0)s; r0.skip(%(adv)s) == b.skip(ccr_off_%(x)s(b)) }) && 0 <= ccr_off_%(x)s(b) <= b.len(),
{
    if %(cond)s {
        reveal(ccr_off_%(x)s);
        let o = %(o)s; let r0 = %(r0)s; let c = %(adv)s;
        assert(0 <= c <= r0.len() && ccr_off_%(x)s(b) == o + c);
        assert(r0.skip(c) =~= b.skip(o + c));
    }
}
""" % dict(x=x, cond=_ccr_cond(prev, pre), o=_ccr_prev(prev)[0], r0=_ccr_prev(prev)[1], adv=adv) for (x, prev, adv, pre) in CCR_STEPS),
      mod="gcc", name="gcc_ccr_position_lemmas"))
A(Raw(r"""
impl vstd::std_specs::cmp::PartialEqSpecImpl for Version {
    open spec fn obeys_eq_spec() -> bool { true }
    open spec fn eq_spec(&self, other: &Version) -> bool { *self == *other }
}
""", mod="gcc", name="derived_eq_version", trusted="derived PartialEq of the field-less enum gcc::Version is structural"))
def GF(name, impl=None, **kw):
    A(Fn(GCC, name, impl=impl, mod="gcc", **kw))
def len_chain(res, sizes):
    """proof hint (checked): ser_fields_from unfolded one field at a time from the last field; sizes[i] = wire size of field i"""
    n = len(sizes)
    out = ["proof { let f = %s.fields(); let e = Set::<Seq<char>>::empty(); assert(ser_fields_from(f, %d, e).len() == 0);" % (res, n)]
    tot = 0
    for i in range(n - 1, -1, -1):
        tot += sizes[i]
        out.append("assert(ser(f[%d].1).len() == %d); assert(ser_fields_from(f, %d, e).len() == %d);" % (i, sizes[i], i, tot))
    return "\n    ".join(out) + " }"
CORE_SIZES = [4, 2, 2, 2, 2, 4, 4, 32, 4, 4, 4, 64, 2, 2, 4, 2, 2, 2, 64, 1, 1, 4]
assert sum(CORE_SIZES) == 212
GF("from", impl=r"From<u32> for Version", props=["C18", "C05"],
   ensures=[("C18", "named-versions", "(e == 0x00080001 ==> r == Version::RdpVersion) && (e == 0x00080004 ==> r == Version::RdpVersion5plus) && (e != 0x00080001 && e != 0x00080004 ==> r == Version::Unknown)")])
GF("from", impl=r"From<u16> for MessageType", props=["C05"])
GF("client_core_data", ret="c", props=["C04"], fuel=3, post=len_chain("c", CORE_SIZES),
   # ghost snapshots are kept in hint entries of their own (no assertion inside) so that they survive a hint-free re-run
   hints=[(r"let mut client_name = client_parameter\.name\.to_unicode\(\);", 1, "let ghost u = client_name@;"),
          (r"let mut client_name = client_parameter\.name\.to_unicode\(\);", 1, "proof { assert(u == utf16le(if parameter is Some { parameter->Some_0.name@ } else { \"\"@ })); }"),
          (r"client_name\.truncate\(30\);", 1, "proof { assert(client_name@ =~= u.take(30)); assert(client_name@[29] == u[29]); }"),
          (r"client_name\.truncate\(28\);", 1, "proof { assert(client_name@ =~= u.take(28)); }"),
          (r"client_name\.resize\(32, 0\);", 1, "proof { assert(client_name@ =~= client_name_bytes(u)); }")],
   ensures=shape_clauses(GCC, "client_core_data", res="c") + [("C04", "fixed-size-212", "ser(c.mv()).len() == 212"), ("C04", "client-name-32-bytes", "c.fields()[7].1 is Bytes && c.fields()[7].1->Bytes_0.len() == 32"),
            ("C04", "client-name-null-terminated", "c.fields()[7].1->Bytes_0[30] == 0 && c.fields()[7].1->Bytes_0[31] == 0"),
            ("C04", "client-name-bytes", "c.fields()[7].1 == MV::Bytes(client_name_bytes(utf16le(if parameter is Some { parameter->Some_0.name@ } else { \"\"@ })))")])
# MS-RDPBCGR 2.2.1.4.2 TS_UD_SC_CORE: version (4 bytes) is mandatory, clientRequestedProtocols and earlyCapabilityFlags are optional
# (a conforming server may send the 4-byte or the 8-byte form): written from the document, not derived from the code
GF("server_core_data", ret="c", props=["C05", "C03", "C18"],
   ensures=shape_clauses(GCC, "server_core_data", res="c") + [
       ("C03,C18", "short-server-core-data-accepted", "c.fields().len() == 3 && c.fields()[0].1 is U32 && c.fields()[1].1 is Opt && c.fields()[2].1 is Opt"),
       # MS-RDPBCGR 2.2.1.4.2: order, widths (3 x u32), endianness (LE) and optionality of every field
       ("C03,C18", "server_core_data-as-documented", "c.mv() == server_core_view()")],
   post="proof { assert(c.fields() =~= server_core_view()->Comp_0); }")
GF("client_security_data", ret="c", props=["C04"], fuel=4, ensures=shape_clauses(GCC, "client_security_data", res="c") + [("C04", "size", "ser(c.mv()).len() == 8")])
# MS-RDPBCGR 2.2.1.4.3 TS_UD_SC_SEC1: two mandatory u32 LE; the rest of the block is optional and left unread
GF("server_security_data", ret="c", props=["C05", "C03", "C18"],
   ensures=shape_clauses(GCC, "server_security_data", res="c") + [("C03,C18", "server_security_data-as-documented", "c.mv() == server_security_view()")],
   post="proof { assert(c.fields() =~= server_security_view()->Comp_0); }")
GF("channel_def", ret="c", props=["C04"], ensures=shape_clauses(GCC, "channel_def", res="c"))
GF("client_network_data", ret="c", props=["C04"], fuel=4, ensures=shape_clauses(GCC, "client_network_data", res="c") + [("C04", "count", "ser(c.mv()) =~= le32(channel_def_array@.len() as u32) + ser(channel_def_array.mv())")])
# MS-RDPBCGR 2.2.1.4.4 TS_UD_SC_NET: closure #1 = "channelIdArray has channelCount 16 bit entries" (Size = 2 * channelCount bytes), closure #2 = one entry is a u16 LE.
# DISCREPANCY (minor): the document makes MCSChannelId a plain u16 chosen by the server (the client is to join THAT channel, 3.2.5.3.8); the code reads it
# through Check::new(U16::LE(1003)) and mcs::Client::connect joins the constant 1003: a server announcing another I/O channel (block `03 0c 08 00 ec 03 00 00`)
# is refused.  Everything else is pinned from the document.
NET_CHAN = "MV::U16(0, true)" if DOC_STRICT else "MV::Check(Box::new(MV::U16(1003, true)))"
NET_CID = "server_network_data-as-documented" if DOC_STRICT else "server_network_data-as-documented-except-MCSChannelId (as-implemented: checked constant 1003; MS-RDPBCGR 2.2.1.4.4 leaves the id to the server)"
GF("server_network_data", ret="c", props=["C05", "C03", "C18"],
   closures={1: dict(params="count: &U16", ret="-> (r: MessageOption)", props="C03,C18,C05", cid="channelIdArray-size-is-2-x-channelCount",
                     spec='ensures r.ov() == OV::Size("channelIdArray"@, (count.val() as usize * 2) as usize)'),
             2: dict(params="", ret="-> (r: U16)", spec="ensures r == U16::LE(0)")},
   ensures=shape_clauses(GCC, "server_network_data", res="c") + [("C03", NET_CID, "c.mv() == server_network_view(%s)" % NET_CHAN),
       # MS-RDPBCGR 2.2.1.4.4: MCSChannelId is chosen by the server ("any ... channel ids" in C03).  FAILS on the current code (Check(1003)):
       # genuine defect recorded in known_findings.json (demo: defects/c03_io_channel_id_demo.diff), not repaired: the repair needs the id threaded
       # through gcc::ServerData into mcs::Client::connect (public struct change)
       ("C03", "io-channel-id-is-server-chosen", "c.fields()[0].0 == \"MCSChannelId\"@ && c.fields()[0].1 is U16")],
   post="""proof { let f = c.fields(); let g = server_network_view(%s)->Comp_0;
        assert(f[1].1 == g[1].1);
        assert(f[2].1->Arr_0 =~= Seq::<MV>::empty()); assert(f[2].1 == g[2].1);
        assert(f =~= g); }""" % NET_CHAN)
GF("block_header", ret="c", props=["C04", "C05", "C03", "C18"], fuel=4, pre="proof { reveal_with_fuel(is_static, 3); }", requires=["(if length is Some { length->Some_0 } else { 0 }) <= 0xfffb"],
   ensures=shape_clauses(GCC, "block_header", res="c") + [("C04", "bytes", "ser(c.mv()) =~= ud_header((if data_type is Some { data_type->Some_0 as u16 } else { 0xC001u16 }), (if length is Some { length->Some_0 as int } else { 0 }))"), (None, "static", "is_static(c.mv())"),
                                                         # MS-RDPBCGR 2.2.1.3.1 TS_UD_HEADER, as READ in read_conference_create_response: two plain u16 LE (no checked constant: every block type is readable)
                                                         ("C03,C04", "block_header-as-documented", "c.mv() == ud_header_view((if data_type is Some { data_type->Some_0 as u16 } else { 0xC001u16 }), (if length is Some { length->Some_0 as int } else { 0 }))")],
   post="proof { assert(c.fields() =~= ud_header_view((if data_type is Some { data_type->Some_0 as u16 } else { 0xC001u16 }), (if length is Some { length->Some_0 as int } else { 0 }))->Comp_0); }")
GF("write_conference_create_request", props=["C04", "C18", "C03"], requires=["user_data@.len() + 14 <= 0x7fff"],
   hints=[(r"per::write_object_identifier\(", 1, "proof { assert((0u8 << 4u8) | (0u8 & 0xfu8) == 0u8) by(bit_vector); assert(result.written() =~= seq![0u8, 5u8, 0u8, 20u8, 124u8, 0u8, 1u8]); }"),
          (r"per::write_length\(", 1, "let ghost w1 = result.written();"),
          (r"per::write_length\(", 1, "proof { assert(w1 =~= seq![0u8, 5u8, 0u8, 20u8, 124u8, 0u8, 1u8] + per::per_len((user_data@.len() + 14) as u16)); }"),
          (r"per::write_padding\(", 1, "proof { assert(Seq::new(1nat, |i: int| 0u8) =~= seq![0u8]); assert(result.written() =~= w1 + seq![0u8, 8u8, 0u8, 0x10u8, 0u8]); }"),
          (r"per::write_octet_stream\(&H221_CS_KEY", 1, "proof { assert(per::per_len(0u16) =~= seq![0u8]); assert(result.written() =~= w1 + seq![0u8, 8u8, 0u8, 0x10u8, 0u8, 1u8, 0xc0u8, 0u8, 0x44u8, 0x75u8, 0x63u8, 0x61u8]); }")],
   ensures=[("C04,C18", "t124-wrapper", "r is Ok ==> r->Ok_0@ =~= gcc_ccr(user_data@)")])
# statement of read_conference_create_response that consumes each header field (the first four = the claims recorded first: nodeID, tag, result, key)
CCR_ANCHORS = [(r"per::read_integer_16\(1001, cc_response\)\?;", 1, "node_id", "nodeID"),
               (r"per::read_integer\(cc_response\)\?;", 1, "tag", "tag"),
               (r"per::read_enumerates\(cc_response\)\?;", 1, "result", "result"),
               (r"per::read_octet_stream\(&H221_SC_KEY, 4, cc_response\)\?;", 1, "h221_key", "h221-key"),
               (r"per::read_choice\(cc_response\)\?;", 1, "key_choice", "key-choice"),
               (r"per::read_object_identifier\(&T124_02_98_OID, cc_response\)\?;", 1, "oid", "object-identifier"),
               (r"per::read_length\(cc_response\)\?;", 1, "connect_len", "connect-pdu-length"),
               (r"per::read_choice\(cc_response\)\?;", 2, "pdu_choice", "pdu-choice"),
               (r"per::read_number_of_set\(cc_response\)\?;", 1, "set_count", "number-of-sets"),
               (r"per::read_choice\(cc_response\)\?;", 3, "h221_choice", "h221-choice"),
               (r"let length = per::read_length\(cc_response\)\?;", 1, "user_data_len", "user-data-length")]
_CCR_STEP = {x: (prev, pre) for (x, prev, adv, pre) in CCR_STEPS}
GF("read_conference_create_response", props=["C05", "C03", "C18"],
   body_sub=[(r"cc_response\.take\(length as u64\)", "take_reader(cc_response, length as u64)")],
   nloops=2,
   loops={1: """invariant blocks_ok(result.m()),
        decreases sub.rest().len()"""},
   pre="let ghost b = cc_response.rest();",
   # refusal justification (MS-RDPBCGR 2.2.1.3.1 TS_UD_HEADER: length counts the 4 header bytes): a block is refused as too short only when the
   # length field just read is below 4 (stated on the view of the header that was read: the loop does not track the position of the block in the input)
   claims=[(r"return Err\(.*GCC: block length smaller than its header", 1, "proof { assert(header.fields()[1].0 == \"length\"@ && header.fields()[1].1 is U16 && header.fields()[1].1->U16_0 < 4); }", "before", "C03,C18", "block-refused-only-when-its-length-is-below-4")]
          # POSITION claims (T.124 / MS-RDPBCGR 2.2.1.4, annotated bytes in 4.1.4): after each header field has been read, what has been consumed of the
          # response `b` is exactly the documented prefix in front of the next field (ccr_off_*: order and widths from the document, computed from the input;
          # the prefix lies inside `b`).  A reader that takes the fields in another order or width (tag and result exchanged ...) fails the claim at that field.
          + [(rx, nth, "proof { assert(0 <= ccr_off_%s(b) <= b.len() && cc_response.rest() =~= b.skip(ccr_off_%s(b))); }" % (x, x), "after", "C18,C03,C05", "header-position-after-" + what)
             for (rx, nth, x, what) in CCR_ANCHORS],
   hints=[(r"server_core\.read\(", 1, "proof { assert(server_core.fields()[0].0 == \"rdpVersion\"@); }"),
          (r"server_net\.read\(", 1, "proof { assert(server_net.fields()[2].0 == \"channelIdArray\"@); }"),
          (r"per::read_octet_stream\(", 1, "proof { assert(cc_response.rest() == ccr_at_key(b)); }", "before"),
          (r"per::read_octet_stream\(", 1, "proof { assert(H221_SC_KEY@ =~= seq![0x4du8, 0x63u8, 0x44u8, 0x6eu8]); assert(ccr_key_ok(b)) by { reveal(ccr_key_ok); } }"),
          (r"let block_length = cast!\(DataType::U16, header\[\"length\"\]\)\?;", 1, "proof { reveal_with_fuel(same_shape, 3); lemma_keys(); assert(ser(header.mv()).len() == 4); let f = header.fields(); assert(f.len() == 2 && f[0].0 == \"type\"@ && f[1].0 == \"length\"@ && f[1].1 is U16); assert(block_length == f[1].1->U16_0); }")]
         # proof aids of the position claims: calls of the position lemmas, whose conclusions are CONDITIONAL on facts about the input `b` alone (they have
         # no precondition and cannot fail; when the reader has not consumed the documented widths the condition is not provable, the lemma says
         # nothing, and the position claim that follows is what fails)
         + [(rx, nth, "proof { lemma_ccr_off_%s(b); }" % x) for (rx, nth, x, what) in CCR_ANCHORS],
   ensures=[("C05", "monotone", "true"),
            # T.124 / MS-RDPBCGR 2.2.1.4 (wire level, necessary conditions of acceptance): the reader walks the PER fields in the documented order and widths (ccr_at_key) and
            # accepts only the H.221 non standard key "McDn" with length determinant 0 (= 4 - the lower bound 4) behind an OBJECT IDENTIFIER of 5 content bytes
            ("C03,C05", "conference-create-response-as-documented", "r is Ok ==> ccr_key_ok(old(cc_response).rest())")])

# ---------------- mcs.rs
A(Item(MCS, "enum", "DomainMCSPDU", mod="mcs", add_derive="Copy, Clone"))
A(Item(MCS, "struct", "Client", mod="mcs"))
A(Raw(PER_SPECS_TEXT.replace("pub open spec fn per_len", "pub open spec fn per_len_unused") + FRAME_SPECS_TEXT + r"""
pub open spec fn per_len(n: u16) -> Seq<u8> { per::per_len(n) }
""" + MCS_SPECS_TEXT + r"""
impl<S: Read + Write + Duplex> Client<S> {
    pub closed spec fn written(&self) -> Seq<u8> { self.x224.written() }
    pub closed spec fn rest(&self) -> Seq<u8> { self.x224.rest() }
    pub closed spec fn tls(&self) -> bool { self.x224.tls() }
    pub closed spec fn uid(&self) -> Option<u16> { self.user_id }
    pub closed spec fn chans(&self) -> Map<Seq<char>, u16> { self.channel_ids.m() }
    pub open spec fn connected(&self) -> bool {
        self.uid() is Some && self.uid()->Some_0 >= 1001 && self.chans().contains_key("global"@)
    }
    pub closed spec fn server_known(&self) -> bool { self.server_data is Some }
    pub closed spec fn v5plus(&self) -> bool { self.server_data is Some && self.server_data->Some_0.rdp_version == Version::RdpVersion5plus }
    pub open spec fn same_session(&self, o: &Self) -> bool { self.uid() == o.uid() && self.chans() == o.chans() && self.tls() == o.tls() && self.server_known() == o.server_known() && self.v5plus() == o.v5plus() }
}
/// T.125 PDUs of the connection sequence (MS-RDPBCGR 2.2.1.5 - 2.2.1.9)
pub open spec fn erect_domain_bytes() -> Seq<u8> { seq![0x04u8, 1u8, 0u8, 1u8, 0u8] }
pub open spec fn attach_user_bytes() -> Seq<u8> { seq![0x28u8] }
pub open spec fn channel_join_bytes(uid: u16, cid: u16) -> Seq<u8> { seq![0x38u8] + be16((uid - 1001) as u16) + be16(cid) }
pub open spec fn disconnect_ultimatum_bytes() -> Seq<u8> { seq![0x21u8, 0x80u8, 0u8, 0u8, 0u8, 0u8, 0u8, 0u8] }
pub open spec fn frame(payload: Seq<u8>) -> Seq<u8> { tpkt_frame(x224_data(payload)) }
pub proof fn lemma_prefix_trans(a: Seq<u8>, b: Seq<u8>, c: Seq<u8>)
    requires is_prefix(a, b), is_prefix(b, c)
    ensures is_prefix(a, c)
{
    assert forall|i: int| 0 <= i < a.len() implies #[trigger] a[i] == c[i] by { assert(a[i] == b[i] && b[i] == c[i]); }
}
pub proof fn lemma_suffix_trans(a: Seq<u8>, b: Seq<u8>, c: Seq<u8>)
    requires is_suffix(a, b), is_suffix(b, c)
    ensures is_suffix(a, c)
{
    assert forall|i: int| 0 <= i < a.len() implies #[trigger] a[i] == c[c.len() - a.len() + i] by {
        assert(a[i] == b[b.len() - a.len() + i]);
        assert(b[b.len() - a.len() + i] == c[c.len() - b.len() + (b.len() - a.len() + i)]);
    }
}
/// the T.125 DomainMCSPDU choice bytes used by this client: (choice << 2) | options
pub proof fn lemma_pdu_headers()
    ensures (1u8 << 2u8) | 0u8 == 0x04u8, (8u8 << 2u8) | 1u8 == 0x21u8, (10u8 << 2u8) | 0u8 == 0x28u8, (11u8 << 2u8) | 0u8 == 0x2cu8,
        (14u8 << 2u8) | 0u8 == 0x38u8, (15u8 << 2u8) | 0u8 == 0x3cu8, (25u8 << 2u8) | 0u8 == 0x64u8, (26u8 << 2u8) | 0u8 == 0x68u8,
        0x2cu8 >> 2u8 == 11u8, 0x3cu8 >> 2u8 == 15u8,
{
    assert((1u8 << 2u8) | 0u8 == 0x04u8 && (8u8 << 2u8) | 1u8 == 0x21u8 && (10u8 << 2u8) | 0u8 == 0x28u8 && (11u8 << 2u8) | 0u8 == 0x2cu8
        && (14u8 << 2u8) | 0u8 == 0x38u8 && (15u8 << 2u8) | 0u8 == 0x3cu8 && (25u8 << 2u8) | 0u8 == 0x64u8 && (26u8 << 2u8) | 0u8 == 0x68u8
        && 0x2cu8 >> 2u8 == 11u8 && 0x3cu8 >> 2u8 == 15u8) by(bit_vector);
}
""", mod="mcs", name="mcs_specs"))
def MF(name, impl=None, **kw):
    A(Fn(MCS, name, impl=impl, mod="mcs", **kw))
DER_WHY = "BER/DER through the yasna crate and src/nla/asn1.rs (external)"
A(Stub(MCS, "connect_initial", mod="mcs", why=DER_WHY))
A(Stub(MCS, "connect_response", mod="mcs", why=DER_WHY, ensures=["r.inner.skeys().contains(\"userData\"@) && r.inner.octet_keys().contains(\"userData\"@)"]))
MF("mcs_pdu_header", props=["C04", "C03"], ensures=[("C04", "choice-and-options", "r == (((if pdu is Some { pdu->Some_0 as u8 } else { 11u8 }) << 2) | (if options is Some { options->Some_0 } else { 0u8 }))")])
# `confirm` = trame![u8, Vec (read to end)]: a plain layout, so the bytes consumed are ser(confirm) = [header] + body (Message::read, is_plain clause)
CONFIRM_PRE = "let ghost b = buffer.rest();"
CONFIRM_HINTS = [(r"let mut confirm = trame!", 1, "proof { lemma_pdu_headers(); reveal_with_fuel(is_plain, 3); reveal_with_fuel(same_shape, 3); }", "before"),
                 (r"confirm\.read\(buffer\)\?;", 1, "let ghost m0 = confirm.mv();", "before"),
                 (r"confirm\.read\(buffer\)\?;", 1, "proof { assert(m0->Trame_0 =~= seq![MV::U8(0), MV::Bytes(Seq::empty())]); assert(is_plain(m0)); }", "before"),
                 (r"confirm\.read\(buffer\)\?;", 1, "let ghost m = confirm.mv(); let ghost body = m->Trame_0[1]->Bytes_0;"),
                 (r"confirm\.read\(buffer\)\?;", 1, """proof {
        let s = m->Trame_0;
        assert(same_shape(m0->Trame_0[0], s[0]) && same_shape(m0->Trame_0[1], s[1]));
        assert(ser(m) =~= seq![s[0]->U8_0] + body);
        assert(b == ser(m) + buffer.rest());
        assert(b[0] == s[0]->U8_0);
        assert(forall|k: int| 0 <= k < body.len() ==> b[1 + k] == body[k]);
    }"""),
                 (r"let mut request = Cursor::new", 1, "proof { assert(request.rest() =~= body); }")]
# refusal justifications (T.125 AttachUserConfirm ::= [APPLICATION 11] { result, initiator }): refused only for another PDU choice / a result other than rt-successful (0)
MF("read_attach_user_confirm", props=["C05", "C03"], fuel=4, pre=CONFIRM_PRE, hints=CONFIRM_HINTS,
   claims=[(r"return Err\(.*unexpected header on recv_attach_user_confirm", 1, "proof { assert(old(buffer).rest().len() >= 1 && old(buffer).rest()[0] >> 2 != 11); }", "before", "C03", "refused-only-for-another-pdu-choice"),
           (r"return Err\(.*RdpErrorKind::RejectedByServer", 1, "proof { assert(old(buffer).rest().len() >= 2 && old(buffer).rest()[0] >> 2 == 11 && old(buffer).rest()[1] != 0); }", "before", "C03", "rejected-only-when-the-result-is-not-successful")],
   ensures=[("C03", "assigned-user-id", "r is Ok ==> old(buffer).rest().len() >= 4 && old(buffer).rest()[0] >> 2 == 11 && old(buffer).rest()[1] == 0 && r->Ok_0 as int == u16_be(old(buffer).rest()[2], old(buffer).rest()[3]) as int + 1001"),
            ("C03", "at-least-1001", "r is Ok ==> r->Ok_0 >= 1001")])
MF("attach_user_request", props=["C03", "C04"], pre="proof { lemma_pdu_headers(); }", ensures=[("C03", "byte", "r == 0x28")])
MF("erect_domain_request", props=["C03", "C04"], fuel=6, pre="proof { lemma_pdu_headers(); }", ensures=[("C03,C04", "bytes", "r is Ok ==> ser(r->Ok_0.mv()) =~= erect_domain_bytes()")])
MF("channel_join_request", props=["C03", "C04"], fuel=6, pre="proof { lemma_pdu_headers(); }", requires=["user_id is Some ==> user_id->Some_0 >= 1001"],
   ensures=[("C03,C04", "bytes", "r is Ok && ser(r->Ok_0.mv()) =~= channel_join_bytes((if user_id is Some { user_id->Some_0 } else { 1001u16 }), (if channel_id is Some { channel_id->Some_0 } else { 0u16 }))")])
# refusal justifications (T.125 ChannelJoinConfirm ::= [APPLICATION 15] { result, initiator, requested, channelId }): refused only for another PDU choice,
# or when the confirm does not repeat the user id / channel id of the request
MF("read_channel_join_confirm", props=["C05", "C03"], fuel=4, pre=CONFIRM_PRE, hints=CONFIRM_HINTS,
   claims=[(r"return Err\(.*unexpected header on read_channel_join_confirm", 1, "proof { assert(old(buffer).rest().len() >= 1 && old(buffer).rest()[0] >> 2 != 15); }", "before", "C03", "refused-only-for-another-pdu-choice"),
           (r"return Err\(.*read_channel_join_confirm invalid user id", 1, "proof { assert(old(buffer).rest().len() >= 6 && user_id as int != u16_be(old(buffer).rest()[2], old(buffer).rest()[3]) as int + 1001); }", "before", "C03", "refused-only-when-the-initiator-is-not-the-requesting-user"),
           (r"return Err\(.*read_channel_join_confirm invalid channel_id", 1, "proof { assert(old(buffer).rest().len() >= 6 && channel_id != u16_be(old(buffer).rest()[4], old(buffer).rest()[5])); }", "before", "C03", "refused-only-when-the-channel-is-not-the-requested-one")],
   ensures=[("C03", "confirms-the-requested-ids", "r is Ok ==> old(buffer).rest().len() >= 6 && old(buffer).rest()[0] >> 2 == 15 && user_id as int == u16_be(old(buffer).rest()[2], old(buffer).rest()[3]) as int + 1001 && channel_id == u16_be(old(buffer).rest()[4], old(buffer).rest()[5]) && r->Ok_0 == (old(buffer).rest()[1] == 0)")])
MF("new", impl=r"Client<S>", props=["C03"], ensures=["r.uid() is None && r.chans() == Map::<Seq<char>, u16>::empty() && r.written() == x224.written() && r.rest() == x224.rest() && r.tls() == x224.tls()"])
FRAME_CL = [(None, "frame", "final(self).tls() == old(self).tls() && is_prefix(old(self).written(), final(self).written()) && is_suffix(final(self).rest(), old(self).rest())")]
MF("write_connect_initial", impl=r"Client<S>", props=["C03", "C04"], fuel=10,
   # MS-RDPBCGR 2.2.1.3: the client data blocks CS_CORE (0xC001), CS_SECURITY (0xC002), CS_NET (0xC003), each = TS_UD_HEADER(type, 4 + |body|) ++ body,
   # in this order, with each header's length describing ITS OWN block
   claims=[(r"let conference = ", 1, """proof {
            assert(user_data@ =~= le16(0xC001) + le16((ser(client_core_data.mv()).len() + 4) as u16) + ser(client_core_data.mv())
                                + le16(0xC002) + le16((ser(client_security_data.mv()).len() + 4) as u16) + ser(client_security_data.mv())
                                + le16(0xC003) + le16((ser(client_network_data.mv()).len() + 4) as u16) + ser(client_network_data.mv())); }""", "before", "C04,C03", "client-data-blocks-self-describing")],
   hints=[(r"let user_data = to_vec", 1, "proof { assert(ser(client_network_data.mv()).len() == 4); }", "before"),
          (r"let conference = ", 1, "proof { assert(user_data@.len() == 236); }", "before"),
          (r"self\.x224\.write\(to_der", 1, "let ghost w0 = self.x224.written();", "before")],
   post="proof { if r is Ok { let ci = self.x224.written().subrange(w0.len() as int + 7, self.x224.written().len() as int); assert(self.x224.written() =~= w0 + frame(ci)); assert(frame(ci).len() > 0); } }",
   ensures=FRAME_CL + [("C03", "one-connect-initial", "r is Ok ==> exists|ci: Seq<u8>| #[trigger] frame(ci).len() > 0 && final(self).written() =~= old(self).written() + frame(ci)"),
                       (None, "ids", "final(self).uid() == old(self).uid() && final(self).chans() == old(self).chans()")])
MF("read_connect_response", impl=r"Client<S>", props=["C05", "C03"],
   ensures=FRAME_CL + [(None, "nothing-written", "final(self).written() == old(self).written() && final(self).uid() == old(self).uid() && final(self).chans() == old(self).chans()"),
                       ("C03,C05", "server-data-recorded", "r is Ok ==> final(self).server_data is Some")])
MF("connect", impl=r"Client<S>", props=["C03", "C05"], requires=["old(self).uid() is None", "old(self).chans() == Map::<Seq<char>, u16>::empty()"],
   body_sub=[(r"for channel_id in self\.channel_ids\.values\(\) \{", "let __channel_ids = hashmap_values(&self.channel_ids); for channel_id in __channel_ids.iter() {")],
   nloops=1,
   pre="let ghost w0 = self.x224.written(); let ghost r0 = self.x224.rest();",
   # ghost snapshots are kept in hint entries of their own (no assertion inside) so that they survive a hint-free re-run
   hints=[(r"self\.write_connect_initial\(", 1, "proof { lemma_pdu_headers(); }", "before"),
          (r"self\.read_connect_response\(\)\?;", 1, """let ghost ci = choose|ci: Seq<u8>| #[trigger] frame(ci).len() > 0 && self.x224.written() =~= w0 + frame(ci);
        let ghost w1 = self.x224.written(); let ghost r1 = self.x224.rest();""", "before"),
          (r"self\.read_connect_response\(\)\?;", 1, "proof { assert(w1 =~= w0 + frame(ci)); }", "before"),
          (r"self\.read_connect_response\(\)\?;", 1, "let ghost r2 = self.x224.rest();"),
          (r"self\.read_connect_response\(\)\?;", 1, "proof { lemma_suffix_trans(r2, r1, r0); }"),
          (r"self\.x224\.write\(erect_domain_request\(\)\?\)\?;", 1, "let ghost w2 = self.x224.written();"),
          (r"self\.x224\.write\(erect_domain_request\(\)\?\)\?;", 1, "proof { assert(w2 =~= w1 + frame(erect_domain_bytes())); lemma_prefix_trans(w0, w1, w2); }"),
          (r"self\.x224\.write\(attach_user_request\(\)\)\?;", 1, "let ghost w3 = self.x224.written();"),
          (r"self\.x224\.write\(attach_user_request\(\)\)\?;", 1, "proof { assert(w3 =~= w2 + frame(attach_user_bytes())); lemma_prefix_trans(w0, w2, w3); }"),
          (r"self\.user_id = Some\(", 1, "let ghost r3 = self.x224.rest(); let ghost uid = self.user_id->Some_0;"),
          (r"self\.user_id = Some\(", 1, "proof { lemma_suffix_trans(r3, r2, r0); }"),
          (r"self\.channel_ids\.insert\(\"user\"", 1, "let ghost cm = self.channel_ids.m();"),
          # the map is exactly {"global" -> 1003, "user" -> uid}: two distinct keys
          (r"self\.channel_ids\.insert\(\"user\"", 1, """proof {
            reveal_strlit("global"); reveal_strlit("user"); assert("global"@.len() == 6 && "user"@.len() == 4);
            assert(cm =~= Map::<Seq<char>, u16>::empty().insert("global"@, 1003u16).insert("user"@, uid));
            assert(cm.dom() =~= Set::<Seq<char>>::empty().insert("global"@).insert("user"@));
            assert(cm.dom().len() == 2);
        }"""),
          (r"let __channel_ids = hashmap_values\(&self\.channel_ids\);", 1, "let ghost v = __channel_ids@;", "atend"),
          # hashmap_values: |v| == |dom| == 2, every element is the value of a key, every key's value occurs: v is a permutation of [1003, uid]
          (r"let __channel_ids = hashmap_values\(&self\.channel_ids\);", 1, """proof {
            assert(v.len() == 2);
            assert(cm.contains_key("global"@) && cm.contains_key("user"@));
            assert(forall|k: Seq<char>| cm.contains_key(k) ==> k == "global"@ || k == "user"@);
            assert((v[0] == 1003 || v[0] == uid) && (v[1] == 1003 || v[1] == uid));
            assert((v[0] == 1003 && v[1] == uid) || (v[1] == 1003 && v[0] == uid));
        }""", "atend"),
          # names the ghost iterator of the for loop (Verus syntax, erased): __it.index@ = number of elements already visited
          (r"__channel_ids\.iter\(\)", 1, "__it:", "at"),
          (r"self\.x224\.write\(channel_join_request\(", 1, "let ghost wa = self.x224.written();", "before"),
          (r"self\.x224\.write\(channel_join_request\(", 1, "let ghost wb = self.x224.written();"),
          (r"self\.x224\.write\(channel_join_request\(", 1, "proof { assert(*channel_id == v[__it.index@]); assert(wb =~= wa + frame(channel_join_bytes(uid, *channel_id))); lemma_prefix_trans(w0, wa, wb); }"),
          (r"Ok\(\(\)\)", 1, """proof {
        assert(self.x224.written() == w3 + frame(channel_join_bytes(uid, v[0])) + frame(channel_join_bytes(uid, v[1])));
        assert((frame(ci) + frame(channel_join_bytes(uid, v[0])) + frame(channel_join_bytes(uid, v[1]))).len() > 0);
        assert(self.x224.written() =~= w0 + frame(ci) + frame(erect_domain_bytes()) + frame(attach_user_bytes()) + frame(channel_join_bytes(uid, v[0])) + frame(channel_join_bytes(uid, v[1])));
   }""", "before")],
   loops={1: """invariant
            self.user_id == Some(uid), uid >= 1001, self.channel_ids.m() == cm, self.server_data is Some,
            self.x224.tls() == old(self).x224.tls(),
            w0 == old(self).x224.written(), r0 == old(self).x224.rest(),
            is_prefix(w0, self.x224.written()), is_suffix(self.x224.rest(), r0),
            __it.seq().len() == 2, v.len() == 2, forall|k: int| 0 <= k < 2 ==> __it.seq()[k] == v[k],
            __it.index@ == 0 ==> self.x224.written() == w3,
            __it.index@ == 1 ==> self.x224.written() == w3 + frame(channel_join_bytes(uid, v[0])),
            __it.index@ == 2 ==> self.x224.written() == w3 + frame(channel_join_bytes(uid, v[0])) + frame(channel_join_bytes(uid, v[1])),"""},
   ensures=FRAME_CL + [("C03", "connected", "r is Ok ==> final(self).connected() && final(self).chans().contains_key(\"user\"@) && final(self).chans()[\"global\"@] == 1003 && final(self).chans()[\"user\"@] == final(self).uid()->Some_0 && final(self).server_known()"),
                       ("C03", "sequence-in-order", """r is Ok ==> exists|ci: Seq<u8>, c1: u16, c2: u16| #[trigger] (frame(ci) + frame(channel_join_bytes(final(self).uid()->Some_0, c1)) + frame(channel_join_bytes(final(self).uid()->Some_0, c2))).len() > 0
                            && ((c1 == 1003 && c2 == final(self).uid()->Some_0) || (c2 == 1003 && c1 == final(self).uid()->Some_0))
                            && final(self).written() =~= old(self).written() + frame(ci) + frame(erect_domain_bytes()) + frame(attach_user_bytes())
                                + frame(channel_join_bytes(final(self).uid()->Some_0, c1)) + frame(channel_join_bytes(final(self).uid()->Some_0, c2))""")])
MF("write", impl=r"Client<S>", props=["C11", "C12", "C03", "C04"],
   pre="proof { lemma_pdu_headers(); reveal_with_fuel(ser, 8); reveal_with_fuel(ser_seq_from, 8); }", **MCS_WRITE)
# refusal justifications (T.125 DomainMCSPDU choice = first byte of the X.224 payload >> 2; frame = TPKT(4) + X.224 data header(3) + MCS PDU):
# Disconnect only for choice 8 (DisconnectProviderUltimatum), "invalid opcode" only for a choice other than 26 (SendDataIndication);
# the channel looked up (and refused as unknown when absent from the joined channels) is the channelId on the wire
MF("read", impl=r"Client<S>", props=["C05", "C06", "C10", "C03", "C12"],
   claims=[(r"return Err\(.*RdpErrorKind::Disconnect", 1, "proof { assert(old(self).rest().len() > 7 && old(self).rest()[0] == 3 && old(self).rest()[7] >> 2 == 8); }", "before", "C03,C12", "disconnect-reported-only-for-an-ultimatum"),
           (r"return Err\(.*MCS: Invalid opcode", 1, "proof { assert(old(self).rest().len() > 7 && old(self).rest()[0] == 3 && old(self).rest()[7] >> 2 != 26 && old(self).rest()[7] >> 2 != 8); }", "before", "C03,C12", "opcode-refused-only-when-not-send-data-indication"),
           (r"let channel = ", 1, "proof { assert(old(self).rest().len() >= 12 && channel_id == u16_be(old(self).rest()[10], old(self).rest()[11])); }", "before", "C03,C12", "channel-looked-up-is-the-one-on-the-wire")],
   body_sub=[(r"self\.channel_ids\.iter\(\)\.find\(\|(\w+)\|\s*(?:\*\1\.1\s*==\s*channel_id|channel_id\s*==\s*\*\1\.1)\)", "hashmap_find_by_value(&self.channel_ids, channel_id)")], **MCS_READ)
MF("shutdown", impl=r"Client<S>", props=["C03"], fuel=8, pre="proof { lemma_pdu_headers(); }",
   ensures=[("C03", "disconnect-provider-ultimatum", "r is Ok ==> final(self).written() =~= old(self).written() + frame(disconnect_ultimatum_bytes())"),
            (None, "frame", "final(self).rest() == old(self).rest() && final(self).same_session(old(self)) && is_prefix(old(self).written(), final(self).written())")])
MF("is_rdp_version_5_plus", impl=r"Client<S>", props=["C03", "C17"], **MCS_V5)
MF("get_user_id", impl=r"Client<S>", props=["C03"], requires=["self.uid() is Some"], ensures=["r == self.uid()->Some_0"])
MF("get_global_channel_id", impl=r"Client<S>", props=["C03"], requires=["self.chans().contains_key(\"global\"@)"], ensures=["r == self.chans()[\"global\"@]"])

UNIT = Unit("mcs", N.UNIT.preludes + ["collections.rs", "asn1.rs", "unicode.rs"], items,
            uses=dict(N.UNIT.uses, gcc=["use super::per;"], mcs=["use super::x224;", "use super::tpkt;", "use super::gcc::{KeyboardLayout, client_core_data, ClientData, ServerData, client_security_data, client_network_data, block_header, write_conference_create_request, MessageType, read_conference_create_response, Version};", "use super::per;"]),
            mods=["link", "sspi", "cssp", "tpkt", "x224", "per", "gcc", "mcs"])
