"""unit codec: codec/rle.rs + core/event.rs BitmapEvent::decompress.  Properties C08 (total, exact size), C09 (pixel exact)."""
from vx.spec import *
from specs.rle16_fn import RLE16, RLE16_SPECS  # body verified in unit codec16 (functional proof); here: Stub with the full contract.  specs/rle16_safe.py = the older safety-only proof, unused

RLE = "src/codec/rle.rs"
EVT = "src/core/event.rs"

codec_specs = Raw(r"""
/// exact rounding of an n-bit colour channel to 8 bits: round(c * 255 / (2^n - 1))
pub open spec fn round5(c: u16) -> u16 { ((c as u32 * 510 + 31) / 62) as u16 }
pub open spec fn round6(c: u16) -> u16 { ((c as u32 * 510 + 63) / 126) as u16 }
/// 5-6-5 pixel widened to blue, green, red, alpha
pub open spec fn widen565(v: u16) -> Seq<u8> {
    seq![round5(v & 0x1f) as u8, round6((v >> 5) & 0x3f) as u8, round5((v >> 11) & 0x1f) as u8, 0xffu8]
}
pub proof fn lemma_round5(c: u16)
    requires c < 32
    ensures ((c * 527 + 23) as u16 >> 6) == round5(c), c * 527 + 23 <= 0xffff, round5(c) <= 255
{
    assert(((c * 527 + 23) as u16 >> 6) == ((c as u32 * 510 + 31) / 62) as u16 && (c as u32) * 527 + 23 <= 0xffff && ((c as u32 * 510 + 31) / 62) <= 255) by(bit_vector) requires c < 32;
}
pub proof fn lemma_round6(c: u16)
    requires c < 64
    ensures ((c * 259 + 33) as u16 >> 6) == round6(c), c * 259 + 33 <= 0xffff, round6(c) <= 255
{
    assert(((c * 259 + 33) as u16 >> 6) == ((c as u32 * 510 + 63) / 126) as u16 && (c as u32) * 259 + 33 <= 0xffff && ((c as u32 * 510 + 63) / 126) <= 255) by(bit_vector) requires c < 64;
}
pub proof fn lemma_masks(v: u16)
    ensures (v >> 11) & 0x1f < 32, (v >> 5) & 0x3f < 64, v & 0x1f < 32
{
    assert((v >> 11) & 0x1f < 32 && (v >> 5) & 0x3f < 64 && v & 0x1f < 32) by(bit_vector);
}
pub proof fn lemma_mul_lt(i: int, w: int, j: int, h: int)
    requires 0 <= i < h, 0 <= j < w
    ensures 0 <= i * w + j < h * w, i * w + w <= h * w, h * w == w * h, (i + 1) * w == i * w + w, 0 <= i * w
{
    assert(h * w == w * h) by(nonlinear_arith);
    assert(i * w + w == (i + 1) * w) by(nonlinear_arith);
    assert((i + 1) * w <= h * w) by(nonlinear_arith) requires i + 1 <= h, w >= 0;
    assert(0 <= i * w) by(nonlinear_arith) requires 0 <= i, 0 <= w;
}
pub proof fn lemma_rows(w: int, h: int, i: int)
    requires 0 <= w, 0 <= i < h
    ensures (i + 1) * w * 4 <= w * h * 4, w * h * 4 - (i + 1) * w * 4 == (h - i - 1) * w * 4, (h - i - 1) * w * 4 + w * 4 <= w * h * 4,
        0 <= (h - i - 1) * w * 4, (h - i) * w * 4 == (h - i - 1) * w * 4 + w * 4
{
    assert(h * w == w * h) by(nonlinear_arith);
    assert((i + 1) * w <= h * w) by(nonlinear_arith) requires i + 1 <= h, w >= 0;
    assert((i + 1) * w <= w * h);
    assert(w * h - (i + 1) * w == (h - i - 1) * w) by(nonlinear_arith);
    assert(0 <= (h - i - 1) * w) by(nonlinear_arith) requires 0 <= h - i - 1, 0 <= w;
    assert((h - i) * w == (h - i - 1) * w + w) by(nonlinear_arith);
    assert((h - i) * w <= h * w) by(nonlinear_arith) requires 0 <= i, 0 <= w, i < h;
}
pub proof fn lemma_rowstart(i: int, w: int, h: int)
    requires 0 <= i < h, 0 <= w
    ensures (i + 1) * w == i * w + w, (i + 1) * w <= h * w, h * w == w * h, 0 <= i * w
{
    assert((i + 1) * w == i * w + w) by(nonlinear_arith);
    assert((i + 1) * w <= h * w) by(nonlinear_arith) requires i + 1 <= h, w >= 0;
    assert(0 <= i * w) by(nonlinear_arith) requires 0 <= i, 0 <= w;
    assert(h * w == w * h) by(nonlinear_arith);
}
pub proof fn lemma_comm(w: int, h: int) ensures h * w == w * h { assert(h * w == w * h) by(nonlinear_arith); }
/// uncompressed bitmaps are bottom-up on the wire (MS-RDPBCGR 2.2.9.1.1.3.1.2.2); the result is top-down
pub open spec fn flip32(k: int, w: int, h: int) -> int { (h - 1 - k / (w * 4)) * (w * 4) + k % (w * 4) }
pub open spec fn raw16(data: Seq<u8>, w: int, h: int, p: int) -> u16 {
    let s = ((h - 1 - p / w) * w + p % w) * 2;
    (data[s + 1] as u16) << 8 | data[s] as u16
}
pub proof fn lemma_divmod(i: int, d: int, j: int)
    requires 0 <= j < d, 0 <= i
    ensures (i * d + j) / d == i, (i * d + j) % d == j
{
    vstd::arithmetic::div_mod::lemma_fundamental_div_mod_converse(i * d + j, d, i, j);
}
pub proof fn lemma_line(w: int, h: int)
    ensures h * (w * 4) == w * h * 4, h * w == w * h
{
    assert(h * (w * 4) == w * h * 4) by(nonlinear_arith);
    assert(h * w == w * h) by(nonlinear_arith);
}
pub proof fn lemma_u16_dims(w: int, h: int)
    requires 0 <= w <= 0xffff, 0 <= h <= 0xffff
    ensures 0 <= w * h <= 0xffff * 0xffff, w * h * 4 <= 0x4_0000_0000
{
    assert(0 <= w * h <= 0xffff * 0xffff) by(nonlinear_arith) requires 0 <= w <= 0xffff, 0 <= h <= 0xffff;
}
""", mod="rle", name="codec_specs")

planar_specs = Raw(r"""
// ===== MS-RDPEGDI 3.1.9.2 / 2.2.2.5.1: RLE of one colour plane, written from the specification text =====
/// control byte of a segment: low nibble nRunLength, high nibble cRawBytes
pub open spec fn seg_nrun(ctrl: u8) -> u8 { ctrl & 0x0f }
pub open spec fn seg_craw(ctrl: u8) -> u8 { (ctrl >> 4) & 0x0f }
/// run length of the segment (long-run forms: nRunLength 1 -> cRawBytes + 16, nRunLength 2 -> cRawBytes + 32)
pub open spec fn seg_run(ctrl: u8) -> nat {
    if seg_nrun(ctrl) == 1 { (seg_craw(ctrl) + 16) as nat } else if seg_nrun(ctrl) == 2 { (seg_craw(ctrl) + 32) as nat } else { seg_nrun(ctrl) as nat }
}
/// number of raw bytes of the segment (none in the long-run forms)
pub open spec fn seg_raw(ctrl: u8) -> nat {
    if seg_nrun(ctrl) == 1 || seg_nrun(ctrl) == 2 { 0 } else { seg_craw(ctrl) as nat }
}
/// delta carried by a raw byte of a scanline other than the first one
pub open spec fn delta_of(d: u8) -> int { if d & 1 != 0 { -(((d >> 1) as int) + 1) } else { (d >> 1) as int } }
/// value of column j: absolute in the first encoded scanline, previous scanline + delta (mod 256) afterwards
pub open spec fn plane_out(prev: Option<Seq<u8>>, j: int, v: int) -> u8 {
    match prev { None => v as u8, Some(p) => ((p[j] as int + v) % 256) as u8 }
}
/// decoder of one scanline at the granularity of single values.  State: `raw` raw bytes and then `run` repetitions are left in the
/// current segment, `last` is the last raw value (first scanline) or delta (others), `acc` the values produced so far, `n` the bytes consumed.
/// None: malformed (a segment overruns the scanline, or the input ends early).
pub open spec fn scan(s: Seq<u8>, width: nat, prev: Option<Seq<u8>>, raw: nat, run: nat, last: int, acc: Seq<u8>, n: nat) -> Option<(Seq<u8>, nat)>
    decreases s.len(), raw + run
{
    if raw > 0 {
        if acc.len() >= width || s.len() == 0 { None }
        else {
            let v = if prev is None { s[0] as int } else { delta_of(s[0]) };
            scan(s.skip(1), width, prev, (raw - 1) as nat, run, v, acc.push(plane_out(prev, acc.len() as int, v)), n + 1)
        }
    } else if run > 0 {
        if acc.len() >= width { None }
        else { scan(s, width, prev, 0, (run - 1) as nat, last, acc.push(plane_out(prev, acc.len() as int, last)), n) }
    } else if acc.len() == width { Some((acc, n)) }
    else if s.len() == 0 { None }
    else { scan(s.skip(1), width, prev, seg_raw(s[0]), seg_run(s[0]), last, acc, n + 1) }
}
/// one scanline: (values, bytes consumed)
pub open spec fn decode_scanline(input: Seq<u8>, width: nat, prev: Option<Seq<u8>>) -> Option<(Seq<u8>, nat)> {
    scan(input, width, prev, 0, 0, 0, Seq::empty(), 0)
}
pub open spec fn planes_from(s: Seq<u8>, width: nat, rows: nat, prev: Option<Seq<u8>>, lines: Seq<Seq<u8>>, n: nat) -> Option<(Seq<Seq<u8>>, nat)>
    decreases rows
{
    if rows == 0 { Some((lines, n)) }
    else {
        match decode_scanline(s, width, prev) {
            None => None,
            Some((line, k)) => planes_from(s.skip(k as int), width, (rows - 1) as nat, Some(line), lines.push(line), n + k),
        }
    }
}
/// one plane: (scanlines in decode order = bottom row first, bytes consumed)
pub open spec fn decode_plane(input: Seq<u8>, width: nat, height: nat) -> Option<(Seq<Seq<u8>>, nat)> {
    planes_from(input, width, height, None, Seq::empty(), 0)
}

// ----- well-formedness of the decoders: a decoded plane has `height` scanlines of `width` values and consumes at most the input
pub proof fn lemma_scan_shape(s: Seq<u8>, width: nat, prev: Option<Seq<u8>>, raw: nat, run: nat, last: int, acc: Seq<u8>, n: nat)
    ensures scan(s, width, prev, raw, run, last, acc, n) is Some ==> ({
        let r = scan(s, width, prev, raw, run, last, acc, n)->Some_0;
        r.0.len() == width && n <= r.1 <= n + s.len() })
    decreases s.len(), raw + run
{
    if raw > 0 {
        if !(acc.len() >= width || s.len() == 0) {
            let v = if prev is None { s[0] as int } else { delta_of(s[0]) };
            lemma_scan_shape(s.skip(1), width, prev, (raw - 1) as nat, run, v, acc.push(plane_out(prev, acc.len() as int, v)), n + 1);
        }
    } else if run > 0 {
        if !(acc.len() >= width) {
            lemma_scan_shape(s, width, prev, 0, (run - 1) as nat, last, acc.push(plane_out(prev, acc.len() as int, last)), n);
        }
    } else if acc.len() == width {
    } else if s.len() == 0 {
    } else {
        lemma_scan_shape(s.skip(1), width, prev, seg_raw(s[0]), seg_run(s[0]), last, acc, n + 1);
    }
}
pub proof fn lemma_planes_shape(s: Seq<u8>, width: nat, rows: nat, prev: Option<Seq<u8>>, lines: Seq<Seq<u8>>, n: nat)
    requires forall|i: int| 0 <= i < lines.len() ==> (#[trigger] lines[i]).len() == width
    ensures planes_from(s, width, rows, prev, lines, n) is Some ==> ({
        let r = planes_from(s, width, rows, prev, lines, n)->Some_0;
        &&& r.0.len() == lines.len() + rows
        &&& (forall|i: int| 0 <= i < r.0.len() ==> (#[trigger] r.0[i]).len() == width)
        &&& n <= r.1 <= n + s.len() })
    decreases rows
{
    if rows > 0 {
        lemma_scan_shape(s, width, prev, 0, 0, 0, Seq::empty(), 0);
        match decode_scanline(s, width, prev) {
            None => {},
            Some((line, k)) => { lemma_planes_shape(s.skip(k as int), width, (rows - 1) as nat, Some(line), lines.push(line), n + k); },
        }
    }
}
pub proof fn lemma_decode_plane_shape(input: Seq<u8>, width: nat, height: nat)
    ensures decode_plane(input, width, height) is Some ==> ({
        let r = decode_plane(input, width, height)->Some_0;
        &&& r.0.len() == height
        &&& (forall|i: int| 0 <= i < height ==> (#[trigger] r.0[i]).len() == width)
        &&& r.1 <= input.len() })
{
    lemma_planes_shape(input, width, height, None, Seq::empty(), 0);
}

// ----- the control byte as the code computes it
pub proof fn lemma_ctrl(code: u8)
    ensures ({
        let replen = code & 0xf; let collen = (code >> 4) & 0xf; let revcode = (replen << 4) | collen;
        &&& (16 <= revcode <= 47 ==> seg_run(code) == revcode && seg_raw(code) == 0)
        &&& (!(16 <= revcode <= 47) ==> seg_run(code) == replen && seg_raw(code) == collen)
    })
{
    assert({
        let replen = code & 0xf; let collen = (code >> 4) & 0xf; let revcode = (replen << 4) | collen;
        let n = code & 0x0f; let c = (code >> 4) & 0x0f;
        &&& (16 <= revcode <= 47 ==> (n == 1 && revcode == c + 16 || n == 2 && revcode == c + 32) && c <= 15)
        &&& (!(16 <= revcode <= 47) ==> n != 1 && n != 2)
    }) by(bit_vector);
}
pub proof fn lemma_shr1(d: u8) ensures d >> 1 <= 127 { assert(d >> 1 <= 127) by(bit_vector); }
pub proof fn lemma_i8u8(b: u8) ensures (b as i8) as u8 == b { assert((b as i8) as u8 == b) by(bit_vector); }
pub proof fn lemma_trunc(s: i32)
    requires -128 <= s < 512
    ensures (s as u8) as int == (s as int) % 256
{
    assert(s as u8 == (if s < 0 { (s + 256) as u8 } else if s >= 256 { (s - 256) as u8 } else { s as u8 })) by(bit_vector) requires -128 <= s < 512;
}
pub proof fn lemma_row_pos(h: int, w: int, i: int, n: int, j: int)
    requires 0 <= i < n <= h, 0 <= j < w
    ensures ((h - 1 - i) * w + j) * 4 >= (h - n) * w * 4, ((h - 1 - i) * w + j) * 4 + 4 <= w * h * 4, (h - n) * w >= 0
{
    assert((h - 1 - i) * w >= (h - n) * w) by(nonlinear_arith) requires h - 1 - i >= h - n, w >= 0;
    assert((h - 1 - i) * w + w <= h * w) by(nonlinear_arith) requires h - 1 - i + 1 <= h, w >= 0;
    assert(h * w == w * h) by(nonlinear_arith);
    assert((h - n) * w >= 0) by(nonlinear_arith) requires h - n >= 0, w >= 0;
}

// ===== MS-RDPEGDI 2.2.2.5.1 RDP6_BITMAP_STREAM as accepted by the code: FormatHeader 0x10 (RLE, alpha plane present, no colour loss,
// no chroma subsampling), then the planes Alpha, Red, Green, Blue =====
/// the four decoded planes indexed by their byte offset inside a BGRA pixel: [blue, green, red, alpha]
pub open spec fn planar_decode(input: Seq<u8>, w: nat, h: nat) -> Option<Seq<Seq<Seq<u8>>>> {
    if input.len() < 1 || input[0] != 0x10 { None } else {
        let s0 = input.skip(1);
        match decode_plane(s0, w, h) { None => None, Some((pa, na)) => {
        let s1 = s0.skip(na as int);
        match decode_plane(s1, w, h) { None => None, Some((pr, nr)) => {
        let s2 = s1.skip(nr as int);
        match decode_plane(s2, w, h) { None => None, Some((pg, ng)) => {
        let s3 = s2.skip(ng as int);
        match decode_plane(s3, w, h) { None => None, Some((pb, nb)) => Some(seq![pb, pg, pr, pa]) } } } } } } }
    }
}
/// byte k of the top-down BGRA image: pixel k / 4, image row (k / 4) / w = decode row h - 1 - (k / 4) / w
pub open spec fn planar_pixel(planes: Seq<Seq<Seq<u8>>>, w: nat, h: nat, k: int) -> u8 {
    planes[k % 4][h - 1 - (k / 4) / (w as int)][(k / 4) % (w as int)]
}
pub open spec fn planar_image(input: Seq<u8>, w: nat, h: nat) -> Option<Seq<u8>> {
    match planar_decode(input, w, h) {
        None => None,
        Some(planes) => Some(Seq::new(w * h * 4, |k: int| planar_pixel(planes, w, h, k))),
    }
}
/// effect on the whole buffer of decoding one plane into the sub-slice starting at byte `off`
pub open spec fn plane_written(o0: Seq<u8>, o1: Seq<u8>, off: int, lines: Seq<Seq<u8>>, w: int, h: int) -> bool {
    &&& o1.len() == o0.len()
    &&& forall|k: int| 0 <= k < o0.len() && (k < off || (k - off) % 4 != 0 || k >= off + w * h * 4) ==> #[trigger] o1[k] == o0[k]
    &&& forall|i: int, j: int| 0 <= i < h && 0 <= j < w ==> o1[off + ((h - 1 - i) * w + j) * 4] == #[trigger] lines[i][j]
}
/// from the sub-slice view (what the contract of process_plane says about `&mut output[off..]`) to the whole buffer
pub proof fn lemma_plane_written(o0: Seq<u8>, o1: Seq<u8>, off: int, lines: Seq<Seq<u8>>, w: int, h: int)
    requires 0 <= off <= o0.len(), o1.len() == o0.len(), w >= 0, h >= 0, w * h * 4 <= o0.len() - off + 3,
        forall|k: int| 0 <= k < off ==> #[trigger] o1[k] == o0[k],
        forall|k: int| 0 <= k < o0.len() - off && k % 4 != 0 ==> #[trigger] o1.subrange(off, o1.len() as int)[k] == o0.subrange(off, o0.len() as int)[k],
        forall|k: int| w * h * 4 <= k < o0.len() - off ==> #[trigger] o1.subrange(off, o1.len() as int)[k] == o0.subrange(off, o0.len() as int)[k],
        forall|i: int, j: int| 0 <= i < h && 0 <= j < w ==> o1.subrange(off, o1.len() as int)[((h - 1 - i) * w + j) * 4] == #[trigger] lines[i][j],
    ensures plane_written(o0, o1, off, lines, w, h)
{
    let sub0 = o0.subrange(off, o0.len() as int); let sub1 = o1.subrange(off, o1.len() as int);
    assert forall|k: int| 0 <= k < o0.len() && (k < off || (k - off) % 4 != 0 || k >= off + w * h * 4) implies #[trigger] o1[k] == o0[k] by {
        if k >= off { assert(sub1[k - off] == sub0[k - off]); }
    }
    assert forall|i: int, j: int| 0 <= i < h && 0 <= j < w implies o1[off + ((h - 1 - i) * w + j) * 4] == #[trigger] lines[i][j] by {
        lemma_mul_lt(h - 1 - i, w, j, h);
        assert(sub1[((h - 1 - i) * w + j) * 4] == lines[i][j]);
    }
}
#[verifier::spinoff_prover]
pub proof fn lemma_four_planes(o0: Seq<u8>, o1: Seq<u8>, o2: Seq<u8>, o3: Seq<u8>, o4: Seq<u8>, pa: Seq<Seq<u8>>, pr: Seq<Seq<u8>>, pg: Seq<Seq<u8>>, pb: Seq<Seq<u8>>, w: int, h: int)
    requires w > 0, h > 0, w * h * 4 <= o0.len(),
        plane_written(o0, o1, 3, pa, w, h), plane_written(o1, o2, 2, pr, w, h), plane_written(o2, o3, 1, pg, w, h), plane_written(o3, o4, 0, pb, w, h)
    ensures
        forall|k: int| 0 <= k < w * h * 4 ==> #[trigger] o4[k] == planar_pixel(seq![pb, pg, pr, pa], w as nat, h as nat, k),
        forall|k: int| w * h * 4 <= k < o0.len() ==> #[trigger] o4[k] == o0[k],
{
    let planes = seq![pb, pg, pr, pa];
    assert forall|k: int| 0 <= k < w * h * 4 implies #[trigger] o4[k] == planar_pixel(planes, w as nat, h as nat, k) by {
        lemma_pixel_index(w, h, k);
        let p = k / 4; let i = h - 1 - p / w; let j = p % w;
        assert(k == k % 4 + ((h - 1 - i) * w + j) * 4);
        if k % 4 == 3 { assert(o1[3 + ((h - 1 - i) * w + j) * 4] == pa[i][j]); assert(o2[k] == o1[k]); assert(o3[k] == o2[k]); assert(o4[k] == o3[k]); }
        else if k % 4 == 2 { assert(o2[2 + ((h - 1 - i) * w + j) * 4] == pr[i][j]); assert(o3[k] == o2[k]); assert(o4[k] == o3[k]); }
        else if k % 4 == 1 { assert(o3[1 + ((h - 1 - i) * w + j) * 4] == pg[i][j]); assert(o4[k] == o3[k]); }
        else { assert(o4[0 + ((h - 1 - i) * w + j) * 4] == pb[i][j]); }
    }
    assert forall|k: int| w * h * 4 <= k < o0.len() implies #[trigger] o4[k] == o0[k] by {
        assert(o1[k] == o0[k]); assert(o2[k] == o1[k]); assert(o3[k] == o2[k]); assert(o4[k] == o3[k]);
    }
}
pub proof fn lemma_pixel_index(w: int, h: int, k: int)
    requires 0 <= k < w * h * 4, w > 0, h > 0
    ensures ({ let p = k / 4; let row = p / w; let col = p % w;
        0 <= row < h && 0 <= col < w && 0 <= k % 4 < 4 && k == k % 4 + ((h - 1 - (h - 1 - row)) * w + col) * 4 })
{
    let p = k / 4;
    vstd::arithmetic::div_mod::lemma_fundamental_div_mod(p, w);
    vstd::arithmetic::div_mod::lemma_mod_bound(p, w);
    let row = p / w;
    assert(p < w * h);
    if row >= h { assert(w * row >= w * h) by(nonlinear_arith) requires row >= h, w > 0; }
    if row < 0 { assert(w * row <= -w) by(nonlinear_arith) requires row <= -1, w > 0; }
    assert(w * row == row * w) by(nonlinear_arith);
}
""", mod="rle", name="planar_specs")


PP_COMMON = """output@.len() == old(output)@.len(), width * height * 4 <= output@.len() + 3, width * height * 4 <= usize::MAX, indexh < height,
            this_line + width * 4 <= width * height * 4,
            (last_line == 0 || last_line + width * 4 <= width * height * 4),
            indexw <= width, out == this_line + indexw * 4"""
# functional part shared by the six per-scanline loops; RAW/RUN = what is left of the current segment
PP_LINE = """this_line % 4 == 0, acc.len() == indexw, o0.len() == output@.len(),
            forall|j: int| 0 <= j < indexw ==> output@[this_line + j * 4] == #[trigger] acc[j],
            forall|k: int| 0 <= k < output@.len() && !(this_line <= k < this_line + indexw * 4 && k % 4 == 0) ==> #[trigger] output@[k] == o0[k],
            forall|k: int| 0 <= k < o0.len() && (k % 4 != 0 || k >= width * height * 4) ==> #[trigger] o0[k] == old(output)@[k],
            cons <= ls.len(), input.rest() == ls.skip(cons as int),
            prev is Some ==> prev->Some_0.len() == width,
            decode_scanline(ls, width as nat, prev) is None ==> decode_plane(b, width as nat, height as nat) is None,
            decode_scanline(ls, width as nat, prev) == scan(input.rest(), width as nat, prev, RAW, RUN, last, acc, cons)"""
PP_FIRST = ", (prev is None || width == 0), last == (color as u8) as int"
PP_DELTA = """, last_line != 0, prev is Some, last == color as int, last_line == this_line + width * 4,
            forall|j: int| 0 <= j < width ==> output@[last_line + j * 4] == #[trigger] prev->Some_0[j]"""
def pp_line(raw, run):
    return ", " + PP_LINE.replace("RAW", raw).replace("RUN", run)
PP_LOOPS = {
    1: """invariant output@.len() == old(output)@.len(), width * height * 4 <= output@.len() + 3, width * height * 4 <= usize::MAX, indexh <= height,
            (last_line == 0 || last_line + width * 4 <= width * height * 4),
            indexh == 0 ==> last_line == 0,
            indexh > 0 ==> last_line == (height - indexh) * width * 4,
            lines.len() == indexh, forall|i: int| 0 <= i < indexh ==> (#[trigger] lines[i]).len() == width,
            consumed <= b.len(), input.rest() == b.skip(consumed as int),
            decode_plane(b, width as nat, height as nat) == planes_from(input.rest(), width as nat, (height - indexh) as nat,
                if indexh == 0 { None } else { Some(lines[indexh - 1]) }, lines, consumed),
            forall|i: int, j: int| 0 <= i < indexh && 0 <= j < width ==> output@[((height - 1 - i) * width + j) * 4] == #[trigger] lines[i][j],
            forall|k: int| 0 <= k < output@.len() && (k % 4 != 0 || k >= width * height * 4) ==> #[trigger] output@[k] == old(output)@[k]
          decreases height - indexh""",
    2: "invariant " + PP_COMMON + pp_line("0", "0") + PP_FIRST + "\n decreases input.rest().len()",
    3: "invariant " + PP_COMMON + pp_line("collen as nat", "replen as nat") + PP_FIRST + ", input.rest().len() < rl\n decreases collen",
    4: "invariant " + PP_COMMON + pp_line("0", "replen as nat") + PP_FIRST + ", input.rest().len() < rl\n decreases replen",
    5: "invariant " + PP_COMMON + pp_line("0", "0") + PP_DELTA + "\n decreases input.rest().len()",
    6: "invariant " + PP_COMMON + pp_line("collen as nat", "replen as nat") + PP_DELTA + ", input.rest().len() < rl\n decreases collen",
    7: "invariant " + PP_COMMON + pp_line("0", "replen as nat") + PP_DELTA + ", input.rest().len() < rl\n decreases replen",
}
PP_PRE = """let ghost b = input.rest(); let ghost mut lines: Seq<Seq<u8>> = Seq::empty(); let ghost mut consumed: nat = 0;
proof { assert(b.skip(0) =~= b); }"""
PP_CTRL = """proof { lemma_ctrl(code); cons = cons + 1; assert(input.rest() =~= ls.skip(cons as int));
    assert(scan(s0, width as nat, prev, 0, 0, last, acc, (cons - 1) as nat) == scan(s0.skip(1), width as nat, prev, seg_raw(code), seg_run(code), last, acc, cons)); }"""
PP_OVERRUN = "proof { assert(decode_scanline(ls, width as nat, prev) is None); assert(decode_plane(b, width as nat, height as nat) is None); }"
PP_RUN = """proof { assert(scan(input.rest(), width as nat, prev, 0, replen as nat, last, acc, cons)
        == scan(input.rest(), width as nat, prev, 0, (replen - 1) as nat, last, acc.push(plane_out(prev, acc.len() as int, last)), cons));
    acc = acc.push(plane_out(prev, acc.len() as int, last)); }"""
PP_OVERRUN_AT = r'return Err\(Error::RdpError\(RdpError::new\(RdpErrorKind::InvalidData, "[^"]*"\)\)\)'
# completeness, as far as the generic reader allows: the explicit rejections happen only for malformed encodings
PP_CLAIMS = [(PP_OVERRUN_AT, n, PP_OVERRUN, "before", "C09", "reject-only-malformed-%d" % n) for n in (1, 2, 3, 4)]
PP_HINTS = [
    (r"let mut out = ", 1, "proof { lemma_rows(width as int, height as int, indexh as int); }", "before"),
    (r"indexw = 0;", 1, """let ghost prev: Option<Seq<u8>> = if indexh == 0 { None } else { Some(lines[indexh - 1]) };
let ghost ls = input.rest(); let ghost o0 = output@;
let ghost mut acc: Seq<u8> = Seq::empty(); let ghost mut cons: nat = 0; let ghost mut last: int = 0;
proof { assert(ls.skip(0) =~= ls);
    if indexh > 0 {
        assert forall|j: int| 0 <= j < width implies output@[last_line + j * 4] == #[trigger] lines[indexh - 1][j] by {
            assert(((height - 1 - (indexh - 1)) * width + j) * 4 == last_line + j * 4);
        }
    }
}"""),
    (r"code = input\.read_u8\(\)\?;", 1, "let ghost rl = input.rest().len(); let ghost s0 = input.rest();", "before"),
    (r"code = input\.read_u8\(\)\?;", 2, "let ghost rl = input.rest().len(); let ghost s0 = input.rest();", "before"),
    (r"code = input\.read_u8\(\)\?;", 1, PP_CTRL),
    (r"code = input\.read_u8\(\)\?;", 2, PP_CTRL),
    (r"color = input\.read_u8\(\)\? as i8;", 1, "let ghost s0 = input.rest();", "before"),
    (r"color = input\.read_u8\(\)\? as i8;", 1, """proof { lemma_i8u8(s0[0]); cons = cons + 1; assert(input.rest() =~= ls.skip(cons as int));
    assert(scan(s0, width as nat, prev, collen as nat, replen as nat, last, acc, (cons - 1) as nat)
        == scan(s0.skip(1), width as nat, prev, (collen - 1) as nat, replen as nat, s0[0] as int, acc.push(plane_out(prev, acc.len() as int, s0[0] as int)), cons));
    last = s0[0] as int; acc = acc.push(s0[0]); }"""),
    (r"output\[out as usize\] = color as u8;", 2, PP_RUN, "before"),
    (r"x = input\.read_u8\(\)\?;", 1, "let ghost s0 = input.rest();", "before"),
    (r"x = x >> 1;", 1, "proof { assert(x >> 1 <= 127) by(bit_vector); }", "before"),
    (r"x = \(output\[\(last_line \+ \(indexw \* 4\)\) as usize\] as i32 \+ color as i32\) as u8;", 1, """proof { cons = cons + 1; assert(input.rest() =~= ls.skip(cons as int));
    lemma_shr1(s0[0]);
    assert(color as int == delta_of(s0[0]));
    lemma_trunc((output@[last_line + indexw * 4] as i32 + color as i32) as i32);
    assert(scan(s0, width as nat, prev, collen as nat, replen as nat, last, acc, (cons - 1) as nat)
        == scan(s0.skip(1), width as nat, prev, (collen - 1) as nat, replen as nat, color as int, acc.push(plane_out(prev, acc.len() as int, color as int)), cons));
    last = color as int; acc = acc.push(plane_out(prev, acc.len() as int, last)); }""", "before"),
    (r"x = \(output\[\(last_line \+ \(indexw \* 4\)\) as usize\] as i32 \+ color as i32\) as u8;", 2,
     "proof { lemma_trunc((output@[last_line + indexw * 4] as i32 + color as i32) as i32); }\n" + PP_RUN, "before"),
    (r"indexh \+= 1;", 1, """proof {
    assert(decode_scanline(ls, width as nat, prev) == Some((acc, cons)));
    assert(ls.skip(cons as int) =~= b.skip((consumed + cons) as int));
    assert(this_line == (height - 1 - indexh) * width * 4);
    assert forall|i: int, j: int| 0 <= i < indexh + 1 && 0 <= j < width implies output@[((height - 1 - i) * width + j) * 4] == #[trigger] lines.push(acc)[i][j] by {
        if i < indexh {
            lemma_row_pos(height as int, width as int, i, indexh as int, j);
            assert(lines.push(acc)[i] == lines[i]);
        } else {
            assert(((height - 1 - i) * width + j) * 4 == this_line + j * 4);
        }
    }
    lines = lines.push(acc); consumed = consumed + cons;
}""", "before"),
]

rle16_compose = Raw(r"""
// ----- BitmapEvent::decompress, 16 bpp compressed: interleaved RLE decode composed with the 5-6-5 widening
/// byte b (0 = blue .. 3 = alpha) of decoded pixel (rr, c) in the top-down 32 bpp result
pub open spec fn rle16_byte(width: int, height: int, rr: int, c: int, b: int) -> int { rle16_idx(width, height, rr, c) * 4 + b }
pub proof fn lemma_rle16_widened(dec: Seq<u16>, w: int, h: int, px: Seq<u16>, out: Seq<u8>)
    requires rle16_exact(dec, w, h, px), dec.len() <= w * h, 0 <= w, 0 <= h, out.len() == w * h * 4, w * h <= px.len(),
        forall|k: int| 0 <= k < w * h * 4 ==> #[trigger] out[k] == widen565(px[k / 4])[k % 4],
    ensures forall|rr: int, c: int, b: int| 0 <= rr && 0 <= c < w && 0 <= b < 4 && rr * w + c < dec.len() ==>
        0 <= #[trigger] rle16_byte(w, h, rr, c, b) < out.len() && out[rle16_byte(w, h, rr, c, b)] == widen565(dec[rr * w + c])[b],
{
    reveal(rle16_exact);
    assert forall|rr: int, c: int, b: int| 0 <= rr && 0 <= c < w && 0 <= b < 4 && rr * w + c < dec.len() implies
        0 <= #[trigger] rle16_byte(w, h, rr, c, b) < out.len() && out[rle16_byte(w, h, rr, c, b)] == widen565(dec[rr * w + c])[b] by {
        let i = rle16_idx(w, h, rr, c);
        assert(px[i] == dec[rr * w + c]);
        if rr >= h {
            assert(rr * w >= h * w) by(nonlinear_arith) requires rr >= h, 0 <= w;
            assert(h * w == w * h) by(nonlinear_arith);
            assert(false);
        }
        lemma_rle16_idx_bound(w, h, rr, c);
        let k = i * 4 + b;
        assert(k / 4 == i && k % 4 == b);
        assert(out[k] == widen565(px[k / 4])[k % 4]);
    }
}
""", mod="rle", name="rle16_compose")

PLANE_CALL = r"process_plane\(&mut input_cursor, width, height, &mut output\[\d\.\.\]\)"

UNIT = Unit("codec", ["base.rs"], [
    codec_specs,
    planar_specs,
    Fn(RLE, "process_plane", mod="rle", props=["C08"], nloops=7,
       requires=["width as int * height as int * 4 <= old(output)@.len() + 3", "width as int * height as int * 4 <= usize::MAX"],
       ensures=[("C08", "len", "final(output)@.len() == old(output)@.len()"),
                ("C09", "plane-frame", "forall|k: int| 0 <= k < old(output)@.len() && k % 4 != 0 ==> #[trigger] final(output)@[k] == old(output)@[k]"),
                ("C09", "plane-frame-tail", "r is Ok ==> forall|k: int| width as int * height as int * 4 <= k < old(output)@.len() ==> #[trigger] final(output)@[k] == old(output)@[k]"),
                ("C09", "plane-conformant", "r is Ok ==> decode_plane(old(input).rest(), width as nat, height as nat) is Some"),
                ("C09", "plane-consumed-bound", "r is Ok ==> decode_plane(old(input).rest(), width as nat, height as nat)->Some_0.1 <= old(input).rest().len()"),
                ("C09", "plane-consumed", "r is Ok ==> final(input).rest() == old(input).rest().skip(decode_plane(old(input).rest(), width as nat, height as nat)->Some_0.1 as int)"),
                ("C09", "plane-exact", "r is Ok ==> forall|i: int, j: int| 0 <= i < height && 0 <= j < width ==> final(output)@[((height - 1 - i) * width + j) * 4] == #[trigger] decode_plane(old(input).rest(), width as nat, height as nat)->Some_0.0[i][j]")],
       pre=PP_PRE, loops=PP_LOOPS, hints=PP_HINTS, claims=PP_CLAIMS),
    Fn(RLE, "rle_32_decompress", mod="rle", props=["C08", "C09"],
       # refusal-justification: the format byte is refused only when it is not 0x10, the output buffer only when it is really smaller than width*height*4
       claims=[(r'return Err\(Error::RdpError\(RdpError::new\(RdpErrorKind::UnexpectedType, "[^"]*"\)\)\)', 1, "proof { assert(input@.len() >= 1 && input@[0] != 0x10); }", "before", "C09", "header-refused-only-when-not-0x10"),
               (r'return Err\(Error::RdpError\(RdpError::new\(RdpErrorKind::InvalidSize, "[^"]*"\)\)\)', 1, "proof { assert(output@.len() < width as int * height as int * 4); }", "before", "C08,C09", "output-refused-only-when-too-small")],
       ensures=[("C08", "len", "final(output)@.len() == old(output)@.len()"),
                ("C09", "planar-header", "r is Ok ==> input@.len() >= 1 && input@[0] == 0x10"),
                ("C09", "planar-exact", "r is Ok && width > 0 && height > 0 ==> planar_image(input@, width as nat, height as nat) is Some && final(output)@.take(width as int * height as int * 4) == planar_image(input@, width as nat, height as nat)->Some_0"),
                ("C09", "planar-tail", "r is Ok ==> forall|k: int| width as int * height as int * 4 <= k < old(output)@.len() ==> #[trigger] final(output)@[k] == old(output)@[k]")],
       hints=[(r"if \(output\.len\(\) as u128\) <", 1, "proof { assert(0 <= width as int * height as int <= 0xffff_ffff * 0xffff_ffff) by(nonlinear_arith) requires 0 <= width as int <= 0xffff_ffff, 0 <= height as int <= 0xffff_ffff; }", "before"),
              (PLANE_CALL, 1, """proof { assert(width as int * height as int >= 1) by(nonlinear_arith) requires width as int >= 1, height as int >= 1; }
let ghost w = width as nat; let ghost h = height as nat; let ghost n4 = width as int * height as int * 4;
let ghost s0 = input_cursor.rest(); let ghost o0 = output@;
proof { assert(s0 =~= input@.skip(1)); }""", "before"),
              (PLANE_CALL, 1, """let ghost s1 = input_cursor.rest(); let ghost o1 = output@;
proof { let sub0 = o0.subrange(3, o0.len() as int); let sub1 = o1.subrange(3, o1.len() as int); let pl = decode_plane(s0, w, h)->Some_0.0;
    assert(forall|k: int| 0 <= k < sub0.len() && k % 4 != 0 ==> #[trigger] sub1[k] == sub0[k]);
    assert(forall|k: int| w * h * 4 <= k < sub0.len() ==> #[trigger] sub1[k] == sub0[k]);
    assert(forall|k: int| 0 <= k < 3 ==> #[trigger] o1[k] == o0[k]);
    assert(forall|i: int, j: int| 0 <= i < h && 0 <= j < w ==> sub1[((h - 1 - i) * w + j) * 4] == #[trigger] pl[i][j]);
    lemma_plane_written(o0, o1, 3, pl, w as int, h as int); }"""),
              (PLANE_CALL, 2, """let ghost s2 = input_cursor.rest(); let ghost o2 = output@;
proof { let sub0 = o1.subrange(2, o1.len() as int); let sub1 = o2.subrange(2, o2.len() as int); let pl = decode_plane(s1, w, h)->Some_0.0;
    assert(forall|k: int| 0 <= k < sub0.len() && k % 4 != 0 ==> #[trigger] sub1[k] == sub0[k]);
    assert(forall|k: int| w * h * 4 <= k < sub0.len() ==> #[trigger] sub1[k] == sub0[k]);
    assert(forall|k: int| 0 <= k < 2 ==> #[trigger] o2[k] == o1[k]);
    assert(forall|i: int, j: int| 0 <= i < h && 0 <= j < w ==> sub1[((h - 1 - i) * w + j) * 4] == #[trigger] pl[i][j]);
    lemma_plane_written(o1, o2, 2, pl, w as int, h as int); }"""),
              (PLANE_CALL, 3, """let ghost s3 = input_cursor.rest(); let ghost o3 = output@;
proof { let sub0 = o2.subrange(1, o2.len() as int); let sub1 = o3.subrange(1, o3.len() as int); let pl = decode_plane(s2, w, h)->Some_0.0;
    assert(forall|k: int| 0 <= k < sub0.len() && k % 4 != 0 ==> #[trigger] sub1[k] == sub0[k]);
    assert(forall|k: int| w * h * 4 <= k < sub0.len() ==> #[trigger] sub1[k] == sub0[k]);
    assert(forall|k: int| 0 <= k < 1 ==> #[trigger] o3[k] == o2[k]);
    assert(forall|i: int, j: int| 0 <= i < h && 0 <= j < w ==> sub1[((h - 1 - i) * w + j) * 4] == #[trigger] pl[i][j]);
    lemma_plane_written(o2, o3, 1, pl, w as int, h as int); }"""),
              (PLANE_CALL, 4, """let ghost o4 = output@;
proof { let sub0 = o3.subrange(0, o3.len() as int); let sub1 = o4.subrange(0, o4.len() as int); let pl = decode_plane(s3, w, h)->Some_0.0;
    assert(forall|k: int| 0 <= k < sub0.len() && k % 4 != 0 ==> #[trigger] sub1[k] == sub0[k]);
    assert(forall|k: int| w * h * 4 <= k < sub0.len() ==> #[trigger] sub1[k] == sub0[k]);
    assert(forall|k: int| 0 <= k < 0 ==> #[trigger] o4[k] == o3[k]);
    assert(forall|i: int, j: int| 0 <= i < h && 0 <= j < w ==> sub1[((h - 1 - i) * w + j) * 4] == #[trigger] pl[i][j]);
    lemma_plane_written(o3, o4, 0, pl, w as int, h as int); }
proof {
    let pa = decode_plane(s0, w, h)->Some_0.0; let pr = decode_plane(s1, w, h)->Some_0.0;
    let pg = decode_plane(s2, w, h)->Some_0.0; let pb = decode_plane(s3, w, h)->Some_0.0;
    let planes = seq![pb, pg, pr, pa];
    assert(planar_decode(input@, w, h) == Some(planes));
    let img = planar_image(input@, w, h)->Some_0;
    assert(img.len() == n4) by { assert((w * h * 4) as int == n4) by(nonlinear_arith) requires w == width as int, h == height as int, n4 == width as int * height as int * 4; }
    lemma_four_planes(o0, o1, o2, o3, o4, pa, pr, pg, pb, w as int, h as int);
    assert(output@.take(n4) =~= img);
}""")]),
    RLE16_SPECS,
    to_stub(RLE16, "codec16"),
    rle16_compose,
    Fn(RLE, "rgb565torgb32", mod="rle", props=["C08", "C09"], ret="result",
       requires=["width * height <= input@.len()", "width * height * 4 <= usize::MAX"],
       ensures=[("C08", "len", "result@.len() == width * height * 4"),
                ("C09", "widened", "forall|k: int| 0 <= k < width * height * 4 ==> #[trigger] result@[k] == widen565(input@[k / 4])[k % 4]")],
       loops={1: """invariant result_32_bpp@.len() == width * height * 4, width * height <= input@.len(), width * height * 4 <= usize::MAX,
                    forall|k: int| 0 <= k < (i * width) * 4 ==> #[trigger] result_32_bpp@[k] == widen565(input@[k / 4])[k % 4]""",
              2: """invariant result_32_bpp@.len() == width * height * 4, width * height <= input@.len(), width * height * 4 <= usize::MAX, 0 <= i < height,
                    forall|k: int| 0 <= k < (i * width + j) * 4 ==> #[trigger] result_32_bpp@[k] == widen565(input@[k / 4])[k % 4]"""},
       hints=[(r"let index = ", 1, "proof { lemma_mul_lt(i as int, width as int, j as int, height as int); }", "before"),
              (r"for i in 0\.\.height", 1, "proof { assert(0 * (width as int) == 0) by(nonlinear_arith); }", "before"),
              (r"for j in 0\.\.width", 1, "proof { lemma_rowstart(i as int, width as int, height as int); }", "before"),
              (r"result_32_bpp\[index \* 4\] = [^\n]*\n\s*\}", 1, "proof { lemma_rowstart(i as int, width as int, height as int); }"),
              (r"(?m)^\s*result_32_bpp\s*$", 1, "proof { lemma_comm(width as int, height as int); }", "before"),
              (r"let v = input\[index\];", 1, "proof { lemma_masks(v); lemma_round5((v >> 11) & 0x1f); lemma_round6((v >> 5) & 0x3f); lemma_round5(v & 0x1f); }"),
              ]),
    Item(EVT, "struct", "BitmapEvent", mod="event"),
    Fn(EVT, "decompress", impl=r"BitmapEvent", mod="event", props=["C08", "C09"], nloops=4,
       ensures=[("C08", "exact-size", "r is Ok ==> r->Ok_0@.len() == self.width as int * self.height as int * 4"),
                ("C09", "raw32-top-down", "r is Ok && self.bpp == 32 && !self.is_compress ==> self.data@.len() == self.width as int * self.height as int * 4 && forall|k: int| 0 <= k < self.width as int * self.height as int * 4 ==> #[trigger] r->Ok_0@[k] == self.data@[flip32(k, self.width as int, self.height as int)]"),
                ("C09", "planar32-exact", "r is Ok && self.bpp == 32 && self.is_compress && self.width > 0 && self.height > 0 ==> planar_image(self.data@, self.width as nat, self.height as nat) == Some(r->Ok_0@)"),
                ("C09", "raw16-top-down-widened", "r is Ok && self.bpp == 16 && !self.is_compress ==> forall|k: int| 0 <= k < self.width as int * self.height as int * 4 ==> #[trigger] r->Ok_0@[k] == widen565(raw16(self.data@, self.width as int, self.height as int, k / 4))[k % 4]"),
                ("C09", "rle16-widened", "r is Ok && self.bpp == 16 && self.is_compress && !rle16_excluded(self.data@, self.width as nat, 0) ==> rle16_decode(self.data@, self.width as nat) is Some "
                 "&& forall|rr: int, c: int, b: int| 0 <= rr && 0 <= c < self.width && 0 <= b < 4 && rr * self.width + c < rle16_decode(self.data@, self.width as nat)->Some_0.len() ==> "
                 "0 <= #[trigger] rle16_byte(self.width as int, self.height as int, rr, c, b) < r->Ok_0@.len() "
                 "&& r->Ok_0@[rle16_byte(self.width as int, self.height as int, rr, c, b)] == widen565(rle16_decode(self.data@, self.width as nat)->Some_0[rr * self.width + c])[b]"),
                ("C08", "unsupported-depth", "self.bpp != 16 && self.bpp != 32 ==> r is Err")],
       pre="proof { lemma_u16_dims(self.width as int, self.height as int); lemma_line(self.width as int, self.height as int); } let ghost w = self.width as int; let ghost h = self.height as int; let ghost mut g16: Seq<u16> = Seq::empty();",
       post="""proof {
    if r is Ok && self.bpp == 16 && self.is_compress && !rle16_excluded(self.data@, self.width as nat, 0) {
        lemma_rle16_widened(rle16_decode(self.data@, self.width as nat)->Some_0, w, h, g16, r->Ok_0@);
    }
}""",
       loops={1: """invariant result@.len() == size, size == w * h * 4, line == w * 4, self.data@.len() == size, w == self.width as int, h == self.height as int, h * (w * 4) == w * h * 4,
                     forall|k: int| 0 <= k < i * line ==> #[trigger] result@[k] == self.data@[flip32(k, w, h)]""",
              2: """invariant result@.len() == size, size == w * h * 4, line == w * 4, self.data@.len() == size, w == self.width as int, h == self.height as int, h * (w * 4) == w * h * 4,
                     0 <= i < h, src == (h - i - 1) * line, 0 <= i * line, i * line + line <= h * line, 0 <= src, src + line <= h * line,
                     forall|k: int| 0 <= k < i * line + j ==> #[trigger] result@[k] == self.data@[flip32(k, w, h)]""",
              3: """invariant result@.len() == width * height, width == w, height == h, w == self.width as int, h == self.height as int, self.data@.len() >= width * height * 2, h * w == w * h, w * h <= 0xffff * 0xffff,
                     forall|p: int| 0 <= p < i * width ==> #[trigger] result@[p] == raw16(self.data@, w, h, p)""",
              4: """invariant result@.len() == width * height, width == w, height == h, w == self.width as int, h == self.height as int, self.data@.len() >= width * height * 2, h * w == w * h, w * h <= 0xffff * 0xffff,
                     0 <= i < h, 0 <= i * w, i * w + w <= h * w, 0 <= (h - i - 1) * w, (h - i - 1) * w + w <= h * w,
                     forall|p: int| 0 <= p < i * width + j ==> #[trigger] result@[p] == raw16(self.data@, w, h, p)"""},
       hints=[(r"for i in 0\.\.self\.height as usize", 1, "proof { assert(0 * (line as int) == 0) by(nonlinear_arith); }", "before"),
              (r"for i in 0\.\.height \{", 1, "proof { assert(0 * (width as int) == 0) by(nonlinear_arith); }", "before"),
              (r"let src = \(self\.height as usize - i - 1\) \* line;", 1, "proof { lemma_rowstart(i as int, line as int, h); lemma_rowstart(h - i - 1, line as int, h); }", "before"),
              (r"result\[i \* line \+ j\] = self\.data\[src \+ j\];", 1, "proof { lemma_divmod(i as int, line as int, j as int); assert(flip32(i * line + j, w, h) == src + j); }", "before"),
              (r"result\[i \* line \+ j\] = self\.data\[src \+ j\];\s*\n\s*\}", 1, "proof { lemma_rowstart(i as int, line as int, h); }"),
              (r"for j in 0\.\.width", 1, "proof { lemma_rowstart(i as int, w, h); lemma_rowstart(h - i - 1, w, h); }", "before"),
              (r"let src = \(\(height - i - 1\) \* width \+ j\) \* 2;", 1, "proof { lemma_divmod(i as int, w, j as int); }", "before"),
              (r"result\[i \* width \+ j\] = [^\n]*\n\s*\}", 1, "proof { lemma_rowstart(i as int, w, h); }"),
              (r"Ok\(result\)", 1, "proof { assert(result@.take(size as int) =~= result@); }", "before"),
              (r"Ok\(rgb565torgb32\(", 1, "proof { lemma_line(w, h); g16 = result_16bpp@; }", "before"),
              ],
       # C09: the decoders are called with (data, width, height) in their proper roles: the callee's functional postcondition restated over self.width /
       # self.height right after the call (swapped or otherwise wrong arguments fail these)
       claims=[(r"rle_16_decompress\([^\n]*\)\?;", 1,
                "proof { assert(!rle16_excluded(self.data@, self.width as nat, 0) ==> rle16_decode(self.data@, self.width as nat) is Some "
                "&& rle16_exact(rle16_decode(self.data@, self.width as nat)->Some_0, self.width as int, self.height as int, result@)); }",
                "after", "C09", "rle16-call-roles"),
               # refusal-justification for the two RAW paths: data of exactly the right size is never refused (32 bpp: refused only when the size differs;
               # 16 bpp: only when the data is SHORTER than width*height*2)
               (r'return Err\(Error::RdpError\(RdpError::new\(RdpErrorKind::InvalidSize, "[^"]*"\)\)\)', 1, "proof { assert(self.data@.len() != self.width as int * self.height as int * 4); }", "before", "C08,C09", "raw32-refused-only-for-another-size"),
               (r'return Err\(Error::RdpError\(RdpError::new\(RdpErrorKind::InvalidSize, "[^"]*"\)\)\)', 2, "proof { assert(self.data@.len() < self.width as int * self.height as int * 2); }", "before", "C08,C09", "raw16-refused-only-when-too-short"),
               (r"rle_32_decompress\([^\n]*\)\?;", 1,
                "proof { assert(self.width > 0 && self.height > 0 ==> planar_image(self.data@, self.width as nat, self.height as nat) is Some "
                "&& result@.take(self.width as int * self.height as int * 4) == planar_image(self.data@, self.width as nat, self.height as nat)->Some_0); }",
                "after", "C09", "planar-call-roles")]),
], uses={"event": ["use super::rle::*;"]})
