"""unit codec: codec/rle.rs + core/event.rs BitmapEvent::decompress.  Properties C08 (total, exact size), C09 (pixel exact)."""
from vx.spec import *
from specs.rle16_fn import RLE16, RLE16_CONTRACT

RLE = "src/codec/rle.rs"
EVT = "src/core/event.rs"

codec_specs = Raw(r"""
/// exact rounding of an n-bit colour channel to 8 bits: round(c * 255 / (2^n - 1))
pub open spec fn round5(c: u16) -> u16 { ((c as u32 * 510 + 31) / 62) as u16 }
pub open spec fn round6(c: u16) -> u16 { ((c as u32 * 510 + 63) / 126) as u16 }
/// 5-6-5 pixel widened to blue, green, red, alpha
pub open spec fn widen565(v: u16) -> Seq<u8> {
    seq![round5(v & 0x1f) as u8, round6((v >> 5) & 0x3f) as u8, round5((v >> 11) & 0x1f) as u8, 0xffu8]
}
pub proof fn lemma_round5(c: u16)
    requires c < 32
    ensures ((c * 527 + 23) as u16 >> 6) == round5(c), c * 527 + 23 <= 0xffff, round5(c) <= 255
{
    assert(((c * 527 + 23) as u16 >> 6) == ((c as u32 * 510 + 31) / 62) as u16 && (c as u32) * 527 + 23 <= 0xffff && ((c as u32 * 510 + 31) / 62) <= 255) by(bit_vector) requires c < 32;
}
pub proof fn lemma_round6(c: u16)
    requires c < 64
    ensures ((c * 259 + 33) as u16 >> 6) == round6(c), c * 259 + 33 <= 0xffff, round6(c) <= 255
{
    assert(((c * 259 + 33) as u16 >> 6) == ((c as u32 * 510 + 63) / 126) as u16 && (c as u32) * 259 + 33 <= 0xffff && ((c as u32 * 510 + 63) / 126) <= 255) by(bit_vector) requires c < 64;
}
pub proof fn lemma_masks(v: u16)
    ensures (v >> 11) & 0x1f < 32, (v >> 5) & 0x3f < 64, v & 0x1f < 32
{
    assert((v >> 11) & 0x1f < 32 && (v >> 5) & 0x3f < 64 && v & 0x1f < 32) by(bit_vector);
}
pub proof fn lemma_mul_lt(i: int, w: int, j: int, h: int)
    requires 0 <= i < h, 0 <= j < w
    ensures 0 <= i * w + j < h * w, i * w + w <= h * w, h * w == w * h, (i + 1) * w == i * w + w, 0 <= i * w
{
    assert(h * w == w * h) by(nonlinear_arith);
    assert(i * w + w == (i + 1) * w) by(nonlinear_arith);
    assert((i + 1) * w <= h * w) by(nonlinear_arith) requires i + 1 <= h, w >= 0;
    assert(0 <= i * w) by(nonlinear_arith) requires 0 <= i, 0 <= w;
}
pub proof fn lemma_rows(w: int, h: int, i: int)
    requires 0 <= w, 0 <= i < h
    ensures (i + 1) * w * 4 <= w * h * 4, w * h * 4 - (i + 1) * w * 4 == (h - i - 1) * w * 4, (h - i - 1) * w * 4 + w * 4 <= w * h * 4,
        0 <= (h - i - 1) * w * 4, (h - i) * w * 4 == (h - i - 1) * w * 4 + w * 4
{
    assert(h * w == w * h) by(nonlinear_arith);
    assert((i + 1) * w <= h * w) by(nonlinear_arith) requires i + 1 <= h, w >= 0;
    assert((i + 1) * w <= w * h);
    assert(w * h - (i + 1) * w == (h - i - 1) * w) by(nonlinear_arith);
    assert(0 <= (h - i - 1) * w) by(nonlinear_arith) requires 0 <= h - i - 1, 0 <= w;
    assert((h - i) * w == (h - i - 1) * w + w) by(nonlinear_arith);
    assert((h - i) * w <= h * w) by(nonlinear_arith) requires 0 <= i, 0 <= w, i < h;
}
pub proof fn lemma_rowstart(i: int, w: int, h: int)
    requires 0 <= i < h, 0 <= w
    ensures (i + 1) * w == i * w + w, (i + 1) * w <= h * w, h * w == w * h, 0 <= i * w
{
    assert((i + 1) * w == i * w + w) by(nonlinear_arith);
    assert((i + 1) * w <= h * w) by(nonlinear_arith) requires i + 1 <= h, w >= 0;
    assert(0 <= i * w) by(nonlinear_arith) requires 0 <= i, 0 <= w;
    assert(h * w == w * h) by(nonlinear_arith);
}
pub proof fn lemma_comm(w: int, h: int) ensures h * w == w * h { assert(h * w == w * h) by(nonlinear_arith); }
/// uncompressed bitmaps are bottom-up on the wire (MS-RDPBCGR 2.2.9.1.1.3.1.2.2); the result is top-down
pub open spec fn flip32(k: int, w: int, h: int) -> int { (h - 1 - k / (w * 4)) * (w * 4) + k % (w * 4) }
pub open spec fn raw16(data: Seq<u8>, w: int, h: int, p: int) -> u16 {
    let s = ((h - 1 - p / w) * w + p % w) * 2;
    (data[s + 1] as u16) << 8 | data[s] as u16
}
pub proof fn lemma_divmod(i: int, d: int, j: int)
    requires 0 <= j < d, 0 <= i
    ensures (i * d + j) / d == i, (i * d + j) % d == j
{
    vstd::arithmetic::div_mod::lemma_fundamental_div_mod_converse(i * d + j, d, i, j);
}
pub proof fn lemma_line(w: int, h: int)
    ensures h * (w * 4) == w * h * 4, h * w == w * h
{
    assert(h * (w * 4) == w * h * 4) by(nonlinear_arith);
    assert(h * w == w * h) by(nonlinear_arith);
}
pub proof fn lemma_u16_dims(w: int, h: int)
    requires 0 <= w <= 0xffff, 0 <= h <= 0xffff
    ensures 0 <= w * h <= 0xffff * 0xffff, w * h * 4 <= 0x4_0000_0000
{
    assert(0 <= w * h <= 0xffff * 0xffff) by(nonlinear_arith) requires 0 <= w <= 0xffff, 0 <= h <= 0xffff;
}
""", mod="rle", name="codec_specs")


PP_COMMON = """output@.len() == old(output)@.len(), width * height * 4 <= output@.len() + 3, width * height * 4 <= usize::MAX, indexh < height,
            this_line + width * 4 <= width * height * 4,
            (last_line == 0 || last_line + width * 4 <= width * height * 4),
            indexw <= width, out == this_line + indexw * 4"""
PP_LOOPS = {
    1: """invariant output@.len() == old(output)@.len(), width * height * 4 <= output@.len() + 3, width * height * 4 <= usize::MAX, indexh <= height,
            (last_line == 0 || last_line + width * 4 <= width * height * 4)
          decreases height - indexh""",
    2: "invariant " + PP_COMMON + "\n decreases input.rest().len()",
    3: "invariant " + PP_COMMON + ", input.rest().len() < rl\n decreases collen",
    4: "invariant " + PP_COMMON + ", input.rest().len() < rl\n decreases replen",
    5: "invariant " + PP_COMMON + ", last_line != 0\n decreases input.rest().len()",
    6: "invariant " + PP_COMMON + ", last_line != 0, input.rest().len() < rl\n decreases collen",
    7: "invariant " + PP_COMMON + ", last_line != 0, input.rest().len() < rl\n decreases replen",
}
PP_HINTS = [
    (r"x = x >> 1;", 1, "proof { assert(x >> 1 <= 127) by(bit_vector); }", "before"),
    (r"let mut out = ", 1, "proof { lemma_rows(width as int, height as int, indexh as int); }", "before"),
    (r"code = input\.read_u8\(\)\?;", 1, "let ghost rl = input.rest().len();", "before"),
    (r"code = input\.read_u8\(\)\?;", 2, "let ghost rl = input.rest().len();", "before"),
]

UNIT = Unit("codec", ["base.rs"], [
    codec_specs,
    Fn(RLE, "process_plane", mod="rle", props=["C08"], nloops=7,
       requires=["width as int * height as int * 4 <= old(output)@.len() + 3", "width as int * height as int * 4 <= usize::MAX"],
       ensures=[("C08", "len", "final(output)@.len() == old(output)@.len()")],
       loops=PP_LOOPS, hints=PP_HINTS),
    Fn(RLE, "rle_32_decompress", mod="rle", props=["C08"],
       ensures=[("C08", "len", "final(output)@.len() == old(output)@.len()")],
       hints=[(r"if \(output\.len\(\) as u128\) <", 1, "proof { assert(0 <= width as int * height as int <= 0xffff_ffff * 0xffff_ffff) by(nonlinear_arith) requires 0 <= width as int <= 0xffff_ffff, 0 <= height as int <= 0xffff_ffff; }", "before"),
              (r"process_plane\(&mut input_cursor, width, height, &mut output\[3\.\.\]\)", 1, "proof { assert(width as int * height as int >= 1) by(nonlinear_arith) requires width as int >= 1, height as int >= 1; }", "before")]),
    RLE16,
    Fn(RLE, "rgb565torgb32", mod="rle", props=["C08", "C09"], ret="result",
       requires=["width * height <= input@.len()", "width * height * 4 <= usize::MAX"],
       ensures=[("C08", "len", "result@.len() == width * height * 4"),
                ("C09", "widened", "forall|k: int| 0 <= k < width * height * 4 ==> #[trigger] result@[k] == widen565(input@[k / 4])[k % 4]")],
       loops={1: """invariant result_32_bpp@.len() == width * height * 4, width * height <= input@.len(), width * height * 4 <= usize::MAX,
                    forall|k: int| 0 <= k < (i * width) * 4 ==> #[trigger] result_32_bpp@[k] == widen565(input@[k / 4])[k % 4]""",
              2: """invariant result_32_bpp@.len() == width * height * 4, width * height <= input@.len(), width * height * 4 <= usize::MAX, 0 <= i < height,
                    forall|k: int| 0 <= k < (i * width + j) * 4 ==> #[trigger] result_32_bpp@[k] == widen565(input@[k / 4])[k % 4]"""},
       hints=[(r"let index = ", 1, "proof { lemma_mul_lt(i as int, width as int, j as int, height as int); }", "before"),
              (r"for i in 0\.\.height", 1, "proof { assert(0 * (width as int) == 0) by(nonlinear_arith); }", "before"),
              (r"for j in 0\.\.width", 1, "proof { lemma_rowstart(i as int, width as int, height as int); }", "before"),
              (r"result_32_bpp\[index \* 4\] = [^\n]*\n\s*\}", 1, "proof { lemma_rowstart(i as int, width as int, height as int); }"),
              (r"(?m)^\s*result_32_bpp\s*$", 1, "proof { lemma_comm(width as int, height as int); }", "before"),
              (r"let v = input\[index\];", 1, "proof { lemma_masks(v); lemma_round5((v >> 11) & 0x1f); lemma_round6((v >> 5) & 0x3f); lemma_round5(v & 0x1f); }"),
              ]),
    Item(EVT, "struct", "BitmapEvent", mod="event"),
    Fn(EVT, "decompress", impl=r"BitmapEvent", mod="event", props=["C08", "C09"], nloops=4,
       ensures=[("C08", "exact-size", "r is Ok ==> r->Ok_0@.len() == self.width as int * self.height as int * 4"),
                ("C09", "raw32-top-down", "r is Ok && self.bpp == 32 && !self.is_compress ==> self.data@.len() == self.width as int * self.height as int * 4 && forall|k: int| 0 <= k < self.width as int * self.height as int * 4 ==> #[trigger] r->Ok_0@[k] == self.data@[flip32(k, self.width as int, self.height as int)]"),
                ("C09", "raw16-top-down-widened", "r is Ok && self.bpp == 16 && !self.is_compress ==> forall|k: int| 0 <= k < self.width as int * self.height as int * 4 ==> #[trigger] r->Ok_0@[k] == widen565(raw16(self.data@, self.width as int, self.height as int, k / 4))[k % 4]"),
                ("C08", "unsupported-depth", "self.bpp != 16 && self.bpp != 32 ==> r is Err")],
       pre="proof { lemma_u16_dims(self.width as int, self.height as int); lemma_line(self.width as int, self.height as int); } let ghost w = self.width as int; let ghost h = self.height as int;",
       loops={1: """invariant result@.len() == size, size == w * h * 4, line == w * 4, self.data@.len() == size, w == self.width as int, h == self.height as int, h * (w * 4) == w * h * 4,
                     forall|k: int| 0 <= k < i * line ==> #[trigger] result@[k] == self.data@[flip32(k, w, h)]""",
              2: """invariant result@.len() == size, size == w * h * 4, line == w * 4, self.data@.len() == size, w == self.width as int, h == self.height as int, h * (w * 4) == w * h * 4,
                     0 <= i < h, src == (h - i - 1) * line, 0 <= i * line, i * line + line <= h * line, 0 <= src, src + line <= h * line,
                     forall|k: int| 0 <= k < i * line + j ==> #[trigger] result@[k] == self.data@[flip32(k, w, h)]""",
              3: """invariant result@.len() == width * height, width == w, height == h, w == self.width as int, h == self.height as int, self.data@.len() >= width * height * 2, h * w == w * h, w * h <= 0xffff * 0xffff,
                     forall|p: int| 0 <= p < i * width ==> #[trigger] result@[p] == raw16(self.data@, w, h, p)""",
              4: """invariant result@.len() == width * height, width == w, height == h, w == self.width as int, h == self.height as int, self.data@.len() >= width * height * 2, h * w == w * h, w * h <= 0xffff * 0xffff,
                     0 <= i < h, 0 <= i * w, i * w + w <= h * w, 0 <= (h - i - 1) * w, (h - i - 1) * w + w <= h * w,
                     forall|p: int| 0 <= p < i * width + j ==> #[trigger] result@[p] == raw16(self.data@, w, h, p)"""},
       hints=[(r"for i in 0\.\.self\.height as usize", 1, "proof { assert(0 * (line as int) == 0) by(nonlinear_arith); }", "before"),
              (r"for i in 0\.\.height \{", 1, "proof { assert(0 * (width as int) == 0) by(nonlinear_arith); }", "before"),
              (r"let src = \(self\.height as usize - i - 1\) \* line;", 1, "proof { lemma_rowstart(i as int, line as int, h); lemma_rowstart(h - i - 1, line as int, h); }", "before"),
              (r"result\[i \* line \+ j\] = self\.data\[src \+ j\];", 1, "proof { lemma_divmod(i as int, line as int, j as int); assert(flip32(i * line + j, w, h) == src + j); }", "before"),
              (r"result\[i \* line \+ j\] = self\.data\[src \+ j\];\s*\n\s*\}", 1, "proof { lemma_rowstart(i as int, line as int, h); }"),
              (r"for j in 0\.\.width", 1, "proof { lemma_rowstart(i as int, w, h); lemma_rowstart(h - i - 1, w, h); }", "before"),
              (r"let src = \(\(height - i - 1\) \* width \+ j\) \* 2;", 1, "proof { lemma_divmod(i as int, w, j as int); }", "before"),
              (r"result\[i \* width \+ j\] = [^\n]*\n\s*\}", 1, "proof { lemma_rowstart(i as int, w, h); }"),
              (r"Ok\(rgb565torgb32\(", 1, "proof { lemma_line(w, h); }", "before"),
              ]),
], uses={"event": ["use super::rle::*;"]})
