"""unit codec16: rle_16_decompress alone, FUNCTIONAL proof against a transcription of MS-RDPBCGR 2.2.9.1.1.3.1.2.4 / 3.1.9 (interleaved RLE, 16 bpp):
RLE16_SPECS = specification + proved lemmas, RLE16 = the real body with its 24 loop invariants (specs/rle16_fn.py).  Unit codec keeps the lighter
SAFETY proof of the same body (specs/rle16_safe.py: C08); this unit carries the C09 part.  The commutativity lemmas for & and | are not broadcast here
(tens of thousands of instantiations in these loops; no clause of this unit depends on operand order)."""
import copy
from vx.spec import *
from specs.rle16_fn import RLE16 as _RLE16, RLE16_SPECS
RLE16 = copy.copy(_RLE16)
RLE16.props = ["C09"]
UNIT = Unit("codec16", ["base.rs"], [RLE16_SPECS, RLE16], broadcasts=("axiom_duplex",))
