"""development unit: rle_16_decompress alone (the same Fn object is part of unit codec)"""
from vx.spec import *
from specs.rle16_fn import RLE16, RLE16_SPECS
UNIT = Unit("codec16", ["base.rs"], [RLE16_SPECS, RLE16])
UNIT.dev = True
