"""session unit, part 2: parsers, activation state machine, fast-path dispatch, RdpClient (C06, C10, C12, C11)."""
from vx.spec import *
from vx.layouts import shape_clauses
GLB = "src/core/global.rs"
CAP = "src/core/capability.rs"
CLI = "src/core/client.rs"
from specs.session_builders import WRITE_REQ, MCS_FRAME, STATE_FRAME
items = []
A = items.append
def G(name, impl=None, **kw):
    A(Fn(GLB, name, impl=impl, mod="global", **kw))

# ---- layouts the parsers return, as predicates over the field list (SHAPES only, derived from the component![..] of the builder: vx.layouts)
def shape_fn(name, builder, file=GLB, nth=1, extra=""):
    body = shape_clauses(file, builder, res="__R", nth=nth)[0][2].replace("__R.fields()", "f")
    return "pub open spec fn %s(f: Seq<(Seq<char>, MV)>) -> bool { %s%s }\n" % (name, body, extra)
A(Raw(
    shape_fn("share_data_fields", "share_data_header") +
    shape_fn("demand_active_fields", "ts_demand_active_pdu", extra=" && cap_sets_ok(f[6].1->Arr_0)") +
    shape_fn("control_fields", "ts_control_pdu") +
    shape_fn("error_info_fields", "ts_set_error_info_pdu") +
    shape_fn("bitmap_data_fields", "ts_bitmap_data", extra=" && (*f[7].1->Dyn_0) is U16") +
    shape_fn("fp_bitmap_fields", "ts_fp_update_bitmap", extra=" && rects_ok(f[2].1->Arr_0)") +
    shape_fn("capability_set_fields", "capability_set", file=CAP, nth=2) + r"""
/// every element is a component with the TS_CAPS_SET layout / the TS_BITMAP_DATA layout
pub open spec fn cap_sets_ok(s: Seq<MV>) -> bool { forall|i: int| 0 <= i < s.len() ==> (#[trigger] s[i]) is Comp && capability_set_fields(s[i]->Comp_0) }
pub open spec fn rects_ok(s: Seq<MV>) -> bool { forall|i: int| 0 <= i < s.len() ==> (#[trigger] s[i]) is Comp && bitmap_data_fields(s[i]->Comp_0) }
/// Message::read keeps the layout (same_shape), spelled out one level at a time
pub open spec fn same_kind(a: MV, b: MV) -> bool {
    (a is U8 <==> b is U8) && (a is U16 <==> b is U16) && (a is U32 <==> b is U32) && (a is Bytes <==> b is Bytes) && (a is Trame <==> b is Trame)
    && (a is Comp <==> b is Comp) && (a is Check <==> b is Check) && (a is Opt <==> b is Opt) && (a is Dyn <==> b is Dyn) && (a is Arr <==> b is Arr)
}
pub proof fn lemma_read_keeps_layout(a: MV, b: MV)
    requires same_shape(a, b), a is Comp,
    ensures b is Comp, b->Comp_0.len() == a->Comp_0.len(),
        forall|i: int| 0 <= i < a->Comp_0.len() ==> (#[trigger] b->Comp_0[i]).0 == a->Comp_0[i].0 && same_kind(a->Comp_0[i].1, b->Comp_0[i].1) && same_shape(a->Comp_0[i].1, b->Comp_0[i].1),
{ reveal_with_fuel(same_shape, 2); }
pub proof fn lemma_read_keeps_elements(a: MV, b: MV)
    requires same_shape(a, b), a is Arr,
    ensures b is Arr, forall|i: int| 0 <= i < b->Arr_0.len() ==> same_shape(*a->Arr_1, #[trigger] b->Arr_0[i]),
{}
pub proof fn lemma_read_keeps_dyn(a: MV, b: MV)
    requires same_shape(a, b), a is Dyn,
    ensures b is Dyn, same_kind(*a->Dyn_0, *b->Dyn_0), same_shape(*a->Dyn_0, *b->Dyn_0),
{ reveal_with_fuel(same_shape, 2); }
""", mod="global", name="reader_shapes"))
KEEP = [(r"\.message\.read\(&mut Cursor::new", 1, "let ghost m0 = %s.message.mv();", "before"),
        (r"\.message\.read\(&mut Cursor::new", 1, "proof { lemma_read_keeps_layout(m0, %s.message.mv()); %s }")]
def keep(var, more=""):
    return [(KEEP[0][0], 1, KEEP[0][2] % var, "before"), (KEEP[1][0], 1, KEEP[1][2] % (var, more))]
# `pdu.pdu_type != PDUType::PdutypeDatapdu` calls the derived PartialEq: Verus needs its meaning.  For a field-less enum
# #[derive(PartialEq)] is equality of the variants (alternative with the same effect: add_derive="Structural" on the Item in session.py)
A(Raw(r"""
impl vstd::std_specs::cmp::PartialEqSpecImpl for PDUType {
    open spec fn obeys_eq_spec() -> bool { true }
    open spec fn eq_spec(&self, other: &Self) -> bool { *self == *other }
}
impl vstd::std_specs::cmp::PartialEqSpecImpl for PDUType2 {
    open spec fn obeys_eq_spec() -> bool { true }
    open spec fn eq_spec(&self, other: &Self) -> bool { *self == *other }
}
""", mod="global", name="derived_eq", trusted="#[derive(PartialEq)] of the field-less enums PDUType / PDUType2 compares the variants (std semantics of the derive)"))

VISIT = """proof {
    assert forall|d: DataType, m: MV| #[trigger] dt_matches(d, m) && d is U16 implies u16_under(m) == Some(d->U16_0) by { lemma_visit_u16(d, m); }
    assert forall|d: DataType, m: MV| #[trigger] dt_matches(d, m) && d is Slice implies bytes_under(m) == Some(d->Slice_0@) by { lemma_visit_slice(d, m); }
}"""
# ---- parsers (C06: total on any bytes; unknown kinds are errors)
G("from_stream", impl=r"impl PDU", props=["C06"], keys=True,
  ensures=[("C06", "monotone", "is_suffix(final(stream).rest(), old(stream).rest())"),
           ("C06", "known-kinds-only", "r is Ok ==> (r->Ok_0.pdu_type is PdutypeDemandactivepdu || r->Ok_0.pdu_type is PdutypeDatapdu || r->Ok_0.pdu_type is PdutypeConfirmactivepdu || r->Ok_0.pdu_type is PdutypeDeactivateallpdu)"),
           ("C06", "data-layout", "r is Ok && r->Ok_0.pdu_type is PdutypeDatapdu ==> share_data_fields(r->Ok_0.message.fields())"),
           ("C06", "demand-active-layout", "r is Ok && r->Ok_0.pdu_type is PdutypeDemandactivepdu ==> demand_active_fields(r->Ok_0.message.fields())")],
  hints=[(r"header\.read\(stream\)\?;", 1, "let ghost m0 = header.mv();", "before"),
         (r"header\.read\(stream\)\?;", 1, "proof { lemma_read_keeps_layout(m0, header.mv()); }")])
# refusal-justification claims on match arms `_ => return Err(..)`: the claim opens a block around the arm expression (on a line of its own, so that a
# failure is attributed to it) and the LAST hint of the function closes it
NOT_IMPL_PDU = r'return Err\(Error::RdpError\(RdpError::new\(RdpErrorKind::NotImplemented, "[^"]*"\)\)\)'
NOT_IMPL_ANY = r'return Err\(Error::RdpError\(RdpError::new\(RdpErrorKind::NotImplemented,[^\n]*\)\)\)'
G("from_control", impl=r"impl PDU", props=["C06", "C12"], keys=True,
  # MS-RDPBCGR 2.2.8.1.1.1.1 pduType: a share control PDU is refused as not implemented only when its type is none of Demand Active 0x11,
  # Confirm Active 0x13, Deactivate All 0x16, Data 0x17 (e.g. the Server Redirection packet 0x1A)
  claims=[(NOT_IMPL_PDU, 1, "{\nproof { let v = wire_pdu_type(control.fields()); assert(v is Some && v->Some_0 != 0x11 && v->Some_0 != 0x13 && v->Some_0 != 0x16 && v->Some_0 != 0x17); }", "at", "C12,C06", "not-implemented-only-for-other-than-the-four-parsed-kinds")],
  requires=["has_key(control.fields(), \"pduType\"@)", "has_key(control.fields(), \"pduMessage\"@)"],
  ensures=[("C06", "known-kinds-only", "r is Ok ==> (r->Ok_0.pdu_type is PdutypeDemandactivepdu || r->Ok_0.pdu_type is PdutypeDatapdu || r->Ok_0.pdu_type is PdutypeConfirmactivepdu || r->Ok_0.pdu_type is PdutypeDeactivateallpdu)"),
           ("C06", "data-layout", "r is Ok && r->Ok_0.pdu_type is PdutypeDatapdu ==> share_data_fields(r->Ok_0.message.fields())"),
           ("C06", "demand-active-layout", "r is Ok && r->Ok_0.pdu_type is PdutypeDemandactivepdu ==> demand_active_fields(r->Ok_0.message.fields())"),
           # the kind of the result is the one carried by the wire field "pduType" (TS_SHARECONTROLHEADER.pduType)
           ("C06,C12", "kind-is-the-wire-field", "r is Ok ==> wire_pdu_type(control.fields()) is Some && PDUType::from_repr(wire_pdu_type(control.fields())->Some_0) == Some(r->Ok_0.pdu_type)")],
  hints=[(r"let pdu_type = cast!\(DataType::U16, control\[\"pduType\"\]\)\?;", 1, """proof { let m = fld(control.fields(), "pduType"@);
            assert forall|d: DataType| #[trigger] dt_matches(d, m) && d is U16 implies u16_under(m) == Some(d->U16_0) by { lemma_visit_u16(d, m); } }""", "before")] + keep("pdu", """if pdu.pdu_type is PdutypeDemandactivepdu {
        lemma_read_keeps_elements(m0->Comp_0[6].1, pdu.message.fields()[6].1);
        let elems = pdu.message.fields()[6].1->Arr_0;
        assert forall|i: int| 0 <= i < elems.len() implies (#[trigger] elems[i]) is Comp && capability_set_fields(elems[i]->Comp_0) by {
            lemma_read_keeps_layout(capability::capability_set_view(1, Seq::empty()), elems[i]);
        } }""") + [(NOT_IMPL_PDU, 1, "}", "atend")])
G("from_pdu", impl=r"impl DataPDU", props=["C06", "C12"], keys=True,
  # MS-RDPBCGR 2.2.8.1.1.1.2 pduType2: a data PDU is refused as not implemented only when its type is none of Synchronize 0x1F, Control 0x14,
  # Font List 0x27, Font Map 0x28, Set Error Info 0x2F
  claims=[(NOT_IMPL_ANY, 1, """{\nproof { let h = fld(data_pdu.message.fields(), "pduType2"@);
            assert(exists|v: u8| #[trigger] dt_matches(DataType::U8(v), h) && v != 0x1F && v != 0x14 && v != 0x27 && v != 0x28 && v != 0x2F); }""", "at", "C12,C06", "not-implemented-only-for-other-than-the-five-parsed-kinds")],
  requires=["has_key(data_pdu.message.fields(), \"pduType2\"@)", "has_key(data_pdu.message.fields(), \"payload\"@)"],
  ensures=[("C06", "known-kinds-only", "r is Ok ==> (r->Ok_0.pdu_type is Pdutype2Synchronize || r->Ok_0.pdu_type is Pdutype2Control || r->Ok_0.pdu_type is Pdutype2Fontlist || r->Ok_0.pdu_type is Pdutype2Fontmap || r->Ok_0.pdu_type is Pdutype2SetErrorInfoPdu)"),
           ("C06", "control-layout", "r is Ok && r->Ok_0.pdu_type is Pdutype2Control ==> control_fields(r->Ok_0.message.fields())"),
           ("C06", "error-info-layout", "r is Ok && r->Ok_0.pdu_type is Pdutype2SetErrorInfoPdu ==> error_info_fields(r->Ok_0.message.fields())")],
  hints=keep("result") + [(NOT_IMPL_ANY, 1, "}", "atend")])
G("from_fp", impl=r"impl FastPathUpdate", props=["C06", "C10"], keys=True, attrs=["#[verifier::rlimit(60)]"],
  requires=["has_key(fast_path.fields(), \"updateHeader\"@)", "has_key(fast_path.fields(), \"updateData\"@)"],
  # MS-RDPBCGR 2.2.9.1.2.1 updateCode (low nibble of updateHeader): an update is refused as not implemented only when its code is none of
  # FASTPATH_UPDATETYPE_BITMAP 0x1, SYNCHRONIZE 0x3, PTR_NULL 0x5, COLOR 0x9 (orders 0x0, palette 0x2, surface commands 0x4 ... are not parsed by this client)
  claims=[(NOT_IMPL_ANY, 1, """{\nproof { let f = fast_path.fields(); let h = f[first_key(f, "updateHeader"@)].1;
            assert(exists|v: u8| #[trigger] dt_matches(DataType::U8(v), h) && v & 0xf != 0x1 && v & 0xf != 0x3 && v & 0xf != 0x5 && v & 0xf != 0x9); }""", "at", "C10,C06", "not-implemented-only-for-codes-other-than-bitmap-synchronize-ptrnull-color")],
  ensures=[("C06,C10", "bitmap-layout", "r is Ok && r->Ok_0.fp_type is FastpathUpdatetypeBitmap ==> fp_bitmap_fields(r->Ok_0.message.fields())"),
           # MS-RDPBCGR 2.2.9.1.2.1: updateCode is the low 4 bits of updateHeader (the kind that is dispatched on is exactly that code)
           ("C10,C06", "update-code-is-the-low-nibble", """r is Ok ==> ({ let f = fast_path.fields(); let h = f[first_key(f, "updateHeader"@)].1;
                exists|v: u8| #[trigger] dt_matches(DataType::U8(v), h) && FastPathUpdateType::from_repr(v & 0xf) == Some(r->Ok_0.fp_type) })""")],
  hints=keep("result", """if result.fp_type is FastpathUpdatetypeBitmap {
        lemma_read_keeps_elements(m0->Comp_0[2].1, result.message.fields()[2].1);
        let elems = result.message.fields()[2].1->Arr_0;
        assert forall|i: int| 0 <= i < elems.len() implies (#[trigger] elems[i]) is Comp && bitmap_data_fields(elems[i]->Comp_0) by {
            lemma_read_keeps_layout(bitmap_data_view(), elems[i]);
            lemma_read_keeps_dyn(bitmap_data_view()->Comp_0[7].1, elems[i]->Comp_0[7].1);
        } }""") + [
      (r"let fp_update_type = ", 1, """proof { let f = fast_path.fields(); let h = f[first_key(f, "updateHeader"@)].1;
            assert(exists|v: u8| #[trigger] dt_matches(DataType::U8(v), h) && FastPathUpdateType::from_repr(v & 0xf) == Some(fp_update_type)); }"""),
      (r"\.message\.read\(&mut Cursor::new", 1, "proof { assert(result.fp_type == fp_update_type); }", "before"),
      (NOT_IMPL_ANY, 1, "}", "atend")])

# ---- client
G("new", impl=r"impl Client", props=["C12"],
  ensures=[("C12", "initial-state", "r.st() is DemandActivePDU && r.uid() == user_id && r.chan() == channel_id && r.share() is None")])
G("read_demand_active_pdu", impl=r"impl Client", props=["C06", "C12", "C03"], keys=True,
  ensures=STATE_FRAME + [("C12", "share-id-recorded", "r is Ok && r->Ok_0 ==> final(self).share() is Some"), ("C12", "share-id-kept", "r is Ok && !r->Ok_0 ==> final(self).share() == old(self).share()")],
  hints=[(r"cast!\(DataType::Trame, pdu\.message\[\"capabilitySets\"\]\)", 1, "it:", "at"),
         (r"for capability_set in", 1, "let ghost caps = pdu.message.fields()[6].1->Arr_0;", "before")],
  # C03 "carries the identifiers the server assigned": the share id kept for the confirm-active / finalization PDUs is the shareId field of
  # THIS demand-active (every activation, not only the first one), relative to the parsed structure
  claims=[(r"(?:return )?Ok\(false\)", 0, "proof { assert(!(pdu.pdu_type is PdutypeDemandactivepdu)); }", "before", "C12,C03", "every-demand-active-is-answered"),
          (r"(?:return )?Ok\(true\)", 1, """proof {
            assert(pdu.message.fields()[0].0 == "shareId"@ && pdu.message.fields()[0].1 is U32);
            assert(self.share() == Some(pdu.message.fields()[0].1->U32_0)); }""", "before", "C03,C12", "share-id-is-this-demand-actives")],
  loops={1: """invariant
            it.seq().len() == caps.len(), forall|k: int| 0 <= k < it.seq().len() ==> (#[trigger] it.seq()[k]).fview() == caps[k], cap_sets_ok(caps),
            self.st() == old(self).st() && self.same_config(old(self)) && self.share() == old(self).share(),"""})
# C12 "advance only on the expected PDU": `Ok(true)` (= the expected PDU was read) is returned only from a share DATA pdu (every exit that says so)
G("read_synchronize_pdu", impl=r"impl Client", props=["C06", "C12", "C03"], keys=True, ensures=STATE_FRAME + [(None, "share", "final(self).share() == old(self).share()")],
  # rule R15: the data-PDU type that is tested is bound to a local so that the claim below can name it
  body_sub=[(r"if DataPDU::from_pdu\(&pdu\)\?\.pdu_type (!=|==) PDUType2::(\w+) \{", r"let __dp_type = DataPDU::from_pdu(&pdu)?.pdu_type; if __dp_type \1 PDUType2::\2 {")],
  claims=[(r"(?:return )?Ok\(true\)", 0, "proof { assert(__dp_type is Pdutype2Synchronize); }", "before", "C12,C03", "expected-pdu-reported-only-for-a-synchronize-pdu", r"let __dp_type = "),
          (r"(?:return )?Ok\(true\)", 0, "proof { assert(pdu.pdu_type is PdutypeDatapdu); }", "before", "C12,C03", "expected-pdu-reported-only-for-a-data-pdu")])
G("read_control_pdu", impl=r"impl Client", props=["C06", "C12", "C03"], keys=True, ensures=STATE_FRAME + [(None, "share", "final(self).share() == old(self).share()")],
  # C12 "advance only on the expected PDU": a control PDU is accepted (Ok(true)) only when its action field is the expected action
  claims=[(r"(?:return )?Ok\(true\)", 0, "proof { assert(pdu.pdu_type is PdutypeDatapdu); }", "before", "C12,C03", "expected-pdu-reported-only-for-a-data-pdu"),
          (r"Ok\(true\)\s*\}\s*$", 1, """proof { let f = data_pdu.message.fields(); let a = f[first_key(f, "action"@)].1;
            assert(a is U16 && a->U16_0 == action as u16); }""", "before", "C12,C03", "control-accepted-only-with-the-expected-action"),
          # refusal justification: a control PDU is refused as a bad message only when its action field is NOT the expected action
          (r"return Err\(.*GLOBAL: bad message type", 1, """proof { let f = data_pdu.message.fields(); let a = f[first_key(f, "action"@)].1;
            assert(pdu.pdu_type is PdutypeDatapdu && data_pdu.pdu_type is Pdutype2Control && a is U16 && a->U16_0 != action as u16); }""", "before", "C12,C03", "control-refused-only-with-another-action")])
G("read_font_map_pdu", impl=r"impl Client", props=["C06", "C12", "C03"], keys=True, ensures=STATE_FRAME + [(None, "share", "final(self).share() == old(self).share()")],
  # rule R15: the data-PDU type that is tested is bound to a local so that the claim below can name it
  body_sub=[(r"if DataPDU::from_pdu\(&pdu\)\?\.pdu_type (!=|==) PDUType2::(\w+) \{", r"let __dp_type = DataPDU::from_pdu(&pdu)?.pdu_type; if __dp_type \1 PDUType2::\2 {")],
  claims=[(r"(?:return )?Ok\(true\)", 0, "proof { assert(__dp_type is Pdutype2Fontmap); }", "before", "C12,C03", "expected-pdu-reported-only-for-a-font-map-pdu", r"let __dp_type = "),
          (r"(?:return )?Ok\(true\)", 0, "proof { assert(pdu.pdu_type is PdutypeDatapdu); }", "before", "C12,C03", "expected-pdu-reported-only-for-a-data-pdu")])
# rule R6: Verus' for-loops do not support `continue`: the loop over the parsed PDUs is spelled as an index loop (increment first, same order, same elements)
G("read_data_pdu", impl=r"impl Client", props=["C06", "C12", "C11"], keys=True,
  body_sub=[(r"for pdu in message\.inner\(\) \{", "let __items = message.inner(); let mut __i: usize = 0; while __i < __items.len() { let pdu = &__items[__i]; __i += 1;")],
  closures={1: dict(params="", ret="-> (c: Component)", spec="ensures c.mv() == share_control_view(0x11, 0, Seq::empty())")},
  loops={1: """invariant __i <= __items.len(),
            forall|k: int| 0 <= k < __items@.len() ==> same_shape(share_control_view(0x11, 0, Seq::empty()), (#[trigger] __items@[k]).fview()),
            self.same_config(old(self)) && self.share() == old(self).share(),
            self.st() is DemandActivePDU || self.st() == old(self).st(),
            // C12 deactivate-all-always-resets: a Deactivate All among the elements processed so far has reset the automaton, whatever follows it; without one the state is untouched
            any_deactivate_all(__items@, __i as int) ==> self.st() is DemandActivePDU,
            !any_deactivate_all(__items@, __i as int) ==> self.st() == old(self).st(),
        decreases __items.len() - __i"""},
  # rule R2 drops `println!(.., cast!(DataType::U32, data_pdu.message["errorInfo"])?)` with its argument: the dropped index / cast are checked here instead
  claims=[(r"Ok\(\(\)\)\s*\}\s*$", 1, """proof {
            assert(any_deactivate_all(__items@, __items@.len() as int) ==> self.st() is DemandActivePDU);
            assert(!any_deactivate_all(__items@, __items@.len() as int) ==> self.st() == old(self).st()); }""", "before", "C12,C11", "deactivate-all-always-resets"),
          (r"match data_pdu\.pdu_type \{", 1, """proof { lemma_keys(); let f = data_pdu.message.fields();
                        assert(data_pdu.pdu_type is Pdutype2SetErrorInfoPdu ==> has_key(f, "errorInfo"@) && fld(f, "errorInfo"@) is U32); }""", "before", "C06", "dropped-diagnostic-index-safe")],
  hints=[(r"let __items = message\.inner\(\);", 1, "proof { assert(message.mv() is Arr); assert forall|k: int| 0 <= k < __items@.len() implies same_shape(share_control_view(0x11, 0, Seq::empty()), (#[trigger] __items@[k]).fview()) by { assert(message.mv()->Arr_0[k] == __items@[k].fview()); } }", "atend"),
         (r"__i \+= 1;", 1, "proof { lemma_keys(); lemma_read_keeps_layout(share_control_view(0x11, 0, Seq::empty()), pdu.fview()); lemma_any_deactivate_all_step(__items@, __i - 1); }", "atend")],
  ensures=[("C12", "only-deactivate-resets", "final(self).st() is Data || final(self).st() is DemandActivePDU || final(self).st() == old(self).st()"),
           (None, "config", "final(self).same_config(old(self)) && final(self).share() == old(self).share()")])
A(Raw(r"""
/// stands for the application callback `T: FnMut(RdpEvent)` (rule R9): records every event it is called with, in order
#[verifier::external_body]
pub struct EventSink { _p: () }
impl EventSink {
    pub uninterp spec fn calls(&self) -> Seq<RdpEvent>;
    #[verifier::external_body]
    pub fn call(&mut self, e: RdpEvent)
        ensures final(self).calls() == old(self).calls().push(e)
    { unimplemented!() }
}
""", mod="global", name="event_sink", trusted="EventSink: the application callback is modelled as a recorder (rule R9)"))
A(Raw(r"""
pub open spec fn appended_only(a: Seq<RdpEvent>, b: Seq<RdpEvent>) -> bool { a.len() <= b.len() && forall|k: int| 0 <= k < a.len() ==> #[trigger] b[k] == a[k] }
/// the field called `k` (what `component[k]` returns)
pub open spec fn fld(f: Seq<(Seq<char>, MV)>, k: Seq<char>) -> MV { f[first_key(f, k)].1 }
/// what `cast!(DataType::U16, field)` / `cast!(DataType::Slice, field)` deliver: the value under the Check / DynOption / Option wrappers
pub open spec fn u16_under(m: MV) -> Option<u16>
    decreases m
{
    match m { MV::U16(v, _) => Some(v), MV::Check(b) => u16_under(*b), MV::Dyn(b, _) => u16_under(*b), MV::Opt(Some(b)) => u16_under(*b), _ => None }
}
pub open spec fn bytes_under(m: MV) -> Option<Seq<u8>>
    decreases m
{
    match m { MV::Bytes(v) => Some(v), MV::Check(b) => bytes_under(*b), MV::Dyn(b, _) => bytes_under(*b), MV::Opt(Some(b)) => bytes_under(*b), _ => None }
}
/// C10: the event the application must receive for one TS_BITMAP_DATA rectangle `f` (MS-RDPBCGR 2.2.9.1.1.3.1.2.2): the seven u16 fields
/// verbatim, compression flag = bit 0 of `flags` (BITMAP_COMPRESSION 0x0001), data = bitmapDataStream
pub open spec fn is_event_of(e: RdpEvent, f: Seq<(Seq<char>, MV)>) -> bool {
    e matches RdpEvent::Bitmap(b)
    && Some(b.dest_left) == u16_under(fld(f, "destLeft"@)) && Some(b.dest_top) == u16_under(fld(f, "destTop"@))
    && Some(b.dest_right) == u16_under(fld(f, "destRight"@)) && Some(b.dest_bottom) == u16_under(fld(f, "destBottom"@))
    && Some(b.width) == u16_under(fld(f, "width"@)) && Some(b.height) == u16_under(fld(f, "height"@)) && Some(b.bpp) == u16_under(fld(f, "bitsPerPixel"@))
    && (exists|flags: u16| Some(flags) == u16_under(fld(f, "flags"@)) && b.is_compress == ((flags & 1u16) != 0u16))
    && Some(b.data@) == bytes_under(fld(f, "bitmapDataStream"@))
}
/// the u16 carried by the "pduType" field of a share control header element
pub open spec fn wire_pdu_type(f: Seq<(Seq<char>, MV)>) -> Option<u16> { u16_under(fld(f, "pduType"@)) }
/// C12: the slow-path element `m` (layout share_control_view) is a Deactivate All PDU (PDUTYPE_DEACTIVATEALLPDU 0x16, MS-RDPBCGR 2.2.8.1.1.1.1)
pub open spec fn is_deactivate_all(m: MV) -> bool { m is Comp && wire_pdu_type(m->Comp_0) == Some(0x16u16) }
/// one of the first `n` parsed elements is a Deactivate All PDU
pub open spec fn any_deactivate_all(items: Seq<Field>, n: int) -> bool { exists|k: int| 0 <= k < n && is_deactivate_all((#[trigger] items[k]).fview()) }
pub proof fn lemma_any_deactivate_all_step(items: Seq<Field>, n: int)
    requires 0 <= n < items.len()
    ensures any_deactivate_all(items, n + 1) == (any_deactivate_all(items, n) || is_deactivate_all(items[n].fview()))
{
    if any_deactivate_all(items, n + 1) {
        let k = choose|k: int| 0 <= k < n + 1 && is_deactivate_all((#[trigger] items[k]).fview());
        if k < n { assert(any_deactivate_all(items, n)); }
    }
    if any_deactivate_all(items, n) {
        let k = choose|k: int| 0 <= k < n && is_deactivate_all((#[trigger] items[k]).fview());
        assert(0 <= k < n + 1 && is_deactivate_all(items[k].fview()));
    }
    if is_deactivate_all(items[n].fview()) { assert(0 <= n < n + 1 && is_deactivate_all(items[n].fview())); }
}
pub proof fn lemma_visit_u16(d: DataType, m: MV)
    requires dt_matches(d, m), d is U16
    ensures u16_under(m) == Some(d->U16_0)
    decreases m
{
    match m { MV::Check(b) => lemma_visit_u16(d, *b), MV::Dyn(b, _) => lemma_visit_u16(d, *b), MV::Opt(Some(b)) => lemma_visit_u16(d, *b), _ => {} }
}
pub proof fn lemma_visit_slice(d: DataType, m: MV)
    requires dt_matches(d, m), d is Slice
    ensures bytes_under(m) == Some(d->Slice_0@)
    decreases m
{
    match m { MV::Check(b) => lemma_visit_slice(d, *b), MV::Dyn(b, _) => lemma_visit_slice(d, *b), MV::Opt(Some(b)) => lemma_visit_slice(d, *b), _ => {} }
}
""", mod="global", name="event_specs"))
R9_SIG = [(r"<T>\(", "("), (r"mut callback: T", "callback: &mut EventSink"), (r"\s*where T: FnMut\(RdpEvent\)\s*", " ")]
G("read_fast_path", impl=r"impl Client", props=["C06", "C10", "C12", "C19"], keys=True,
  sig_sub=R9_SIG, body_sub=[(r"callback\(RdpEvent::Bitmap\(", "callback.call(RdpEvent::Bitmap(")],
  ensures=STATE_FRAME + [("C10", "appends-only", "appended_only(old(callback).calls(), final(callback).calls())"),
                         ("C10", "bitmap-events-only", "forall|k: int| old(callback).calls().len() <= k < final(callback).calls().len() ==> #[trigger] final(callback).calls()[k] is Bitmap")],
  closures={1: dict(params="", ret="-> (c: Component)", spec="ensures c.mv() == fp_update_view()")},
  hints=[(r"for fp_message in", 1, "let ghost mut n_rects: int = 0; let ghost ups = fp_messages.mv()->Arr_0;", "before"),
         (r"fp_messages\.inner\(\)\.iter\(\)", 1, "it1:", "at"),
         (r"match FastPathUpdate::from_fp", 1, "proof { lemma_keys(); lemma_read_keeps_layout(fp_update_view(), fp_message.fview()); }", "before"),
         (r"for rectangle in", 1, "let ghost c0 = callback.calls(); let ghost rects = order.message.fields()[2].1->Arr_0;", "before"),
         (r"cast!\(DataType::Trame, order\.message\[\"rectangles\"\]\)\?", 1, "it2:", "at"),
         (r"let bitmap = cast!\(DataType::Component, rectangle\)\?;", 1, "proof { lemma_keys(); }\n" + VISIT),
         (r"\.to_vec\(\)\s*\}\s*\)\);", 1, "proof { n_rects = n_rects + 1; }")],
  claims=[(r"\.to_vec\(\)\s*\}\s*\)\);", 1, "proof { assert(is_event_of(callback.calls()[c0.len() + it2.index@], bitmap.fields())); }", "after", "C10,C19", "event-built-from-this-rectangle-verbatim")],
  loops={1: """invariant
            self.st() == old(self).st() && self.same_config(old(self)),
            appended_only(old(callback).calls(), callback.calls()),
            forall|k: int| old(callback).calls().len() <= k < callback.calls().len() ==> #[trigger] callback.calls()[k] is Bitmap,
            it1.seq().len() == ups.len(), forall|k: int| 0 <= k < it1.seq().len() ==> (#[trigger] it1.seq()[k]).fview() == ups[k],
            forall|k: int| 0 <= k < ups.len() ==> same_shape(fp_update_view(), #[trigger] ups[k]),
            // the sink grows by exactly one event per rectangle of a bitmap update that parsed: other updates leave it untouched
            callback.calls().len() == old(callback).calls().len() + n_rects,""",
         2: """invariant
            self.st() == old(self).st() && self.same_config(old(self)),
            appended_only(old(callback).calls(), callback.calls()),
            forall|k: int| old(callback).calls().len() <= k < callback.calls().len() ==> #[trigger] callback.calls()[k] is Bitmap,
            callback.calls().len() == old(callback).calls().len() + n_rects,
            it2.seq().len() == rects.len(), rects_ok(rects), forall|k: int| 0 <= k < it2.seq().len() ==> (#[trigger] it2.seq()[k]).fview() == rects[k],
            // C10: after j rectangles the sink holds the events it held before this update followed by exactly j events, the k-th built from the k-th rectangle
            callback.calls().len() == c0.len() + it2.index@,
            forall|k: int| 0 <= k < c0.len() ==> #[trigger] callback.calls()[k] == c0[k],
            forall|j: int| 0 <= j < it2.index@ ==> is_event_of(#[trigger] callback.calls()[c0.len() + j], rects[j]->Comp_0),"""})

G("read", impl=r"impl Client", props=["C12", "C06", "C10"],
  sig_sub=[(r", T>\(", ">("), (r"callback: T", "callback: &mut EventSink"), (r"\s*where T: FnMut\(RdpEvent\)\s*", " ")],
  requires=WRITE_REQ + ["old(self).name@.len() <= 1024"],
  ensures=MCS_FRAME + [
    ("C12", "config", "final(self).same_config(old(self))"),
    ("C12", "transition-relation", """r is Ok ==> match old(self).st() {
        ClientState::DemandActivePDU => (final(self).st() is SynchronizePDU) || (final(self).st() is DemandActivePDU && final(mcs).written() == old(mcs).written()),
        ClientState::SynchronizePDU => (final(self).st() is ControlCooperate || final(self).st() is SynchronizePDU) && final(mcs).written() == old(mcs).written(),
        ClientState::ControlCooperate => (final(self).st() is ControlGranted || final(self).st() is ControlCooperate) && final(mcs).written() == old(mcs).written(),
        ClientState::ControlGranted => (final(self).st() is FontMap || final(self).st() is ControlGranted) && final(mcs).written() == old(mcs).written(),
        ClientState::FontMap => (final(self).st() is Data || final(self).st() is FontMap) && final(mcs).written() == old(mcs).written(),
        ClientState::Data => (final(self).st() is Data || final(self).st() is DemandActivePDU) && final(mcs).written() == old(mcs).written(),
    }"""),
    ("C12", "finalization-exactly-once-per-demand-active", """r is Ok && old(self).st() is DemandActivePDU && final(self).st() is SynchronizePDU ==> ({
      let u = old(mcs).uid()->Some_0; let g = old(mcs).chans()["global"@]; let sh = o32(final(self).share(), 0);
      exists|body: Seq<u8>| #[trigger] share_control_bytes(0x13, old(self).uid(), body).len() > 0 && final(mcs).written() =~= old(mcs).written()
        + mcs::mcs_frame(u, g, share_control_bytes(0x13, old(self).uid(), body))
        + mcs::mcs_frame(u, g, data_pdu_frame(sh, old(self).uid(), 0x1F, sync_body(old(self).chan())))
        + mcs::mcs_frame(u, g, data_pdu_frame(sh, old(self).uid(), 0x14, control_body(4)))
        + mcs::mcs_frame(u, g, data_pdu_frame(sh, old(self).uid(), 0x14, control_body(1)))
        + mcs::mcs_frame(u, g, data_pdu_frame(sh, old(self).uid(), 0x27, fontlist_body())) })"""),
    ("C12", "no-transition-on-error-before-data", "r is Err && !(old(self).st() is Data) ==> final(self).st() == old(self).st()"),
    ("C12,C10", "events-only-in-data", "!(old(self).st() is Data) ==> final(callback).calls() == old(callback).calls()"),
    ("C10", "appends-only", "appended_only(old(callback).calls(), final(callback).calls())"),
    # added (needed by RdpClient::read also on the error paths): only the activation step writes
    ("C12", "writes-only-on-demand-active", "!(old(self).st() is DemandActivePDU) ==> final(mcs).written() == old(mcs).written()")],
  hints=[(r"self\.write_confirm_active_pdu\(mcs\)\?;", 1, "let ghost s1 = *self; let ghost m0 = *mcs;", "before"),
         (r"self\.write_confirm_active_pdu\(mcs\)\?;", 1, "let ghost m1 = *mcs;"),
         # the confirm-active frame (existential of the callee) followed by the four finalization frames: same left-nested concatenation
         (r"self\.write_client_finalize\(mcs\)\?;", 1, """proof {
             let u = old(mcs).uid()->Some_0; let g = old(mcs).chans()["global"@]; let sh = o32(self.share(), 0);
             let body = choose|body: Seq<u8>| #[trigger] share_control_bytes(0x13, s1.uid(), body).len() > 0 && m1.written() =~= m0.written() + mcs::mcs_frame(m0.uid()->Some_0, m0.chans()["global"@], share_control_bytes(0x13, s1.uid(), body));
             assert(m1.written() == m0.written() + mcs::mcs_frame(u, g, share_control_bytes(0x13, old(self).uid(), body)));
             assert(mcs.written() =~= old(mcs).written()
                 + mcs::mcs_frame(u, g, share_control_bytes(0x13, old(self).uid(), body))
                 + mcs::mcs_frame(u, g, data_pdu_frame(sh, old(self).uid(), 0x1F, sync_body(old(self).chan())))
                 + mcs::mcs_frame(u, g, data_pdu_frame(sh, old(self).uid(), 0x14, control_body(4)))
                 + mcs::mcs_frame(u, g, data_pdu_frame(sh, old(self).uid(), 0x14, control_body(1)))
                 + mcs::mcs_frame(u, g, data_pdu_frame(sh, old(self).uid(), 0x27, fontlist_body())));
         }""")])

# ---------------- client.rs: RdpClient
A(Item(CLI, "struct", "RdpClient", mod="client"))
A(Raw(r"""
impl<S: Read + Write + Duplex> RdpClient<S> {
    pub closed spec fn wire(&self) -> Seq<u8> { self.mcs.written() }
    pub closed spec fn incoming(&self) -> Seq<u8> { self.mcs.rest() }
    pub closed spec fn active(&self) -> bool { self.global.st() is Data }
    pub closed spec fn state(&self) -> ClientState { self.global.st() }
    pub closed spec fn ready(&self) -> bool { self.mcs.connected() && self.global.name_len_ok() }
    pub closed spec fn frame_of(&self, body: Seq<u8>) -> Seq<u8> { mcs::mcs_frame(self.mcs.uid()->Some_0, self.mcs.chans()["global"@], body) }
    pub closed spec fn input_pdu(&self, msg_type: u16, data: Seq<u8>) -> Seq<u8> { slow_path_input(o32(self.global.share(), 0), self.global.uid(), msg_type, data) }
    pub closed spec fn same_session(&self, o: &Self) -> bool { self.mcs.same_session(&o.mcs) && self.global.same_config(&o.global) }
}
/// pointer flags of MS-RDPBCGR 2.2.8.1.1.3.1.1.3 (table written from the specification)
pub open spec fn pointer_flags(button: PointerButton, down: bool) -> u16 {
    ((match button { PointerButton::Left => 0x1000u16, PointerButton::Right => 0x2000u16, PointerButton::Middle => 0x4000u16, PointerButton::None => 0x0800u16 })
        | (if down { 0x8000u16 } else { 0u16 }))
}
/// keyboard flags of 2.2.8.1.1.3.1.1.1: KBDFLAGS_RELEASE on key up
pub open spec fn key_flags(down: bool) -> u16 { if down { 0u16 } else { 0x8000u16 } }
""", mod="client", name="client_specs"))
A(Raw(r"""
impl Client {
    pub closed spec fn name_len_ok(&self) -> bool { self.name@.len() <= 1024 }
}
""", mod="global", name="global_specs2"))
A(Raw(r"""
/// the closed accessors of global::Client, for the client module
pub proof fn lemma_client_specs(c: &Client)
    ensures c.same_config(c), c.name_len_ok() == (c.name@.len() <= 1024)
{}
""", mod="global", name="global_lemmas"))
def C(name, **kw):
    A(Fn(CLI, name, impl=r"RdpClient<S>", mod="client", **kw))
KIND = lambda r, k: "%s is Err && %s->Err_0 is RdpError && %s->Err_0->RdpError_0.kind == RdpErrorKind::%s" % (r, r, r, k)
BITS = "proof { " + " ".join("assert((0u16 | %su16) == %su16 && (%su16 | 0u16) == %su16) by(bit_vector);" % (c, c, c, c) for c in ("0x1000", "0x2000", "0x4000", "0x0800", "0x8000")) + " }"
C("write", props=["C11", "C12"],
  requires=["old(self).ready()"],
  ensures=[("C11,C12", "frame", "final(self).incoming() == old(self).incoming() && final(self).same_session(old(self)) && final(self).state() == old(self).state() && is_prefix(old(self).wire(), final(self).wire())"),
           ("C11", "pointer-exactly-once-exact-values", "old(self).active() && r is Ok && event is Pointer ==> final(self).wire() =~= old(self).wire() + old(self).frame_of(old(self).input_pdu(0x8001, le16(pointer_flags(event->Pointer_0.button, event->Pointer_0.down)) + le16(event->Pointer_0.x) + le16(event->Pointer_0.y)))"),
           ("C11", "key-exactly-once-exact-values", "old(self).active() && r is Ok && event is Key ==> final(self).wire() =~= old(self).wire() + old(self).frame_of(old(self).input_pdu(0x0004, le16(key_flags(event->Key_0.down)) + le16(event->Key_0.code) + le16(0)))"),
           ("C11", "unsendable-kinds-refused", "event is Bitmap ==> r is Err && final(self).wire() == old(self).wire()"),
           ("C12,C11", "input-gated-by-state", "!old(self).active() ==> r is Err && final(self).wire() == old(self).wire()"),
           # added: the error kinds try_write dispatches on
           ("C12", "gate-error-kind", "!old(self).active() && !(event is Bitmap) ==> " + KIND("r", "InvalidAutomata")),
           ("C11", "refusal-error-kind", "event is Bitmap ==> " + KIND("r", "UnexpectedType")),
           ("C11,C12", "no-gate-error-when-active", "old(self).active() ==> !automata_err(r)")],
  # constant bit facts: stated at function entry (no anchor needed)
  pre="proof { lemma_client_specs(&self.global); } " + BITS)
C("try_write", props=["C11", "C12"],
  requires=["old(self).ready()"],
  ensures=[("C11,C12", "frame", "final(self).incoming() == old(self).incoming() && final(self).same_session(old(self)) && final(self).state() == old(self).state() && is_prefix(old(self).wire(), final(self).wire())"),
           ("C12", "dropped-outside-window", "!old(self).active() && !(event is Bitmap) ==> r is Ok && final(self).wire() == old(self).wire()"),
           ("C11", "unsendable-kinds-refused", "event is Bitmap ==> r is Err && final(self).wire() == old(self).wire()"),
           ("C11", "pointer-exactly-once-exact-values", "old(self).active() && r is Ok && event is Pointer ==> final(self).wire() =~= old(self).wire() + old(self).frame_of(old(self).input_pdu(0x8001, le16(pointer_flags(event->Pointer_0.button, event->Pointer_0.down)) + le16(event->Pointer_0.x) + le16(event->Pointer_0.y)))"),
           ("C11", "key-exactly-once-exact-values", "old(self).active() && r is Ok && event is Key ==> final(self).wire() =~= old(self).wire() + old(self).frame_of(old(self).input_pdu(0x0004, le16(key_flags(event->Key_0.down)) + le16(event->Key_0.code) + le16(0)))")])
C("read", props=["C12", "C06", "C10"],
  sig_sub=[(r"read<T>\(", "read("), (r"callback: T", "callback: &mut EventSink"), (r"\s*where T: FnMut\(RdpEvent\)\s*", " ")],
  requires=["old(self).ready()"],
  ensures=[("C12", "frame", "final(self).same_session(old(self)) && is_prefix(old(self).wire(), final(self).wire()) && is_suffix(final(self).incoming(), old(self).incoming())"),
           ("C12,C10", "events-only-when-active", "!old(self).active() ==> final(callback).calls() == old(callback).calls()"),
           ("C10", "appends-only", "appended_only(old(callback).calls(), final(callback).calls())"),
           ("C12", "nothing-written-outside-activation", "!(old(self).state() is DemandActivePDU) ==> final(self).wire() == old(self).wire()")],
  pre="proof { lemma_client_specs(&self.global); }")
C("shutdown", props=["C03"])


READER_ITEMS = items
