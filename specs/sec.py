"""unit sec: src/core/sec.rs (Client Info PDU) + src/core/license.rs (licensing answer), above the MCS layer.
C17 (password only in the Client Info PDU, under TLS; empty credentials are the caller's choice; auto-logon flag iff requested), C04 (TS_INFO_PACKET counts / terminators),
C05 (hostile licensing bytes), C03 (client info then licence), C02 (Client Info requires TLS)."""
from vx.spec import *
from vx.layouts import shape_clauses
from specs.common import MCS_OPAQUE, MCS_WRITE, MCS_READ, MCS_V5

SEC = "src/core/sec.rs"
LIC = "src/core/license.rs"
MCS = "src/core/mcs.rs"
TPKT = "src/core/tpkt.rs"

items = []
A = items.append
A(Item(TPKT, "enum", "Payload", mod="tpkt"))
A(MCS_OPAQUE)
A(Stub(MCS, "write", impl=r"Client<S>", mod="mcs", verified_in="mcs", **MCS_WRITE))
A(Stub(MCS, "read", impl=r"Client<S>", mod="mcs", verified_in="mcs", **MCS_READ))
A(Stub(MCS, "is_rdp_version_5_plus", impl=r"Client<S>", mod="mcs", verified_in="mcs", **MCS_V5))

# ---------------- license.rs
A(Item(LIC, "enum", "LicenseMessage", mod="license"))
A(Item(LIC, "enum", "Preambule", mod="license"))
A(Item(LIC, "enum", "MessageType", mod="license", strip_derive=["TryFromPrimitive"], try_from="u8"))
A(Item(LIC, "enum", "ErrorCode", mod="license", strip_derive=["TryFromPrimitive"], try_from="u32"))
A(Item(LIC, "enum", "StateTransition", mod="license", strip_derive=["TryFromPrimitive"], try_from="u32"))
def LF(name, **kw):
    A(Fn(LIC, name, mod="license", **kw))
LF("preamble", ret="c", props=["C05"], ensures=shape_clauses(LIC, "preamble", res="c"))
LF("license_binary_blob", ret="c", props=["C05"], ensures=shape_clauses(LIC, "license_binary_blob", res="c"))
LF("licensing_error_message", ret="c", props=["C05"], ensures=shape_clauses(LIC, "licensing_error_message", res="c"))
LF("parse_payload", props=["C05", "C03"], keys=True,
   requires=["has_key(payload.fields(), \"bMsgtype\"@)", "has_key(payload.fields(), \"message\"@)"],
   ensures=[("C03", "only-new-license-or-error-alert", "r is Ok ==> (r->Ok_0 is NewLicense || r->Ok_0 is ErrorAlert)")])
LF("client_connect", props=["C05", "C03"], keys=True,
   ensures=[("C05", "monotone", "is_suffix(final(s).rest(), old(s).rest())")])

# ---------------- sec.rs
A(Item(SEC, "enum", "SecurityFlag", mod="sec", add_derive="Copy, Clone"))
A(Item(SEC, "enum", "InfoFlag", mod="sec", add_derive="Copy, Clone"))
A(Item(SEC, "enum", "AfInet", mod="sec", add_derive="Copy, Clone"))
A(Raw(r"""
/// TS_INFO_PACKET (MS-RDPBCGR 2.2.1.11.1.1): code page, flags, five byte counts that EXCLUDE the mandatory null terminators, then the
/// five null-terminated UTF-16LE strings (alternate shell and working dir are empty), then the optional extended info
pub open spec fn info_flags(auto_logon: bool) -> u32 {
    (0x0000_0001u32 | 0x0000_0002u32 | 0x0000_0010u32 | 0x0000_0040u32 | 0x0000_0100u32 | 0x0001_0000u32 | (if auto_logon { 0x0000_0008u32 } else { 0u32 }))
}
pub open spec fn zstr(s: Seq<char>) -> Seq<u8> { utf16le(s) + seq![0u8, 0u8] }
pub open spec fn info_packet(domain: Seq<char>, user: Seq<char>, password: Seq<char>, auto_logon: bool, ext: Seq<u8>) -> Seq<u8> {
    le32(0) + le32(info_flags(auto_logon))
        + le16(utf16le(domain).len() as u16) + le16(utf16le(user).len() as u16) + le16(utf16le(password).len() as u16) + le16(0) + le16(0)
        + zstr(domain) + zstr(user) + zstr(password) + seq![0u8, 0u8] + seq![0u8, 0u8] + ext
}
/// basic security header of the Client Info PDU: SEC_INFO_PKT (0x0040), flagsHi 0
pub open spec fn client_info_pdu(info: Seq<u8>) -> Seq<u8> { le16(0x0040) + le16(0) + info }
/// TS_EXTENDED_INFO_PACKET as this client sends it (AF_INET, empty address and dir, zero time zone, session id 0, no performance flags)
pub open spec fn extended_info_len() -> int { 190 }
""", mod="sec", name="sec_specs"))
def SF(name, **kw):
    A(Fn(SEC, name, mod="sec", **kw))
SF("rdp_extended_infos", ret="c", props=["C04"], ensures=shape_clauses(SEC, "rdp_extended_infos", res="c") + [("C04", "size", "ser(c.mv()).len() == extended_info_len()")])
SF("rdp_infos", ret="c", props=["C04", "C17"],
   requires=["domain@.len() <= 512 && username@.len() <= 512 && password@.len() <= 512"],
   ensures=shape_clauses(SEC, "rdp_infos", res="c") + [
       ("C04,C17", "ts-info-packet", "exists|ext: Seq<u8>| ext.len() == (if is_extended_info { extended_info_len() } else { 0 }) && #[trigger] info_packet(domain@, username@, password@, auto_logon, ext) =~= ser(c.mv())"),
       ("C17", "auto-logon-flag-iff-requested", "c.fields()[1].1 == MV::U32(info_flags(auto_logon), true) && (info_flags(auto_logon) & 0x8 != 0 <==> auto_logon)")])
SF("security_header", ret="c", props=["C05"], ensures=shape_clauses(SEC, "security_header", res="c"))
SF("connect", props=["C17", "C02", "C03", "C05"], keys=True,
   requires=["old(mcs).connected()", "old(mcs).server_known()", ("old(mcs).tls()"), "domain@.len() <= 512 && username@.len() <= 512 && password@.len() <= 512"],
   ensures=[("C17,C03", "client-info-first-with-exactly-these-credentials", """r is Ok ==> exists|ext: Seq<u8>| ext.len() == (if old(mcs).v5plus() { extended_info_len() } else { 0 })
                 && #[trigger] is_prefix(old(mcs).written() + mcs::mcs_frame(old(mcs).uid()->Some_0, old(mcs).chans()["global"@], client_info_pdu(info_packet(domain@, username@, password@, auto_logon, ext))), final(mcs).written())"""),
            ("C17", "nothing-else-written", """r is Ok ==> exists|ext: Seq<u8>| #[trigger] (old(mcs).written() + mcs::mcs_frame(old(mcs).uid()->Some_0, old(mcs).chans()["global"@], client_info_pdu(info_packet(domain@, username@, password@, auto_logon, ext)))) =~= final(mcs).written()"""),
            (None, "frame", "final(mcs).same_session(old(mcs)) && is_prefix(old(mcs).written(), final(mcs).written()) && is_suffix(final(mcs).rest(), old(mcs).rest())")])

UNIT = Unit("sec", ["base.rs", "model.rs", "leaf.rs", "lemmas.rs", "unicode.rs"], items,
            uses={"sec": ["use super::mcs;", "use super::tpkt;", "use super::license;"], "license": []}, mods=["tpkt", "mcs", "license", "sec"])
