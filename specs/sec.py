"""unit sec: src/core/sec.rs (Client Info PDU) + src/core/license.rs (licensing answer), above the MCS layer.
C17 (password only in the Client Info PDU, under TLS; empty credentials are the caller's choice; auto-logon flag iff requested), C04 (TS_INFO_PACKET counts / terminators),
C05 (hostile licensing bytes), C03 (client info then licence), C02 (Client Info requires TLS)."""
from vx.spec import *
from vx.layouts import shape_clauses
from specs.common import MCS_OPAQUE, MCS_WRITE, MCS_READ, MCS_V5

import os
# VERIF_DOC_STRICT=1 replaces every "as-implemented" layout clause below by the clause transcribed from the document (these FAIL on the
# current code: each one is a reported discrepancy between the code and MS-RDPBCGR, see the comment at the clause)
DOC_STRICT = os.environ.get("VERIF_DOC_STRICT") == "1"
SEC = "src/core/sec.rs"
LIC = "src/core/license.rs"
MCS = "src/core/mcs.rs"
TPKT = "src/core/tpkt.rs"

items = []
A = items.append
A(Item(TPKT, "enum", "Payload", mod="tpkt"))
A(MCS_OPAQUE)
A(Stub(MCS, "write", impl=r"Client<S>", mod="mcs", verified_in="mcs", **MCS_WRITE))
A(Stub(MCS, "read", impl=r"Client<S>", mod="mcs", verified_in="mcs", **MCS_READ))
A(Stub(MCS, "is_rdp_version_5_plus", impl=r"Client<S>", mod="mcs", verified_in="mcs", **MCS_V5))

# ---------------- license.rs
A(Item(LIC, "enum", "LicenseMessage", mod="license"))
A(Item(LIC, "enum", "Preambule", mod="license"))
A(Item(LIC, "enum", "MessageType", mod="license", strip_derive=["TryFromPrimitive"], try_from="u8"))
A(Item(LIC, "enum", "ErrorCode", mod="license", strip_derive=["TryFromPrimitive"], try_from="u32"))
A(Item(LIC, "enum", "StateTransition", mod="license", strip_derive=["TryFromPrimitive"], try_from="u32"))
def LF(name, **kw):
    A(Fn(LIC, name, mod="license", **kw))
A(Raw(r"""
/// value of the field named `k` (what `component[k]` denotes)
pub open spec fn field_of(f: Seq<(Seq<char>, MV)>, k: Seq<char>) -> MV { f[first_key(f, k)].1 }
/// layout of the licensing error message (MS-RDPBCGR 2.2.1.12.1.3 LICENSE_ERROR_MESSAGE): dwErrorCode, dwStateTransition, bbErrorInfo
pub open spec fn is_error_message(f: Seq<(Seq<char>, MV)>) -> bool {
    f.len() == 3 && f[0].0 == "dwErrorCode"@ && f[0].1 is U32 && f[1].0 == "dwStateTransition"@ && f[1].1 is U32 && f[2].0 == "blob"@
}
/// layout of the licensing preamble (MS-RDPBCGR 2.2.1.12.1.1 LICENSE_PREAMBLE) followed by the message body
pub open spec fn is_preamble(f: Seq<(Seq<char>, MV)>) -> bool {
    f.len() == 4 && f[0].0 == "bMsgtype"@ && f[0].1 is U8 && f[1].0 == "flag"@ && f[2].0 == "wMsgSize"@ && f[3].0 == "message"@ && f[3].1 is Bytes
}
// ---------------- server -> client licensing layouts, transcribed from MS-RDPBCGR 2.2.1.12.1 (NOT derived from the code)
/// LICENSE_PREAMBLE (2.2.1.12.1.1): bMsgType (u8), flags (u8: low nibble = PREAMBLE_VERSION_2_0 0x2 / PREAMBLE_VERSION_3_0 0x3, bit 0x80 =
/// EXTENDED_ERROR_MSG_SUPPORTED), wMsgSize (u16 LE, size of the whole message INCLUDING the 4 preamble bytes), then the message body.
/// `flags` = view of the flags field (the document makes it a plain byte; see preamble() below)
pub open spec fn preamble_view(flags: MV) -> MV {
    MV::Comp(seq![("bMsgtype"@, MV::U8(0)), ("flag"@, flags),
                  ("wMsgSize"@, MV::Dyn(Box::new(MV::U16(0, true)), OV::Size("message"@, 0))),
                  ("message"@, MV::Bytes(Seq::empty()))])
}
/// LICENSE_BINARY_BLOB (2.2.1.12.1.2): wBlobType (u16 LE), wBlobLen (u16 LE), blobData (wBlobLen bytes)
pub open spec fn binary_blob_view() -> MV {
    MV::Comp(seq![("wBlobType"@, MV::U16(0, true)), ("wBlobLen"@, MV::Dyn(Box::new(MV::U16(0, true)), OV::Size("blobData"@, 0))), ("blobData"@, MV::Bytes(Seq::empty()))])
}
/// LICENSE_ERROR_MESSAGE (2.2.1.12.1.3): dwErrorCode (u32 LE), dwStateTransition (u32 LE), bbErrorInfo (LICENSE_BINARY_BLOB)
pub open spec fn error_message_view() -> MV {
    MV::Comp(seq![("dwErrorCode"@, MV::U32(0, true)), ("dwStateTransition"@, MV::U32(0, true)), ("blob"@, binary_blob_view())])
}
""", mod="license", name="license_specs"))
# `ErrorCode::try_from(..)? == ErrorCode::StatusValidClient` calls the derived PartialEq: Verus needs its meaning. For a field-less enum
# #[derive(PartialEq)] is equality of the variants (same treatment as PDUType / PDUType2 in specs/session_readers.py)
A(Raw(r"""
impl vstd::std_specs::cmp::PartialEqSpecImpl for ErrorCode {
    open spec fn obeys_eq_spec() -> bool { true }
    open spec fn eq_spec(&self, other: &Self) -> bool { *self == *other }
}
impl vstd::std_specs::cmp::PartialEqSpecImpl for StateTransition {
    open spec fn obeys_eq_spec() -> bool { true }
    open spec fn eq_spec(&self, other: &Self) -> bool { *self == *other }
}
""", mod="license", name="derived_eq", trusted="#[derive(PartialEq)] of the field-less enums ErrorCode / StateTransition compares the variants (std semantics of the derive)"))
A(Raw(r"""
/// Message::read keeps the layout of the licensing error message
pub proof fn lemma_error_message_kept(a: MV, b: MV)
    requires a is Comp, is_error_message(a->Comp_0), same_shape(a, b)
    ensures b is Comp, is_error_message(b->Comp_0)
{
    reveal_with_fuel(same_shape, 2);
    let f0 = a->Comp_0; let f1 = b->Comp_0;
    assert(f0[0].0 == f1[0].0 && same_shape(f0[0].1, f1[0].1));
    assert(f0[1].0 == f1[1].0 && same_shape(f0[1].1, f1[1].1));
    assert(f0[2].0 == f1[2].0);
}
/// Message::read keeps the layout of the preamble
pub proof fn lemma_preamble_kept(a: MV, b: MV)
    requires a is Comp, is_preamble(a->Comp_0), same_shape(a, b)
    ensures b is Comp, is_preamble(b->Comp_0)
{
    reveal_with_fuel(same_shape, 2);
    let f0 = a->Comp_0; let f1 = b->Comp_0;
    assert(f0[0].0 == f1[0].0 && same_shape(f0[0].1, f1[0].1));
    assert(f0[1].0 == f1[1].0);
    assert(f0[2].0 == f1[2].0);
    assert(f0[3].0 == f1[3].0 && same_shape(f0[3].1, f1[3].1));
}
""", mod="license", name="license_lemmas"))
# MS-RDPBCGR 2.2.1.12.1.1 LICENSE_PREAMBLE: `flags` is a plain byte (version 0x2 or 0x3, optionally | 0x80 EXTENDED_ERROR_MSG_SUPPORTED).
# The pinned tree read it through Check::new(0x03) and rejected the conforming `ff 83 10 00 07 00 00 00 02 00 00 00 04 00 00 00`:
# repaired by a fix: commit (known_findings.json); the clause is the document's.
PREAMBLE_FLAGS = "MV::U8(3)"
PREAMBLE_CID = "preamble-as-documented"
LF("preamble", ret="c", props=["C05", "C03"],
   # closure: "wMsgSize counts the 4 bytes of the preamble" -> the body has wMsgSize - 4 bytes
   closures={1: dict(params="size: &U16", ret="-> (r: MessageOption)", props="C03", cid="message-size-is-wMsgSize-minus-4",
                     spec="ensures r.ov() == OV::Size(\"message\"@, if size.val() >= 4 { (size.val() as usize - 4) as usize } else { 0usize })")},
   ensures=shape_clauses(LIC, "preamble", res="c") + [(None, "layout", "is_preamble(c.fields())"),
                                                       ("C03", PREAMBLE_CID, "c.mv() == preamble_view(%s)" % PREAMBLE_FLAGS)],
   post="proof { assert(c.fields() =~= preamble_view(%s)->Comp_0); }" % PREAMBLE_FLAGS)
# MS-RDPBCGR 2.2.1.12.1.2 LICENSE_BINARY_BLOB: closure = "blobData has wBlobLen bytes"
LF("license_binary_blob", ret="c", props=["C05", "C03"],
   closures={1: dict(params="size: &U16", ret="-> (r: MessageOption)", props="C03", cid="blobData-size-is-wBlobLen", spec="ensures r.ov() == OV::Size(\"blobData\"@, size.val() as usize)")},
   ensures=shape_clauses(LIC, "license_binary_blob", res="c") + [("C03", "license_binary_blob-as-documented", "c.mv() == binary_blob_view()")],
   post="proof { assert(c.fields() =~= binary_blob_view()->Comp_0); }")
# MS-RDPBCGR 2.2.1.12.1.3 LICENSE_ERROR_MESSAGE
LF("licensing_error_message", ret="c", props=["C05", "C03"],
   ensures=shape_clauses(LIC, "licensing_error_message", res="c") + [(None, "layout", "is_error_message(c.fields())"),
                                                                       ("C03", "licensing_error_message-as-documented", "c.mv() == error_message_view()")],
   post="proof { assert(c.fields() =~= error_message_view()->Comp_0); }")
LIC_NOT_IMPL = r'Err\(Error::RdpError\(RdpError::new\(RdpErrorKind::NotImplemented, "[^"]*"\)\)\)'
LF("parse_payload", props=["C05", "C03"], keys=True,
   # refusal justification (MS-RDPBCGR 2.2.1.12.1.1 bMsgType): the client implements no licence negotiation; it may refuse LICENSE_REQUEST 0x01,
   # PLATFORM_CHALLENGE 0x02, UPGRADE_LICENSE 0x04 ... as not implemented, but never NEW_LICENSE 0x03 nor ERROR_ALERT 0xFF
   # (the site is a match arm `_ => Err(..)`: the claim opens a block around the arm expression, on a line of its own; the last hint closes it)
   claims=[(LIC_NOT_IMPL, 1, "{\nproof { let m = field_of(payload.fields(), \"bMsgtype\"@); assert(m is U8 ==> m->U8_0 != 0x03 && m->U8_0 != 0xFF); }", "at", "C03", "not-implemented-only-for-other-than-new-license-and-error-alert")],
   requires=["has_key(payload.fields(), \"bMsgtype\"@)", "has_key(payload.fields(), \"message\"@)"],
   ensures=[("C03", "only-new-license-or-error-alert", "r is Ok ==> (r->Ok_0 is NewLicense || r->Ok_0 is ErrorAlert)"),
            ("C03", "accepted-message-types", "r is Ok && field_of(payload.fields(), \"bMsgtype\"@) is U8 ==> field_of(payload.fields(), \"bMsgtype\"@)->U8_0 == (if r->Ok_0 is NewLicense { 0x03u8 } else { 0xFFu8 })"),
            ("C05,C03", "error-alert-layout", "r is Ok && r->Ok_0 is ErrorAlert ==> is_error_message(r->Ok_0->ErrorAlert_0.fields())")],
   hints=[(r"message\.read\(&mut stream\)\?;", 1, "let ghost m0 = message.mv();", "before"),
          (r"message\.read\(&mut stream\)\?;", 1, "proof { lemma_error_message_kept(m0, message.mv()); }"),
          (LIC_NOT_IMPL, 1, "}", "atend")])
LF("client_connect", props=["C05", "C03"], keys=True,
   ensures=[("C05", "monotone", "is_suffix(final(s).rest(), old(s).rest())")],
   hints=[(r"license_message\.read\(s\)\?;", 1, "let ghost m0 = license_message.mv();", "before"),
          (r"license_message\.read\(s\)\?;", 1, """proof {
        lemma_preamble_kept(m0, license_message.mv());
        let f1 = license_message.fields();
        assert(has_key(f1, "bMsgtype"@) && has_key(f1, "message"@));
        assert(first_key(f1, "bMsgtype"@) == 0);
    }"""),
          (r"LicenseMessage::ErrorAlert\(blob\) => \{", 1, """proof {
                let g = blob.fields();
                assert(g[0].0 == "dwErrorCode"@ && g[1].0 == "dwStateTransition"@);
                assert(has_key(g, "dwErrorCode"@) && has_key(g, "dwStateTransition"@));
                assert(first_key(g, "dwErrorCode"@) == 0);
                assert(first_key(g, "dwStateTransition"@) == 1);
            }""")],
   # refusal justification (MS-RDPBCGR 2.2.1.12.1.3 / 3.2.5.3.? "licence not required" variant): an ERROR_ALERT is refused only when it is NOT
   # STATUS_VALID_CLIENT (0x7) with ST_NO_TRANSITION (0x2)
   claims=[(r"Ok\(\(\)\)", 2, """proof {
                    assert(license_message.fields()[0] == ("bMsgtype"@, MV::U8(0xFF)));
                    assert(blob.fields()[0].0 == "dwErrorCode"@ && blob.fields()[0].1 is U32 && blob.fields()[0].1->U32_0 == 0x7);
                    assert(blob.fields()[1].0 == "dwStateTransition"@ && blob.fields()[1].1 is U32 && blob.fields()[1].1->U32_0 == 0x2);
                }""", "before", "C03", "accepted-only-valid-client-no-transition"),
           (r"Err\(Error::RdpError\(RdpError::new\(RdpErrorKind::InvalidRespond", 0, """proof {
                    assert(license_message.fields()[0] == ("bMsgtype"@, MV::U8(0xFF)));
                    assert(blob.fields()[0].0 == "dwErrorCode"@ && blob.fields()[0].1 is U32 && blob.fields()[1].0 == "dwStateTransition"@ && blob.fields()[1].1 is U32);
                    assert(blob.fields()[0].1->U32_0 != 0x7 || blob.fields()[1].1->U32_0 != 0x2);
                }""", "before", "C03", "error-alert-refused-only-when-not-valid-client-no-transition")])

# ---------------- sec.rs
A(Item(SEC, "enum", "SecurityFlag", mod="sec", add_derive="Copy, Clone"))
A(Item(SEC, "enum", "InfoFlag", mod="sec", add_derive="Copy, Clone"))
A(Item(SEC, "enum", "AfInet", mod="sec", add_derive="Copy, Clone"))
A(Raw(r"""
/// TS_INFO_PACKET (MS-RDPBCGR 2.2.1.11.1.1): code page, flags, five byte counts that EXCLUDE the mandatory null terminators, then the
/// five null-terminated UTF-16LE strings (alternate shell and working dir are empty), then the optional extended info
pub open spec fn info_flags(auto_logon: bool) -> u32 {
    (0x0000_0001u32 | 0x0000_0002u32 | 0x0000_0010u32 | 0x0000_0040u32 | 0x0000_0100u32 | 0x0001_0000u32 | (if auto_logon { 0x0000_0008u32 } else { 0u32 }))
}
pub open spec fn zstr(s: Seq<char>) -> Seq<u8> { utf16le(s) + seq![0u8, 0u8] }
pub open spec fn info_packet(domain: Seq<char>, user: Seq<char>, password: Seq<char>, auto_logon: bool, ext: Seq<u8>) -> Seq<u8> {
    le32(0) + le32(info_flags(auto_logon))
        + le16(utf16le(domain).len() as u16) + le16(utf16le(user).len() as u16) + le16(utf16le(password).len() as u16) + le16(0) + le16(0)
        + zstr(domain) + zstr(user) + zstr(password) + seq![0u8, 0u8] + seq![0u8, 0u8] + ext
}
/// basic security header of the Client Info PDU: SEC_INFO_PKT (0x0040), flagsHi 0
pub open spec fn client_info_pdu(info: Seq<u8>) -> Seq<u8> { le16(0x0040) + le16(0) + info }
/// TS_EXTENDED_INFO_PACKET as this client sends it (AF_INET, empty address and dir, zero time zone, session id 0, no performance flags)
pub open spec fn extended_info_len() -> int { 190 }
/// TS_SECURITY_HEADER (2.2.8.1.1.2.1) as read from the server: flags (u16 LE), flagsHi (u16 LE)
pub open spec fn security_header_view() -> MV { MV::Comp(seq![("securityFlag"@, MV::U16(0, true)), ("securityFlagHi"@, MV::U16(0, true))]) }
""", mod="sec", name="sec_specs"))
A(Raw(r"""
/// one unfolding of Component serialization at a field that is not skipped and asks for no skip
pub proof fn lemma_ser_field(f: Seq<(Seq<char>, MV)>, i: int)
    requires 0 <= i < f.len(), !(opt_of(f[i].1) is Skip)
    ensures ser_fields_from(f, i, Set::empty()) == ser(f[i].1) + ser_fields_from(f, i + 1, Set::empty())
{
    reveal_with_fuel(ser_fields_from, 2);
}
pub proof fn lemma_ser_fields_end(f: Seq<(Seq<char>, MV)>)
    ensures ser_fields_from(f, f.len() as int, Set::empty()) == Seq::<u8>::empty()
{
    reveal_with_fuel(ser_fields_from, 2);
}
/// the 13 fields of rdp_infos serialize to TS_INFO_PACKET
pub proof fn lemma_info_packet(f: Seq<(Seq<char>, MV)>, d: Seq<char>, u: Seq<char>, p: Seq<char>, al: bool)
    requires f.len() == 13,
        f[0].1 == MV::U32(0, true), f[1].1 == MV::U32(info_flags(al), true),
        f[2].1 == MV::U16(utf16le(d).len() as u16, true), f[3].1 == MV::U16(utf16le(u).len() as u16, true), f[4].1 == MV::U16(utf16le(p).len() as u16, true),
        f[5].1 == MV::U16(0, true), f[6].1 == MV::U16(0, true),
        f[7].1 == MV::Bytes(zstr(d)), f[8].1 == MV::Bytes(zstr(u)), f[9].1 == MV::Bytes(zstr(p)),
        f[10].1 == MV::Bytes(seq![0u8, 0u8]), f[11].1 == MV::Bytes(seq![0u8, 0u8]), f[12].1 is Comp,
    ensures ser(MV::Comp(f)) =~= info_packet(d, u, p, al, ser(f[12].1))
{
    lemma_ser_field(f, 0); lemma_ser_field(f, 1); lemma_ser_field(f, 2); lemma_ser_field(f, 3); lemma_ser_field(f, 4); lemma_ser_field(f, 5); lemma_ser_field(f, 6);
    lemma_ser_field(f, 7); lemma_ser_field(f, 8); lemma_ser_field(f, 9); lemma_ser_field(f, 10); lemma_ser_field(f, 11); lemma_ser_field(f, 12);
    lemma_ser_fields_end(f);
    reveal_with_fuel(ser, 1);
    assert(ser(MV::Comp(f)) == ser_fields_from(f, 0, Set::empty()));
    assert(ser(f[0].1) == le32(0)); assert(ser(f[1].1) == le32(info_flags(al)));
    assert(ser(f[2].1) == le16(utf16le(d).len() as u16)); assert(ser(f[3].1) == le16(utf16le(u).len() as u16)); assert(ser(f[4].1) == le16(utf16le(p).len() as u16));
    assert(ser(f[5].1) == le16(0)); assert(ser(f[6].1) == le16(0));
    assert(ser(f[7].1) == zstr(d)); assert(ser(f[8].1) == zstr(u)); assert(ser(f[9].1) == zstr(p));
    assert(ser(f[10].1) == seq![0u8, 0u8]); assert(ser(f[11].1) == seq![0u8, 0u8]);
}
""", mod="sec", name="sec_lemmas"))
RDP_INFOS_POST = r"""proof {
        broadcast use axiom_utf16le_len;
        let f = c.fields();
        let d = utf16le(domain@); let u = utf16le(username@); let p = utf16le(password@);
        assert(domain_format@ =~= zstr(domain@));
        assert(username_format@ =~= zstr(username@));
        assert(password_format@ =~= zstr(password@));
        assert((1u32 | 0x10u32 | 0x40u32 | 0x10000u32 | 2u32 | 0x100u32 | 8u32) == (1u32 | 2u32 | 0x10u32 | 0x40u32 | 0x100u32 | 0x10000u32 | 8u32)) by(bit_vector);
        assert((1u32 | 0x10u32 | 0x40u32 | 0x10000u32 | 2u32 | 0x100u32 | 0u32) == (1u32 | 2u32 | 0x10u32 | 0x40u32 | 0x100u32 | 0x10000u32 | 0u32)) by(bit_vector);
        assert((1u32 | 2u32 | 0x10u32 | 0x40u32 | 0x100u32 | 0x10000u32 | 8u32) & 0x8 != 0) by(bit_vector);
        assert((1u32 | 2u32 | 0x10u32 | 0x40u32 | 0x100u32 | 0x10000u32 | 0u32) & 0x8 == 0) by(bit_vector);
        assert(f[0] == ("codePage"@, MV::U32(0, true)));
        assert(f[1] == ("flag"@, MV::U32(info_flags(auto_logon), true)));
        assert(f[2] == ("cbDomain"@, MV::U16(d.len() as u16, true)));
        assert(f[3] == ("cbUserName"@, MV::U16(u.len() as u16, true)));
        assert(f[4] == ("cbPassword"@, MV::U16(p.len() as u16, true)));
        assert(f[5] == ("cbAlternateShell"@, MV::U16(0, true)));
        assert(f[6] == ("cbWorkingDir"@, MV::U16(0, true)));
        assert(f[7] == ("domain"@, MV::Bytes(zstr(domain@))));
        assert(f[8] == ("userName"@, MV::Bytes(zstr(username@))));
        assert(f[9] == ("password"@, MV::Bytes(zstr(password@))));
        assert(f[10].1 is Bytes && f[10].1->Bytes_0 =~= seq![0u8, 0u8]);
        assert(f[11].1 is Bytes && f[11].1->Bytes_0 =~= seq![0u8, 0u8]);
        assert(f[12].1 is Comp);
        let ext = ser(f[12].1);
        assert(!is_extended_info ==> ext.len() == 0) by { reveal_with_fuel(ser, 2); reveal_with_fuel(ser_fields_from, 2); }
        assert(ext.len() == (if is_extended_info { extended_info_len() } else { 0 }));
        lemma_info_packet(f, domain@, username@, password@, auto_logon);
        assert(info_packet(domain@, username@, password@, auto_logon, ext) =~= ser(c.mv()));
     }"""
def SF(name, **kw):
    A(Fn(SEC, name, mod="sec", **kw))
SF("rdp_extended_infos", ret="c", props=["C04"], fuel=10,
   closures={1: dict(params="x: &U16", ret="-> (r: MessageOption)", spec="ensures r.ov() == OV::Size(\"clientAddress\"@, (x.val() as usize + 2) as usize)")},
   ensures=shape_clauses(SEC, "rdp_extended_infos", res="c") + [("C04", "size", "ser(c.mv()).len() == extended_info_len()")])
SF("rdp_infos", ret="c", props=["C04", "C17"], post=RDP_INFOS_POST,
   requires=["domain@.len() <= 512 && username@.len() <= 512 && password@.len() <= 512"],
   ensures=shape_clauses(SEC, "rdp_infos", res="c") + [
       ("C04,C17", "ts-info-packet", "exists|ext: Seq<u8>| ext.len() == (if is_extended_info { extended_info_len() } else { 0 }) && #[trigger] info_packet(domain@, username@, password@, auto_logon, ext) =~= ser(c.mv())"),
       ("C04", "counts-exclude-terminator-and-do-not-truncate", "c.fields()[2].1->U16_0 as int == utf16le(domain@).len() && c.fields()[3].1->U16_0 as int == utf16le(username@).len() && c.fields()[4].1->U16_0 as int == utf16le(password@).len()"
               " && c.fields()[7].1 == MV::Bytes(zstr(domain@)) && c.fields()[8].1 == MV::Bytes(zstr(username@)) && c.fields()[9].1 == MV::Bytes(zstr(password@))"),
       ("C17", "auto-logon-flag-iff-requested", "c.fields()[1].1 == MV::U32(info_flags(auto_logon), true) && (info_flags(auto_logon) & 0x8 != 0 <==> auto_logon)")])
# MS-RDPBCGR 2.2.8.1.1.2.1 TS_SECURITY_HEADER (basic security header), as READ in front of the licensing PDU: flags (u16 LE), flagsHi (u16 LE)
SF("security_header", ret="c", props=["C05", "C03"],
   ensures=shape_clauses(SEC, "security_header", res="c") + [("C03", "security_header-as-documented", "c.mv() == security_header_view()")],
   post="proof { assert(c.fields() =~= security_header_view()->Comp_0); }")
SF("connect", props=["C17", "C02", "C03", "C05"], keys=True, fuel=5,
   pre="let ghost w0 = mcs.written(); let ghost uid = mcs.uid()->Some_0; let ghost gl = mcs.chans()[\"global\"@]; let ghost v5 = mcs.v5plus();",
   hints=[(r"let \(_channel_name, payload\) = mcs\.read\(\)\?;", 1, """let ghost w1 = mcs.written();
    proof {
        broadcast use axiom_utf16le_len;
        assert(exists|ext: Seq<u8>| ext.len() == (if v5 { extended_info_len() } else { 0 }) && w1 =~= w0 + mcs::mcs_frame(uid, gl, client_info_pdu(#[trigger] info_packet(domain@, username@, password@, auto_logon, ext))));
    }
    let ghost ext = choose|ext: Seq<u8>| ext.len() == (if v5 { extended_info_len() } else { 0 }) && w1 =~= w0 + mcs::mcs_frame(uid, gl, client_info_pdu(#[trigger] info_packet(domain@, username@, password@, auto_logon, ext)));
""", "before"),
          (r"Ok\(\(\)\)", 1, """proof {
        assert(mcs.written() == w1);
        assert(w0 + mcs::mcs_frame(uid, gl, client_info_pdu(info_packet(domain@, username@, password@, auto_logon, ext))) =~= mcs.written());
        assert(is_prefix(w0 + mcs::mcs_frame(uid, gl, client_info_pdu(info_packet(domain@, username@, password@, auto_logon, ext))), mcs.written()));
    }""", "before")],
   # C03 "any accepted-licence variant": MS-RDPBCGR 2.2.8.1.1.2.1 the licensing PDU's security header has SEC_LICENSE_PKT (0x0080) set, possibly next to
   # other flags (SEC_LICENSE_ENCRYPT_CS 0x0200 ...): the reply is refused for its flags ONLY when that bit is clear
   claims=[(r"return Err\(.*Invalid Licence packet", 1, """proof {
        reveal_with_fuel(same_shape, 3);
        let h = header.fields(); let g = security_header_view()->Comp_0;
        assert(h.len() == 2 && g.len() == 2);
        assert(h[0].0 == g[0].0 && same_shape(g[0].1, h[0].1));
        assert(h[0].0 == "securityFlag"@ && h[0].1 is U16);
        assert(first_key(h, "securityFlag"@) == 0);
        assert(h[0].1->U16_0 & 0x0080 == 0); }""", "before", "C03", "licence-reply-refused-only-without-SEC_LICENSE_PKT")],
   requires=["old(mcs).connected()", "old(mcs).server_known()", ("old(mcs).tls()"), "domain@.len() <= 512 && username@.len() <= 512 && password@.len() <= 512"],
   ensures=[("C17,C03", "client-info-first-with-exactly-these-credentials", """r is Ok ==> exists|ext: Seq<u8>| ext.len() == (if old(mcs).v5plus() { extended_info_len() } else { 0 })
                 && #[trigger] is_prefix(old(mcs).written() + mcs::mcs_frame(old(mcs).uid()->Some_0, old(mcs).chans()["global"@], client_info_pdu(info_packet(domain@, username@, password@, auto_logon, ext))), final(mcs).written())"""),
            ("C17", "nothing-else-written", """r is Ok ==> exists|ext: Seq<u8>| #[trigger] (old(mcs).written() + mcs::mcs_frame(old(mcs).uid()->Some_0, old(mcs).chans()["global"@], client_info_pdu(info_packet(domain@, username@, password@, auto_logon, ext)))) =~= final(mcs).written()"""),
            (None, "frame", "final(mcs).same_session(old(mcs)) && is_prefix(old(mcs).written(), final(mcs).written()) && is_suffix(final(mcs).rest(), old(mcs).rest())")])

UNIT = Unit("sec", ["base.rs", "model.rs", "leaf.rs", "lemmas.rs", "unicode.rs"], items,
            uses={"sec": ["use super::mcs;", "use super::tpkt;", "use super::license;"], "license": []}, mods=["tpkt", "mcs", "license", "sec"])
