"""unit connector: src/core/client.rs Connector::connect — the layered connect, above the contracts of every layer.
C17 (mode flags threaded: restricted admin -> empty credentials in the Client Info PDU and announced in the request; auto-logon; password only under TLS),
C02 (Client Info only on a TLS connection), C03 (x224 -> mcs -> sec -> global order; identifiers handed to the global channel)."""
from vx.spec import *
from specs import mcs as M
from specs import sec as SEC_U

CLI = "src/core/client.rs"
SEC = "src/core/sec.rs"

items = stubs_of(M.UNIT.items, "mcs")
A = items.append
# the Client Info layer: spec functions of unit sec + its contract
for x in SEC_U.UNIT.items:
    if x.kind == "raw" and x.mod == "sec" and x.name == "sec_specs":
        A(x)
    if x.kind == "fn" and x.mod == "sec" and x.name == "connect":
        A(to_stub(x, "sec"))

A(Raw(r"""
/// stand-in for core::global::Client (verified in unit session): only what Connector::connect hands to it
#[verifier::external_body]
pub struct Client { _p: () }
impl Client {
    pub uninterp spec fn uid(&self) -> u16;
    pub uninterp spec fn chan(&self) -> u16;
    pub uninterp spec fn initial(&self) -> bool;
    #[verifier::external_body]
    pub fn new(user_id: u16, channel_id: u16, width: u16, height: u16, layout: KeyboardLayout, name: &str) -> (r: Client)
        ensures r.uid() == user_id && r.chan() == channel_id && r.initial()
    { unimplemented!() }
}
""", mod="global", name="global_opaque", trusted="global::Client as an opaque type; its `new` contract (initial state, identifiers stored) is proved in unit session"))
A(Raw(r"""
/// stand-in for nla::ntlm::Ntlm (unit ntlm): an AuthenticationProtocol
#[verifier::external_body]
pub struct Ntlm { _p: () }
impl Ntlm {
    #[verifier::external_body]
    pub fn new(domain: String, user: String, password: String) -> (r: Ntlm) { unimplemented!() }
    #[verifier::external_body]
    pub fn from_hash(domain: String, user: String, password_hash: &[u8]) -> (r: Ntlm) { unimplemented!() }
}
impl AuthenticationProtocol for Ntlm {
    #[verifier::external_body]
    fn create_negotiate_message(&mut self) -> RdpResult<Vec<u8>> { unimplemented!() }
    #[verifier::external_body]
    fn read_challenge_message(&mut self, request: &[u8]) -> RdpResult<Vec<u8>> { unimplemented!() }
    #[verifier::external_body]
    fn build_security_interface(&self) -> Box<dyn GenericSecurityService> { unimplemented!() }
    #[verifier::external_body]
    fn get_domain_name(&self) -> Vec<u8> { unimplemented!() }
    #[verifier::external_body]
    fn get_user_name(&self) -> Vec<u8> { unimplemented!() }
    #[verifier::external_body]
    fn get_password(&self) -> Vec<u8> { unimplemented!() }
}
""", mod="ntlm", name="ntlm_opaque", trusted="nla::ntlm::Ntlm as an opaque AuthenticationProtocol (unit ntlm)"))

A(Item(CLI, "struct", "RdpClient", mod="client"))
A(Item(CLI, "struct", "Connector", mod="client"))
A(Raw(r"""
impl<S: Read + Write + Duplex> RdpClient<S> {
    pub closed spec fn wire(&self) -> Seq<u8> { self.mcs.written() }
    pub closed spec fn tls(&self) -> bool { self.mcs.tls() }
    pub closed spec fn mcs_uid(&self) -> Option<u16> { self.mcs.uid() }
    pub closed spec fn global_chan(&self) -> u16 { self.mcs.chans()["global"@] }
    pub closed spec fn connected(&self) -> bool { self.mcs.connected() }
    pub closed spec fn global_uid(&self) -> u16 { self.global.uid() }
    pub closed spec fn global_channel(&self) -> u16 { self.global.chan() }
    pub closed spec fn v5plus(&self) -> bool { self.mcs.v5plus() }
}
pub open spec fn offered(use_nla: bool) -> u32 { if use_nla { 3u32 } else { 1u32 } }
pub open spec fn sel(restricted: bool, s: Seq<char>) -> Seq<char> { if restricted { Seq::<char>::empty() } else { s } }
""", mod="client", name="connector_specs"))
A(Fn(CLI, "connect", impl=r"impl Connector", mod="client", props=["C17", "C02", "C03", "C11", "C12"],
     # ghost snapshots are kept in hint entries of their own (no assertion inside) so that they survive a hint-free re-run
     hints=[(r"let x224 = x224::Client::connect\(", 1, """let ghost w0 = tcp.written();
        let ghost req = w0 + tpkt::tpkt_frame(x224::conn_req_bytes((if self.restricted_admin_mode { 1u8 } else { 0u8 }), protocols));""", "before"),
            # `protocols |= ProtocolHybrid as u32` on `ProtocolSSL as u32`: 1 | 2 == 3; Link::new(Stream::Raw(stream)) carries written() over
            (r"let x224 = x224::Client::connect\(", 1, "proof { assert(1u32 | 2u32 == 3u32) by(bit_vector); assert(protocols == offered(self.use_nla)); assert(w0 == stream.written()); }", "before"),
            (r"let x224 = x224::Client::connect\([^;]*\)\?;", 1, "let ghost w1 = x224.written();"),
            (r"let x224 = x224::Client::connect\([^;]*\)\?;", 1, "proof { assert(is_prefix(req, w1)); }"),
            # the mcs trace right before sec::connect = witness `pre` of the Client Info clause
            (r"mcs\.connect\(self\.name\.clone\(\)", 1, "let ghost w2 = mcs.written(); let ghost uid = mcs.uid()->Some_0; let ghost gl = mcs.chans()[\"global\"@];"),
            # the view of "".to_string() is the empty sequence (needed by sec::connect's length precondition and by sel(true, ..))
            (r"mcs\.connect\(self\.name\.clone\(\)", 1, "proof { mcs::lemma_prefix_trans(req, w1, w2); reveal_strlit(\"\"); assert(\"\"@ =~= Seq::<char>::empty()); }"),
            (r"let global = global::Client::new\(", 1, "let ghost d = sel(self.restricted_admin_mode, self.domain@); let ghost u = sel(self.restricted_admin_mode, self.username@); let ghost p = sel(self.restricted_admin_mode, self.password@);", "before"),
            # both branches of `if self.restricted_admin_mode`: sec::connect's clause nothing-else-written, stated with sel(..)
            (r"let global = global::Client::new\(", 1, "proof { assert(exists|ext: Seq<u8>| #[trigger] (w2 + mcs::mcs_frame(uid, gl, sec::client_info_pdu(sec::info_packet(d, u, p, self.auto_logon, ext)))) =~= mcs.written()); }", "before"),
            (r"let global = global::Client::new\(", 1, "let ghost ext = choose|ext: Seq<u8>| #[trigger] (w2 + mcs::mcs_frame(uid, gl, sec::client_info_pdu(sec::info_packet(d, u, p, self.auto_logon, ext)))) =~= mcs.written();", "before"),
            (r"let global = global::Client::new\(", 1, "proof { mcs::lemma_prefix_trans(req, w2, mcs.written()); assert(ext.len() >= 0 && w2.len() >= 0); }", "before")],
     # the certificate-validation switch of the configuration is the one the TLS layer gets, whatever the other options (x224::connect's
     # clause certificate-flag-threaded makes the flag of the returned client equal to the argument it was given)
     claims=[(r"let x224 = x224::Client::connect\([^;]*\)\?;", 1, "proof { assert(x224.cert_checked() == self.check_certificate); }", "after", "C02", "certificate-check-is-the-configured-one")],
     requires=["old(self).domain@.len() <= 512 && old(self).username@.len() <= 512 && old(self).password@.len() <= 512", "stream.rest().len() >= 0"],
     ensures=[("C02", "tls-before-client-info", "r is Ok ==> r->Ok_0.tls()"),
              ("C03,C11,C12,C10", "identifiers-threaded", "r is Ok ==> r->Ok_0.connected() && r->Ok_0.global_uid() == r->Ok_0.mcs_uid()->Some_0 && r->Ok_0.global_channel() == r->Ok_0.global_chan()"),
              ("C17,C03", "request-announces-mode-and-offer", "r is Ok ==> is_prefix(stream.written() + tpkt::tpkt_frame(x224::conn_req_bytes((if old(self).restricted_admin_mode { 1u8 } else { 0u8 }), offered(old(self).use_nla))), r->Ok_0.wire())"),
              ("C17", "client-info-last-with-mode-dependent-credentials", """r is Ok ==> exists|pre: Seq<u8>, ext: Seq<u8>| #![trigger sec::info_packet(sel(old(self).restricted_admin_mode, old(self).domain@), sel(old(self).restricted_admin_mode, old(self).username@), sel(old(self).restricted_admin_mode, old(self).password@), old(self).auto_logon, ext), pre.len()]
                    r->Ok_0.wire() =~= pre + mcs::mcs_frame(r->Ok_0.mcs_uid()->Some_0, r->Ok_0.global_chan(),
                        sec::client_info_pdu(sec::info_packet(sel(old(self).restricted_admin_mode, old(self).domain@), sel(old(self).restricted_admin_mode, old(self).username@), sel(old(self).restricted_admin_mode, old(self).password@), old(self).auto_logon, ext)))"""),
              (None, "config-untouched", "final(self).restricted_admin_mode == old(self).restricted_admin_mode && final(self).auto_logon == old(self).auto_logon")]))

# ---- the configuration setters (builder methods): each sets exactly its field(s) to its argument(s) and leaves every other option alone
# (C17 / C02: "for every combination of {NLA, restricted admin, blank credentials, auto logon, ...}" is a statement about what connect() is
# given: a setter that writes another option's field silently changes the mode)
_FIELDS = {"width": "r.width == %s", "height": "r.height == %s", "layout": "r.layout == %s", "restricted_admin_mode": "r.restricted_admin_mode == %s", "domain": "r.domain@ == %s@",
           "username": "r.username@ == %s@", "password": "r.password@ == %s@", "password_hash": "r.password_hash == %s", "auto_logon": "r.auto_logon == %s", "blank_creds": "r.blank_creds == %s",
           "check_certificate": "r.check_certificate == %s", "name": "r.name@ == %s@", "use_nla": "r.use_nla == %s"}
def _setter(fn, sets, props):
    cl = [(",".join(props), "sets-%s" % f.replace("_", "-"), _FIELDS[f] % v) for f, v in sets.items()]
    rest = [(_FIELDS[f] % ("self." + f)).replace("self.password_hash", "self.password_hash") for f in _FIELDS if f not in sets]
    cl.append((",".join(props), "other-options-untouched", " && ".join(rest)))
    # rule R14: Verus does not support a `mut self` parameter: it becomes `self`, rebound at body entry (`let mut __s = self;`), and the body's
    # `self` is spelled `__s` (same statements, same order)
    A(Fn(CLI, fn, impl=r"impl Connector", mod="client", ret="r", props=props, ensures=cl,
         sig_sub=[(r"\(mut self", "(self")], body_sub=[(r"\bself\b", "__s")], pre="let mut __s = self;"))
_setter("screen", {"width": "width", "height": "height"}, ["C03"])
_setter("credentials", {"domain": "domain", "username": "username", "password": "password"}, ["C17", "C03"])
_setter("set_restricted_admin_mode", {"restricted_admin_mode": "state"}, ["C17", "C03"])
_setter("set_password_hash", {"password_hash": "Some(password_hash)"}, ["C17", "C15"])
_setter("layout", {"layout": "layout"}, ["C03"])
_setter("auto_logon", {"auto_logon": "auto_logon"}, ["C17"])
_setter("blank_creds", {"blank_creds": "blank_creds"}, ["C17"])
_setter("check_certificate", {"check_certificate": "check_certificate"}, ["C02"])
_setter("name", {"name": "name"}, ["C03", "C04"])
_setter("use_nla", {"use_nla": "use_nla"}, ["C02", "C17"])

# the constructor: nothing is "requested" by default (C17: the auto-logon flag is set exactly when requested; restricted admin / blank credentials /
# hash login are opt-in)
A(Fn(CLI, "new", impl=r"impl Connector", mod="client", ret="r", props=["C17"],
     ensures=[("C17", "nothing-requested-by-default", "!r.auto_logon && !r.restricted_admin_mode && !r.blank_creds && r.password_hash is None")]))

UNIT = Unit("connector", M.UNIT.preludes, items,
            uses=dict(M.UNIT.uses, sec=["use super::mcs;", "use super::tpkt;"], client=["use super::x224;", "use super::mcs;", "use super::tpkt;", "use super::sec;", "use super::global;", "use super::link::*;", "use super::gcc::KeyboardLayout;", "use super::ntlm::Ntlm;", "use super::sspi::*;"],
                      ntlm=["use super::sspi::*;"], **{"global": ["use super::gcc::KeyboardLayout;"]}),
            mods=M.UNIT.mods + ["sec", "global", "ntlm", "client"])
