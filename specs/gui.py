"""unit gui: src/bin/mstsc-rs.rs fast_bitmap_transfer (C19), with BitmapEvent::decompress by contract (proved in unit codec)."""
from vx.spec import *

BIN = "src/bin/mstsc-rs.rs"
EVT = "src/core/event.rs"

gui_specs = Raw(r"""
/// the window buffer after painting `rows` rows of `count` pixels at (top, left) from the 32-bit image `px` of row stride `bw`
pub open spec fn painted(old_b: Seq<u32>, new_b: Seq<u32>, width: int, top: int, left: int, rows: int, count: int, bw: int, px: Seq<u32>) -> bool {
    new_b.len() == old_b.len() &&
    forall|y: int, x: int| #![trigger new_b[y * width + x]] 0 <= y && 0 <= x < width && y * width + x < old_b.len() ==>
        new_b[y * width + x] == (if top <= y < top + rows && left <= x < left + count { px[(y - top) * bw + (x - left)] } else { old_b[y * width + x] })
}
pub proof fn lemma_cell(y: int, x: int, r: int, width: int, left: int, count: int)
    requires 0 <= x < width, 0 <= y, 0 <= r, 0 <= left, 0 < count, left + count <= width
    ensures y < r ==> y * width + x < r * width + left,
            y > r ==> y * width + x >= r * width + left + count,
            y == r ==> y * width + x == r * width + x,
{
    if y < r {
        assert((y + 1) * width <= r * width) by(nonlinear_arith) requires y + 1 <= r, width >= 0;
        assert((y + 1) * width == y * width + width) by(nonlinear_arith);
    }
    if y > r {
        assert((r + 1) * width <= y * width) by(nonlinear_arith) requires r + 1 <= y, width >= 0;
        assert((r + 1) * width == r * width + width) by(nonlinear_arith);
    }
}
pub proof fn lemma_row_bound(i: int, top: int, width: int, left: int, count: int)
    requires 0 <= i <= 0xffff, 0 <= top <= 0xffff, 0 <= width <= usize::MAX, 0 <= left <= 0xffff, 0 <= count <= 0x10000
    ensures 0 <= (i + top) * width, (i + top) * width + left + count <= 0x1_0000_0000_0000_0000 * 0x20000
{
    assert(0 <= (i + top) * width <= 0x1fffe * 0x1_0000_0000_0000_0000) by(nonlinear_arith) requires 0 <= i + top <= 0x1fffe, 0 <= width <= 0xffff_ffff_ffff_ffff;
}
pub proof fn lemma_src_bound(i: int, bw: int)
    requires 0 <= i <= 0xffff, 0 <= bw <= 0xffff
    ensures 0 <= i * bw <= 0xffff * 0xffff
{
    assert(0 <= i * bw <= 0xffff * 0xffff) by(nonlinear_arith) requires 0 <= i <= 0xffff, 0 <= bw <= 0xffff;
}
pub proof fn lemma_rows_disjoint(a: int, b: int, width: int, left: int, count: int)
    requires 0 <= a < b, 0 <= left, 0 < count, left + count <= width
    ensures a * width + left + count <= b * width + left
{
    assert((a + 1) * width <= b * width) by(nonlinear_arith) requires a + 1 <= b, width >= 0;
    assert((a + 1) * width == a * width + width) by(nonlinear_arith);
}
/// the arithmetic of re-typing `n` of `c` elements of size `s` as elements of size `t`: the scaled counts never describe more bytes than the source
pub proof fn lemma_scaled(n: int, c: int, s: int, t: int)
    requires 0 <= n <= c, 0 <= s, 0 < t
    ensures 0 <= n * s <= c * s, 0 <= n * s / t, (n * s / t) * t <= n * s, (c * s / t) * t <= c * s, n * s / t <= c * s / t
{
    assert(n * s <= c * s) by(nonlinear_arith) requires 0 <= n <= c, 0 <= s;
    assert(0 <= n * s) by(nonlinear_arith) requires 0 <= n, 0 <= s;
    let a = n * s; let b = c * s;
    assert((a / t) * t <= a && 0 <= a / t) by(nonlinear_arith) requires 0 <= a, 0 < t;
    assert((b / t) * t <= b) by(nonlinear_arith) requires 0 <= b, 0 < t;
    assert(a / t <= b / t) by(nonlinear_arith) requires 0 <= a <= b, 0 < t;
}
""", mod="gui", name="gui_specs")

UNIT = Unit("gui", ["base.rs", "gui.rs"], [
    Item(EVT, "struct", "BitmapEvent", mod="event"),
    Stub(EVT, "decompress", impl=r"BitmapEvent", mod="event", verified_in="codec",
         ensures=["r is Ok ==> r->Ok_0@.len() == self.width as int * self.height as int * 4"]),
    gui_specs,
    # the REAL body of transmute_vec<S, T>: the two scaling statements (`let capacity = ..; let len = ..;`) are verified verbatim; the raw
    # operations around them are the trusted stand-ins of prelude/gui.rs (rule R5), whose preconditions are std's size-related safety contract
    Fn(BIN, "transmute_vec", mod="gui", props=["C19"], nloops=0,
       body_sub=[(r"\bvec\.as_mut_ptr\(\)", "vec_as_mut_ptr(&mut vec)"),
                 (r"\bvec\.capacity\(\)", "capacity_of(&vec)"),
                 (r"\bptr as \*mut T\b", "ptr.cast::<T>()"),
                 (r"\bVec::from_raw_parts\(", "vec_from_raw_parts(")],
       requires=["vstd::layout::size_of::<T>() > 0"],
       ensures=[("C19", "length-is-bytes-over-element-size", "r@.len() == vec@.len() * vstd::layout::size_of::<S>() / vstd::layout::size_of::<T>()"),
                ("C19", "retyped-view-of-the-source", "r@ == retyped::<S, T>(vec@, r@.len())")],
       pre="let ghost n0 = vec@.len() as int; let ghost c0 = vec_capacity(&vec) as int; let ghost ss = vstd::layout::size_of::<S>() as int; let ghost st = vstd::layout::size_of::<T>() as int;",
       hints=[(r"let ptr = ", 1, "proof { lemma_scaled(n0, c0, ss, st); }")],
       claims=[(r"vec_from_raw_parts\(", 1, "proof { assert(len * st <= n0 * ss && capacity * st <= c0 * ss && len <= capacity); }", "before", "C19", "raw-parts-describe-owned-memory")]),
    Fn(BIN, "fast_bitmap_transfer", mod="gui", props=["C19"], nloops=1,
       # refusal-justification: a rectangle is refused as inverted only when it IS inverted (a one-pixel-high or -wide rectangle is valid), and a row is
       # refused only when it really leaves the window buffer or the decoded image (an exact fit is painted)
       claims=[(r'return Err\(Error::RdpError\(RdpError::new\(RdpErrorKind::InvalidSize, "Invalid destination rectangle"\)\)\)', 1,
                "proof { assert(bitmap.dest_bottom < bitmap.dest_top || bitmap.dest_right < bitmap.dest_left); }", "before", "C19", "refused-as-inverted-only-when-inverted"),
               (r'return Err\(Error::RdpError\(RdpError::new\(RdpErrorKind::InvalidSize, "Image have invalide size"\)\)\)', 1,
                "proof { assert(dest_end as int > buffer@.len() || src_i + count > data_aligned@.len()); }", "before", "C19", "row-refused-only-when-it-leaves-the-buffers")],
       body_sub=[(r"copy_nonoverlapping\(data_aligned\.as_ptr\(\)\.offset\(\(src_i\) as isize\), buffer\.as_mut_ptr\(\)\.offset\(dest_i as isize\), count\)", "copy_rows(&data_aligned, src_i, buffer, dest_i, count)")],
       ensures=[("C19", "len", "final(buffer)@.len() == old(buffer)@.len()"),
                ("C19", "inverted-refused", "(bitmap.dest_bottom < bitmap.dest_top || bitmap.dest_right < bitmap.dest_left) ==> r is Err && final(buffer)@ == old(buffer)@"),
                ("C19", "exact-copy", """r is Ok && (bitmap.dest_right as int) < width ==> exists|img: Seq<u8>| img.len() == bitmap.width as int * bitmap.height as int * 4 &&
                    #[trigger] painted(old(buffer)@, final(buffer)@, width as int, bitmap.dest_top as int, bitmap.dest_left as int, bitmap.dest_bottom - bitmap.dest_top + 1,
                            bitmap.dest_right - bitmap.dest_left + 1, bitmap.width as int, words_le(img))""")],
       pre="let ghost buf0 = buffer@; let ghost bw0 = bitmap.width as int; let ghost bh0 = bitmap.height as int;",
       loops={1: """invariant buffer@.len() == buf0.len(), buf0 == old(buffer)@, bitmap_dest_top == bitmap.dest_top as usize, bitmap_dest_bottom == bitmap.dest_bottom as usize,
                     bitmap_dest_left == bitmap.dest_left as usize, bitmap_dest_right == bitmap.dest_right as usize, img.len() == bw0 * bh0 * 4, count == bitmap_dest_right - bitmap_dest_left + 1, bitmap_dest_left <= bitmap_dest_right <= 0xffff,
                     bitmap_dest_top <= bitmap_dest_bottom <= 0xffff, bitmap_width == bw0, bw0 <= 0xffff, data_aligned@ == words_le(img),
                     bitmap_dest_right < width ==> painted(buf0, buffer@, width as int, bitmap_dest_top as int, bitmap_dest_left as int, i as int, count as int, bw0, data_aligned@)"""},
       hints=[(r"let data = bitmap\.decompress\(\)\?;", 1, "let ghost img = data@;"),
              (r"let dest_end = ", 1, "proof { lemma_row_bound(i as int, bitmap_dest_top as int, width as int, bitmap_dest_left as int, count as int); lemma_src_bound(i as int, bitmap_width as int); }", "before"),
              (r"copy_rows\(&data_aligned, src_i, buffer, dest_i, count\)", 1, "let ghost bprev = buffer@;", "before"),
              (r"copy_rows\(&data_aligned, src_i, buffer, dest_i, count\)", 1, """;
            proof { if bitmap_dest_right < width {
                let r = i as int + bitmap_dest_top as int;
                assert forall|y: int, x: int| 0 <= y && 0 <= x < width && y * width + x < buf0.len() implies
                    #[trigger] buffer@[y * width + x] == (if bitmap_dest_top <= y < bitmap_dest_top + (i + 1) && bitmap_dest_left <= x < bitmap_dest_left + count { data_aligned@[(y - bitmap_dest_top) * bw0 + (x - bitmap_dest_left)] } else { buf0[y * width + x] }) by {
                    lemma_cell(y, x, r, width as int, bitmap_dest_left as int, count as int);
                    assert(bprev[y * width + x] == (if bitmap_dest_top <= y < bitmap_dest_top + i && bitmap_dest_left <= x < bitmap_dest_left + count { data_aligned@[(y - bitmap_dest_top) * bw0 + (x - bitmap_dest_left)] } else { buf0[y * width + x] }));
                }
            } }""", "atend"),
              (r"copy_rows\(&data_aligned, src_i, buffer, dest_i, count\)\s*\n\s*\}", 1, "proof { assert(bitmap_dest_right < width ==> painted(buf0, buffer@, width as int, bitmap_dest_top as int, bitmap_dest_left as int, bitmap_dest_bottom - bitmap_dest_top + 1, count as int, bw0, words_le(img))); }"),
              (r"let data_aligned *: *Vec<u32> = transmute_vec\(data\);", 1, "proof { axiom_retyped_u8_u32(img, img.len() / 4); assert(data_aligned@ =~= words_le(img)); }"),
              ]),
], uses={"gui": ["use super::event::*;", "use core::mem::{size_of, forget};"]})
