"""Contracts and spec functions shared between units: a function is VERIFIED against its contract in one unit and ASSUMED
with the identical text (Stub) in the units above it."""
from vx.spec import *

# ------------------------------------------------------------------ PER reference encodings (unit per proves the primitives against them)
PER_SPECS_TEXT = r'''
// ---------------- reference encodings (written from X.691 / T.125, not from the code)
/// length determinant: one byte below 0x80, else two bytes with the top bit set (n <= 0x7fff)
pub open spec fn per_len(n: u16) -> Seq<u8> { if n > 0x7f { be16(n | 0x8000) } else { seq![n as u8] } }
'''

# ------------------------------------------------------------------ framing (unit frame)
FRAME_SPECS_TEXT = r'''
pub open spec fn tpkt_frame(payload: Seq<u8>) -> Seq<u8> { seq![3u8, 0u8] + be16((payload.len() + 4) as u16) + payload }
pub open spec fn x224_data(payload: Seq<u8>) -> Seq<u8> { seq![2u8, 0xF0u8, 0x80u8] + payload }
'''

# ------------------------------------------------------------------ MCS send-data (unit mcs verifies mcs::Client::write against MCS_WRITE)
MCS_SPECS_TEXT = r'''
/// T.125 SendDataRequest: choice 25 << 2, initiator (user id - 1001), channel id, priority/segmentation 0x70, PER length, user data
pub open spec fn mcs_send_data(uid: u16, cid: u16, payload: Seq<u8>) -> Seq<u8> {
    seq![0x64u8] + be16((uid - 1001) as u16) + be16(cid) + seq![0x70u8] + per_len(payload.len() as u16) + payload
}
/// one complete slow-path frame carrying `payload` on channel `cid`
pub open spec fn mcs_frame(uid: u16, cid: u16, payload: Seq<u8>) -> Seq<u8> { tpkt_frame(x224_data(mcs_send_data(uid, cid, payload))) }
'''

MCS_OPAQUE = Raw(PER_SPECS_TEXT + FRAME_SPECS_TEXT + MCS_SPECS_TEXT + r'''
/// stand-in for core::mcs::Client<S>: only its observable state (unit mcs defines these on the real struct)
#[verifier::external_body]
#[verifier::accept_recursive_types(S)]
pub struct Client<S> { _s: core::marker::PhantomData<S> }
impl<S> Client<S> {
    pub uninterp spec fn written(&self) -> Seq<u8>;
    pub uninterp spec fn rest(&self) -> Seq<u8>;
    pub uninterp spec fn tls(&self) -> bool;
    pub uninterp spec fn uid(&self) -> Option<u16>;
    pub uninterp spec fn chans(&self) -> Map<Seq<char>, u16>;
    /// the server's GCC data has been received (after connect) / it announced RDP 5+
    pub uninterp spec fn server_known(&self) -> bool;
    pub uninterp spec fn v5plus(&self) -> bool;
    /// after mcs::Client::connect: a user id >= 1001 is attached and the global channel is joined
    pub open spec fn connected(&self) -> bool {
        self.uid() is Some && self.uid()->Some_0 >= 1001 && self.chans().contains_key("global"@)
    }
    pub open spec fn same_session(&self, o: &Self) -> bool { self.uid() == o.uid() && self.chans() == o.chans() && self.tls() == o.tls() && self.server_known() == o.server_known() && self.v5plus() == o.v5plus() }
}
''', mod="mcs", name="mcs_opaque", trusted="mcs::Client<S> as an opaque type (its fields are irrelevant above the MCS layer)")

MCS_WRITE = dict(
    requires=["old(self).connected()", "old(self).chans().contains_key(channel_name@)"],
    ensures=[
        (None, "one-send-data", "r is Ok && ser(message.mv()).len() <= 0x7fff ==> final(self).written() =~= old(self).written() + mcs_frame(old(self).uid()->Some_0, old(self).chans()[channel_name@], ser(message.mv()))"),
        (None, "prefix", "is_prefix(old(self).written(), final(self).written())"),
        (None, "frame", "final(self).rest() == old(self).rest() && final(self).same_session(old(self))"),
        (None, "error-kind", "!automata_err(r)"),
    ])
MCS_READ = dict(
    requires=["old(self).connected()"],
    ensures=[
        (None, "frame", "final(self).written() == old(self).written() && final(self).same_session(old(self)) && is_suffix(final(self).rest(), old(self).rest())"),
        (None, "channel", "r is Ok ==> old(self).chans().contains_key(r->Ok_0.0@)"),
        (None, "fast-path-is-global", "r is Ok && r->Ok_0.1 is FastPath ==> r->Ok_0.0@ == \"global\"@"),
    ])

MCS_V5 = dict(requires=["self.server_known()"], ensures=["r == self.v5plus()"])
