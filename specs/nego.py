"""unit nego: security negotiation and TLS / NLA upgrade (x224::Client::connect, tpkt::start_ssl / start_nla).
C02 (selected protocol honoured, no downgrade, credentials only under TLS, certificate flag threaded), C17 (mode announced in the request), C03 (request first)."""
from vx.spec import *
from vx.layouts import shape_clauses
from specs import frame as F

LINK, TPKT, X224 = F.LINK, F.TPKT, F.X224
SSPI = "src/nla/sspi.rs"
CSSP = "src/nla/cssp.rs"

items = stubs_of(F.UNIT.items, "frame")
A = items.append

# ---- nla interfaces
A(Item(SSPI, "trait", "GenericSecurityService", mod="sspi"))
A(Item(SSPI, "trait", "AuthenticationProtocol", mod="sspi"))
A(Stub(CSSP, "cssp_connect", mod="cssp", verified_in="cssp",
       requires=["old(link).tls()"],
       ensures=["final(link).tls() && final(link).cert_checked() == old(link).cert_checked() && final(link).peer_key() == old(link).peer_key()",
                "is_prefix(old(link).written(), final(link).written())", "is_suffix(final(link).rest(), old(link).rest())"]))

# ---- link / tpkt upgrade path
A(Stub(LINK, "start_ssl", impl=r"Link<S>", mod="link", why="native-tls: TlsConnector::connect; an Err is returned when the handshake or (with check_certificate) the certificate validation fails",
       ensures=["r is Ok ==> !self.tls() && r->Ok_0.tls() && r->Ok_0.cert_checked() == check_certificate && r->Ok_0.written() == self.written() && r->Ok_0.rest() == self.rest()"]))
A(Raw(r"""
impl<S: Read + Write + Duplex> Client<S> {
    pub closed spec fn cert_checked(&self) -> bool { self.transport.cert_checked() }
    pub closed spec fn peer_key(&self) -> Seq<u8> { self.transport.peer_key() }
}
""", mod="tpkt", name="tpkt_specs_tls"))
A(Fn(TPKT, "start_ssl", impl=r"Client<S>", mod="tpkt", props=["C02"],
     ensures=[("C02", "tls-up", "r is Ok ==> !self.tls() && r->Ok_0.tls() && r->Ok_0.cert_checked() == check_certificate && r->Ok_0.written() == self.written() && r->Ok_0.rest() == self.rest()")]))
A(Fn(TPKT, "start_nla", impl=r"Client<S>", mod="tpkt", props=["C02", "C01"],
     ensures=[("C02", "tls-before-credssp", "r is Ok ==> !self.tls() && r->Ok_0.tls() && r->Ok_0.cert_checked() == check_certificate && is_prefix(self.written(), r->Ok_0.written())")]))

# ---- x224 negotiation
A(Item(X224, "enum", "NegotiationType", mod="x224", strip_derive=["TryFromPrimitive"], try_from="u8"))
A(Item(X224, "enum", "RequestMode", mod="x224"))
A(Raw(r"""
impl<S: Read + Write + Duplex> Client<S> {
    pub closed spec fn selected(&self) -> Protocols { self.selected_protocol }
    pub closed spec fn cert_checked(&self) -> bool { self.transport.cert_checked() }
}
/// MS-RDPBCGR 2.2.1.1: X.224 Connection Request TPDU (LI 14, code 0xE0, dst-ref, src-ref, class 0) + RDP_NEG_REQ (type 1, flags, length 8, requestedProtocols)
pub open spec fn conn_req_bytes(flags: u8, protocols: u32) -> Seq<u8> { seq![14u8, 0xE0u8, 0u8, 0u8, 0u8, 0u8, 0u8, 1u8, flags, 8u8, 0u8] + le32(protocols) }
/// MS-RDPBCGR 2.2.1.2: X.224 Connection Confirm carrying an RDP_NEG_RSP: byte 7 = type (2 = response, 3 = failure), bytes 11..15 = selectedProtocol
pub open spec fn neg_rsp_type(p: Seq<u8>) -> u8 { p[7] }
pub open spec fn neg_rsp_selected(p: Seq<u8>) -> u32 { u32_le(p[11], p[12], p[13], p[14]) }
""", mod="x224", name="x224_nego_specs"))
A(Fn(X224, "rdp_neg_req", mod="x224", ret="c", props=["C02", "C04", "C17"], fuel=8,
     ensures=shape_clauses(X224, "rdp_neg_req", res="c") + [("C04,C17", "bytes", "ser(c.mv()) =~= seq![(if neg_type is Some { neg_type->Some_0 as u8 } else { 1u8 }), (if flag is Some { flag->Some_0 } else { 0u8 }), 8u8, 0u8] + le32(if result is Some { result->Some_0 } else { 0u32 })")]))
A(Fn(X224, "x224_crq", mod="x224", ret="c", props=["C04"], fuel=8, requires=["len <= 249"],
     ensures=shape_clauses(X224, "x224_crq", res="c") + [("C04", "bytes", "ser(c.mv()) =~= seq![(len + 6) as u8, code as u8, 0u8, 0u8, 0u8, 0u8, 0u8]")]))
A(Fn(X224, "x224_connection_pdu", mod="x224", ret="c", props=["C04", "C17", "C02"], fuel=8,
     ensures=shape_clauses(X224, "x224_connection_pdu", res="c") + [("C04,C17", "bytes", "ser(c.mv()) =~= seq![14u8, 0xE0u8, 0u8, 0u8, 0u8, 0u8, 0u8, (if neg_type is Some { neg_type->Some_0 as u8 } else { 1u8 }), (if mode is Some { mode->Some_0 } else { 0u8 }), 8u8, 0u8] + le32(if protocols is Some { protocols->Some_0 } else { 0u32 })"),
                                                                     (None, "static", "is_static(c.mv()) && ser(c.mv()).len() == 15")]))
A(Fn(X224, "new", impl=r"Client<S>", mod="x224", props=["C02"],
     ensures=["r.selected() == selected_protocol && r.tls() == transport.tls() && r.cert_checked() == transport.cert_checked() && r.written() == transport.written() && r.rest() == transport.rest()"]))
A(Fn(X224, "write_connection_request", impl=r"Client<S>", mod="x224", props=["C17", "C03", "C04"],
     ensures=[("C17,C03,C04", "request-bytes", "r is Ok ==> final(tpkt).written() =~= old(tpkt).written() + tpkt::tpkt_frame(conn_req_bytes((if mode is Some { mode->Some_0 } else { 0u8 }), security_protocols))"),
              (None, "frame", "final(tpkt).rest() == old(tpkt).rest() && final(tpkt).tls() == old(tpkt).tls() && is_prefix(old(tpkt).written(), final(tpkt).written())")]))
A(Fn(X224, "read_connection_confirm", impl=r"Client<S>", mod="x224", props=["C02", "C05"], keys=True,
     ensures=[("C02", "only-a-negotiation-response-selects", """r is Ok ==> ({
                  let b = old(tpkt).rest(); let p = b.subrange(tpkt::frame_hdr(b), tpkt::frame_len(b));
                  &&& b.len() >= 2 && b[0] == 3 && b.len() >= tpkt::frame_len(b) && tpkt::frame_len(b) >= 4 + 15
                  &&& neg_rsp_type(p) == 2
                  &&& Protocols::from_repr(neg_rsp_selected(p)) == Some(r->Ok_0)
                  &&& final(tpkt).rest() =~= b.skip(tpkt::frame_len(b)) })"""),
              (None, "frame", "final(tpkt).written() == old(tpkt).written() && final(tpkt).tls() == old(tpkt).tls() && is_suffix(final(tpkt).rest(), old(tpkt).rest())")]))
A(Fn(X224, "connect", impl=r"Client<S>", mod="x224", props=["C02", "C17", "C03"],
     requires=["!tpkt.tls()"],
     ensures=[("C02", "tls-established", "r is Ok ==> r->Ok_0.tls()"),
              ("C02", "selection-was-offered", "r is Ok ==> (r->Ok_0.selected() as u32) & security_protocols != 0"),
              ("C02", "only-tls-based-protocols", "r is Ok ==> (r->Ok_0.selected() is ProtocolSSL || r->Ok_0.selected() is ProtocolHybrid)"),
              ("C02", "certificate-flag-threaded", "r is Ok ==> r->Ok_0.cert_checked() == check_certificate"),
              ("C17,C03", "request-first-and-announces-mode", "r is Ok ==> is_prefix(tpkt.written() + tpkt::tpkt_frame(conn_req_bytes((if restricted_admin_mode { 1u8 } else { 0u8 }), security_protocols)), r->Ok_0.written())")]))
A(Fn(X224, "get_selected_protocols", impl=r"Client<S>", mod="x224", props=["C02"], ensures=["r == self.selected()"]))

UNIT = Unit("nego", F.UNIT.preludes, items,
            uses={"tpkt": ["use super::link::*;", "use super::cssp::*;", "use super::sspi::*;"], "x224": ["use super::tpkt;", "use super::sspi::*;"], "cssp": ["use super::link::*;", "use super::sspi::*;"]},
            mods=["link", "sspi", "cssp", "tpkt", "x224"])
