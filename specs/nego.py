"""unit nego: security negotiation and TLS / NLA upgrade (x224::Client::connect, tpkt::start_ssl / start_nla).
C02 (selected protocol honoured, no downgrade, credentials only under TLS, certificate flag threaded), C17 (mode announced in the request), C03 (request first)."""
from vx.spec import *
from vx.layouts import shape_clauses
from specs import frame as F

LINK, TPKT, X224 = F.LINK, F.TPKT, F.X224
SSPI = "src/nla/sspi.rs"
CSSP = "src/nla/cssp.rs"

items = stubs_of(F.UNIT.items, "frame")
A = items.append

# tpkt::Client::new: frame's contract cannot mention cert_checked()/peer_key() (defined in this unit), so the (one line) body is
# RE-VERIFIED here against frame's clauses plus the two TLS-attribute clauses start_ssl / start_nla need (nothing assumed).
_i_new = [i for i, x in enumerate(items) if x.kind == "stub" and x.name == "new" and x.mod == "tpkt"]
assert len(_i_new) == 1
items[_i_new[0]] = Fn(TPKT, "new", impl=r"Client<S>", mod="tpkt", props=["C02"],
                      ensures=list(items[_i_new[0]].ensures) + [("C02", "tls-attributes-kept", "r.cert_checked() == transport.cert_checked() && r.peer_key() == transport.peer_key()")])

# ---- nla interfaces
A(Item(SSPI, "trait", "GenericSecurityService", mod="sspi"))
A(Item(SSPI, "trait", "AuthenticationProtocol", mod="sspi"))
# the abstract DER functions of unit cssp (declarations only) so that cssp_connect's completion clause can be carried upwards with the identical text
from specs import cssp as _CS
A(next(x for x in _CS.UNIT.items if x.kind == "raw" and x.name == "cssp_der_specs"))
CREDSSP_DONE = next(c.text for f in _CS.UNIT.items if f.kind == "fn" and f.name == "cssp_connect" for c in f.ensures if c.cid == "credssp-done")
A(Stub(CSSP, "cssp_connect", mod="cssp", verified_in="cssp",
       requires=["old(link).tls()"],
       ensures=["final(link).tls() && final(link).cert_checked() == old(link).cert_checked() && final(link).peer_key() == old(link).peer_key()",
                "is_prefix(old(link).written(), final(link).written())", "is_suffix(final(link).rest(), old(link).rest())",
                CREDSSP_DONE]))

# ---- link / tpkt upgrade path
# real body, against the native-tls builder / connector stand-ins of prelude/tls.rs (the certificate-validation switch is threaded, a TLS link cannot be upgraded twice)
A(Fn(LINK, "start_ssl", impl=r"Link<S>", mod="link", props=["C02"],
     ensures=[("C02", "certificate-validation-iff-requested", "r is Ok ==> !self.tls() && r->Ok_0.tls() && r->Ok_0.cert_checked() == check_certificate && r->Ok_0.written() == self.written() && r->Ok_0.rest() == self.rest()")]))
A(Raw(r"""
impl<S: Read + Write + Duplex> Client<S> {
    pub closed spec fn cert_checked(&self) -> bool { self.transport.cert_checked() }
    pub closed spec fn peer_key(&self) -> Seq<u8> { self.transport.peer_key() }
}
""", mod="tpkt", name="tpkt_specs_tls"))
A(Fn(TPKT, "start_ssl", impl=r"Client<S>", mod="tpkt", props=["C02"],
     ensures=[("C02", "tls-up", "r is Ok ==> !self.tls() && r->Ok_0.tls() && r->Ok_0.cert_checked() == check_certificate && r->Ok_0.written() == self.written() && r->Ok_0.rest() == self.rest()")]))
A(Fn(TPKT, "start_nla", impl=r"Client<S>", mod="tpkt", props=["C02", "C01", "C03"],
     hints=[(r"cssp_connect\(&mut link", 1, "let ghost w0 = link.written(); proof { assert(w0 == self.written()); }", "before")],
     ensures=[("C02", "tls-before-credssp", "r is Ok ==> !self.tls() && r->Ok_0.tls() && r->Ok_0.cert_checked() == check_certificate && is_prefix(self.written(), r->Ok_0.written())"),
              # C01: the layer is handed on (Ok) only when the CredSSP exchange itself succeeded: its three messages are on the link; a refusal
              # by cssp_connect (failed key validation, bad token ...) is never turned into Ok
              ("C01,C02,C03", "ok-only-after-credssp-completed", "r is Ok ==> cssp::credssp_done(self.written(), r->Ok_0.written())")]))

# ---- x224 negotiation
A(Item(X224, "enum", "NegotiationType", mod="x224", strip_derive=["TryFromPrimitive"], try_from="u8"))
A(Item(X224, "enum", "RequestMode", mod="x224"))
A(Raw(r"""
impl<S: Read + Write + Duplex> Client<S> {
    pub closed spec fn selected(&self) -> Protocols { self.selected_protocol }
    pub closed spec fn cert_checked(&self) -> bool { self.transport.cert_checked() }
}
/// MS-RDPBCGR 2.2.1.1: X.224 Connection Request TPDU (LI 14, code 0xE0, dst-ref, src-ref, class 0) + RDP_NEG_REQ (type 1, flags, length 8, requestedProtocols)
pub open spec fn conn_req_bytes(flags: u8, protocols: u32) -> Seq<u8> { seq![14u8, 0xE0u8, 0u8, 0u8, 0u8, 0u8, 0u8, 1u8, flags, 8u8, 0u8] + le32(protocols) }
/// MS-RDPBCGR 2.2.1.2: X.224 Connection Confirm carrying an RDP_NEG_RSP: byte 7 = type (2 = response, 3 = failure), bytes 11..15 = selectedProtocol
pub open spec fn neg_rsp_type(p: Seq<u8>) -> u8 { p[7] }
pub open spec fn neg_rsp_selected(p: Seq<u8>) -> u32 { u32_le(p[11], p[12], p[13], p[14]) }
""", mod="x224", name="x224_nego_specs"))
A(Raw(r"""
/// full shape (names, kinds, endianness, checked constant) of the three layouts of the connection PDU
pub open spec fn is_neg(m: MV) -> bool {
    m is Comp && ({ let n = m->Comp_0;
        n.len() == 4 && n[0].0 == "type"@ && n[0].1 is U8 && n[1].0 == "flag"@ && n[1].1 is U8
        && n[2] == ("length"@, MV::Check(Box::new(MV::U16(8, true))))
        && n[3].0 == "result"@ && n[3].1 is U32 && n[3].1->U32_1 })
}
pub open spec fn is_crq(m: MV) -> bool {
    m is Comp && ({ let h = m->Comp_0;
        h.len() == 3 && h[0].0 == "len"@ && h[0].1 is U8 && h[1].0 == "code"@ && h[1].1 is U8 && h[2].0 == "padding"@ && h[2].1 is Trame && ({
          let t = h[2].1->Trame_0; t.len() == 3 && t[0] is U16 && t[1] is U16 && t[2] is U8 }) })
}
pub open spec fn is_conn_pdu(m: MV) -> bool {
    m is Comp && ({ let g = m->Comp_0; g.len() == 2 && g[0].0 == "header"@ && is_crq(g[0].1) && g[1].0 == "negotiation"@ && is_neg(g[1].1) })
}
pub open spec fn pdu_neg(m: MV) -> Seq<(Seq<char>, MV)> { m->Comp_0[1].1->Comp_0 }
pub open spec fn pdu_type(m: MV) -> u8 { pdu_neg(m)[0].1->U8_0 }
pub open spec fn pdu_result(m: MV) -> u32 { pdu_neg(m)[3].1->U32_0 }

pub proof fn lemma_le32_roundtrip(v: u32)
    ensures u32_le(le32(v)[0], le32(v)[1], le32(v)[2], le32(v)[3]) == v, le32(v).len() == 4
{
    assert((((v & 0xff) as u8) as u32) | ((((v >> 8) & 0xff) as u8) as u32) << 8 | ((((v >> 16) & 0xff) as u8) as u32) << 16 | ((((v >> 24) & 0xff) as u8) as u32) << 24 == v) by(bit_vector);
}

/// Message::read keeps the layout (same_shape), hence the full shape of the connection PDU
pub proof fn lemma_conn_pdu_shape(a: MV, b: MV)
    requires is_conn_pdu(a), same_shape(a, b)
    ensures is_conn_pdu(b)
{
    reveal_with_fuel(same_shape, 5);
    let g1 = a->Comp_0; let g2 = b->Comp_0;
    assert(g1[0].0 == g2[0].0 && same_shape(g1[0].1, g2[0].1));
    assert(g1[1].0 == g2[1].0 && same_shape(g1[1].1, g2[1].1));
    let h1 = g1[0].1->Comp_0; let h2 = g2[0].1->Comp_0;
    assert(h1[0].0 == h2[0].0 && same_shape(h1[0].1, h2[0].1));
    assert(h1[1].0 == h2[1].0 && same_shape(h1[1].1, h2[1].1));
    assert(h1[2].0 == h2[2].0 && same_shape(h1[2].1, h2[2].1));
    let t1 = h1[2].1->Trame_0; let t2 = h2[2].1->Trame_0;
    assert(same_shape(t1[0], t2[0]));
    assert(same_shape(t1[1], t2[1]));
    assert(same_shape(t1[2], t2[2]));
    let n1 = g1[1].1->Comp_0; let n2 = g2[1].1->Comp_0;
    assert(n1[0].0 == n2[0].0 && same_shape(n1[0].1, n2[0].1));
    assert(n1[1].0 == n2[1].0 && same_shape(n1[1].1, n2[1].1));
    assert(n1[2].0 == n2[2].0 && same_shape(n1[2].1, n2[2].1));
    assert(n1[3].0 == n2[3].0 && same_shape(n1[3].1, n2[3].1));
}

/// a connection PDU is a static 15 byte layout; byte 7 is the field `type`, bytes 11..15 the little endian field `result` of "negotiation"
pub proof fn lemma_conn_pdu_bytes(m: MV)
    requires is_conn_pdu(m)
    ensures is_static(m), ser(m).len() == 15, ser(m)[7] == pdu_type(m),
        u32_le(ser(m)[11], ser(m)[12], ser(m)[13], ser(m)[14]) == pdu_result(m)
{
    reveal_with_fuel(ser, 8); reveal_with_fuel(ser_fields_from, 8); reveal_with_fuel(ser_seq_from, 8);
    reveal_with_fuel(is_static, 5);
    let g = m->Comp_0;
    let h = g[0].1->Comp_0; let t = h[2].1->Trame_0; let n = g[1].1->Comp_0;
    assert(ser(t[0]).len() == 2 && ser(t[1]).len() == 2 && ser(t[2]).len() == 1);
    assert(ser(h[2].1).len() == 5);
    assert(ser(g[0].1).len() == 7);
    assert(ser(n[2].1).len() == 2);
    lemma_le32_roundtrip(pdu_result(m));
    assert(ser(n[3].1) == le32(pdu_result(m)));
    assert(ser(g[1].1) =~= seq![pdu_type(m)] + ser(n[1].1) + ser(n[2].1) + le32(pdu_result(m)));
    assert(ser(m) =~= ser(g[0].1) + ser(g[1].1));
}
""", mod="x224", name="x224_nego_lemmas"))
A(Raw(r"""
// ---------------- the connection PDU as message trees, transcribed from MS-RDPBCGR 2.2.1.1 / 2.2.1.2 (the SAME layout is used to READ the server's
// X.224 Connection Confirm: x224Ccf = LI, code, DST-REF, SRC-REF, class option (7 bytes), then RDP_NEG_RSP 2.2.1.2.1 / RDP_NEG_FAILURE 2.2.1.2.2 =
// type (u8), flags (u8), length (u16 LE, MUST be 0x0008: read through a Check), selectedProtocol / failureCode (u32 LE))
pub open spec fn neg_view(ty: u8, flags: u8, result: u32) -> MV {
    MV::Comp(seq![("type"@, MV::U8(ty)), ("flag"@, MV::U8(flags)), ("length"@, MV::Check(Box::new(MV::U16(8, true)))), ("result"@, MV::U32(result, true))])
}
pub open spec fn crq_view(li: u8, code: u8) -> MV {
    MV::Comp(seq![("len"@, MV::U8(li)), ("code"@, MV::U8(code)), ("padding"@, MV::Trame(seq![MV::U16(0, true), MV::U16(0, true), MV::U8(0)]))])
}
pub open spec fn conn_pdu_view(ty: u8, flags: u8, result: u32) -> MV {
    MV::Comp(seq![("header"@, crq_view(14, 0xE0)), ("negotiation"@, neg_view(ty, flags, result))])
}
""", mod="x224", name="x224_nego_views"))
A(Fn(X224, "rdp_neg_req", mod="x224", ret="c", props=["C02", "C04", "C17", "C03"], fuel=8,
     ensures=shape_clauses(X224, "rdp_neg_req", res="c") + [("C04,C17", "bytes", "ser(c.mv()) =~= seq![(if neg_type is Some { neg_type->Some_0 as u8 } else { 1u8 }), (if flag is Some { flag->Some_0 } else { 0u8 }), 8u8, 0u8] + le32(if result is Some { result->Some_0 } else { 0u32 })"),
                                                             (None, "full-shape", "is_neg(c.mv())"),
                                                             # MS-RDPBCGR 2.2.1.2.1 RDP_NEG_RSP / 2.2.1.2.2 RDP_NEG_FAILURE (read with this layout): plain type and flags, length checked against 8, u32 LE result
                                                             ("C03,C02", "rdp_neg_req-as-documented", "c.mv() == neg_view((if neg_type is Some { neg_type->Some_0 as u8 } else { 1u8 }), (if flag is Some { flag->Some_0 } else { 0u8 }), (if result is Some { result->Some_0 } else { 0u32 }))")],
     post="""proof {
        let f = c.fields();
        let t = if neg_type is Some { neg_type->Some_0 as u8 } else { 1u8 };
        let fl = if flag is Some { flag->Some_0 } else { 0u8 };
        let rs = if result is Some { result->Some_0 } else { 0u32 };
        assert(f[0] == ("type"@, MV::U8(t)));
        assert(f[1] == ("flag"@, MV::U8(fl)));
        assert(f[2] == ("length"@, MV::Check(Box::new(MV::U16(8, true)))));
        assert(f[3] == ("result"@, MV::U32(rs, true)));
        assert(le16(8) =~= seq![8u8, 0u8]) by { assert((8u16 & 0xff) as u8 == 8u8 && ((8u16 >> 8) & 0xff) as u8 == 0u8) by(bit_vector); }
        assert(ser(f[2].1) =~= seq![8u8, 0u8]);
        assert(ser(f[3].1) == le32(rs));
        assert(le32(rs).len() == 4);
        assert(f =~= neg_view(t, fl, rs)->Comp_0);
     }"""))
A(Fn(X224, "x224_crq", mod="x224", ret="c", props=["C04", "C03"], fuel=8, requires=["len <= 249"],
     ensures=shape_clauses(X224, "x224_crq", res="c") + [("C04", "bytes", "ser(c.mv()) =~= seq![(len + 6) as u8, code as u8, 0u8, 0u8, 0u8, 0u8, 0u8]"),
                                                          (None, "full-shape", "is_crq(c.mv())"),
                                                          # X.224 connection TPDU header (MS-RDPBCGR 2.2.1.1 x224Crq / 2.2.1.2 x224Ccf): LI and code are plain bytes (the confirm carries 0xD0), 5 bytes of references / class
                                                          ("C03", "x224_crq-as-documented", "c.mv() == crq_view((len + 6) as u8, code as u8)")],
     post="""proof {
        let f = c.fields();
        assert(f[0] == ("len"@, MV::U8((len + 6) as u8)));
        assert(f[1] == ("code"@, MV::U8(code as u8)));
        assert(f[2].0 == "padding"@ && f[2].1 is Trame);
        let tv = f[2].1->Trame_0;
        assert(tv.len() == 3);
        assert(tv[0] == MV::U16(0, true));
        assert(tv[1] == MV::U16(0, true));
        assert(tv[2] == MV::U8(0));
        assert(le16(0) =~= seq![0u8, 0u8]) by { assert((0u16 & 0xff) as u8 == 0u8 && ((0u16 >> 8) & 0xff) as u8 == 0u8) by(bit_vector); }
        assert(ser(f[2].1) =~= seq![0u8, 0u8, 0u8, 0u8, 0u8]);
        assert(tv =~= seq![MV::U16(0, true), MV::U16(0, true), MV::U8(0)]);
        assert(f =~= crq_view((len + 6) as u8, code as u8)->Comp_0);
     }"""))
A(Fn(X224, "x224_connection_pdu", mod="x224", ret="c", props=["C04", "C17", "C02", "C03"], fuel=8,
     ensures=shape_clauses(X224, "x224_connection_pdu", res="c") + [("C04,C17", "bytes", "ser(c.mv()) =~= seq![14u8, 0xE0u8, 0u8, 0u8, 0u8, 0u8, 0u8, (if neg_type is Some { neg_type->Some_0 as u8 } else { 1u8 }), (if mode is Some { mode->Some_0 } else { 0u8 }), 8u8, 0u8] + le32(if protocols is Some { protocols->Some_0 } else { 0u32 })"),
                                                                     (None, "static", "is_static(c.mv()) && ser(c.mv()).len() == 15"),
                                                                     (None, "full-shape", "is_conn_pdu(c.mv())"),
                                                                     # MS-RDPBCGR 2.2.1.2 Server X.224 Connection Confirm, READ with this layout by read_connection_confirm (which is proved on the wire bytes)
                                                                     ("C03,C02", "x224_connection_pdu-as-documented", "c.mv() == conn_pdu_view((if neg_type is Some { neg_type->Some_0 as u8 } else { 1u8 }), (if mode is Some { mode->Some_0 } else { 0u8 }), (if protocols is Some { protocols->Some_0 } else { 0u32 }))")],
     post="""proof {
        let f = c.fields();
        assert(f[0].0 == "header"@ && is_crq(f[0].1));
        assert(f[1] == ("negotiation"@, negotiation.mv()));
        lemma_conn_pdu_bytes(c.mv());
        assert(f =~= conn_pdu_view((if neg_type is Some { neg_type->Some_0 as u8 } else { 1u8 }), (if mode is Some { mode->Some_0 } else { 0u8 }), (if protocols is Some { protocols->Some_0 } else { 0u32 }))->Comp_0);
     }"""))
A(Fn(X224, "new", impl=r"Client<S>", mod="x224", props=["C02"],
     ensures=["r.selected() == selected_protocol && r.tls() == transport.tls() && r.cert_checked() == transport.cert_checked() && r.written() == transport.written() && r.rest() == transport.rest()"]))
A(Fn(X224, "write_connection_request", impl=r"Client<S>", mod="x224", props=["C17", "C03", "C04"],
     ensures=[("C17,C03,C04", "request-bytes", "r is Ok ==> final(tpkt).written() =~= old(tpkt).written() + tpkt::tpkt_frame(conn_req_bytes((if mode is Some { mode->Some_0 } else { 0u8 }), security_protocols))"),
              (None, "frame", "final(tpkt).rest() == old(tpkt).rest() && final(tpkt).tls() == old(tpkt).tls() && is_prefix(old(tpkt).written(), final(tpkt).written())")]))
NEG_FAIL_ERR = r'Err\(Error::RdpError\(RdpError::new\(RdpErrorKind::ProtocolNegFailure, "[^"]*"\)\)\)'
NEG_REQ_ERR = r'Err\(Error::RdpError\(RdpError::new\(RdpErrorKind::InvalidAutomata, "[^"]*"\)\)\)'
NEG_P = "let b = old(tpkt).rest(); let p = b.subrange(tpkt::frame_hdr(b), tpkt::frame_len(b));"
A(Fn(X224, "read_connection_confirm", impl=r"Client<S>", mod="x224", props=["C02", "C05", "C03"], keys=True,
     # refusal justifications (MS-RDPBCGR 2.2.1.2: the negotiation structure behind the X.224 confirm is RDP_NEG_RSP type 2 or RDP_NEG_FAILURE type 3):
     # "negotiation failure" only for type 3, "server echoes a request" only for type 1 (never sent by a conforming server).  The sites are match
     # arms `Pat => Err(..)`: each claim opens a block around the arm expression, on a line of its own; the last two hints close the blocks
     claims=[(NEG_FAIL_ERR, 1, "{\nproof { " + NEG_P + " assert(b.len() >= 2 && b[0] == 3 && tpkt::frame_len(b) >= 4 + 15 && neg_rsp_type(p) == 3); }", "at", "C03,C02", "failure-reported-only-for-RDP_NEG_FAILURE"),
             (NEG_REQ_ERR, 1, "{\nproof { " + NEG_P + " assert(b.len() >= 2 && b[0] == 3 && tpkt::frame_len(b) >= 4 + 15 && neg_rsp_type(p) == 1); }", "at", "C03,C02", "refused-as-a-request-only-for-type-1")],
     ensures=[("C02", "only-a-negotiation-response-selects", """r is Ok ==> ({
                  let b = old(tpkt).rest(); let p = b.subrange(tpkt::frame_hdr(b), tpkt::frame_len(b));
                  &&& b.len() >= 2 && b[0] == 3 && b.len() >= tpkt::frame_len(b) && tpkt::frame_len(b) >= 4 + 15
                  &&& neg_rsp_type(p) == 2
                  &&& Protocols::from_repr(neg_rsp_selected(p)) == Some(r->Ok_0)
                  &&& final(tpkt).rest() =~= b.skip(tpkt::frame_len(b)) })"""),
              (None, "frame", "final(tpkt).written() == old(tpkt).written() && final(tpkt).tls() == old(tpkt).tls() && is_suffix(final(tpkt).rest(), old(tpkt).rest())")],
     pre="let ghost b = tpkt.rest();",
     hints=[(r"let mut buffer = try_let!", 1, "let ghost p = buffer.rest();"),
            (r"confirm\.read\(&mut buffer\)\?;", 1, "let ghost m0 = confirm.mv();", "before"),
            (r"confirm\.read\(&mut buffer\)\?;", 1, """let ghost m = confirm.mv();
        proof {
            assert(b[0] == 3 && tpkt::frame_hdr(b) == 4);
            assert(p =~= b.subrange(4, tpkt::frame_len(b)));
            lemma_conn_pdu_shape(m0, m);
            lemma_conn_pdu_bytes(m);
            assert(ser(m) == p.take(15));
            assert(p.take(15)[7] == p[7] && p.take(15)[11] == p[11] && p.take(15)[12] == p[12] && p.take(15)[13] == p[13] && p.take(15)[14] == p[14]);
            let g = confirm.fields();
            assert(g[1].0 == "negotiation"@);
            assert(has_key(g, "negotiation"@));
            assert(first_key(g, "negotiation"@) == 1);
            let n = pdu_neg(m);
            assert(n[0].0 == "type"@ && n[3].0 == "result"@);
            assert(has_key(n, "type"@) && has_key(n, "result"@));
            assert(first_key(n, "type"@) == 0);
            assert(first_key(n, "result"@) == 3);
        }"""),
            (r"let nego = cast!", 1, "proof { assert(nego.fields() == pdu_neg(m)); }"),
            (NEG_FAIL_ERR, 1, "}", "atend"), (NEG_REQ_ERR, 1, "}", "atend")]))
# the catch-all arm of the dispatch (`_ => Err(..)`), whatever its message text says
NOT_HANDLED_ERR = r'(?<=_ => )Err\(Error::RdpError\(RdpError::new\(RdpErrorKind::InvalidProtocol, "[^"]*"\)\)\)'
SEL_P = "let p = b0.subrange(tpkt::frame_hdr(b0), tpkt::frame_len(b0)); let sel = Protocols::from_repr(neg_rsp_selected(p));"
A(Fn(X224, "connect", impl=r"Client<S>", mod="x224", props=["C02", "C17", "C03"],
     requires=["!tpkt.tls()"],
     pre="let ghost b0 = tpkt.rest();",
     hints=[(NOT_HANDLED_ERR, 1, "}", "atend")],
     # rule R15: the third argument of start_nla ("send EMPTY credentials") is bound to a local so that a claim can name it (same value, same
     # evaluation order: the first two arguments are plain variables).  C17: the CredSSP credentials are emptied iff restricted admin OR blank
     # credentials was configured (either option alone empties them)
     body_sub=[(r"tpkt\.start_nla\(check_certificate, authentication_protocol, ([^()]*(?:\([^()]*\)[^()]*)*)\)\?",
                r"{ let __empty_creds: bool = \1; proof { assert(__empty_creds == (restricted_admin_mode || blank_creds)); } tpkt.start_nla(check_certificate, authentication_protocol, __empty_creds)? }")],
     # the dispatch that starts TLS / CredSSP is reached only with a protocol that was offered (no handshake, no NTLM token towards a server that
     # selected something else: a refusal AFTER the upgrade would already have sent them)
     claims=[(r"match selected_protocol \{", 1, "proof { assert((selected_protocol as u32) & security_protocols != 0); }", "before", "C02", "upgrade-only-after-the-offer-check"),
             # refusal justifications, on the selectedProtocol field of the server's RDP_NEG_RSP (bytes 11..15 of the X.224 payload of the first frame read):
             # "not offered" only when it has no bit in common with the request; "not handled" only when it is neither PROTOCOL_SSL nor PROTOCOL_HYBRID
             (r"return Err\(.*Server selected a security protocol that was not offered", 1, "proof { " + SEL_P + " assert(sel is Some && (sel->Some_0 as u32) & security_protocols == 0); }", "before", "C03,C02", "refused-as-not-offered-only-when-no-offered-bit-is-selected"),
             (NOT_HANDLED_ERR, 1, "{\nproof { " + SEL_P + " assert(sel is Some && !(sel->Some_0 is ProtocolSSL) && !(sel->Some_0 is ProtocolHybrid)); }", "at", "C03,C02", "refused-as-not-handled-only-when-neither-ssl-nor-hybrid")],
     ensures=[("C02", "tls-established", "r is Ok ==> r->Ok_0.tls()"),
              ("C02", "selection-was-offered", "r is Ok ==> (r->Ok_0.selected() as u32) & security_protocols != 0"),
              ("C02", "only-tls-based-protocols", "r is Ok ==> (r->Ok_0.selected() is ProtocolSSL || r->Ok_0.selected() is ProtocolHybrid)"),
              ("C02", "certificate-flag-threaded", "r is Ok ==> r->Ok_0.cert_checked() == check_certificate"),
              ("C17,C03", "request-first-and-announces-mode", "r is Ok ==> is_prefix(tpkt.written() + tpkt::tpkt_frame(conn_req_bytes((if restricted_admin_mode { 1u8 } else { 0u8 }), security_protocols)), r->Ok_0.written())")]))
A(Fn(X224, "get_selected_protocols", impl=r"Client<S>", mod="x224", props=["C02"], ensures=["r == self.selected()"]))

UNIT = Unit("nego", F.UNIT.preludes, items,
            uses={"tpkt": ["use super::link::*;", "use super::cssp::*;", "use super::sspi::*;"], "x224": ["use super::tpkt;", "use super::sspi::*;"], "cssp": ["use super::link::*;", "use super::sspi::*;"]},
            mods=["link", "sspi", "cssp", "tpkt", "x224"])
