"""session unit, part 1: capability.rs + the PDU builders of global.rs + the write path (C04, C11, C03).  Exports BUILDER_ITEMS(A-style list)."""
from vx.spec import *
from vx.layouts import shape_clauses
GLB = "src/core/global.rs"
CAP = "src/core/capability.rs"
CLI = "src/core/client.rs"

items = []
A = items.append
# ---------------- capability.rs
# derive(Copy, Clone) is added so that contracts can write `cap.cap_type as u16` on this field-less enum (no executable effect)
A(Item(CAP, "enum", "CapabilitySetType", mod="capability", strip_derive=["TryFromPrimitive", "Debug", "Hash"], try_from="u16", add_derive="Copy, Clone"))
A(Item(CAP, "struct", "Capability", mod="capability"))
for e in ("MajorType", "MinorType", "GeneralExtraFlag", "OrderFlag", "InputFlags"):
    A(Item(CAP, "enum", e, mod="capability"))

A(Raw(r"""
// ---------------- TS_CAPS_SET (MS-RDPBCGR 2.2.1.13.1.1.1): capabilitySetType, lengthCapability (counts its own 4 header bytes), capabilityData
pub open spec fn cap_body(capability: Option<Capability>) -> Seq<u8> { if capability is Some { ser(capability->Some_0.message.mv()) } else { Seq::<u8>::empty() } }
pub open spec fn cap_type_of(capability: Option<Capability>) -> u16 { if capability is Some { capability->Some_0.cap_type as u16 } else { 1u16 } }
pub open spec fn caps_set_bytes(cap_type: u16, body: Seq<u8>) -> Seq<u8> { le16(cap_type) + le16((body.len() + 4) as u16) + body }
/// the message tree `capability_set` builds (deterministic: Array::new(|| capability_set(None)) needs it)
pub open spec fn capability_set_view(cap_type: u16, body: Seq<u8>) -> MV {
    MV::Comp(seq![("capabilitySetType"@, MV::U16(cap_type, true)),
                  ("lengthCapability"@, MV::Dyn(Box::new(MV::U16((body.len() + 4) as u16, true)), OV::Size("capabilitySet"@, body.len() as usize))),
                  ("capabilitySet"@, MV::Bytes(body))])
}
pub open spec fn cache_entry_view() -> MV { MV::Comp(seq![("cacheEntries"@, MV::U16(0, true)), ("cacheMaximumCellSize"@, MV::U16(0, true))]) }
""", mod="capability", name="capability_specs"))

CAP_BUILDERS = ["ts_general_capability_set", "ts_bitmap_capability_set", "ts_order_capability_set", "ts_bitmap_cache_capability_set", "ts_pointer_capability_set",
                "ts_sound_capability_set", "ts_input_capability_set", "ts_brush_capability_set", "ts_glyph_capability_set", "ts_offscreen_capability_set",
                "ts_virtualchannel_capability_set", "ts_multifragment_update_capability_ts"]
# small builders: fuel = number of fields + 2 (ser -> ser_fields_from x (n + 1)); glyph: 10 trame elements.
# large builders: fuel 3 and a chain of suffix-length assertions (proof hint, checked), one per field from the last to the first
CAP_FUEL = {"ts_general_capability_set": 3, "ts_bitmap_capability_set": 3, "ts_order_capability_set": 3, "ts_bitmap_cache_capability_set": 3, "ts_pointer_capability_set": 4,
            "ts_sound_capability_set": 4, "ts_input_capability_set": 3, "ts_brush_capability_set": 3, "ts_glyph_capability_set": 13, "ts_offscreen_capability_set": 5,
            "ts_virtualchannel_capability_set": 4, "ts_multifragment_update_capability_ts": 3}
def len_chain(res, sizes):
    n = len(sizes)
    out = ["proof { let f = %s.fields(); let e = Set::<Seq<char>>::empty(); assert(ser_fields_from(f, %d, e).len() == 0);" % (res, n)]
    tot = 0
    for i in range(n - 1, -1, -1):
        tot += sizes[i]
        out.append("assert(ser(f[%d].1).len() == %d); assert(ser_fields_from(f, %d, e).len() == %d);" % (i, sizes[i], i, tot))
    return "\n    ".join(out) + " }"
def bytes_chain(res, parts, lets=""):
    """proof hint (checked): ser_fields_from unfolded one field at a time from the last field; parts[i] = bytes of field i"""
    n = len(parts)
    out = ["proof { let f = %s.fields(); let e = Set::<Seq<char>>::empty(); %s assert(ser_fields_from(f, %d, e) =~= Seq::<u8>::empty());" % (res, lets, n)]
    for i in range(n - 1, -1, -1):
        out.append("assert(ser(f[%d].1) =~= %s); assert(ser_fields_from(f, %d, e) == ser(f[%d].1) + ser_fields_from(f, %d, e));" % (i, parts[i], i, i, i + 1))
    return "\n    ".join(out) + " }"
CAP_TYPE = {"ts_general_capability_set": "CapstypeGeneral", "ts_bitmap_capability_set": "CapstypeBitmap", "ts_order_capability_set": "CapstypeOrder",
            "ts_bitmap_cache_capability_set": "CapstypeBitmapcache", "ts_pointer_capability_set": "CapstypePointer", "ts_sound_capability_set": "CapstypeSound",
            "ts_input_capability_set": "CapstypeInput", "ts_brush_capability_set": "CapstypeBrush", "ts_glyph_capability_set": "CapstypeGlyphcache",
            "ts_offscreen_capability_set": "CapstypeOffscreencache", "ts_virtualchannel_capability_set": "CapstypeVirtualchannel",
            "ts_multifragment_update_capability_ts": "CapsettypeMultifragmentupdate"}
CAP_POST = {"ts_glyph_capability_set": """proof { let s = r.message.fields()[0].1->Trame_0; assert(s.len() == 10);
    assert forall|i: int| 0 <= i < 10 implies #[trigger] s[i] == cache_entry_view() by {}
    assert(ser_seq_from(s, 0).len() == 40); }""",
            "ts_general_capability_set": len_chain("r.message", [2] * 9 + [1, 1]),
            "ts_bitmap_capability_set": len_chain("r.message", [2] * 9 + [1, 1, 2, 2]),
            "ts_order_capability_set": len_chain("r.message", [16, 4, 2, 2, 2, 2, 2, 2, 32, 2, 2, 4, 4, 2, 2, 2, 2]),
            "ts_bitmap_cache_capability_set": len_chain("r.message", [4] * 6 + [2] * 6),
            "ts_input_capability_set": len_chain("r.message", [2, 2, 4, 4, 4, 4, 64])}
for b in CAP_BUILDERS:
    A(Fn(CAP, b, mod="capability", props=["C04", "C06"], fuel=CAP_FUEL[b], post=CAP_POST.get(b),
         ensures=shape_clauses(CAP, b, res="r.message") + [("C04", "type", "r.cap_type is %s" % CAP_TYPE[b])]))
A(Fn(CAP, "cache_entry", mod="capability", ret="c", props=["C04"], fuel=4, keys=True,
     ensures=shape_clauses(CAP, "cache_entry", res="c") + [("C04", "view", "c.mv() == cache_entry_view()"), ("C04", "size", "ser(c.mv()).len() == 4")],
     post="proof { assert(c.fields() =~= cache_entry_view()->Comp_0); }"))
CAPSET_SIZE_CLOSURE = dict(params="length: &U16", ret="-> (r: MessageOption)",
                           spec='ensures r.ov() == OV::Size("capabilitySet"@, (if length.val() >= 4 { length.val() - 4 } else { 0 }) as usize)')
A(Fn(CAP, "capability_set", mod="capability", props=["C04", "C06"], ret="c", fuel=5, keys=True,
     requires=["capability is Some ==> ser(capability->Some_0.message.mv()).len() <= 0xfff0"],
     closures={1: CAPSET_SIZE_CLOSURE},
     ensures=shape_clauses(CAP, "capability_set", res="c", nth=2) + [
         ("C04", "type-field", "c.fields()[0].1 == MV::U16(cap_type_of(capability), true)"),
         ("C04", "length-field", "c.fields()[1].1 matches MV::Dyn(b, o) && *b == MV::U16((cap_body(capability).len() + 4) as u16, true) && o == OV::Size(\"capabilitySet\"@, cap_body(capability).len() as usize)"),
         ("C04", "body-field", "c.fields()[2].1 == MV::Bytes(cap_body(capability))"),
         ("C04", "view", "c.mv() == capability_set_view(cap_type_of(capability), cap_body(capability))"),
         ("C04", "bytes", "ser(c.mv()) =~= caps_set_bytes(cap_type_of(capability), cap_body(capability))"),
         ("C04", "size", "ser(c.mv()).len() == cap_body(capability).len() + 4")],
     post="proof { assert(c.fields() =~= capability_set_view(cap_type_of(capability), cap_body(capability))->Comp_0); }"))
A(Fn(CAP, "from_capability_set", impl=r"impl Capability", mod="capability", props=["C06"], keys=True,
     requires=['has_key(capability_set.fields(), "capabilitySetType"@)', 'has_key(capability_set.fields(), "capabilitySet"@)'],
     ensures=[("C06", "only-known-types", """r is Ok && capability_set.fields()[first_key(capability_set.fields(), "capabilitySetType"@)].1 is U16 ==> ({
            let t = capability_set.fields()[first_key(capability_set.fields(), "capabilitySetType"@)].1->U16_0;
            r->Ok_0.cap_type as u16 == t && (t == 1 || t == 2 || t == 3 || t == 4 || t == 8 || t == 0xC || t == 0xD || t == 0xF || t == 0x10 || t == 0x11 || t == 0x14 || t == 0x1A) })""")]))


# capability-set sizes documented in MS-RDPBCGR 2.2.7.1.x / 2.2.7.2.x (lengthCapability minus the 4 byte header)
# ts_virtualchannel_capability_set: 2.2.7.1.10 allows 8 (flags only) or 12 (flags + VCChunkSize); the code always sends VCChunkSize -> 12 - 4 = 8
CAP_SIZES = {"ts_general_capability_set": 20, "ts_bitmap_capability_set": 24, "ts_order_capability_set": 84, "ts_bitmap_cache_capability_set": 36,
             "ts_pointer_capability_set": 4, "ts_sound_capability_set": 4, "ts_input_capability_set": 84, "ts_brush_capability_set": 4,
             "ts_glyph_capability_set": 48, "ts_offscreen_capability_set": 8, "ts_virtualchannel_capability_set": 8, "ts_multifragment_update_capability_ts": 4}
for x in items:
    if x.kind == "fn" and x.name in CAP_SIZES:
        x.ensures.append(Clause("ser(r.message.mv()).len() == %d" % CAP_SIZES[x.name], props=["C04"], cid="documented-size"))

def G(name, impl=None, **kw):
    A(Fn(GLB, name, impl=impl, mod="global", **kw))

A(Raw(r"""
// ---------------- message trees of the builders that serve as Array prototypes (deterministic factories) and further MS-RDPBCGR layouts
pub open spec fn share_control_view(pdu_type: u16, source: u16, body: Seq<u8>) -> MV {
    MV::Comp(seq![("totalLength"@, MV::Dyn(Box::new(MV::U16((body.len() + 6) as u16, true)), OV::Size("pduMessage"@, body.len() as usize))),
                  ("pduType"@, MV::U16(pdu_type, true)),
                  ("PDUSource"@, MV::Opt(Some(Box::new(MV::U16(source, true))))),
                  ("pduMessage"@, MV::Bytes(body))])
}
pub open spec fn input_event_view(msg_type: u16, data: Seq<u8>) -> MV {
    MV::Comp(seq![("eventTime"@, MV::U32(0, true)), ("messageType"@, MV::U16(msg_type, true)), ("slowPathInputData"@, MV::Bytes(data))])
}
pub open spec fn fp_update_view() -> MV {
    MV::Comp(seq![("updateHeader"@, MV::Dyn(Box::new(MV::U8(0)), OV::Skip("compressionFlags"@))),
                  ("compressionFlags"@, MV::U8(0)),
                  ("size"@, MV::Dyn(Box::new(MV::U16(0, true)), OV::Size("updateData"@, 0))),
                  ("updateData"@, MV::Bytes(Seq::empty()))])
}
pub open spec fn cd_header_view() -> MV {
    MV::Comp(seq![("cbCompFirstRowSize"@, MV::Check(Box::new(MV::U16(0, true)))), ("cbCompMainBodySize"@, MV::U16(0, true)),
                  ("cbScanWidth"@, MV::U16(0, true)), ("cbUncompressedSize"@, MV::U16(0, true))])
}
/// TS_CD_HEADER (MS-RDPBCGR 2.2.9.1.1.3.1.2.3): cbCompFirstRowSize(0), cbCompMainBodySize(1), cbScanWidth(2), cbUncompressedSize(3);
/// the compressed bitmap data that follows the header has cbCompMainBodySize bytes.  Looked up by field NAME (as Component's index does).
pub open spec fn cd_main_body_size(header: MV) -> u16 { header->Comp_0[first_key(header->Comp_0, "cbCompMainBodySize"@)].1->U16_0 }
pub open spec fn bitmap_data_view() -> MV {
    MV::Comp(seq![("destLeft"@, MV::U16(0, true)), ("destTop"@, MV::U16(0, true)), ("destRight"@, MV::U16(0, true)), ("destBottom"@, MV::U16(0, true)),
                  ("width"@, MV::U16(0, true)), ("height"@, MV::U16(0, true)), ("bitsPerPixel"@, MV::U16(0, true)),
                  ("flags"@, MV::Dyn(Box::new(MV::U16(0, true)), OV::Skip("bitmapComprHdr"@))),
                  ("bitmapLength"@, MV::Dyn(Box::new(MV::U16(0, true)), OV::Size("bitmapDataStream"@, 0))),
                  ("bitmapComprHdr"@, MV::Dyn(Box::new(cd_header_view()), OV::Size("bitmapDataStream"@, 0))),
                  ("bitmapDataStream"@, MV::Bytes(Seq::empty()))])
}
// ---------------- proved helper lemmas: the bytes of trame![a, b, ..] grow by ser(x) with every push
pub proof fn lemma_ser_seq_push_len(a: Seq<MV>, m: MV, i: int)
    requires 0 <= i <= a.len()
    ensures ser_seq_from(a.push(m), i).len() == ser_seq_from(a, i).len() + ser(m).len()
    decreases a.len() - i
{
    reveal_with_fuel(ser_seq_from, 2);
    if i < a.len() {
        lemma_ser_seq_push_len(a, m, i + 1);
        assert(a.push(m)[i] == a[i]);
    } else {
        assert(a.push(m)[i] == m);
    }
}
pub broadcast proof fn lemma_trame_push_ser_len(s: Seq<Field>, f: Field)
    ensures ser_seq(trame_view(#[trigger] s.push(f))).len() == ser_seq(trame_view(s)).len() + ser(f.fview()).len()
{
    lemma_trame_view_push(s, f);
    lemma_ser_seq_push_len(trame_view(s), f.fview(), 0);
}
/// TS_CONFIRM_ACTIVE_PDU body after the share control header (2.2.1.13.2.1): lengthCombinedCapabilities counts numberCapabilities + pad2Octets + the sets
pub open spec fn confirm_active_bytes(share_id: u32, source: Seq<u8>, ncaps: u16, caps: Seq<u8>) -> Seq<u8> {
    // (right-nested: the order in which Component::write concatenates, so that no sequence-associativity reasoning is needed)
    le32(share_id) + (le16(0x03EA) + (le16(source.len() as u16) + (le16((caps.len() + 4) as u16) + (source + (le16(ncaps) + (le16(0) + caps))))))
}
""", mod="global", name="global_views"))

# ---- builders: shape derived from the code (helper contract), values from the specification
def builder(name, res, extra=None, props=("C04", "C06"), **kw):
    G(name, props=list(props), ensures=shape_clauses(GLB, name, res=res) + (extra or []), **kw)

MO = "-> (r: MessageOption)"
def size_closure(param, field, k=0):
    """closure `|x| MessageOption::Size(field, x - k or 0)`: the option it yields, for EVERY value of x (the body's arithmetic is checked: no underflow)"""
    v = "%s.val()" % param
    e = "%s as usize" % v if k == 0 else "(if %s >= %d { %s - %d } else { 0 }) as usize" % (v, k, v, k)
    return dict(params="%s: &U16" % param, ret=MO, spec='ensures r.ov() == OV::Size("%s"@, %s)' % (field, e))
CAPSET_DEFAULT = dict(params="", ret="-> (c: Component)", spec="ensures c.mv() == capability::capability_set_view(1, Seq::empty())")
OPT_MSG = "(if message is Some { message->Some_0@ } else { Seq::<u8>::empty() })"

builder("ts_demand_active_pdu", "r.message", keys=True,
        closures={1: size_closure("length", "sourceDescriptor"), 2: size_closure("length", "capabilitySets", 4), 3: CAPSET_DEFAULT},
        extra=[(None, "type", "r.pdu_type is PdutypeDemandactivepdu"),
               ("C06", "prototype", "r.message.fields()[6].1 matches MV::Arr(s, p) && s.len() == 0 && *p == capability::capability_set_view(1, Seq::empty())")])
OPT_SRC = "(if source is Some { source->Some_0@ } else { Seq::<u8>::empty() })"
OPT_CAPS = "(if capabilities_set is Some { capabilities_set->Some_0.mv()->Arr_0 } else { Seq::<MV>::empty() })"
CA_LETS = "let src = %s; let cs = %s; let caps = ser_seq(cs);" % (OPT_SRC, OPT_CAPS)
builder("ts_confirm_active_pdu", "r.message", fuel=3,
        post=bytes_chain("r.message", ["le32(o32(share_id, 0))", "le16(0x03EA)", "le16(src.len() as u16)", "le16((caps.len() + 4) as u16)", "src", "le16(cs.len() as u16)", "le16(0)", "caps"], CA_LETS),
        requires=["source is Some ==> source->Some_0@.len() <= 0xffff",
                  "capabilities_set is Some ==> ser(capabilities_set->Some_0.mv()).len() + 4 <= 0xffff && capabilities_set->Some_0.mv()->Arr_0.len() <= 0xffff"],
        closures={1: CAPSET_DEFAULT, 2: size_closure("length", "sourceDescriptor"), 3: size_closure("length", "capabilitySets", 4)},
        extra=[(None, "type", "r.pdu_type is PdutypeConfirmactivepdu"),
               ("C04", "bytes", "ser(r.message.mv()) =~= confirm_active_bytes(o32(share_id, 0), %s, %s.len() as u16, ser_seq(%s))" % (OPT_SRC, OPT_CAPS, OPT_CAPS)),
               ("C04", "size", "ser(r.message.mv()).len() == 14 + %s.len() + ser_seq(%s).len()" % (OPT_SRC, OPT_CAPS)),
               # parsing path (PDU::from_control reads into ts_confirm_active_pdu(None, None, None)): the default array is EMPTY and its element factory is capability_set(None)
               ("C06", "default-prototype", "capabilities_set is None ==> (r.message.fields()[7].1 matches MV::Arr(s, p) && s.len() == 0 && *p == capability::capability_set_view(1, Seq::empty()))"),
               ("C04,C06", "given-array", "capabilities_set is Some ==> r.message.fields()[7].1 == capabilities_set->Some_0.mv()"),
               ("C06", "default-source", "source is None ==> r.message.fields()[4].1 == MV::Bytes(Seq::empty())")])
builder("ts_deactivate_all_pdu", "r.message", keys=True, closures={1: size_closure("length", "sourceDescriptor")},
        extra=[(None, "type", "r.pdu_type is PdutypeDeactivateallpdu")])
SDH_T2 = "(if pdu_type_2 is Some { pdu_type_2->Some_0 as u8 } else { 0x32u8 })"
builder("share_data_header", "r.message", props=("C04", "C06", "C11"), fuel=3,
        post=bytes_chain("r.message", ["le32(o32(share_id, 0))", "seq![0u8]", "seq![1u8]", "le16((msg.len() + 18) as u16)", "seq![%s]" % SDH_T2, "seq![0u8]", "le16(0)", "msg"], "let msg = %s;" % OPT_MSG),
        requires=["(if message is Some { message->Some_0@.len() } else { 0 }) + 18 <= 0xffff"],
        closures={1: size_closure("size", "payload", 18)},
        extra=[(None, "type", "r.pdu_type is PdutypeDatapdu"),
               ("C04,C11", "bytes", "ser(r.message.mv()) =~= share_data_bytes(o32(share_id, 0), (if pdu_type_2 is Some { pdu_type_2->Some_0 as u8 } else { 0x32u8 }), (if message is Some { message->Some_0@ } else { Seq::<u8>::empty() }))")])
SCH_TYPE = "(if pdu_type is Some { pdu_type->Some_0 as u16 } else { 0x11u16 })"
builder("share_control_header", "c", ret="c", props=("C04", "C06", "C11"), keys=True, fuel=3,
        requires=["(if message is Some { message->Some_0@.len() } else { 0 }) + 6 <= 0xffff"],
        closures={1: size_closure("total", "pduMessage", 6)},
        extra=[("C04,C11", "bytes", "ser(c.mv()) =~= share_control_bytes((if pdu_type is Some { pdu_type->Some_0 as u16 } else { 0x11u16 }), o16(pdu_source, 0), (if message is Some { message->Some_0@ } else { Seq::<u8>::empty() }))"),
               ("C04,C06", "view", "c.mv() == share_control_view(%s, o16(pdu_source, 0), %s)" % (SCH_TYPE, OPT_MSG))],
        post=bytes_chain("c", ["le16((msg.len() + 6) as u16)", "le16(%s)" % SCH_TYPE, "le16(o16(pdu_source, 0))", "msg"], "let msg = %s;" % OPT_MSG)
             + " proof { assert(c.fields() =~= share_control_view(%s, o16(pdu_source, 0), %s)->Comp_0); }" % (SCH_TYPE, OPT_MSG))
builder("ts_synchronize_pdu", "r.message", props=("C04", "C06", "C12", "C03"), fuel=4,
        post="proof { let f = r.message.fields(); assert(f[1].1 == MV::Opt(Some(Box::new(MV::U16(o16(target_user, 0), true))))); assert(ser(f[1].1) =~= le16(o16(target_user, 0))); assert(ser(f[0].1) =~= le16(1)); }",
        extra=[(None, "type", "r.pdu_type is Pdutype2Synchronize"), ("C04,C12,C03", "bytes", "ser(r.message.mv()) =~= sync_body(o16(target_user, 0))")])
builder("ts_font_list_pdu", "r.message", props=("C04", "C12", "C03"), fuel=6,
        extra=[(None, "type", "r.pdu_type is Pdutype2Fontlist"), ("C04,C12,C03", "bytes", "ser(r.message.mv()) =~= fontlist_body()")])
builder("ts_set_error_info_pdu", "r.message", extra=[(None, "type", "r.pdu_type is Pdutype2SetErrorInfoPdu")])
builder("ts_control_pdu", "r.message", props=("C04", "C06", "C12", "C03"), fuel=5,
        extra=[(None, "type", "r.pdu_type is Pdutype2Control"), ("C04,C12,C03", "bytes", "ser(r.message.mv()) =~= control_body(if action is Some { action->Some_0 as u16 } else { 4u16 })")])
builder("ts_font_map_pdu", "r.message", extra=[(None, "type", "r.pdu_type is Pdutype2Fontmap")])
builder("ts_input_pdu_data", "r.message", props=("C04", "C11"), fuel=5,
        closures={1: dict(params="", ret="-> (c: Component)", spec="ensures c.mv() == input_event_view(0x8001, Seq::empty())")},
        extra=[(None, "type", "r.pdu_type is Pdutype2Input"),
               ("C04,C11", "bytes", "events is Some && events->Some_0.mv() is Arr ==> ser(r.message.mv()) =~= le16(events->Some_0.mv()->Arr_0.len() as u16) + le16(0) + ser_seq(events->Some_0.mv()->Arr_0)"),
               # parsing path: the default array is EMPTY and its element factory is ts_input_event(None, None)
               ("C06", "default-prototype", "events is None ==> (r.message.fields()[2].1 matches MV::Arr(s, p) && s.len() == 0 && *p == input_event_view(0x8001, Seq::empty()))"),
               ("C04,C06", "given-array", "events is Some ==> r.message.fields()[2].1 == events->Some_0.mv()")])
IE_TYPE = "(if message_type is Some { message_type->Some_0 as u16 } else { 0x8001u16 })"
IE_DATA = "(if data is Some { data->Some_0@ } else { Seq::<u8>::empty() })"
builder("ts_input_event", "c", ret="c", props=("C04", "C11"), fuel=5, keys=True,
        extra=[("C04,C11", "bytes", "ser(c.mv()) =~= input_event_bytes((if message_type is Some { message_type->Some_0 as u16 } else { 0x8001u16 }), (if data is Some { data->Some_0@ } else { Seq::<u8>::empty() }))"),
               ("C04,C11", "view", "c.mv() == input_event_view(%s, %s)" % (IE_TYPE, IE_DATA))],
        post="proof { assert(c.fields() =~= input_event_view(%s, %s)->Comp_0); }" % (IE_TYPE, IE_DATA))
builder("ts_pointer_event", "r.message", props=("C04", "C11"), fuel=5,
        extra=[("C11", "type", "r.event_type is InputEventMouse"), ("C04,C11", "bytes", "ser(r.message.mv()) =~= le16(o16(flags, 0)) + le16(o16(x, 0)) + le16(o16(y, 0))")])
builder("ts_keyboard_event", "r.message", props=("C04", "C11"), fuel=5,
        extra=[("C11", "type", "r.event_type is InputEventScancode"), ("C04,C11", "bytes", "ser(r.message.mv()) =~= le16(o16(flags, 0)) + le16(o16(key_code, 0)) + le16(0)")])
# Verus crashes (mk_range) on arithmetic applied to a reference: `header >> 4` with header: &u8 is spelled with the explicit deref
builder("ts_fp_update", "c", ret="c", props=("C06", "C10"), keys=True, body_sub=[(r"\(header >> 4\)", "(*header >> 4)")],
        # #1: as-implemented (differs from MS-RDPBCGR 2.2.9.1.2.1: compression is bits 6-7, the code tests bit 5 = fragmentation); #2 from the document: updateData has `size` bytes
        closures={1: dict(params="header: &u8", ret=MO, props="C06,C10", cid="as-implemented (differs from MS-RDPBCGR 2.2.9.1.2.1: compression is bits 6-7)",
                          spec='ensures r.ov() == (if (*header >> 4) & 0x2 == 0 { OV::Skip("compressionFlags"@) } else { OV::None })'),
                  2: dict(size_closure("size", "updateData"), props="C10", cid="update-size")},
        extra=[("C06,C10", "view", "c.mv() == fp_update_view()")],
        post="proof { assert((0u8 >> 4) & 0x2 == 0) by(bit_vector); assert(c.fields() =~= fp_update_view()->Comp_0); }")
builder("ts_cd_header", "c", ret="c", props=("C06", "C10"), keys=True, extra=[("C06,C10", "view", "c.mv() == cd_header_view()")],
        post="proof { assert(c.fields() =~= cd_header_view()->Comp_0); }")
# closure contracts of ts_bitmap_data are written from MS-RDPBCGR 2.2.9.1.1.3.1.2.2 TS_BITMAP_DATA (not from the code):
#  #1 flags: bitmapComprHdr is absent iff BITMAP_COMPRESSION (0x0001) is clear or NO_BITMAP_COMPRESSION_HDR (0x0400) is set
#  #2 bitmapLength: size in bytes of bitmapDataStream (when the compression header is absent)
#  #3 bitmapComprHdr (TS_CD_HEADER 2.2.9.1.1.3.1.2.3): bitmapDataStream has cbCompMainBodySize bytes -- field "cbCompMainBodySize", position 1 of the documented layout
# (`props` / `cid` of a closure entry document the property the contract belongs to: a closure post-condition failure is a failure of the enclosing builder)
builder("ts_bitmap_data", "c", ret="c", props=("C06", "C10"), keys=True,
        closures={1: dict(params="flags: &U16", ret=MO, props="C10", cid="comprhdr-present-iff-compressed-with-header",
                          spec='ensures r.ov() == (if flags.val() & 0x0001 == 0 || flags.val() & 0x0400 != 0 { OV::Skip("bitmapComprHdr"@) } else { OV::None })'),
                  2: dict(size_closure("length", "bitmapDataStream"), props="C10", cid="data-size-is-bitmapLength"),
                  3: dict(params="header: &Component", ret=MO, props="C10", cid="data-size-is-cbCompMainBodySize",
                          spec='requires same_shape(cd_header_view(), header.mv()) ensures r.ov() == OV::Size("bitmapDataStream"@, cd_main_body_size(header.mv()) as usize), cd_main_body_size(header.mv()) == header.fields()[1].1->U16_0, header.fields()[1].0 == "cbCompMainBodySize"@')},
        hints=[(r'MessageOption::Size\("bitmapDataStream"\.to_string\(\), cast!', 1, "proof { reveal_with_fuel(same_shape, 2); let f = header.fields(); let g = cd_header_view()->Comp_0; assert(g[1].0 == f[1].0 && g[0].0 == f[0].0 && g[2].0 == f[2].0 && g[3].0 == f[3].0 && same_shape(g[1].1, f[1].1) && same_shape(g[3].1, f[3].1)); assert(first_key(f, \"cbCompMainBodySize\"@) == 1); }", "at")],
        extra=[("C06,C10", "view", "c.mv() == bitmap_data_view()")],
        post="proof { assert(0u16 & 0x0001 == 0) by(bit_vector); assert(c.fields() =~= bitmap_data_view()->Comp_0); }")
builder("ts_fp_update_bitmap", "r.message", props=("C06", "C10"),
        closures={1: dict(params="", ret="-> (c: Component)", spec="ensures c.mv() == bitmap_data_view()")},
        extra=[(None, "type", "r.fp_type is FastpathUpdatetypeBitmap"),
               ("C06,C10", "prototype", "r.message.fields()[2].1 matches MV::Arr(s, p) && s.len() == 0 && *p == bitmap_data_view()")])
builder("ts_colorpointerattribute", "r.message", props=("C06",),
        closures={1: size_closure("length", "andMaskData"), 2: size_closure("length", "xorMaskData")},
        extra=[(None, "type", "r.fp_type is FastpathUpdatetypeColor")])
G("ts_fp_update_synchronize", props=["C06"], ensures=[(None, "shape", "r.message.fields().len() == 0 && r.fp_type is FastpathUpdatetypeSynchronize")])
G("ts_fp_systempointerhiddenattribute", props=["C06"], ensures=[(None, "shape", "r.message.fields().len() == 0 && r.fp_type is FastpathUpdatetypePtrNull")])


WRITE_REQ = ["old(mcs).connected()"]
MCS_FRAME = [(None, "mcs-frame", "final(mcs).rest() == old(mcs).rest() && final(mcs).same_session(old(mcs)) && is_prefix(old(mcs).written(), final(mcs).written())")]
# the write path never reports InvalidAutomata by itself (RdpClient::try_write swallows exactly that kind)
ERR_KIND = [(None, "error-kind", "!automata_err(r)")]
STATE_FRAME = [(None, "state-untouched", "final(self).st() == old(self).st() && final(self).same_config(old(self))")]
G("write_pdu", impl=r"impl Client", props=["C04", "C11", "C12", "C03"],
  requires=WRITE_REQ + ["ser(message.message.mv()).len() + 6 <= 0x7fff"],
  ensures=MCS_FRAME + ERR_KIND + [("C04,C11,C12,C03", "one-pdu", "r is Ok ==> final(mcs).written() =~= old(mcs).written() + mcs::mcs_frame(old(mcs).uid()->Some_0, old(mcs).chans()[\"global\"@], share_control_bytes(message.pdu_type as u16, self.uid(), ser(message.message.mv())))")])
G("write_data_pdu", impl=r"impl Client", props=["C04", "C11", "C12", "C03"],
  requires=WRITE_REQ + ["ser(message.message.mv()).len() + 24 <= 0x7fff"],
  ensures=MCS_FRAME + ERR_KIND + [("C04,C11,C12,C03", "one-data-pdu", "r is Ok ==> final(mcs).written() =~= old(mcs).written() + mcs::mcs_frame(old(mcs).uid()->Some_0, old(mcs).chans()[\"global\"@], data_pdu_frame(o32(self.share(), 0), self.uid(), message.pdu_type as u8, ser(message.message.mv())))")])
G("write_confirm_active_pdu", impl=r"impl Client", props=["C12", "C03", "C04"], fuel=2,
  requires=WRITE_REQ + ["old(self).name@.len() <= 1024"],
  pre="broadcast use lemma_trame_push_ser_len, axiom_utf8_len;",
  hints=[(r"self\.write_pdu\(pdu, mcs\)", 1, """proof { let body = ser(pdu.message.mv()); assert(share_control_bytes(0x13, self.uid(), body).len() > 0);
            assert(exists|caps: Seq<u8>| caps.len() == 376 && body == #[trigger] confirm_active_bytes(o32(self.share(), 0), utf8_bytes(self.name@), 12, caps)); }""", "before")],
  ensures=MCS_FRAME + ERR_KIND + STATE_FRAME + [("C12,C03", "one-confirm-active", "r is Ok ==> exists|body: Seq<u8>| #[trigger] share_control_bytes(0x13, old(self).uid(), body).len() > 0 && final(mcs).written() =~= old(mcs).written() + mcs::mcs_frame(old(mcs).uid()->Some_0, old(mcs).chans()[\"global\"@], share_control_bytes(0x13, old(self).uid(), body))"),
      # strengthening: the body is a confirm-active PDU for the announced share id whose source descriptor is the client name (UTF-8) and which carries the 12 capability sets (376 bytes with their headers)
      ("C04,C03", "confirm-active-layout", "r is Ok ==> exists|caps: Seq<u8>| caps.len() == 376 && final(mcs).written() =~= old(mcs).written() + mcs::mcs_frame(old(mcs).uid()->Some_0, old(mcs).chans()[\"global\"@], share_control_bytes(0x13, old(self).uid(), #[trigger] confirm_active_bytes(o32(old(self).share(), 0), utf8_bytes(old(self).name@), 12, caps)))")])
G("write_client_finalize", impl=r"impl Client", props=["C12", "C03"],
  requires=WRITE_REQ,
  ensures=MCS_FRAME + ERR_KIND + [("C12,C03", "sync-coop-request-fontlist-in-order", """r is Ok ==> ({
      let u = old(mcs).uid()->Some_0; let g = old(mcs).chans()["global"@]; let sh = o32(self.share(), 0);
      final(mcs).written() =~= old(mcs).written()
        + mcs::mcs_frame(u, g, data_pdu_frame(sh, self.uid(), 0x1F, sync_body(self.chan())))
        + mcs::mcs_frame(u, g, data_pdu_frame(sh, self.uid(), 0x14, control_body(4)))
        + mcs::mcs_frame(u, g, data_pdu_frame(sh, self.uid(), 0x14, control_body(1)))
        + mcs::mcs_frame(u, g, data_pdu_frame(sh, self.uid(), 0x27, fontlist_body())) })""")])
G("write_input_event", impl=r"impl Client", props=["C11", "C12"], fuel=3,
  requires=WRITE_REQ + ["ser(event.message.mv()).len() <= 64"],
  ensures=MCS_FRAME + [("C11,C12", "error-kind", "self.st() is Data ==> !automata_err(r)")] + [("C12,C11", "gated", "!(self.st() is Data) ==> r is Err && r->Err_0 is RdpError && r->Err_0->RdpError_0.kind == RdpErrorKind::InvalidAutomata && final(mcs).written() == old(mcs).written()"),
                       ("C11", "one-input-pdu", "self.st() is Data && r is Ok ==> final(mcs).written() =~= old(mcs).written() + mcs::mcs_frame(old(mcs).uid()->Some_0, old(mcs).chans()[\"global\"@], slow_path_input(o32(self.share(), 0), self.uid(), event.event_type as u16, ser(event.message.mv())))")])

BUILDER_ITEMS = items
