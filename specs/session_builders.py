"""session unit, part 1: capability.rs + the PDU builders of global.rs + the write path (C04, C11, C03).  Exports BUILDER_ITEMS(A-style list)."""
from vx.spec import *
from vx.layouts import shape_clauses
GLB = "src/core/global.rs"
CAP = "src/core/capability.rs"
CLI = "src/core/client.rs"
import os
# VERIF_DOC_STRICT=1 replaces every "as-implemented" layout clause below by the clause transcribed from the document (these FAIL on the
# current code: each one is a reported discrepancy between the code and MS-RDPBCGR, see the comment at the clause)
DOC_STRICT = os.environ.get("VERIF_DOC_STRICT") == "1"

items = []
A = items.append
# ---------------- capability.rs
# derive(Copy, Clone) is added so that contracts can write `cap.cap_type as u16` on this field-less enum (no executable effect)
A(Item(CAP, "enum", "CapabilitySetType", mod="capability", strip_derive=["TryFromPrimitive", "Debug", "Hash"], try_from="u16", add_derive="Copy, Clone"))
A(Item(CAP, "struct", "Capability", mod="capability"))
for e in ("MajorType", "MinorType", "GeneralExtraFlag", "OrderFlag", "InputFlags"):
    A(Item(CAP, "enum", e, mod="capability"))

A(Raw(r"""
// ---------------- TS_CAPS_SET (MS-RDPBCGR 2.2.1.13.1.1.1): capabilitySetType, lengthCapability (counts its own 4 header bytes), capabilityData
pub open spec fn cap_body(capability: Option<Capability>) -> Seq<u8> { if capability is Some { ser(capability->Some_0.message.mv()) } else { Seq::<u8>::empty() } }
pub open spec fn cap_type_of(capability: Option<Capability>) -> u16 { if capability is Some { capability->Some_0.cap_type as u16 } else { 1u16 } }
pub open spec fn caps_set_bytes(cap_type: u16, body: Seq<u8>) -> Seq<u8> { le16(cap_type) + le16((body.len() + 4) as u16) + body }
/// the message tree `capability_set` builds (deterministic: Array::new(|| capability_set(None)) needs it)
pub open spec fn capability_set_view(cap_type: u16, body: Seq<u8>) -> MV {
    MV::Comp(seq![("capabilitySetType"@, MV::U16(cap_type, true)),
                  ("lengthCapability"@, MV::Dyn(Box::new(MV::U16((body.len() + 4) as u16, true)), OV::Size("capabilitySet"@, body.len() as usize))),
                  ("capabilitySet"@, MV::Bytes(body))])
}
pub open spec fn cache_entry_view() -> MV { MV::Comp(seq![("cacheEntries"@, MV::U16(0, true)), ("cacheMaximumCellSize"@, MV::U16(0, true))]) }
""", mod="capability", name="capability_specs"))

A(Raw(r"""
// ---------------- capability sets as the SERVER sends them in the Demand Active PDU (parsed by Capability::from_capability_set), transcribed from
// MS-RDPBCGR 2.2.7.1.x / 2.2.7.2.x (NOT derived from the code).  These views pin the LAYOUT (order, names, kinds, widths, endianness, checked constants,
// fixed sizes, optional fields); plain values are left to the builder (`f` = its own field list: f16(f, i) is "a u16 LE at position i, whatever its value").
pub open spec fn zeros(n: nat) -> Seq<u8> { Seq::new(n, |i: int| 0u8) }
pub open spec fn f8(f: Seq<(Seq<char>, MV)>, i: int) -> MV { MV::U8(f[i].1->U8_0) }
pub open spec fn f16(f: Seq<(Seq<char>, MV)>, i: int) -> MV { MV::U16(f[i].1->U16_0, true) }
pub open spec fn f32(f: Seq<(Seq<char>, MV)>, i: int) -> MV { MV::U32(f[i].1->U32_0, true) }
/// a field the document fixes with MUST: read through a Check
pub open spec fn c16(v: u16) -> MV { MV::Check(Box::new(MV::U16(v, true))) }
/// TS_GENERAL_CAPABILITYSET (2.2.7.1.1): protocolVersion MUST be 0x0200, generalCompressionTypes / updateCapabilityFlag / remoteUnshareFlag /
/// generalCompressionLevel MUST be 0; the other fields are plain values
pub open spec fn general_cap_view(f: Seq<(Seq<char>, MV)>) -> MV {
    MV::Comp(seq![("osMajorType"@, f16(f, 0)), ("osMinorType"@, f16(f, 1)), ("protocolVersion"@, c16(0x0200)), ("pad2octetsA"@, f16(f, 3)),
                  ("generalCompressionTypes"@, c16(0)), ("extraFlags"@, f16(f, 5)), ("updateCapabilityFlag"@, c16(0)), ("remoteUnshareFlag"@, c16(0)),
                  ("generalCompressionLevel"@, c16(0)), ("refreshRectSupport"@, f8(f, 9)), ("suppressOutputSupport"@, f8(f, 10))])
}
/// TS_BITMAP_CAPABILITYSET (2.2.7.1.2): bitmapCompressionFlag and multipleRectangleSupport MUST be 0x0001 (checked).  receive1BitPerPixel / receive4BitsPerPixel /
/// receive8BitsPerPixel ("ignored and SHOULD be set to TRUE") and highColorFlags ("ignored and SHOULD be set to zero") are plain values in the document:
/// `r1`, `r4`, `r8`, `hc` = the views of these four fields (see ts_bitmap_capability_set below)
pub open spec fn bitmap_cap_view(f: Seq<(Seq<char>, MV)>, r1: MV, r4: MV, r8: MV, hc: MV) -> MV {
    MV::Comp(seq![("preferredBitsPerPixel"@, f16(f, 0)), ("receive1BitPerPixel"@, r1), ("receive4BitsPerPixel"@, r4), ("receive8BitsPerPixel"@, r8),
                  ("desktopWidth"@, f16(f, 4)), ("desktopHeight"@, f16(f, 5)), ("pad2octets"@, f16(f, 6)), ("desktopResizeFlag"@, f16(f, 7)),
                  ("bitmapCompressionFlag"@, c16(1)), ("highColorFlags"@, hc), ("drawingFlags"@, f8(f, 10)), ("multipleRectangleSupport"@, c16(1)), ("pad2octetsB"@, f16(f, 12))])
}
/// TS_ORDER_CAPABILITYSET (2.2.7.1.3): terminalDescriptor (16 bytes), orderSupport (32 bytes), the rest u16 / u32 LE in this order (84 bytes)
pub open spec fn order_cap_view(f: Seq<(Seq<char>, MV)>) -> MV {
    MV::Comp(seq![("terminalDescriptor"@, MV::Bytes(f[0].1->Bytes_0)), ("pad4octetsA"@, f32(f, 1)), ("desktopSaveXGranularity"@, f16(f, 2)), ("desktopSaveYGranularity"@, f16(f, 3)),
                  ("pad2octetsA"@, f16(f, 4)), ("maximumOrderLevel"@, f16(f, 5)), ("numberFonts"@, f16(f, 6)), ("orderFlags"@, f16(f, 7)),
                  ("orderSupport"@, MV::Bytes(f[8].1->Bytes_0)), ("textFlags"@, f16(f, 9)), ("orderSupportExFlags"@, f16(f, 10)), ("pad4octetsB"@, f32(f, 11)),
                  ("desktopSaveSize"@, f32(f, 12)), ("pad2octetsC"@, f16(f, 13)), ("pad2octetsD"@, f16(f, 14)), ("textANSICodePage"@, f16(f, 15)), ("pad2octetsE"@, f16(f, 16))])
}
/// TS_BITMAPCACHE_CAPABILITYSET (2.2.7.1.4.1): six u32 LE pads, then (entries, maximum cell size) u16 LE pairs of the three caches
pub open spec fn bitmap_cache_cap_view(f: Seq<(Seq<char>, MV)>) -> MV {
    MV::Comp(seq![("pad1"@, f32(f, 0)), ("pad2"@, f32(f, 1)), ("pad3"@, f32(f, 2)), ("pad4"@, f32(f, 3)), ("pad5"@, f32(f, 4)), ("pad6"@, f32(f, 5)),
                  ("cache0Entries"@, f16(f, 6)), ("cache0MaximumCellSize"@, f16(f, 7)), ("cache1Entries"@, f16(f, 8)), ("cache1MaximumCellSize"@, f16(f, 9)),
                  ("cache2Entries"@, f16(f, 10)), ("cache2MaximumCellSize"@, f16(f, 11))])
}
/// TS_POINTER_CAPABILITYSET (2.2.7.1.5): colorPointerFlag, colorPointerCacheSize (u16 LE); the optional pointerCacheSize that follows is not interpreted
pub open spec fn pointer_cap_view(f: Seq<(Seq<char>, MV)>) -> MV { MV::Comp(seq![("colorPointerFlag"@, f16(f, 0)), ("colorPointerCacheSize"@, f16(f, 1))]) }
/// TS_SOUND_CAPABILITYSET (2.2.7.1.11): soundFlags, pad2octetsA (u16 LE)
pub open spec fn sound_cap_view(f: Seq<(Seq<char>, MV)>) -> MV { MV::Comp(seq![("soundFlags"@, f16(f, 0)), ("pad2octetsA"@, f16(f, 1))]) }
/// TS_INPUT_CAPABILITYSET (2.2.7.1.6): inputFlags, pad2octetsA (u16 LE), keyboardLayout, keyboardType, keyboardSubType, keyboardFunctionKey (u32 LE), imeFileName (64 bytes)
pub open spec fn input_cap_view(f: Seq<(Seq<char>, MV)>) -> MV {
    MV::Comp(seq![("inputFlags"@, f16(f, 0)), ("pad2octetsA"@, f16(f, 1)), ("keyboardLayout"@, f32(f, 2)), ("keyboardType"@, f32(f, 3)),
                  ("keyboardSubType"@, f32(f, 4)), ("keyboardFunctionKey"@, f32(f, 5)), ("imeFileName"@, MV::Bytes(f[6].1->Bytes_0))])
}
/// TS_BRUSH_CAPABILITYSET (2.2.7.1.7): brushSupportLevel (u32 LE)
pub open spec fn brush_cap_view(f: Seq<(Seq<char>, MV)>) -> MV { MV::Comp(seq![("brushSupportLevel"@, f32(f, 0))]) }
/// TS_GLYPHCACHE_CAPABILITYSET (2.2.7.1.8): GlyphCache = 10 TS_CACHE_DEFINITION (CacheEntries, CacheMaximumCellSize: u16 LE each), FragCache (one more, 4 bytes,
/// kept as one u32 LE), GlyphSupportLevel (u16 LE), pad2octets (u16 LE)
pub open spec fn glyph_cap_view(f: Seq<(Seq<char>, MV)>) -> MV {
    MV::Comp(seq![("glyphCache"@, MV::Trame(Seq::new(10, |i: int| cache_entry_view()))), ("fragCache"@, f32(f, 1)), ("glyphSupportLevel"@, f16(f, 2)), ("pad2octets"@, f16(f, 3))])
}
/// TS_OFFSCREEN_CAPABILITYSET (2.2.7.1.9): offscreenSupportLevel (u32 LE), offscreenCacheSize, offscreenCacheEntries (u16 LE)
pub open spec fn offscreen_cap_view(f: Seq<(Seq<char>, MV)>) -> MV {
    MV::Comp(seq![("offscreenSupportLevel"@, f32(f, 0)), ("offscreenCacheSize"@, f16(f, 1)), ("offscreenCacheEntries"@, f16(f, 2))])
}
/// TS_VIRTUALCHANNEL_CAPABILITYSET (2.2.7.1.10): flags (u32 LE), VCChunkSize (u32 LE, OPTIONAL: a conforming server may send the 8 byte form)
pub open spec fn virtualchannel_cap_view(f: Seq<(Seq<char>, MV)>) -> MV {
    MV::Comp(seq![("flags"@, f32(f, 0)), ("VCChunkSize"@, MV::Opt(Some(Box::new(MV::U32((*f[1].1->Opt_0->Some_0)->U32_0, true)))))])
}
/// TS_MULTIFRAGMENTUPDATE_CAPABILITYSET (2.2.7.2.6): MaxRequestSize (u32 LE)
pub open spec fn multifragment_cap_view(f: Seq<(Seq<char>, MV)>) -> MV { MV::Comp(seq![("MaxRequestSize"@, f32(f, 0))]) }
""", mod="capability", name="capability_layouts"))

CAP_BUILDERS = ["ts_general_capability_set", "ts_bitmap_capability_set", "ts_order_capability_set", "ts_bitmap_cache_capability_set", "ts_pointer_capability_set",
                "ts_sound_capability_set", "ts_input_capability_set", "ts_brush_capability_set", "ts_glyph_capability_set", "ts_offscreen_capability_set",
                "ts_virtualchannel_capability_set", "ts_multifragment_update_capability_ts"]
# small builders: fuel = number of fields + 2 (ser -> ser_fields_from x (n + 1)); glyph: 10 trame elements.
# large builders: fuel 3 and a chain of suffix-length assertions (proof hint, checked), one per field from the last to the first
CAP_FUEL = {"ts_general_capability_set": 3, "ts_bitmap_capability_set": 3, "ts_order_capability_set": 3, "ts_bitmap_cache_capability_set": 3, "ts_pointer_capability_set": 4,
            "ts_sound_capability_set": 4, "ts_input_capability_set": 3, "ts_brush_capability_set": 3, "ts_glyph_capability_set": 13, "ts_offscreen_capability_set": 5,
            "ts_virtualchannel_capability_set": 4, "ts_multifragment_update_capability_ts": 3}
def len_chain(res, sizes):
    n = len(sizes)
    out = ["proof { let f = %s.fields(); let e = Set::<Seq<char>>::empty(); assert(ser_fields_from(f, %d, e).len() == 0);" % (res, n)]
    tot = 0
    for i in range(n - 1, -1, -1):
        tot += sizes[i]
        out.append("assert(ser(f[%d].1).len() == %d); assert(ser_fields_from(f, %d, e).len() == %d);" % (i, sizes[i], i, tot))
    return "\n    ".join(out) + " }"
def bytes_chain(res, parts, lets=""):
    """proof hint (checked): ser_fields_from unfolded one field at a time from the last field; parts[i] = bytes of field i"""
    n = len(parts)
    out = ["proof { let f = %s.fields(); let e = Set::<Seq<char>>::empty(); %s assert(ser_fields_from(f, %d, e) =~= Seq::<u8>::empty());" % (res, lets, n)]
    for i in range(n - 1, -1, -1):
        out.append("assert(ser(f[%d].1) =~= %s); assert(ser_fields_from(f, %d, e) == ser(f[%d].1) + ser_fields_from(f, %d, e));" % (i, parts[i], i, i, i + 1))
    return "\n    ".join(out) + " }"
CAP_TYPE = {"ts_general_capability_set": "CapstypeGeneral", "ts_bitmap_capability_set": "CapstypeBitmap", "ts_order_capability_set": "CapstypeOrder",
            "ts_bitmap_cache_capability_set": "CapstypeBitmapcache", "ts_pointer_capability_set": "CapstypePointer", "ts_sound_capability_set": "CapstypeSound",
            "ts_input_capability_set": "CapstypeInput", "ts_brush_capability_set": "CapstypeBrush", "ts_glyph_capability_set": "CapstypeGlyphcache",
            "ts_offscreen_capability_set": "CapstypeOffscreencache", "ts_virtualchannel_capability_set": "CapstypeVirtualchannel",
            "ts_multifragment_update_capability_ts": "CapsettypeMultifragmentupdate"}
CAP_POST = {"ts_glyph_capability_set": """proof { let s = r.message.fields()[0].1->Trame_0; assert(s.len() == 10);
    assert forall|i: int| 0 <= i < 10 implies #[trigger] s[i] == cache_entry_view() by {}
    assert(ser_seq_from(s, 0).len() == 40); }""",
            "ts_general_capability_set": len_chain("r.message", [2] * 9 + [1, 1]),
            "ts_bitmap_capability_set": len_chain("r.message", [2] * 9 + [1, 1, 2, 2]),
            "ts_order_capability_set": len_chain("r.message", [16, 4, 2, 2, 2, 2, 2, 2, 32, 2, 2, 4, 4, 2, 2, 2, 2]),
            "ts_bitmap_cache_capability_set": len_chain("r.message", [4] * 6 + [2] * 6),
            "ts_input_capability_set": len_chain("r.message", [2, 2, 4, 4, 4, 4, 64])}
# ---- document-based layout clauses (views above).  DISCREPANCY (minor: a capability set that fails to parse is dropped with a diagnostic, the connection goes on):
# ts_bitmap_capability_set reads receive1BitPerPixel / receive4BitsPerPixel / receive8BitsPerPixel through Check(0x0001) and highColorFlags through Check(0), which
# MS-RDPBCGR 2.2.7.1.2 makes plain ("ignored", SHOULD) values: a server announcing e.g. receive1BitPerPixel = 0 has its bitmap capability set discarded.
BITMAP_R = "f16(f, 1), f16(f, 2), f16(f, 3), f8(f, 9)" if DOC_STRICT else "c16(1), c16(1), c16(1), MV::Check(Box::new(MV::U8(0)))"
CAP_VIEW = {"ts_general_capability_set": "general_cap_view(f)", "ts_bitmap_capability_set": "bitmap_cap_view(f, %s)" % BITMAP_R, "ts_order_capability_set": "order_cap_view(f)",
            "ts_bitmap_cache_capability_set": "bitmap_cache_cap_view(f)", "ts_pointer_capability_set": "pointer_cap_view(f)", "ts_sound_capability_set": "sound_cap_view(f)",
            "ts_input_capability_set": "input_cap_view(f)", "ts_brush_capability_set": "brush_cap_view(f)", "ts_glyph_capability_set": "glyph_cap_view(f)",
            "ts_offscreen_capability_set": "offscreen_cap_view(f)", "ts_virtualchannel_capability_set": "virtualchannel_cap_view(f)",
            "ts_multifragment_update_capability_ts": "multifragment_cap_view(f)"}
# fixed-size byte fields of the documented layouts: (field index, size)
CAP_FIXED = {"ts_order_capability_set": [(0, 16), (8, 32)], "ts_input_capability_set": [(6, 64)]}
CAP_VIEW_CID = {b: b + "-as-documented" for b in CAP_BUILDERS}
if not DOC_STRICT:
    CAP_VIEW_CID["ts_bitmap_capability_set"] = "ts_bitmap_capability_set-as-documented-except-ignored-fields (as-implemented: receive1/4/8BitsPerPixel checked against 1, highColorFlags against 0; MS-RDPBCGR 2.2.7.1.2 makes them plain values)"
def cap_view_clause(b):
    cl = "({ let f = r.message.fields(); r.message.mv() == %s" % CAP_VIEW[b]
    for (i, n) in CAP_FIXED.get(b, []):
        cl += " && f[%d].1 is Bytes && f[%d].1->Bytes_0.len() == %d" % (i, i, n)
    return ("C03,C06", CAP_VIEW_CID[b], cl + " })")
def cap_view_post(b):
    extra = ""
    if b == "ts_glyph_capability_set":
        extra = "assert(f[0].1->Trame_0 =~= Seq::new(10, |i: int| cache_entry_view())); "
    return " proof { let f = r.message.fields(); %sassert(f =~= %s->Comp_0); }" % (extra, CAP_VIEW[b])
for b in CAP_BUILDERS:
    A(Fn(CAP, b, mod="capability", props=["C04", "C06", "C03"], fuel=CAP_FUEL[b], post=(CAP_POST.get(b) or "") + cap_view_post(b),
         ensures=shape_clauses(CAP, b, res="r.message") + [("C04", "type", "r.cap_type is %s" % CAP_TYPE[b]), cap_view_clause(b)]))
A(Fn(CAP, "cache_entry", mod="capability", ret="c", props=["C04"], fuel=4, keys=True,
     ensures=shape_clauses(CAP, "cache_entry", res="c") + [("C04", "view", "c.mv() == cache_entry_view()"), ("C04", "size", "ser(c.mv()).len() == 4")],
     post="proof { assert(c.fields() =~= cache_entry_view()->Comp_0); }"))
CAPSET_SIZE_CLOSURE = dict(params="length: &U16", ret="-> (r: MessageOption)",
                           spec='ensures r.ov() == OV::Size("capabilitySet"@, (if length.val() >= 4 { length.val() - 4 } else { 0 }) as usize)')
A(Fn(CAP, "capability_set", mod="capability", props=["C04", "C06"], ret="c", fuel=5, keys=True,
     requires=["capability is Some ==> ser(capability->Some_0.message.mv()).len() <= 0xfff0"],
     closures={1: CAPSET_SIZE_CLOSURE},
     ensures=shape_clauses(CAP, "capability_set", res="c", nth=2) + [
         ("C04", "type-field", "c.fields()[0].1 == MV::U16(cap_type_of(capability), true)"),
         ("C04", "length-field", "c.fields()[1].1 matches MV::Dyn(b, o) && *b == MV::U16((cap_body(capability).len() + 4) as u16, true) && o == OV::Size(\"capabilitySet\"@, cap_body(capability).len() as usize)"),
         ("C04", "body-field", "c.fields()[2].1 == MV::Bytes(cap_body(capability))"),
         ("C04", "view", "c.mv() == capability_set_view(cap_type_of(capability), cap_body(capability))"),
         ("C04", "bytes", "ser(c.mv()) =~= caps_set_bytes(cap_type_of(capability), cap_body(capability))"),
         ("C04", "size", "ser(c.mv()).len() == cap_body(capability).len() + 4")],
     post="proof { assert(c.fields() =~= capability_set_view(cap_type_of(capability), cap_body(capability))->Comp_0); }"))
A(Fn(CAP, "from_capability_set", impl=r"impl Capability", mod="capability", props=["C06", "C12"], keys=True,
     # refusal justification (MS-RDPBCGR 2.2.1.13.1.1.1 capabilitySetType): a capability set is refused as unknown only when its type is none of the twelve
     # parsed ones (General 1, Bitmap 2, Order 3, BitmapCache 4, Pointer 8, Sound 0xC, Input 0xD, Brush 0xF, GlyphCache 0x10, OffscreenCache 0x11,
     # VirtualChannel 0x14, MultifragmentUpdate 0x1A)
     claims=[(r"return Err\(Error::RdpError\(RdpError::new\(RdpErrorKind::Unknown", 1, """proof { let m = capability_set.fields()[first_key(capability_set.fields(), "capabilitySetType"@)].1;
            assert(m is U16 ==> ({ let t = m->U16_0; !(t == 1 || t == 2 || t == 3 || t == 4 || t == 8 || t == 0xC || t == 0xD || t == 0xF || t == 0x10 || t == 0x11 || t == 0x14 || t == 0x1A) })); }""", "before", "C12,C06", "unknown-only-for-other-than-the-twelve-parsed-types")],
     requires=['has_key(capability_set.fields(), "capabilitySetType"@)', 'has_key(capability_set.fields(), "capabilitySet"@)'],
     ensures=[("C06", "only-known-types", """r is Ok && capability_set.fields()[first_key(capability_set.fields(), "capabilitySetType"@)].1 is U16 ==> ({
            let t = capability_set.fields()[first_key(capability_set.fields(), "capabilitySetType"@)].1->U16_0;
            r->Ok_0.cap_type as u16 == t && (t == 1 || t == 2 || t == 3 || t == 4 || t == 8 || t == 0xC || t == 0xD || t == 0xF || t == 0x10 || t == 0x11 || t == 0x14 || t == 0x1A) })""")]))


# capability-set sizes documented in MS-RDPBCGR 2.2.7.1.x / 2.2.7.2.x (lengthCapability minus the 4 byte header)
# ts_virtualchannel_capability_set: 2.2.7.1.10 allows 8 (flags only) or 12 (flags + VCChunkSize); the code always sends VCChunkSize -> 12 - 4 = 8
CAP_SIZES = {"ts_general_capability_set": 20, "ts_bitmap_capability_set": 24, "ts_order_capability_set": 84, "ts_bitmap_cache_capability_set": 36,
             "ts_pointer_capability_set": 4, "ts_sound_capability_set": 4, "ts_input_capability_set": 84, "ts_brush_capability_set": 4,
             "ts_glyph_capability_set": 48, "ts_offscreen_capability_set": 8, "ts_virtualchannel_capability_set": 8, "ts_multifragment_update_capability_ts": 4}
for x in items:
    if x.kind == "fn" and x.name in CAP_SIZES:
        x.ensures.append(Clause("ser(r.message.mv()).len() == %d" % CAP_SIZES[x.name], props=["C04"], cid="documented-size"))

def G(name, impl=None, **kw):
    A(Fn(GLB, name, impl=impl, mod="global", **kw))

A(Raw(r"""
// ---------------- message trees of the builders that serve as Array prototypes (deterministic factories) and further MS-RDPBCGR layouts
pub open spec fn share_control_view(pdu_type: u16, source: u16, body: Seq<u8>) -> MV {
    MV::Comp(seq![("totalLength"@, MV::Dyn(Box::new(MV::U16((body.len() + 6) as u16, true)), OV::Size("pduMessage"@, body.len() as usize))),
                  ("pduType"@, MV::U16(pdu_type, true)),
                  ("PDUSource"@, MV::Opt(Some(Box::new(MV::U16(source, true))))),
                  ("pduMessage"@, MV::Bytes(body))])
}
pub open spec fn input_event_view(msg_type: u16, data: Seq<u8>) -> MV {
    MV::Comp(seq![("eventTime"@, MV::U32(0, true)), ("messageType"@, MV::U16(msg_type, true)), ("slowPathInputData"@, MV::Bytes(data))])
}
pub open spec fn fp_update_view() -> MV {
    MV::Comp(seq![("updateHeader"@, MV::Dyn(Box::new(MV::U8(0)), OV::Skip("compressionFlags"@))),
                  ("compressionFlags"@, MV::U8(0)),
                  ("size"@, MV::Dyn(Box::new(MV::U16(0, true)), OV::Size("updateData"@, 0))),
                  ("updateData"@, MV::Bytes(Seq::empty()))])
}
pub open spec fn cd_header_view() -> MV {
    MV::Comp(seq![("cbCompFirstRowSize"@, MV::Check(Box::new(MV::U16(0, true)))), ("cbCompMainBodySize"@, MV::U16(0, true)),
                  ("cbScanWidth"@, MV::U16(0, true)), ("cbUncompressedSize"@, MV::U16(0, true))])
}
/// TS_CD_HEADER (MS-RDPBCGR 2.2.9.1.1.3.1.2.3): cbCompFirstRowSize(0), cbCompMainBodySize(1), cbScanWidth(2), cbUncompressedSize(3);
/// the compressed bitmap data that follows the header has cbCompMainBodySize bytes.  Looked up by field NAME (as Component's index does).
pub open spec fn cd_main_body_size(header: MV) -> u16 { header->Comp_0[first_key(header->Comp_0, "cbCompMainBodySize"@)].1->U16_0 }
pub open spec fn bitmap_data_view() -> MV {
    MV::Comp(seq![("destLeft"@, MV::U16(0, true)), ("destTop"@, MV::U16(0, true)), ("destRight"@, MV::U16(0, true)), ("destBottom"@, MV::U16(0, true)),
                  ("width"@, MV::U16(0, true)), ("height"@, MV::U16(0, true)), ("bitsPerPixel"@, MV::U16(0, true)),
                  ("flags"@, MV::Dyn(Box::new(MV::U16(0, true)), OV::Skip("bitmapComprHdr"@))),
                  ("bitmapLength"@, MV::Dyn(Box::new(MV::U16(0, true)), OV::Size("bitmapDataStream"@, 0))),
                  ("bitmapComprHdr"@, MV::Dyn(Box::new(cd_header_view()), OV::Size("bitmapDataStream"@, 0))),
                  ("bitmapDataStream"@, MV::Bytes(Seq::empty()))])
}
// ---------------- proved helper lemmas: the bytes of trame![a, b, ..] grow by ser(x) with every push
pub proof fn lemma_ser_seq_push_len(a: Seq<MV>, m: MV, i: int)
    requires 0 <= i <= a.len()
    ensures ser_seq_from(a.push(m), i).len() == ser_seq_from(a, i).len() + ser(m).len()
    decreases a.len() - i
{
    reveal_with_fuel(ser_seq_from, 2);
    if i < a.len() {
        lemma_ser_seq_push_len(a, m, i + 1);
        assert(a.push(m)[i] == a[i]);
    } else {
        assert(a.push(m)[i] == m);
    }
}
pub broadcast proof fn lemma_trame_push_ser_len(s: Seq<Field>, f: Field)
    ensures ser_seq(trame_view(#[trigger] s.push(f))).len() == ser_seq(trame_view(s)).len() + ser(f.fview()).len()
{
    lemma_trame_view_push(s, f);
    lemma_ser_seq_push_len(trame_view(s), f.fview(), 0);
}
/// TS_CONFIRM_ACTIVE_PDU body after the share control header (2.2.1.13.2.1): lengthCombinedCapabilities counts numberCapabilities + pad2Octets + the sets
pub open spec fn confirm_active_bytes(share_id: u32, source: Seq<u8>, ncaps: u16, caps: Seq<u8>) -> Seq<u8> {
    // (right-nested: the order in which Component::write concatenates, so that no sequence-associativity reasoning is needed)
    le32(share_id) + (le16(0x03EA) + (le16(source.len() as u16) + (le16((caps.len() + 4) as u16) + (source + (le16(ncaps) + (le16(0) + caps))))))
}
""", mod="global", name="global_views"))
A(Raw(r"""
// ---------------- server -> client layouts of the global channel, transcribed from MS-RDPBCGR (NOT derived from the code; the field NAMES are the keys
// the client looks the values up with, they do not reach the wire).  Values: what the builder puts before a read (its parameters / 0).
/// TS_SHAREDATAHEADER behind the share control header (2.2.8.1.1.1.2): shareId (u32 LE), pad1 (u8), streamId (u8: STREAM_LOW 1, STREAM_MED 2, STREAM_HI 4: a plain
/// value), uncompressedLength (u16 LE; counts the 18 bytes of both headers, see the annotated PDUs of section 4.1), pduType2 (u8), compressedType (u8),
/// compressedLength (u16 LE), then the PDU body
pub open spec fn share_data_view(share_id: u32, type2: u8, body: Seq<u8>) -> MV {
    MV::Comp(seq![("shareId"@, MV::U32(share_id, true)), ("pad1"@, MV::U8(0)), ("streamId"@, MV::U8(1)),
                  ("uncompressedLength"@, MV::Dyn(Box::new(MV::U16((body.len() + 18) as u16, true)), OV::Size("payload"@, body.len() as usize))),
                  ("pduType2"@, MV::U8(type2)), ("compressedType"@, MV::U8(0)), ("compressedLength"@, MV::U16(0, true)), ("payload"@, MV::Bytes(body))])
}
/// TS_DEMAND_ACTIVE_PDU behind the share control header (2.2.1.13.1.1): shareId (u32 LE), lengthSourceDescriptor (u16 LE), lengthCombinedCapabilities (u16 LE: size of
/// numberCapabilities + pad2Octets + capabilitySets), sourceDescriptor (lengthSourceDescriptor bytes), numberCapabilities (u16 LE), pad2Octets (u16 LE),
/// capabilitySets (TS_CAPS_SET array, lengthCombinedCapabilities - 4 bytes), sessionId (u32 LE)
pub open spec fn demand_active_view() -> MV {
    MV::Comp(seq![("shareId"@, MV::U32(0, true)),
                  ("lengthSourceDescriptor"@, MV::Dyn(Box::new(MV::U16(0, true)), OV::Size("sourceDescriptor"@, 0))),
                  ("lengthCombinedCapabilities"@, MV::Dyn(Box::new(MV::U16(0, true)), OV::Size("capabilitySets"@, 0))),
                  ("sourceDescriptor"@, MV::Bytes(Seq::empty())), ("numberCapabilities"@, MV::U16(0, true)), ("pad2Octets"@, MV::U16(0, true)),
                  ("capabilitySets"@, MV::Arr(Seq::empty(), Box::new(capability::capability_set_view(1, Seq::empty())))),
                  ("sessionId"@, MV::U32(0, true))])
}
/// TS_DEACTIVATE_ALL_PDU (2.2.3.1.1): shareId (u32 LE), lengthSourceDescriptor (u16 LE), sourceDescriptor (lengthSourceDescriptor bytes)
pub open spec fn deactivate_all_view() -> MV {
    MV::Comp(seq![("shareId"@, MV::U32(0, true)),
                  ("lengthSourceDescriptor"@, MV::Dyn(Box::new(MV::U16(0, true)), OV::Size("sourceDescriptor"@, 0))),
                  ("sourceDescriptor"@, MV::Bytes(Seq::empty()))])
}
/// TS_SYNCHRONIZE_PDU (2.2.1.14.1, sent by the server in 2.2.1.19): messageType (u16 LE, MUST be SYNCMSGTYPE_SYNC 1), targetUser (u16 LE).
/// `lenient`: targetUser wrapped in an Option (a reader that also accepts a PDU cut after messageType; accepts everything the document allows)
pub open spec fn synchronize_view(target: u16, lenient: bool) -> MV {
    MV::Comp(seq![("messageType"@, MV::Check(Box::new(MV::U16(1, true)))),
                  ("targetUser"@, if lenient { MV::Opt(Some(Box::new(MV::U16(target, true)))) } else { MV::U16(target, true) })])
}
/// TS_CONTROL_PDU (2.2.1.15.1, sent by the server in 2.2.1.20 / 2.2.1.21): action (u16 LE), grantId (u16 LE), controlId (u32 LE); plain values
pub open spec fn control_view(action: u16) -> MV {
    MV::Comp(seq![("action"@, MV::U16(action, true)), ("grantId"@, MV::U16(0, true)), ("controlId"@, MV::U32(0, true))])
}
/// TS_FONT_MAP_PDU (2.2.1.22.1): numberEntries, totalNumEntries, mapFlags, entrySize: four plain u16 LE (the document gives SHOULD-values only: 0, 0, 3, 4)
pub open spec fn font_map_view() -> MV {
    MV::Comp(seq![("numberEntries"@, MV::U16(0, true)), ("totalNumEntries"@, MV::U16(0, true)), ("mapFlags"@, MV::U16(3, true)), ("entrySize"@, MV::U16(4, true))])
}
/// TS_SET_ERROR_INFO_PDU (2.2.5.1.1): errorInfo (u32 LE)
pub open spec fn error_info_view() -> MV { MV::Comp(seq![("errorInfo"@, MV::U32(0, true))]) }
/// TS_UPDATE_BITMAP_DATA carried by a fast-path bitmap update (2.2.9.1.2.1.2 / 2.2.9.1.1.3.1.2.1): updateType (u16 LE, MUST be UPDATETYPE_BITMAP 0x0001),
/// numberRectangles (u16 LE), rectangles (TS_BITMAP_DATA array)
pub open spec fn fp_bitmap_view() -> MV {
    MV::Comp(seq![("header"@, MV::Check(Box::new(MV::U16(1, true)))), ("numberRectangles"@, MV::U16(0, true)),
                  ("rectangles"@, MV::Arr(Seq::empty(), Box::new(bitmap_data_view())))])
}
/// TS_COLORPOINTERATTRIBUTE (2.2.9.1.1.4.4): cacheIndex (u16 LE), hotSpot (TS_POINT16 = xPos u16 LE + yPos u16 LE: 4 bytes, kept as one u32 LE), width (u16 LE),
/// height (u16 LE), lengthAndMask (u16 LE), lengthXorMask (u16 LE), xorMaskData (lengthXorMask bytes), andMaskData (lengthAndMask bytes), pad (u8, OPTIONAL)
pub open spec fn color_pointer_view() -> MV {
    MV::Comp(seq![("cacheIndex "@, MV::U16(0, true)), ("hotSpot "@, MV::U32(0, true)), ("width"@, MV::U16(0, true)), ("height"@, MV::U16(0, true)),
                  ("lengthAndMask"@, MV::Dyn(Box::new(MV::U16(0, true)), OV::Size("andMaskData"@, 0))),
                  ("lengthXorMask"@, MV::Dyn(Box::new(MV::U16(0, true)), OV::Size("xorMaskData"@, 0))),
                  ("xorMaskData"@, MV::Bytes(Seq::empty())), ("andMaskData"@, MV::Bytes(Seq::empty())), ("pad"@, MV::Opt(Some(Box::new(MV::U8(0)))))])
}
""", mod="global", name="global_server_layouts"))

# ---- builders: shape derived from the code (helper contract), values from the specification
def builder(name, res, extra=None, props=("C04", "C06"), **kw):
    G(name, props=list(props), ensures=shape_clauses(GLB, name, res=res) + (extra or []), **kw)

MO = "-> (r: MessageOption)"
def size_closure(param, field, k=0):
    """closure `|x| MessageOption::Size(field, x - k or 0)`: the option it yields, for EVERY value of x (the body's arithmetic is checked: no underflow)"""
    v = "%s.val()" % param
    e = "%s as usize" % v if k == 0 else "(if %s >= %d { %s - %d } else { 0 }) as usize" % (v, k, v, k)
    return dict(params="%s: &U16" % param, ret=MO, spec='ensures r.ov() == OV::Size("%s"@, %s)' % (field, e))
CAPSET_DEFAULT = dict(params="", ret="-> (c: Component)", spec="ensures c.mv() == capability::capability_set_view(1, Seq::empty())")
OPT_MSG = "(if message is Some { message->Some_0@ } else { Seq::<u8>::empty() })"

builder("ts_demand_active_pdu", "r.message", keys=True, props=("C04", "C06", "C03"),
        closures={1: dict(size_closure("length", "sourceDescriptor"), props="C03,C06", cid="sourceDescriptor-size-is-lengthSourceDescriptor"),
                  2: dict(size_closure("length", "capabilitySets", 4), props="C03,C06", cid="capabilitySets-size-is-lengthCombinedCapabilities-minus-4"), 3: CAPSET_DEFAULT},
        extra=[(None, "type", "r.pdu_type is PdutypeDemandactivepdu"),
               ("C06", "prototype", "r.message.fields()[6].1 matches MV::Arr(s, p) && s.len() == 0 && *p == capability::capability_set_view(1, Seq::empty())"),
               # MS-RDPBCGR 2.2.1.13.1.1; closures #1 / #2 (above): sourceDescriptor has lengthSourceDescriptor bytes, capabilitySets has lengthCombinedCapabilities - 4 bytes
               ("C03,C06", "ts_demand_active_pdu-as-documented", "r.message.mv() == demand_active_view()")],
        post="""proof { let f = r.message.fields(); let g = demand_active_view()->Comp_0;
            assert(f[6].1->Arr_0 =~= Seq::<MV>::empty()); assert(f[6].1 == g[6].1); assert(f =~= g); }""")
OPT_SRC = "(if source is Some { source->Some_0@ } else { Seq::<u8>::empty() })"
OPT_CAPS = "(if capabilities_set is Some { capabilities_set->Some_0.mv()->Arr_0 } else { Seq::<MV>::empty() })"
CA_LETS = "let src = %s; let cs = %s; let caps = ser_seq(cs);" % (OPT_SRC, OPT_CAPS)
builder("ts_confirm_active_pdu", "r.message", fuel=3,
        post=bytes_chain("r.message", ["le32(o32(share_id, 0))", "le16(0x03EA)", "le16(src.len() as u16)", "le16((caps.len() + 4) as u16)", "src", "le16(cs.len() as u16)", "le16(0)", "caps"], CA_LETS),
        requires=["source is Some ==> source->Some_0@.len() <= 0xffff",
                  "capabilities_set is Some ==> ser(capabilities_set->Some_0.mv()).len() + 4 <= 0xffff && capabilities_set->Some_0.mv()->Arr_0.len() <= 0xffff"],
        closures={1: CAPSET_DEFAULT, 2: size_closure("length", "sourceDescriptor"), 3: size_closure("length", "capabilitySets", 4)},
        extra=[(None, "type", "r.pdu_type is PdutypeConfirmactivepdu"),
               ("C04", "bytes", "ser(r.message.mv()) =~= confirm_active_bytes(o32(share_id, 0), %s, %s.len() as u16, ser_seq(%s))" % (OPT_SRC, OPT_CAPS, OPT_CAPS)),
               ("C04", "size", "ser(r.message.mv()).len() == 14 + %s.len() + ser_seq(%s).len()" % (OPT_SRC, OPT_CAPS)),
               # parsing path (PDU::from_control reads into ts_confirm_active_pdu(None, None, None)): the default array is EMPTY and its element factory is capability_set(None)
               ("C06", "default-prototype", "capabilities_set is None ==> (r.message.fields()[7].1 matches MV::Arr(s, p) && s.len() == 0 && *p == capability::capability_set_view(1, Seq::empty()))"),
               ("C04,C06", "given-array", "capabilities_set is Some ==> r.message.fields()[7].1 == capabilities_set->Some_0.mv()"),
               ("C06", "default-source", "source is None ==> r.message.fields()[4].1 == MV::Bytes(Seq::empty())")])
builder("ts_deactivate_all_pdu", "r.message", keys=True, props=("C04", "C06", "C03"),
        closures={1: dict(size_closure("length", "sourceDescriptor"), props="C03,C06", cid="sourceDescriptor-size-is-lengthSourceDescriptor")},
        extra=[(None, "type", "r.pdu_type is PdutypeDeactivateallpdu"),
               # MS-RDPBCGR 2.2.3.1.1; closure #1: sourceDescriptor has lengthSourceDescriptor bytes
               ("C03,C06", "ts_deactivate_all_pdu-as-documented", "r.message.mv() == deactivate_all_view()")],
        post='proof { assert(r.message.fields() =~= deactivate_all_view()->Comp_0); }')
SDH_T2 = "(if pdu_type_2 is Some { pdu_type_2->Some_0 as u8 } else { 0x32u8 })"
builder("share_data_header", "r.message", props=("C04", "C06", "C11", "C03"), fuel=3,
        post=bytes_chain("r.message", ["le32(o32(share_id, 0))", "seq![0u8]", "seq![1u8]", "le16((msg.len() + 18) as u16)", "seq![%s]" % SDH_T2, "seq![0u8]", "le16(0)", "msg"], "let msg = %s;" % OPT_MSG)
             + " proof { assert(r.message.fields() =~= share_data_view(o32(share_id, 0), %s, %s)->Comp_0); }" % (SDH_T2, OPT_MSG),
        requires=["(if message is Some { message->Some_0@.len() } else { 0 }) + 18 <= 0xffff"],
        closures={1: size_closure("size", "payload", 18)},
        extra=[(None, "type", "r.pdu_type is PdutypeDatapdu"),
               ("C04,C11", "bytes", "ser(r.message.mv()) =~= share_data_bytes(o32(share_id, 0), (if pdu_type_2 is Some { pdu_type_2->Some_0 as u8 } else { 0x32u8 }), (if message is Some { message->Some_0@ } else { Seq::<u8>::empty() }))"),
               # MS-RDPBCGR 2.2.8.1.1.1.2, as READ by PDU::from_control: every field a plain value (no checked constant: servers use streamId 1, 2 and 4); closure #1: the body has uncompressedLength - 18 bytes
               ("C03,C06", "share_data_header-as-documented", "r.message.mv() == share_data_view(o32(share_id, 0), %s, %s)" % (SDH_T2, OPT_MSG))])
SCH_TYPE = "(if pdu_type is Some { pdu_type->Some_0 as u16 } else { 0x11u16 })"
builder("share_control_header", "c", ret="c", props=("C04", "C06", "C11"), keys=True, fuel=3,
        requires=["(if message is Some { message->Some_0@.len() } else { 0 }) + 6 <= 0xffff"],
        closures={1: size_closure("total", "pduMessage", 6)},
        extra=[("C04,C11", "bytes", "ser(c.mv()) =~= share_control_bytes((if pdu_type is Some { pdu_type->Some_0 as u16 } else { 0x11u16 }), o16(pdu_source, 0), (if message is Some { message->Some_0@ } else { Seq::<u8>::empty() }))"),
               ("C04,C06", "view", "c.mv() == share_control_view(%s, o16(pdu_source, 0), %s)" % (SCH_TYPE, OPT_MSG))],
        post=bytes_chain("c", ["le16((msg.len() + 6) as u16)", "le16(%s)" % SCH_TYPE, "le16(o16(pdu_source, 0))", "msg"], "let msg = %s;" % OPT_MSG)
             + " proof { assert(c.fields() =~= share_control_view(%s, o16(pdu_source, 0), %s)->Comp_0); }" % (SCH_TYPE, OPT_MSG))
builder("ts_synchronize_pdu", "r.message", props=("C04", "C06", "C12", "C03"), fuel=4,
        post="proof { let f = r.message.fields(); assert(f[1].1 == MV::Opt(Some(Box::new(MV::U16(o16(target_user, 0), true))))); assert(ser(f[1].1) =~= le16(o16(target_user, 0))); assert(ser(f[0].1) =~= le16(1)); assert(f =~= synchronize_view(o16(target_user, 0), true)->Comp_0); }",
        extra=[(None, "type", "r.pdu_type is Pdutype2Synchronize"), ("C04,C12,C03", "bytes", "ser(r.message.mv()) =~= sync_body(o16(target_user, 0))"),
               # MS-RDPBCGR 2.2.1.14.1, as READ by DataPDU::from_pdu (Server Synchronize PDU 2.2.1.19): messageType is a checked constant (MUST be 1), targetUser a u16 LE, optionally wrapped
               ("C03,C06", "ts_synchronize_pdu-as-documented", "r.message.mv() == synchronize_view(o16(target_user, 0), true) || r.message.mv() == synchronize_view(o16(target_user, 0), false)")])
builder("ts_font_list_pdu", "r.message", props=("C04", "C12", "C03"), fuel=6,
        extra=[(None, "type", "r.pdu_type is Pdutype2Fontlist"), ("C04,C12,C03", "bytes", "ser(r.message.mv()) =~= fontlist_body()")])
builder("ts_set_error_info_pdu", "r.message", props=("C04", "C06", "C03"),
        extra=[(None, "type", "r.pdu_type is Pdutype2SetErrorInfoPdu"),
               ("C03,C06", "ts_set_error_info_pdu-as-documented", "r.message.mv() == error_info_view()")],   # MS-RDPBCGR 2.2.5.1.1
        post='proof { assert(r.message.fields() =~= error_info_view()->Comp_0); }')
builder("ts_control_pdu", "r.message", props=("C04", "C06", "C12", "C03"), fuel=5,
        extra=[(None, "type", "r.pdu_type is Pdutype2Control"), ("C04,C12,C03", "bytes", "ser(r.message.mv()) =~= control_body(if action is Some { action->Some_0 as u16 } else { 4u16 })"),
               # MS-RDPBCGR 2.2.1.15.1, as READ by DataPDU::from_pdu (Server Control Cooperate / Granted Control): three plain values (grantId / controlId are the ids the server chose)
               ("C03,C06", "ts_control_pdu-as-documented", "r.message.mv() == control_view(if action is Some { action->Some_0 as u16 } else { 4u16 })")],
        post='proof { assert(r.message.fields() =~= control_view(if action is Some { action->Some_0 as u16 } else { 4u16 })->Comp_0); }')
builder("ts_font_map_pdu", "r.message", props=("C04", "C06", "C03"),
        extra=[(None, "type", "r.pdu_type is Pdutype2Fontmap"),
               ("C03,C06", "ts_font_map_pdu-as-documented", "r.message.mv() == font_map_view()")],   # MS-RDPBCGR 2.2.1.22.1
        post='proof { assert(r.message.fields() =~= font_map_view()->Comp_0); }')
builder("ts_input_pdu_data", "r.message", props=("C04", "C11"), fuel=5,
        closures={1: dict(params="", ret="-> (c: Component)", spec="ensures c.mv() == input_event_view(0x8001, Seq::empty())")},
        extra=[(None, "type", "r.pdu_type is Pdutype2Input"),
               ("C04,C11", "bytes", "events is Some && events->Some_0.mv() is Arr ==> ser(r.message.mv()) =~= le16(events->Some_0.mv()->Arr_0.len() as u16) + le16(0) + ser_seq(events->Some_0.mv()->Arr_0)"),
               # parsing path: the default array is EMPTY and its element factory is ts_input_event(None, None)
               ("C06", "default-prototype", "events is None ==> (r.message.fields()[2].1 matches MV::Arr(s, p) && s.len() == 0 && *p == input_event_view(0x8001, Seq::empty()))"),
               ("C04,C06", "given-array", "events is Some ==> r.message.fields()[2].1 == events->Some_0.mv()")])
IE_TYPE = "(if message_type is Some { message_type->Some_0 as u16 } else { 0x8001u16 })"
IE_DATA = "(if data is Some { data->Some_0@ } else { Seq::<u8>::empty() })"
builder("ts_input_event", "c", ret="c", props=("C04", "C11"), fuel=5, keys=True,
        extra=[("C04,C11", "bytes", "ser(c.mv()) =~= input_event_bytes((if message_type is Some { message_type->Some_0 as u16 } else { 0x8001u16 }), (if data is Some { data->Some_0@ } else { Seq::<u8>::empty() }))"),
               ("C04,C11", "view", "c.mv() == input_event_view(%s, %s)" % (IE_TYPE, IE_DATA))],
        post="proof { assert(c.fields() =~= input_event_view(%s, %s)->Comp_0); }" % (IE_TYPE, IE_DATA))
builder("ts_pointer_event", "r.message", props=("C04", "C11"), fuel=5,
        extra=[("C11", "type", "r.event_type is InputEventMouse"), ("C04,C11", "bytes", "ser(r.message.mv()) =~= le16(o16(flags, 0)) + le16(o16(x, 0)) + le16(o16(y, 0))")])
builder("ts_keyboard_event", "r.message", props=("C04", "C11"), fuel=5,
        extra=[("C11", "type", "r.event_type is InputEventScancode"), ("C04,C11", "bytes", "ser(r.message.mv()) =~= le16(o16(flags, 0)) + le16(o16(key_code, 0)) + le16(0)")])
# Verus crashes (mk_range) on arithmetic applied to a reference: `header >> 4` with header: &u8 is spelled with the explicit deref
builder("ts_fp_update", "c", ret="c", props=("C06", "C10"), keys=True, body_sub=[(r"\(header >> (\w+)\)", r"(*header >> \1)")],
        # #1: as-implemented (differs from MS-RDPBCGR 2.2.9.1.2.1: compression is bits 6-7, the code tests bit 5 = fragmentation); #2 from the document: updateData has `size` bytes
        closures={1: dict(params="header: &u8", ret=MO, props="C06,C10", cid="as-implemented (differs from MS-RDPBCGR 2.2.9.1.2.1: compression is bits 6-7)",
                          spec='ensures r.ov() == (if (*header >> 4) & 0x2 == 0 { OV::Skip("compressionFlags"@) } else { OV::None })'),
                  2: dict(size_closure("size", "updateData"), props="C10", cid="update-size")},
        extra=[("C06,C10", "view", "c.mv() == fp_update_view()")],
        post="proof { assert((0u8 >> 4) & 0x2 == 0) by(bit_vector); assert(c.fields() =~= fp_update_view()->Comp_0); }")
builder("ts_cd_header", "c", ret="c", props=("C06", "C10"), keys=True, extra=[("C06,C10", "view", "c.mv() == cd_header_view()")],
        post="proof { assert(c.fields() =~= cd_header_view()->Comp_0); }")
# closure contracts of ts_bitmap_data are written from MS-RDPBCGR 2.2.9.1.1.3.1.2.2 TS_BITMAP_DATA (not from the code):
#  #1 flags: bitmapComprHdr is absent iff BITMAP_COMPRESSION (0x0001) is clear or NO_BITMAP_COMPRESSION_HDR (0x0400) is set
#  #2 bitmapLength: size in bytes of bitmapDataStream (when the compression header is absent)
#  #3 bitmapComprHdr (TS_CD_HEADER 2.2.9.1.1.3.1.2.3): bitmapDataStream has cbCompMainBodySize bytes -- field "cbCompMainBodySize", position 1 of the documented layout
# (`props` / `cid` of a closure entry document the property the contract belongs to: a closure post-condition failure is a failure of the enclosing builder)
builder("ts_bitmap_data", "c", ret="c", props=("C06", "C10"), keys=True,
        closures={1: dict(params="flags: &U16", ret=MO, props="C10", cid="comprhdr-present-iff-compressed-with-header",
                          spec='ensures r.ov() == (if flags.val() & 0x0001 == 0 || flags.val() & 0x0400 != 0 { OV::Skip("bitmapComprHdr"@) } else { OV::None })'),
                  2: dict(size_closure("length", "bitmapDataStream"), props="C10", cid="data-size-is-bitmapLength"),
                  3: dict(params="header: &Component", ret=MO, props="C10", cid="data-size-is-cbCompMainBodySize",
                          spec='requires same_shape(cd_header_view(), header.mv()) ensures r.ov() == OV::Size("bitmapDataStream"@, cd_main_body_size(header.mv()) as usize), cd_main_body_size(header.mv()) == header.fields()[1].1->U16_0, header.fields()[1].0 == "cbCompMainBodySize"@')},
        hints=[(r'MessageOption::Size\("bitmapDataStream"\.to_string\(\), cast!', 1, "proof { reveal_with_fuel(same_shape, 2); let f = header.fields(); let g = cd_header_view()->Comp_0; assert(g[1].0 == f[1].0 && g[0].0 == f[0].0 && g[2].0 == f[2].0 && g[3].0 == f[3].0 && same_shape(g[1].1, f[1].1) && same_shape(g[3].1, f[3].1)); assert(first_key(f, \"cbCompMainBodySize\"@) == 1); }", "at")],
        extra=[("C06,C10", "view", "c.mv() == bitmap_data_view()")],
        post="proof { assert(0u16 & 0x0001 == 0) by(bit_vector); assert(c.fields() =~= bitmap_data_view()->Comp_0); }")
builder("ts_fp_update_bitmap", "r.message", props=("C06", "C10", "C03"),
        closures={1: dict(params="", ret="-> (c: Component)", spec="ensures c.mv() == bitmap_data_view()")},
        extra=[(None, "type", "r.fp_type is FastpathUpdatetypeBitmap"),
               ("C06,C10", "prototype", "r.message.fields()[2].1 matches MV::Arr(s, p) && s.len() == 0 && *p == bitmap_data_view()"),
               # MS-RDPBCGR 2.2.9.1.1.3.1.2.1 TS_UPDATE_BITMAP_DATA: updateType checked against UPDATETYPE_BITMAP (1), numberRectangles u16 LE, TS_BITMAP_DATA array
               ("C03,C06,C10", "ts_fp_update_bitmap-as-documented", "r.message.mv() == fp_bitmap_view()")],
        post="""proof { let f = r.message.fields(); let g = fp_bitmap_view()->Comp_0;
            assert(f[2].1->Arr_0 =~= Seq::<MV>::empty()); assert(f[2].1 == g[2].1); assert(f =~= g); }""")
builder("ts_colorpointerattribute", "r.message", props=("C06", "C03"),
        closures={1: dict(size_closure("length", "andMaskData"), props="C03,C06", cid="andMaskData-size-is-lengthAndMask"),
                  2: dict(size_closure("length", "xorMaskData"), props="C03,C06", cid="xorMaskData-size-is-lengthXorMask")},
        extra=[(None, "type", "r.fp_type is FastpathUpdatetypeColor"),
               # MS-RDPBCGR 2.2.9.1.1.4.4; closures #1 / #2: andMaskData has lengthAndMask bytes, xorMaskData has lengthXorMask bytes
               ("C03,C06", "ts_colorpointerattribute-as-documented", "r.message.mv() == color_pointer_view()")],
        post='proof { assert(r.message.fields() =~= color_pointer_view()->Comp_0); }')
G("ts_fp_update_synchronize", props=["C06"], ensures=[(None, "shape", "r.message.fields().len() == 0 && r.fp_type is FastpathUpdatetypeSynchronize")])
G("ts_fp_systempointerhiddenattribute", props=["C06"], ensures=[(None, "shape", "r.message.fields().len() == 0 && r.fp_type is FastpathUpdatetypePtrNull")])


WRITE_REQ = ["old(mcs).connected()"]
MCS_FRAME = [(None, "mcs-frame", "final(mcs).rest() == old(mcs).rest() && final(mcs).same_session(old(mcs)) && is_prefix(old(mcs).written(), final(mcs).written())")]
# the write path never reports InvalidAutomata by itself (RdpClient::try_write swallows exactly that kind)
ERR_KIND = [(None, "error-kind", "!automata_err(r)")]
STATE_FRAME = [(None, "state-untouched", "final(self).st() == old(self).st() && final(self).same_config(old(self))")]
G("write_pdu", impl=r"impl Client", props=["C04", "C11", "C12", "C03"],
  requires=WRITE_REQ + ["ser(message.message.mv()).len() + 6 <= 0x7fff"],
  ensures=MCS_FRAME + ERR_KIND + [("C04,C11,C12,C03", "one-pdu", "r is Ok ==> final(mcs).written() =~= old(mcs).written() + mcs::mcs_frame(old(mcs).uid()->Some_0, old(mcs).chans()[\"global\"@], share_control_bytes(message.pdu_type as u16, self.uid(), ser(message.message.mv())))")])
G("write_data_pdu", impl=r"impl Client", props=["C04", "C11", "C12", "C03"],
  requires=WRITE_REQ + ["ser(message.message.mv()).len() + 24 <= 0x7fff"],
  ensures=MCS_FRAME + ERR_KIND + [("C04,C11,C12,C03", "one-data-pdu", "r is Ok ==> final(mcs).written() =~= old(mcs).written() + mcs::mcs_frame(old(mcs).uid()->Some_0, old(mcs).chans()[\"global\"@], data_pdu_frame(o32(self.share(), 0), self.uid(), message.pdu_type as u8, ser(message.message.mv())))")])
G("write_confirm_active_pdu", impl=r"impl Client", props=["C12", "C03", "C04"], fuel=2,
  requires=WRITE_REQ + ["old(self).name@.len() <= 1024"],
  pre="broadcast use lemma_trame_push_ser_len, axiom_utf8_len;",
  hints=[(r"self\.write_pdu\(pdu, mcs\)", 1, """proof { let body = ser(pdu.message.mv()); assert(share_control_bytes(0x13, self.uid(), body).len() > 0);
            assert(exists|caps: Seq<u8>| caps.len() == 376 && body == #[trigger] confirm_active_bytes(o32(self.share(), 0), utf8_bytes(self.name@), 12, caps)); }""", "before")],
  ensures=MCS_FRAME + ERR_KIND + STATE_FRAME + [("C12,C03", "one-confirm-active", "r is Ok ==> exists|body: Seq<u8>| #[trigger] share_control_bytes(0x13, old(self).uid(), body).len() > 0 && final(mcs).written() =~= old(mcs).written() + mcs::mcs_frame(old(mcs).uid()->Some_0, old(mcs).chans()[\"global\"@], share_control_bytes(0x13, old(self).uid(), body))"),
      # strengthening: the body is a confirm-active PDU for the announced share id whose source descriptor is the client name (UTF-8) and which carries the 12 capability sets (376 bytes with their headers)
      ("C04,C03", "confirm-active-layout", "r is Ok ==> exists|caps: Seq<u8>| caps.len() == 376 && final(mcs).written() =~= old(mcs).written() + mcs::mcs_frame(old(mcs).uid()->Some_0, old(mcs).chans()[\"global\"@], share_control_bytes(0x13, old(self).uid(), #[trigger] confirm_active_bytes(o32(old(self).share(), 0), utf8_bytes(old(self).name@), 12, caps)))")])
G("write_client_finalize", impl=r"impl Client", props=["C12", "C03"],
  requires=WRITE_REQ,
  ensures=MCS_FRAME + ERR_KIND + [("C12,C03", "sync-coop-request-fontlist-in-order", """r is Ok ==> ({
      let u = old(mcs).uid()->Some_0; let g = old(mcs).chans()["global"@]; let sh = o32(self.share(), 0);
      final(mcs).written() =~= old(mcs).written()
        + mcs::mcs_frame(u, g, data_pdu_frame(sh, self.uid(), 0x1F, sync_body(self.chan())))
        + mcs::mcs_frame(u, g, data_pdu_frame(sh, self.uid(), 0x14, control_body(4)))
        + mcs::mcs_frame(u, g, data_pdu_frame(sh, self.uid(), 0x14, control_body(1)))
        + mcs::mcs_frame(u, g, data_pdu_frame(sh, self.uid(), 0x27, fontlist_body())) })""")])
G("write_input_event", impl=r"impl Client", props=["C11", "C12"], fuel=3,
  requires=WRITE_REQ + ["ser(event.message.mv()).len() <= 64"],
  ensures=MCS_FRAME + [("C11,C12", "error-kind", "self.st() is Data ==> !automata_err(r)")] + [("C12,C11", "gated", "!(self.st() is Data) ==> r is Err && r->Err_0 is RdpError && r->Err_0->RdpError_0.kind == RdpErrorKind::InvalidAutomata && final(mcs).written() == old(mcs).written()"),
                       ("C11", "one-input-pdu", "self.st() is Data && r is Ok ==> final(mcs).written() =~= old(mcs).written() + mcs::mcs_frame(old(mcs).uid()->Some_0, old(mcs).chans()[\"global\"@], slow_path_input(o32(self.share(), 0), self.uid(), event.event_type as u16, ser(event.message.mv())))")])

BUILDER_ITEMS = items
